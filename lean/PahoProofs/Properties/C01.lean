/-
C01 — QoS 1/2 publishes survive any reconnect history and complete exactly once;
C13 — publish() order; C14 (session part) — live messages never share a packet id.
Proved for every history of operations from the initial state, from the frame lemmas
(`PahoProofs/Lemmas/OutFrame.lean`), the inductive invariant (`PahoProofs/Lemmas/OutInv.lean`)
and the state-dependent invariant + retransmission lemma (`PahoProofs/Lemmas/OutRetx.lean`).
No statement was changed (`c01_final_ack_rc` was added when `_do_on_publish` started to set `info.rc`).
-/
import Paho.Model.Session
import Paho.Model.SessionInv
import PahoProofs.Lemmas.SessionDefs
import PahoProofs.Lemmas.OutInv
import PahoProofs.Lemmas.OutRetx

namespace Paho
open Paho.OutLemmas

/-- is this op the delivery of a final acknowledgement (PUBACK / PUBCOMP) for packet id `mid`? -/
def Op.isFinalAck (mid : Nat) : Op → Bool
  | .rx (.pkt (.puback m)) _ => m = mid
  | .rx (.pkt (.pubcomp m)) _ => m = mid
  | _ => false

theorem isFinalAck_iff (op : Op) (mid : Nat) : op.isFinalAck mid = true ↔ ackOp op = some mid := by
  cases op with
  | rx item ok =>
    cases item with
    | pkt p => cases p <;> simp [Op.isFinalAck, ackOp, ackItem, ackMid]
    | _ => simp [Op.isFinalAck, ackOp, ackItem]
  | _ => simp [Op.isFinalAck, ackOp]

theorem isFinalAck_false_iff (op : Op) (mid : Nat) : op.isFinalAck mid = false ↔ ackOp op ≠ some mid := by
  constructor
  · intro h h'
    rw [(isFinalAck_iff _ _).mpr h'] at h; cases h
  · intro h
    cases hb : op.isFinalAck mid with
    | false => rfl
    | true => exact absurd ((isFinalAck_iff _ _).mp hb) h

/-! ## C14 (session part) -/
theorem c14_live_distinct (cfg : Cfg) (proto : Nat) (ops : List Op) :
    (runFrom cfg proto ops).invMidNodup = true := (Inv.reach cfg proto ops).invMidNodup

theorem c14_range_session (cfg : Cfg) (proto : Nat) (ops : List Op) :
    (runFrom cfg proto ops).invMidRange = true := (Inv.reach cfg proto ops).invMidRange

/-- a QoS 1/2 publish whose fresh id collides with a live message is refused and stores nothing -/
theorem c14_collision_refused (s : S) (qos : Nat) (topic payload : Bytes) (retain : Bool)
    (hq : qos = 1 ∨ qos = 2) (hcol : s.out.any (·.mid = midNext s.lastMid) = true)
    (hvalid : publishCheckFull s.proto topic qos .bytes payload.length (if s.proto = 5 then 1 else 0) = none) :
    (s.publish qos topic payload retain).out = s.out ∧
      Ev.ret rcQueueSize (some (midNext s.lastMid)) ∈ (s.publish qos topic payload retain).log := by
  have hq0 : qos ≠ 0 := by omega
  unfold S.publish
  split
  · rename_i h; rw [hvalid] at h; cases h
  · rename_i h; rw [hvalid] at h; cases h
  · extract_lets mid s1 N s2 m m' sB sB'
    rw [if_neg hq0]
    have hmem : ∀ t : S, Ev.ret rcQueueSize (some (midNext s.lastMid)) ∈ (t.emit (.ret rcQueueSize (some mid))).log := by
      intro t; simp only [S.emit, List.mem_append, List.mem_singleton]; exact Or.inr rfl
    split
    · exact ⟨rfl, hmem _⟩
    · first
        | exact ⟨rfl, hmem _⟩
        | (split
           · exact ⟨rfl, hmem _⟩
           · rename_i h; exact absurd hcol h)

/-! ## C13 -/
/-- `_out_messages` is always in publish() order (instance ids strictly increasing) -/
theorem c13_out_sorted (cfg : Cfg) (proto : Nat) (ops : List Op) :
    (runFrom cfg proto ops).invOutSorted = true := (Inv.reach cfg proto ops).invOutSorted

/-- in every step, the PUBLISH/PUBREL packets handed to a connection for stored messages
(retransmission after CONNACK, release from the window) are handed in increasing instance order,
except that the message accepted by this very `publish()` call may come in any position (it is the newest) -/
theorem c13_step_order (cfg : Cfg) (proto : Nat) (ops : List Op) (op : Op) :
    let s := runFrom cfg proto ops
    let uids := (newEvents s op).filterMap (fun e => match e with
      | .qPublish _ u _ q _ => if q > 0 then some u else none
      | .qPubrel _ u _ => some u
      | _ => none)
    S.sortedLt uids = true ∨ (∃ q t p r, op = .publish q t p r) ∨ (∃ m, op = .rx (.pkt (.pubrec m)) true ∨ op = .rx (.pkt (.pubrec m)) false) := by
  intro s uids
  have hi := Inv.reach cfg proto ops
  have huids : uids = uidsOf (newEvents s op) := by
    simp only [uids, uidsOf]
    congr 1
  cases stepCase s op with
  | pubLow q t p r h _ => exact Or.inr (Or.inl ⟨q, t, p, r, h⟩)
  | pub q t p r h _ => exact Or.inr (Or.inl ⟨q, t, p, r, h⟩)
  | other hnp hna s0 hms hq =>
    left
    obtain ⟨g, hsame, hc, hu⟩ := hq
    obtain ⟨evs, hlog, hg⟩ := hsame.log
    rw [midStep_log hms] at hlog
    rw [huids, newEvents_of_log hlog, ← uidsOf_filter_ghost, hg]
    have := hu (by rw [midStep_out hms]; exact hi.nodup)
    rw [midStep_out hms] at this
    exact sortedLt_of_pairwise _ (hi.sorted.sublist this)
  | ack mid m0 c h hs hf ha =>
    left
    obtain ⟨g, hsame, hc, hu⟩ := ha
    obtain ⟨evs, hlog, hg⟩ := hsame.log
    have hlog' : (s.step op).log = s.log ++ ([Ev.onPublish mid, Ev.completed m0.info mid,
        Ev.infoDone m0.info rcSuccess] ++ evs) := by
      rw [hlog]; simp [ackState]
    rw [huids, newEvents_of_log hlog', uidsOf_append]
    have h3 : uidsOf [Ev.onPublish mid, Ev.completed m0.info mid,
        Ev.infoDone m0.info rcSuccess] = [] := rfl
    rw [h3, List.nil_append, ← uidsOf_filter_ghost, hg]
    have hsub : ((ackState s mid m0).out.map (·.info)).Sublist (s.out.map (·.info)) :=
      (List.filter_sublist).map _
    exact sortedLt_of_pairwise _ (hi.sorted.sublist (hu.trans hsub))

/-! ## C01 -/
/-- ownership: a stored message (instance `uid`) is still stored after any step that is not the delivery of
a final acknowledgement carrying its packet id -/
theorem c01_owned (cfg : Cfg) (proto : Nat) (ops : List Op) (op : Op) (m : OutMsg) :
    let s := runFrom cfg proto ops
    m ∈ s.out → op.isFinalAck m.mid = false → ∃ m' ∈ (s.step op).out, m'.info = m.info ∧ m'.mid = m.mid ∧ m'.qos = m.qos := by
  intro s hm hna
  rw [isFinalAck_false_iff] at hna
  cases stepCase s op with
  | pubLow q t p r h hl => exact ⟨m, by rw [hl.out]; exact hm, rfl, rfl, rfl⟩
  | pub q t p r h hs =>
    rcases hs.keys with hk | ⟨-, -, -, hk⟩
    · exact key_mem_transfer hk hm
    · have : key m ∈ (s.step op).out.map key := by
        rw [hk]; exact List.mem_append_left _ (List.mem_map_of_mem hm)
      obtain ⟨m', hm', e⟩ := List.mem_map.mp this
      simp only [key, Prod.mk.injEq] at e
      exact ⟨m', hm', e.2.2, e.1, e.2.1⟩
  | ack mid m0 c h hs hf ha =>
    obtain ⟨g, hsame, -, -⟩ := ha
    have hne : m.mid ≠ mid := by
      intro e; rw [e] at hna; exact hna h
    have : m ∈ (ackState s mid m0).out := by
      simp only [ackState, List.mem_filter]
      exact ⟨hm, by simp [hne]⟩
    exact key_mem_transfer hsame.keys this
  | other hnp hna' s0 hms hq =>
    obtain ⟨g, hsame, -⟩ := hq
    have : m ∈ s0.out := by rw [midStep_out hms]; exact hm
    exact key_mem_transfer hsame.keys this

/-- an accepted QoS 1/2 publish (result SUCCESS or NO_CONN, or any result other than QUEUE_SIZE) is stored -/
theorem c01_accepted_stored (s : S) (qos : Nat) (topic payload : Bytes) (retain : Bool) (rc : RC) (mid : Nat)
    (hq : qos = 1 ∨ qos = 2)
    (hret : (s.publish qos topic payload retain).log.getLast? = some (.ret rc (some mid))) (hrc : rc ≠ rcQueueSize) :
    ∃ m ∈ (s.publish qos topic payload retain).out, m.mid = mid ∧ m.qos = qos ∧ m.info = s.infos.length := by
  have hq0 : qos ≠ 0 := by omega
  revert hret
  unfold S.publish
  split
  · intro hret; simp [S.emit] at hret
  · intro hret; simp [S.emit] at hret
  · extract_lets mid' s1 N s2 m m' sB sB'
    rw [if_neg hq0]
    split
    · intro hret; simp [S.emit] at hret; exact absurd hret.1.symm hrc
    · split
      · intro hret; simp [S.emit] at hret; exact absurd hret.1.symm hrc
      · split
        · have h := sendPublish_low sB mid' topic payload qos retain false (some N) true (some N) (Or.inr hq0)
          split
          rename_i s3 rc' he
          rw [he] at h
          dsimp only at h
          extract_lets s4
          intro hret
          simp [S.emit] at hret
          obtain ⟨-, hmid⟩ := hret
          have hm3 : m' ∈ s3.out := by rw [h.out]; simp [sB]
          show ∃ m ∈ s4.out, _
          unfold s4
          split
          · refine ⟨_, List.mem_map_of_mem hm3, ?_⟩
            split <;> exact ⟨hmid, rfl, rfl⟩
          · exact ⟨m', hm3, hmid, rfl, rfl⟩
        · intro hret
          simp [S.emit] at hret
          refine ⟨{ m with state := .queued }, ?_, hret.2, rfl, rfl⟩
          show _ ∈ sB'.out
          simp [sB']

theorem mem_find_unique {s : S} (hi : Inv s) {m m0 : OutMsg} (hm : m ∈ s.out)
    (hf : s.out.find? (·.mid = m.mid) = some m0) : m0 = m := by
  obtain ⟨hm0, hmid⟩ := find_facts hf
  exact nodup_map_inj _ _ hi.nodup m0 m hm0 hm hmid

theorem count_completed_of_noCompl {evs : List Ev} (h : ∀ e ∈ evs, isCompleted e = false) (u mid : Nat) :
    evs.count (.completed u mid) = 0 := by
  rw [List.count_eq_zero]
  intro hin
  have := h _ hin
  simp [isCompleted] at this

/-- completion (on_publish + MQTTMessageInfo published) of a stored message happens only in the step that
delivers its final acknowledgement on an open socket, exactly once in that step -/
theorem c01_complete_step (cfg : Cfg) (proto : Nat) (ops : List Op) (op : Op) (m : OutMsg) :
    let s := runFrom cfg proto ops
    m ∈ s.out →
      (newEvents s op).count (.completed m.info m.mid) = (if op.isFinalAck m.mid ∧ s.sock.isSome then 1 else 0) := by
  intro s hm
  have hi := Inv.reach cfg proto ops
  cases stepCase s op with
  | pubLow q t p r h hl =>
    obtain ⟨evs, hlog, hg⟩ := hl.log
    rw [newEvents_of_log hlog, count_completed_of_noCompl (evs_noCompl hg NoCompl.nil)]
    subst h; simp [Op.isFinalAck]
  | pub q t p r h hs =>
    obtain ⟨evs, hlog, hc⟩ := hs.log
    rw [newEvents_of_log hlog, count_completed_of_noCompl (evs_noCompl rfl hc)]
    subst h; simp [Op.isFinalAck]
  | other hnp hna s0 hms hq =>
    obtain ⟨g, hsame, hc, -⟩ := hq
    obtain ⟨evs, hlog, hg⟩ := hsame.log
    rw [midStep_log hms] at hlog
    rw [newEvents_of_log hlog, count_completed_of_noCompl (evs_noCompl hg hc)]
    rw [if_neg]
    rintro ⟨hfa, hsock⟩
    rw [isFinalAck_iff] at hfa
    rcases hna m.mid hfa with h | h
    · rw [h] at hsock; cases hsock
    · exact absurd h (find_none_of_mem hm)
  | ack mid m0 c h hs hf ha =>
    obtain ⟨g, hsame, hc, -⟩ := ha
    obtain ⟨evs, hlog, hg⟩ := hsame.log
    have hlog' : (s.step op).log = s.log ++ ([Ev.onPublish mid, Ev.completed m0.info mid,
        Ev.infoDone m0.info rcSuccess] ++ evs) := by
      rw [hlog]; simp [ackState]
    rw [newEvents_of_log hlog', List.count_append, count_completed_of_noCompl (evs_noCompl hg hc)]
    by_cases hmid : mid = m.mid
    · subst hmid
      have := mem_find_unique hi hm hf
      subst this
      have hfa : op.isFinalAck m0.mid = true := (isFinalAck_iff _ _).mpr h
      simp [hfa, hs]
    · have hfa : op.isFinalAck m.mid = false := by
        rw [isFinalAck_false_iff, h]; simpa using hmid
      simp [hfa, hmid]

/-- every completion is accompanied by exactly one on_publish callback for that packet id, emitted just before it -/
theorem c01_complete_has_callback (cfg : Cfg) (proto : Nat) (ops : List Op) (i u mid : Nat) :
    let log := (runFrom cfg proto ops).log
    log[i + 1]? = some (.completed u mid) → log[i]? = some (.onPublish mid) :=
  (Inv.reach cfg proto ops).cb i u mid

/-- a message instance completes at most once in a whole history -/
theorem c01_complete_once (cfg : Cfg) (proto : Nat) (ops : List Op) (u : Nat) :
    ((runFrom cfg proto ops).log.filter (fun e => match e with | .completed u' _ => u' = u | _ => false)).length ≤ 1 := by
  have h := ((Inv.reach cfg proto ops).once u).1
  have e : (fun e : Ev => match e with | .completed u' _ => decide (u' = u) | _ => false) = isComplOf u := by
    funext e; cases e <;> rfl
  rw [e]; exact h

/-- when the final acknowledgement is delivered on an open socket, the message is removed and its
MQTTMessageInfo is marked published in that step -/
theorem c01_final_ack (cfg : Cfg) (proto : Nat) (ops : List Op) (op : Op) (m : OutMsg) :
    let s := runFrom cfg proto ops
    m ∈ s.out → op.isFinalAck m.mid = true → s.sock.isSome →
      (¬ ∃ m' ∈ (s.step op).out, m'.mid = m.mid) ∧ ((s.step op).infos[m.info]?.map (·.published)) = some true := by
  intro s hm hfa hsock
  have hi := Inv.reach cfg proto ops
  rw [isFinalAck_iff] at hfa
  cases stepCase s op with
  | pubLow q t p r h hl => subst h; simp [ackOp] at hfa
  | pub q t p r h hs => subst h; simp [ackOp] at hfa
  | other hnp hna s0 hms hq =>
    rcases hna m.mid hfa with h | h
    · rw [h] at hsock; cases hsock
    · exact absurd h (find_none_of_mem hm)
  | ack mid m0 c h hs hf ha =>
    rw [hfa] at h; cases h
    have := mem_find_unique hi hm hf
    subst this
    obtain ⟨g, hsame, -, -⟩ := ha
    refine ⟨?_, ?_⟩
    · rintro ⟨m', hm', e⟩
      have : m'.mid ∈ (ackState s m0.mid m0).out.map (·.mid) := by
        rw [← hsame.mids_eq]; exact List.mem_map_of_mem hm'
      obtain ⟨m'', hm'', e'⟩ := List.mem_map.mp this
      simp only [ackState, List.mem_filter] at hm''
      have := hm''.2
      simp [e', e] at this
    · have h2 : m0.info < s.infos.length := (hi.range m0 hm).2.2.1
      have : pubAt (ackState s m0.mid m0) m0.info = some true := by
        rw [pubAt_ackState]; simp [h2]
      exact hsame.pubMono _ this

/-- (added with the F27 model change) the step that delivers the final acknowledgement on an open socket
starts with: on_publish callback, completion of the instance, and `MQTTMessageInfo` marked published with
`rc = MQTT_ERR_SUCCESS` (whatever result `publish()` had stored in it before) -/
theorem c01_final_ack_rc (cfg : Cfg) (proto : Nat) (ops : List Op) (op : Op) (m : OutMsg) :
    let s := runFrom cfg proto ops
    m ∈ s.out → op.isFinalAck m.mid = true → s.sock.isSome →
      ∃ evs, newEvents s op =
        [Ev.onPublish m.mid, Ev.completed m.info m.mid, Ev.infoDone m.info rcSuccess] ++ evs := by
  intro s hm hfa hsock
  have hi := Inv.reach cfg proto ops
  rw [isFinalAck_iff] at hfa
  cases stepCase s op with
  | pubLow q t p r h hl => subst h; simp [ackOp] at hfa
  | pub q t p r h hs => subst h; simp [ackOp] at hfa
  | other hnp hna s0 hms hq =>
    rcases hna m.mid hfa with h | h
    · rw [h] at hsock; cases hsock
    · exact absurd h (find_none_of_mem hm)
  | ack mid m0 c h hs hf ha =>
    rw [hfa] at h; cases h
    have := mem_find_unique hi hm hf
    subst this
    obtain ⟨g, hsame, -, -⟩ := ha
    obtain ⟨evs, hlog, -⟩ := hsame.log
    refine ⟨evs, newEvents_of_log ?_⟩
    rw [hlog]; simp [ackState]

/-- a message's info is not marked published while the message is still stored -/
theorem c01_not_early (cfg : Cfg) (proto : Nat) (ops : List Op) (m : OutMsg) :
    let s := runFrom cfg proto ops
    m ∈ s.out → (s.infos[m.info]?.map (·.published)) = some false := by
  intro s hm
  have hi := Inv.reach cfg proto ops
  have h1 := hi.pinv.1 m.info (Or.inr (List.mem_map_of_mem hm))
  have h2 := (hi.range m hm).2.2.1
  simp only [pubAt] at h1
  change (s.infos[m.info]?.map (·.published)) ≠ some true at h1
  rw [List.getElem?_eq_getElem h2] at h1 ⊢
  simp only [Option.map_some, ne_eq, Option.some.injEq] at h1 ⊢
  cases hp : (s.infos[m.info]).published with
  | false => rfl
  | true => exact absurd hp h1

/-- retransmission: when a CONNACK accepts the connection, every stored message in state `publish`
(resp. `resendPubrel`) is handed to that connection as PUBLISH (resp. PUBREL) in that step, unless a
write fails first (then the connection is gone) -/
theorem c01_retransmit (cfg : Cfg) (proto : Nat) (ops : List Op) (sp ok : Bool) (m : OutMsg) (c : Nat) :
    let s := runFrom cfg proto ops
    let s' := s.step (.rx (.pkt (.connack sp 0)) ok)
    s.sock = some c → m ∈ s.out → (m.state = .publish ∨ m.state = .resendPubrel) →
    (¬ (s.proto = 5 ∧ False)) →
      s'.sock ≠ some c ∨
      (m.state = .publish → ∃ d, Ev.qPublish c m.info m.mid m.qos d ∈ newEvents s (.rx (.pkt (.connack sp 0)) ok)) ∧
      (m.state = .resendPubrel → Ev.qPubrel c m.info m.mid ∈ newEvents s (.rx (.pkt (.connack sp 0)) ok)) := by
  intro s s' hs hm _ _
  have hi := Inv.reach cfg proto ops
  have hsi := SInv.reach cfg proto ops
  obtain ⟨evs, hlog, hres⟩ := handleConnack_retx s sp ok c hs hsi hi.nodup
  have hpost := loopRead_pkt s (.connack sp 0) ok c hs
  have hph : s.packetHandle (.connack sp 0) ok = s.handleConnack sp 0 ok := rfl
  rw [hph] at hpost
  obtain ⟨evs2, hlog2, -⟩ := hpost.log
  have hlog' : s'.log = s.log ++ (evs ++ evs2 ++ [hresEv (s.loopRead (.pkt (.connack sp 0)) ok).2]) := by
    show (s.loopRead (.pkt (.connack sp 0)) ok).1.log ++ [hresEv (s.loopRead (.pkt (.connack sp 0)) ok).2] = _
    rw [hlog2, hlog]; simp
  have hsock' : s'.sock = (s.loopRead (.pkt (.connack sp 0)) ok).1.sock := rfl
  rcases hres with h | h
  · left
    rw [hsock']
    rcases hpost.sock with h' | h'
    · rw [h']; exact h
    · rw [h']; simp
  · right
    have := (h m hm).mono (evs' := newEvents s (.rx (.pkt (.connack sp 0)) ok)) (by
      intro e he
      rw [newEvents_of_log hlog']
      simp [he])
    exact this

/-! ## non-vacuity: concrete histories (kernel evaluation) -/

/-- connect, CONNACK, publish QoS 1: the message is stored, waiting for its PUBACK -/
example : ((runFrom {} 4 [.connect true, .rx (.pkt (.connack false 0)) true, .publish 1 [116] [1] false]).out.map
    (fun m => (m.mid, m.qos, m.info, m.state))) = [(1, 1, 0, .waitPuback)] := by decide +kernel

/-- ... and its PUBACK completes instance 0 exactly once in that step -/
example : (newEvents (runFrom {} 4 [.connect true, .rx (.pkt (.connack false 0)) true, .publish 1 [116] [1] false])
    (.rx (.pkt (.puback 1)) true)).count (.completed 0 1) = 1 := by decide +kernel

/-- a QoS 2 message published while disconnected is stored in state `publish` and is handed to the new
connection when its CONNACK arrives -/
example : (runFrom {} 4 [.publish 2 [116] [1] false, .connect true]).out.map (fun m => (m.mid, m.state)) =
    [(1, .publish)] := by decide +kernel

example : Ev.qPublish 1 0 1 2 false ∈
    newEvents (runFrom {} 4 [.publish 2 [116] [1] false, .connect true]) (.rx (.pkt (.connack false 0)) true) := by
  decide +kernel

/-- the PUBACK step reports instance 0 as published with rc = MQTT_ERR_SUCCESS (0) -/
example : Ev.infoDone 0 rcSuccess ∈
    newEvents (runFrom {} 4 [.connect true, .rx (.pkt (.connack false 0)) true, .publish 1 [116] [1] false])
      (.rx (.pkt (.puback 1)) true) := by decide +kernel

end Paho
