/-
C08 — keep-alive: pings when idle, detects a dead peer, never drops a live one (virtual time, milliseconds).
STATEMENTS TO PROVE. Model: Paho/Model/Session.lean (`checkKeepalive`, `loopMisc`, `sendSimple`, `packetQueue`,
`loopWrite`, `S.step (.tick ms)`, `reconnect` resetting the timers, `packetHandle .pingresp` clearing `pingT`).
`Gen.kaOutCmp = Gen.kaInCmp = Gen.kaPingCmp = .ge` are extracted from the source (the `>=` tests).
-/
import Paho.Model.Session
import Paho.Model.SessionInv
import PahoProofs.Lemmas.SessionDefs
import PahoProofs.Lemmas.Timer5

-- `hinv` of `c08_after_misc` and `hext` of `c08_live` turned out not to be needed by the proofs; the statements are kept as given
set_option linter.unusedVariables false

namespace Paho
open TimerLemmas

/-- the keep-alive interval in model time units -/
def S.kms (s : S) : Nat := s.cfg.keepalive * 1000

def isPingreqQueued : Ev → Bool
  | .queued _ b => b == [0xC0, 0]
  | _ => false

def isKeepaliveDisc : Ev → Bool
  | .onDisconnect 16 _ => true
  | _ => false

theorem goodEv_eq (e : Ev) : goodEv e = (!isPingreqQueued e && !isKeepaliveDisc e) := by
  cases e <;> simp [goodEv, isPingreqQueued, isKeepaliveDisc]
  rename_i n b
  by_cases h : n = 16
  · subst h; rfl
  · simp [h]

/-! ## K = 0: neither pings nor times out -/
theorem c08_k0 (cfg : Cfg) (proto : Nat) (ops : List Op) (h : cfg.keepalive = 0) :
    let s := runFrom cfg proto ops
    s.pingT = 0 ∧ s.log.all (fun e => !isPingreqQueued e && !isKeepaliveDisc e) = true := by
  intro s
  have hinit : K0Inv (S.init cfg proto t0) := ⟨h, rfl, by intro e he; simp [S.init] at he⟩
  have hr : K0Inv s := K0Inv.run ops hinit
  refine ⟨hr.2.1, ?_⟩
  rw [List.all_eq_true]
  intro e he
  rw [← goodEv_eq]
  exact hr.2.2 e he

/-! ## clock sanity (all histories) -/
theorem c08_time_inv (cfg : Cfg) (proto : Nat) (ops : List Op) :
    let s := runFrom cfg proto ops
    s.lastOut ≤ s.now ∧ s.lastIn ≤ s.now ∧ s.pingT ≤ s.now ∧ (s.pingT > 0 → s.pingT ≤ s.lastOut ∧ s.pingT ≤ s.lastIn) := by
  intro s
  have hinit : TInv (S.init cfg proto t0) := by simp [TInv, S.init]
  exact TInv.run ops hinit

/-- a PINGREQ is outstanding only on a connection that was established (state CONNECTED or DISCONNECTING … at
the time it was sent) and the configuration never changes -/
theorem c08_cfg_const (cfg : Cfg) (proto : Nat) (ops : List Op) : (runFrom cfg proto ops).cfg = cfg :=
  run_cfg ops _

/-! ## one loop_misc() call -/

/-- idle for K or more with no PINGREQ outstanding on an established connection: loop_misc() queues a PINGREQ
(and, on the direct-write path with an accepting transport, it is written in the same call) -/
theorem c08_ping_due (s : S) (c : Nat) (hs : s.sock = some c) (hc : s.cstate = .connected) (hp : s.pingT = 0)
    (hk : s.cfg.keepalive > 0) (hidle : s.now - s.lastOut ≥ s.kms ∨ s.now - s.lastIn ≥ s.kms) :
    Ev.queued c [0xC0, 0] ∈ (s.loopMisc.1.log.drop s.log.length) ∧
    s.loopMisc.1.lastOut = s.now ∧ s.loopMisc.1.lastIn = s.now := by
  unfold S.kms at hidle
  have hk0 : s.cfg.keepalive ≠ 0 := by omega
  have hi : idleB s = true := by simp [idleB]; omega
  have hck : s.checkKeepalive = kaPing s := by
    rcases checkKeepalive_cases s with ⟨_, b⟩ | ⟨_, _, _, _, _, a6⟩ | ⟨_, _, _, a4, _⟩
    · rcases b with b | b | b
      · exact absurd b hk0
      · rw [hs] at b; cases b
      · rw [hi] at b; cases b
    · exact a6
    · exact absurd ⟨hc, hp⟩ a4
  rw [loopMisc_ping s hk0 hp hck]
  obtain ⟨p1, p2, p3, p4, p5, p6, p7⟩ := kaPing_proj s
  obtain ⟨evs, hq⟩ := sendPing_queued s c hs
  refine ⟨?_, p3, p4⟩
  rw [p7, hq]; simp

/-- not idle: loop_misc() sends nothing and closes nothing -/
theorem c08_quiet (s : S) (hs : s.sock.isSome) (hk : s.cfg.keepalive > 0)
    (hfresh : s.now - s.lastOut < s.kms ∧ s.now - s.lastIn < s.kms)
    (hping : s.pingT = 0 ∨ s.now - s.pingT < s.kms) :
    s.loopMisc = (s, rcSuccess) := by
  unfold S.kms at *
  have hidle : idleB s = false := by simp [idleB]; omega
  rcases loopMisc_cases s with ⟨h1, _⟩ | ⟨_, h2, _⟩ | ⟨_, _, h3, _⟩ | ⟨_, _, _, h4⟩
  · simp [h1] at hs
  · rcases checkKeepalive_cases s with ⟨a, _⟩ | ⟨_, _, a3, _⟩ | ⟨_, _, a3, _⟩
    · rw [a] at h2; simp [h2] at hs
    · rw [hidle] at a3; cases a3
    · rw [hidle] at a3; cases a3
  · rcases checkKeepalive_cases s with ⟨a, _⟩ | ⟨_, _, a3, _⟩ | ⟨_, _, a3, _⟩
    · rw [a] at h3; unfold pingExpired at h3; omega
    · rw [hidle] at a3; cases a3
    · rw [hidle] at a3; cases a3
  · rcases checkKeepalive_cases s with ⟨a, _⟩ | ⟨_, _, a3, _⟩ | ⟨_, _, a3, _⟩
    · rw [a] at h4; exact h4
    · rw [hidle] at a3; cases a3
    · rw [hidle] at a3; cases a3

/-- whenever loop_misc() returns with the socket still open, both activity timers are fresher than K -/
theorem c08_after_misc (s : S) (hk : s.cfg.keepalive > 0) (hinv : s.lastOut ≤ s.now ∧ s.lastIn ≤ s.now) :
    s.loopMisc.1.sock.isSome → s.loopMisc.1.now - s.loopMisc.1.lastOut < s.kms ∧ s.loopMisc.1.now - s.loopMisc.1.lastIn < s.kms := by
  intro h
  obtain ⟨h1, h2, h3, h4⟩ := loopMisc_survive s h
  rw [h2]; simp only; unfold S.kms
  rcases h4 with ⟨a, b⟩ | ⟨a1, a2, a3, a4, a5⟩
  · rw [a]
    rcases b with b | b
    · omega
    · simp [idleB] at b; omega
  · obtain ⟨p1, p2, p3, p4, _⟩ := kaPing_proj s
    rw [a5, p1, p3, p4]; omega

/-- dead peer: a PINGREQ unanswered for K — the loop_misc() call closes the connection, reports the keep-alive
timeout through on_disconnect exactly once, returns a non-zero result and is_connected() turns false -/
theorem c08_timeout (s : S) (c : Nat) (hs : s.sock = some c) (hk : s.cfg.keepalive > 0) (hp : s.pingT > 0)
    (ht : s.now - s.pingT ≥ s.kms) (hst : s.cstate = .connected) (hext : s.cfg.ext = false) :
    let s' := s.loopMisc.1
    s'.sock = none ∧ s'.isConnected = false ∧ s.loopMisc.2 ≠ 0 ∧
    (s'.log.drop s.log.length) = [.sclose c false, .onDisconnect 16 false] := by
  intro s'
  unfold S.kms at ht
  have hk0 : s.cfg.keepalive ≠ 0 := by omega
  have hnone := (kaClose_proj s).2.2.2.2.2
  have key : s.loopMisc = (kaClose s, rcConnLost) := by
    rcases checkKeepalive_cases s with ⟨a, _⟩ | ⟨_, _, _, _, a5, _⟩ | ⟨_, _, _, _, a5⟩
    · rcases loopMisc_cases s with ⟨h1, _⟩ | ⟨_, h2, _⟩ | ⟨_, _, _, h4⟩ | ⟨_, _, h3, _⟩
      · rw [hs] at h1; cases h1
      · rw [a, hs] at h2; cases h2
      · rw [a] at h4; exact h4
      · rw [a] at h3; exact absurd ⟨hp, ht⟩ h3
    · omega
    · rcases loopMisc_cases s with ⟨h1, _⟩ | ⟨_, _, h3⟩ | ⟨_, h2, _⟩ | ⟨_, h2, _⟩
      · rw [hs] at h1; cases h1
      · rw [a5] at h3; exact h3
      · rw [a5, hnone] at h2; simp at h2
      · rw [a5, hnone] at h2; simp at h2
  obtain ⟨hl, hcs⟩ := kaClose_log s c hs hext hst
  show s.loopMisc.1.sock = none ∧ s.loopMisc.1.isConnected = false ∧ s.loopMisc.2 ≠ 0 ∧
    s.loopMisc.1.log.drop s.log.length = [.sclose c false, .onDisconnect 16 false]
  rw [key]
  refine ⟨hnone, by simp [S.isConnected, hcs], by simp [rcConnLost], ?_⟩
  simp only [hl]; simp

/-- live peer: while every outstanding PINGREQ is younger than K, loop_misc() never closes the connection -/
theorem c08_live (s : S) (hs : s.sock.isSome) (hk : s.cfg.keepalive > 0) (hst : s.cstate = .connected)
    (hinv : s.pingT > 0 → s.pingT ≤ s.lastOut ∧ s.pingT ≤ s.lastIn)
    (hping : s.pingT = 0 ∨ s.now - s.pingT < s.kms)
    (hsend : s.sendScript = []) (hq : s.outq = []) (hext : s.cfg.ext = false) :
    s.loopMisc.1.sock = s.sock ∧ (s.loopMisc.1.log.drop s.log.length).all (fun e => !isKeepaliveDisc e) = true := by
  unfold S.kms at hping
  obtain ⟨c, hc⟩ := Option.isSome_iff_exists.mp hs
  have hk0 : s.cfg.keepalive ≠ 0 := by omega
  rcases checkKeepalive_cases s with ⟨a, _⟩ | ⟨_, _, _, _, a5, a6⟩ | ⟨_, _, a3, a4, _⟩
  · have hne : ¬ pingExpired s := by unfold pingExpired; omega
    rcases loopMisc_cases s with ⟨h1, _⟩ | ⟨_, h2, _⟩ | ⟨_, _, h3, _⟩ | ⟨_, _, _, h4⟩
    · rw [hc] at h1; cases h1
    · rw [a, hc] at h2; cases h2
    · rw [a] at h3; exact absurd h3 hne
    · rw [a] at h4; rw [h4]; simp
  · rw [loopMisc_ping s hk0 a5 a6]
    obtain ⟨p1, p2, p3, p4, p5, p6, p7⟩ := kaPing_proj s
    obtain ⟨l1, evs, l2, l3⟩ := sendPing_live s c hc hsend hq
    refine ⟨by rw [p6, l1, hc], ?_⟩
    rw [p7, l2]
    simp only [List.drop_left, List.all_eq_true]
    intro e he
    have := (l3 e he).1
    cases e <;> simp_all [isKeepaliveDisc, SessAct.Disc.isD]
  · exfalso
    have hp : s.pingT > 0 := by
      rcases Nat.eq_zero_or_pos s.pingT with h | h
      · exact absurd ⟨hst, h⟩ a4
      · exact h
    have := hinv hp
    simp [idleB] at a3
    omega

/-- PINGRESP clears the outstanding ping -/
theorem c08_pingresp (s : S) (ok : Bool) (hs : s.sock.isSome) :
    (s.step (.rx (.pkt .pingresp) ok)).pingT = 0 := by
  obtain ⟨c, hc⟩ := Option.isSome_iff_exists.mp hs
  simp only [S.step, S.loopRead, S.packetHandle, hc]
  simp only [show ¬ (rcSuccess > 0) by decide, show ¬ (rcSuccess = rcAgain) by decide, if_false]
  rfl

/-! ## serviced histories: the network loop runs loop_misc() at least every d milliseconds -/

/-- every stretch between two loop_misc() calls (and from the start) advances the clock by at most d -/
def gapOk (d : Nat) : (acc : Nat) → List Op → Bool
  | _, [] => true
  | acc, .tick ms :: rest => decide (acc + ms ≤ d) && gapOk d (acc + ms) rest
  | _, .loopMisc :: rest => gapOk d 0 rest
  | acc, _ :: rest => gapOk d acc rest

/-- the invariant `GInv` along a serviced history -/
theorem gap_run (K d : Nat) (hK : K > 0) : ∀ (ops : List Op) (s : S) (acc : Nat), s.cfg.keepalive = K → acc ≤ d →
    GInv K acc s → gapOk d acc ops = true → GInv K d (s.run ops) := by
  intro ops
  induction ops with
  | nil => intro s acc _ hacc hinv _; exact hinv.mono hacc
  | cons op rest ih =>
    intro s acc hc hacc hinv hg
    rw [run_cons]
    have hc' : (s.step op).cfg.keepalive = K := by rw [step_cfg]; exact hc
    by_cases h1 : op = .loopMisc
    · subst h1
      simp only [gapOk] at hg
      exact ih _ 0 hc' (Nat.zero_le _) (GInv.misc s hK hc) hg
    · by_cases h2 : ∃ ms, op = .tick ms
      · obtain ⟨ms, h2⟩ := h2
        subst h2
        simp only [gapOk, Bool.and_eq_true, decide_eq_true_eq] at hg
        exact ih _ (acc + ms) hc' hg.1 (hinv.tick ms) hg.2
      · have hg' : gapOk d acc rest = true := by
          cases op <;> simp_all [gapOk]
        exact ih _ acc hc' hacc (hinv.fr hK (step_fr (g := false) s op h1 (fun ms h => h2 ⟨ms, h⟩))) hg'

theorem gap_runFrom (cfg : Cfg) (proto : Nat) (ops : List Op) (d : Nat) (hk : cfg.keepalive > 0)
    (hg : gapOk d 0 ops = true) : GInv cfg.keepalive d (runFrom cfg proto ops) :=
  gap_run cfg.keepalive d hk ops (S.init cfg proto t0) 0 rfl (Nat.zero_le _)
    (fun h => by simp [S.init] at h) hg

/-- with keepalive K > 0 and the loop serviced at least every d: at every moment at which the client holds a socket,
less than K + d has elapsed since the activity timers were refreshed (a refresh happens exactly when CONNECT or
PINGREQ is handed to the transport): the client never stays silent for K + d -/
theorem c08_gap_bound (cfg : Cfg) (proto : Nat) (ops : List Op) (d : Nat) (hk : cfg.keepalive > 0)
    (hg : gapOk d 0 ops = true) :
    let s := runFrom cfg proto ops
    s.sock.isSome → s.now - s.lastOut < cfg.keepalive * 1000 + d ∧ s.now - s.lastIn < cfg.keepalive * 1000 + d := by
  intro s hs
  have := gap_runFrom cfg proto ops d hk hg hs
  exact ⟨this.1, this.2.1⟩

/-- … and an unanswered PINGREQ is never older than K + d while the socket is still open: the timeout is
detected within K + d of sending it -/
theorem c08_timeout_bound (cfg : Cfg) (proto : Nat) (ops : List Op) (d : Nat) (hk : cfg.keepalive > 0)
    (hg : gapOk d 0 ops = true) :
    let s := runFrom cfg proto ops
    s.sock.isSome → s.pingT > 0 → s.now - s.pingT < cfg.keepalive * 1000 + d := by
  intro s hs hp
  exact (gap_runFrom cfg proto ops d hk hg hs).2.2 hp

/-! ## non-vacuity: K = 10 s; PINGREQ at +K, keep-alive timeout at +2K (kernel-evaluated) -/

/-- connect, CONNACK, then K = 10 s of silence -/
def histIdle : List Op := [.connect true, .rx (.pkt (.connack false 0)) true, .tick 10000]

/-- the hypotheses of `c08_ping_due` hold at +K -/
example :
    let s := runFrom { keepalive := 10 } 4 histIdle
    s.sock = some 1 ∧ s.cstate = .connected ∧ s.pingT = 0 ∧ s.cfg.keepalive > 0 ∧
      (s.now - s.lastOut ≥ s.kms ∨ s.now - s.lastIn ≥ s.kms) := by decide +kernel

/-- … and loop_misc() queues and writes the PINGREQ, keeping the socket -/
example :
    let s := runFrom { keepalive := 10 } 4 (histIdle ++ [.loopMisc])
    Ev.queued 1 [0xC0, 0] ∈ s.log ∧ Ev.tx 1 [0xC0, 0] ∈ s.log ∧ s.pingT = t0 + 10000 ∧ s.lastOut = t0 + 10000 ∧
      s.sock = some 1 := by decide +kernel

/-- the hypotheses of `c08_timeout` hold at +2K when no PINGRESP arrived -/
example :
    let s := runFrom { keepalive := 10 } 4 (histIdle ++ [.loopMisc, .tick 10000])
    s.sock = some 1 ∧ s.cfg.keepalive > 0 ∧ s.pingT > 0 ∧ s.now - s.pingT ≥ s.kms ∧ s.cstate = .connected ∧
      s.cfg.ext = false := by decide +kernel

/-- … and loop_misc() closes with the keep-alive error (16); the history is serviced every d = K -/
example :
    let s := runFrom { keepalive := 10 } 4 (histIdle ++ [.loopMisc, .tick 10000])
    let s' := runFrom { keepalive := 10 } 4 (histIdle ++ [.loopMisc, .tick 10000, .loopMisc])
    s'.sock = none ∧ s'.isConnected = false ∧
      s'.log.drop s.log.length = [.sclose 1 false, .onDisconnect 16 false, .ret 7 none] ∧
      gapOk 10000 0 (histIdle ++ [.loopMisc, .tick 10000, .loopMisc]) = true := by decide +kernel

/-- a PINGRESP in time keeps the connection: no timeout just before +2K -/
example :
    let s := runFrom { keepalive := 10 } 4
      (histIdle ++ [.loopMisc, .tick 5000, .rx (.pkt .pingresp) true, .tick 4999, .loopMisc])
    s.sock = some 1 ∧ s.pingT = 0 ∧ s.log.all (fun e => !isKeepaliveDisc e) = true := by decide +kernel

end Paho
