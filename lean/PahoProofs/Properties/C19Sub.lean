/-
C19 — subscribe() / unsubscribe(): the calling conventions are normalised and rejected exactly per the MQTT grammar.
STATEMENTS (about `Paho.Sub.normalize` / `Paho.unsubNormalize`, the model of the code up to `if self._sock is None`).
-/
import Paho.Model.SubArgs
import Paho.Spec.Topic
import PahoProofs.Properties.C19

namespace Paho
open _root_.Paho.Sub

variable {ω : Type}

/-! ### the extracted range tests, with the literals of this run substituted -/

theorem qosBadStr_iff (q : Int) : qosBadStr q = true ↔ (q < 0 ∨ q > 2) := by
  simp [qosBadStr, Gen.subQosStrLoCmp, Gen.subQosStrLo, Gen.subQosStrHiCmp, Gen.subQosStrHi, Cmp.evalInt]

theorem qosBadL5_iff (q : Int) : qosBadL5 q = true ↔ (q < 0 ∨ q > 2) := by
  simp [qosBadL5, Gen.subQosL5LoCmp, Gen.subQosL5Lo, Gen.subQosL5HiCmp, Gen.subQosL5Hi, Cmp.evalInt]

theorem qosBadL3_iff (q : Int) : qosBadL3 q = true ↔ (q < 0 ∨ q > 2) := by
  simp [qosBadL3, Gen.subQosL3LoCmp, Gen.subQosL3Lo, Gen.subQosL3HiCmp, Gen.subQosL3Hi, Cmp.evalInt]

theorem validFilter_ne_nil {t : Bytes} (h : Spec.validFilter t = true) : t ≠ [] := by
  intro h0; subst h0; simp [Spec.validFilter] at h

/-! ### specification side: what a call asks for, written without reference to the control flow of the code -/

/-- is this second component acceptable for the protocol version? an `int` must be a QoS; a
`SubscribeOptions` object is only meaningful for MQTT 5 -/
def Second.ok (proto : Nat) : Second ω → Prop
  | .int q => 0 ≤ q ∧ q ≤ 2
  | .opts _ => proto = 5

/-- what the client will put on the wire for a requested second component -/
def Entry.ofSecond : Second ω → Entry ω
  | .int q => .qos q.toNat
  | .opts o => .opts o

/-- the request of the string form: MQTT 5 with `options=o` asks for `o`, everything else for the QoS -/
def Sub.strSecond (proto : Nat) (qos : Int) : OptArg ω → Second ω
  | .opts o => if proto = 5 then .opts o else .int qos
  | _ => .int qos

/-- the (filter, request) pairs a call denotes: the documented reading of the calling conventions -/
def Sub.pairs (proto : Nat) : TopicForm ω → Int → OptArg ω → List (Bytes × Second ω)
  | .str t, qos, options => [(t, Sub.strSecond proto qos options)]
  | .tuple t (.opts o), _, _ => [(t, .opts o)]
  | .tuple t (.int q), _, _ => [(t, .int q)]
  | .list l, _, _ => l
  | .none, _, _ => []

/-- MQTT 5: `options` is absent, or a `SubscribeOptions` object not combined with a non-zero `qos` -/
def Sub.OptOk (qos : Int) : OptArg ω → Prop
  | .none => True
  | .opts _ => qos = 0
  | .other => False

/-- single-filter forms: QoS in range, filter allowed by the grammar, options well-formed -/
def Sub.StrOk (proto : Nat) (t : Bytes) (qos : Int) (options : OptArg ω) : Prop :=
  0 ≤ qos ∧ qos ≤ 2 ∧ Spec.validFilter t = true ∧ (proto = 5 → Sub.OptOk qos options)

/-- the calls `subscribe()` must accept -/
def Sub.Accept (proto : Nat) : TopicForm ω → Int → OptArg ω → Prop
  | .str t, qos, options => Sub.StrOk proto t qos options
  | .tuple t (.opts o), qos, _ => proto = 5 ∧ Sub.StrOk proto t qos (.opts o)
  | .tuple t (.int q), _, options => proto ≠ 5 ∧ Sub.StrOk proto t q options
  | .list l, _, _ => l ≠ [] ∧ ∀ e ∈ l, Spec.validFilter e.1 = true ∧ Second.ok proto e.2
  | .none, _, _ => False

/-! ### the same without the grammar clause (what `collect` decides), used as a stepping stone -/

def Sub.StrShape (proto : Nat) (t : Bytes) (qos : Int) (options : OptArg ω) : Prop :=
  0 ≤ qos ∧ qos ≤ 2 ∧ (proto ≠ 5 → t ≠ []) ∧ (proto = 5 → Sub.OptOk qos options)

def Sub.Shape (proto : Nat) : TopicForm ω → Int → OptArg ω → Prop
  | .str t, qos, options => Sub.StrShape proto t qos options
  | .tuple t (.opts o), qos, _ => proto = 5 ∧ Sub.StrShape proto t qos (.opts o)
  | .tuple t (.int q), _, options => proto ≠ 5 ∧ Sub.StrShape proto t q options
  | .list l, _, _ => l ≠ [] ∧ ∀ e ∈ l, Second.ok proto e.2 ∧ (proto ≠ 5 → e.1 ≠ [])
  | .none, _, _ => False

/-! ### the branches -/

theorem strBranch_ok_iff (proto : Nat) (t : Bytes) (qos : Int) (options : OptArg ω) (l : List (Bytes × Entry ω)) :
    strBranch proto t qos options = .ok l ↔
      (Sub.StrShape proto t qos options ∧ l = [(t, Entry.ofSecond (Sub.strSecond proto qos options))]) := by
  unfold strBranch Sub.StrShape
  by_cases hb : qosBadStr qos = true
  · have := (qosBadStr_iff qos).1 hb
    rw [if_pos hb]
    constructor
    · intro h; cases h
    · rintro ⟨⟨h0, h2, _⟩, _⟩; omega
  · have hr : ¬ (qos < 0 ∨ qos > 2) := fun h => hb ((qosBadStr_iff qos).2 h)
    have h0 : 0 ≤ qos := by omega
    have h2 : qos ≤ 2 := by omega
    rw [if_neg hb]
    by_cases hp : proto = 5
    · subst hp
      rw [if_pos rfl]
      cases options with
      | none =>
        simp only [Sub.strSecond, Entry.ofSecond, Sub.OptOk]
        constructor
        · intro h; cases h; exact ⟨⟨h0, h2, fun h => absurd rfl h, fun _ => trivial⟩, rfl⟩
        · rintro ⟨_, rfl⟩; rfl
      | opts o =>
        simp only [Sub.strSecond, Entry.ofSecond, Sub.OptOk, if_true]
        by_cases hq : qos = 0
        · rw [if_neg (fun h => h hq)]
          constructor
          · intro h; cases h; exact ⟨⟨h0, h2, fun h => absurd rfl h, fun _ => hq⟩, rfl⟩
          · rintro ⟨_, rfl⟩; rfl
        · rw [if_pos hq]
          constructor
          · intro h; cases h
          · rintro ⟨⟨_, _, _, h⟩, _⟩; exact absurd (h (by trivial)) hq
      | other =>
        simp only [Sub.OptOk]
        constructor
        · intro h; cases h
        · rintro ⟨⟨_, _, _, h⟩, _⟩; exact (h (by trivial)).elim
    · rw [if_neg hp]
      have hss : Entry.ofSecond (Sub.strSecond proto qos options) = Entry.qos qos.toNat := by
        cases options <;> simp [Sub.strSecond, Entry.ofSecond, hp]
      rw [hss]
      by_cases ht : t.length = 0
      · have ht' : t = [] := List.length_eq_zero_iff.1 ht
        have hc : Gen.subStrEmptyCmp.evalNat t.length Gen.subStrEmptyLen = true := by
          simp [Gen.subStrEmptyCmp, Gen.subStrEmptyLen, Cmp.evalNat, ht]
        rw [if_pos hc]
        constructor
        · intro h; cases h
        · rintro ⟨⟨_, _, h, _⟩, _⟩; exact absurd ht' (h hp)
      · have hne : t ≠ [] := fun h => ht (by simp [h])
        have hc : ¬ Gen.subStrEmptyCmp.evalNat t.length Gen.subStrEmptyLen = true := by
          simp [Gen.subStrEmptyCmp, Gen.subStrEmptyLen, Cmp.evalNat, ht]
        rw [if_neg hc]
        constructor
        · intro h; cases h; exact ⟨⟨h0, h2, fun _ => hne, fun h => absurd h hp⟩, rfl⟩
        · rintro ⟨_, rfl⟩; rfl

theorem listV5_ok_iff (l : List (Bytes × Second ω)) (r : List (Bytes × Entry ω)) :
    listV5 l = .ok r ↔ ((∀ e ∈ l, Second.ok 5 e.2) ∧ r = l.map (fun e => (e.1, Entry.ofSecond e.2))) := by
  induction l generalizing r with
  | nil => simp [listV5, eq_comm]
  | cons e l ih =>
    obtain ⟨t, x⟩ := e
    rw [List.forall_mem_cons, List.map_cons]
    cases x with
    | opts o =>
      show (match listV5 l with | .ok r' => Except.ok ((t, Entry.opts o) :: r') | .error e => .error e) = .ok r ↔ _
      cases h : listV5 l with
      | error e =>
        constructor
        · intro h'; cases h'
        · rintro ⟨⟨_, hall⟩, rfl⟩
          have := (ih _).2 ⟨hall, rfl⟩
          rw [h] at this; cases this
      | ok r' =>
        have h' := (ih r').1 h
        constructor
        · intro hh; cases hh
          exact ⟨⟨rfl, h'.1⟩, by rw [h'.2]; rfl⟩
        · rintro ⟨_, rfl⟩; rw [h'.2]; rfl
    | int q =>
      show (if qosBadL5 q then Except.error Exc.valueError
            else match listV5 l with | .ok r' => Except.ok ((t, Entry.qos q.toNat) :: r') | .error e => .error e) = .ok r ↔ _
      by_cases hb : qosBadL5 q = true
      · have := (qosBadL5_iff q).1 hb
        rw [if_pos hb]
        constructor
        · intro h; cases h
        · rintro ⟨⟨⟨h0, h2⟩, _⟩, _⟩; omega
      · have hr : ¬ (q < 0 ∨ q > 2) := fun h => hb ((qosBadL5_iff q).2 h)
        have h0 : 0 ≤ q := by omega
        have h2 : q ≤ 2 := by omega
        rw [if_neg hb]
        cases h : listV5 l with
        | error e =>
          constructor
          · intro h'; cases h'
          · rintro ⟨⟨_, hall⟩, rfl⟩
            have := (ih _).2 ⟨hall, rfl⟩
            rw [h] at this; cases this
        | ok r' =>
          have h' := (ih r').1 h
          constructor
          · intro hh; cases hh
            exact ⟨⟨⟨h0, h2⟩, h'.1⟩, by rw [h'.2]; rfl⟩
          · rintro ⟨_, rfl⟩; rw [h'.2]; rfl

theorem listV3_ok_iff (l : List (Bytes × Second ω)) (r : List (Bytes × Entry ω)) :
    listV3 l = .ok r ↔
      ((∀ e ∈ l, e.1 ≠ [] ∧ ∃ q, e.2 = .int q ∧ 0 ≤ q ∧ q ≤ 2) ∧ r = l.map (fun e => (e.1, Entry.ofSecond e.2))) := by
  induction l generalizing r with
  | nil => simp [listV3, eq_comm]
  | cons e l ih =>
    obtain ⟨t, x⟩ := e
    rw [List.forall_mem_cons, List.map_cons]
    cases x with
    | opts o =>
      show (Except.error Exc.valueError : Except Exc _) = .ok r ↔ _
      constructor
      · intro h; cases h
      · rintro ⟨⟨⟨_, q, hq, _⟩, _⟩, _⟩; cases hq
    | int q =>
      show (if qosBadL3 q then Except.error Exc.valueError
            else if Gen.subL3EmptyCmp.evalNat t.length Gen.subL3EmptyLen then Except.error Exc.valueError
            else match listV3 l with | .ok r' => Except.ok ((t, Entry.qos q.toNat) :: r') | .error e => .error e) = .ok r ↔ _
      by_cases hb : qosBadL3 q = true
      · have := (qosBadL3_iff q).1 hb
        rw [if_pos hb]
        constructor
        · intro h; cases h
        · rintro ⟨⟨⟨_, q', hq, h0, h2⟩, _⟩, _⟩; cases hq; omega
      · have hr : ¬ (q < 0 ∨ q > 2) := fun h => hb ((qosBadL3_iff q).2 h)
        have h0 : 0 ≤ q := by omega
        have h2 : q ≤ 2 := by omega
        rw [if_neg hb]
        by_cases ht : t.length = 0
        · have ht' : t = [] := List.length_eq_zero_iff.1 ht
          have hc : Gen.subL3EmptyCmp.evalNat t.length Gen.subL3EmptyLen = true := by
            simp [Gen.subL3EmptyCmp, Gen.subL3EmptyLen, Cmp.evalNat, ht]
          rw [if_pos hc]
          constructor
          · intro h; cases h
          · rintro ⟨⟨⟨hne, _⟩, _⟩, _⟩; exact absurd ht' hne
        · have hne : t ≠ [] := fun h => ht (by simp [h])
          have hc : ¬ Gen.subL3EmptyCmp.evalNat t.length Gen.subL3EmptyLen = true := by
            simp [Gen.subL3EmptyCmp, Gen.subL3EmptyLen, Cmp.evalNat, ht]
          rw [if_neg hc]
          cases h : listV3 l with
          | error e =>
            constructor
            · intro h'; cases h'
            · rintro ⟨⟨_, hall⟩, rfl⟩
              have := (ih _).2 ⟨hall, rfl⟩
              rw [h] at this; cases this
          | ok r' =>
            have h' := (ih r').1 h
            constructor
            · intro hh; cases hh
              exact ⟨⟨⟨hne, q, rfl, h0, h2⟩, h'.1⟩, by rw [h'.2]; rfl⟩
            · rintro ⟨_, rfl⟩; rw [h'.2]; rfl

/-! ### `collect` decides the shape; `normalize` adds the grammar -/

theorem collect_ok_iff (proto : Nat) (topic : TopicForm ω) (qos : Int) (options : OptArg ω)
    (l : List (Bytes × Entry ω)) :
    collect proto topic qos options = .ok l ↔
      (Sub.Shape proto topic qos options ∧
        l = (Sub.pairs proto topic qos options).map (fun e => (e.1, Entry.ofSecond e.2))) := by
  cases topic with
  | none =>
    simp only [collect, Sub.Shape]
    constructor
    · intro h; cases h
    · rintro ⟨h, _⟩; exact h.elim
  | str t => simpa [collect, Sub.Shape, Sub.pairs] using strBranch_ok_iff proto t qos options l
  | tuple t x =>
    by_cases hp : proto = 5
    · subst hp
      cases x with
      | int q =>
        simp only [collect, Sub.Shape, if_true]
        constructor
        · intro h; cases h
        · rintro ⟨⟨h, _⟩, _⟩; exact absurd rfl h
      | opts o =>
        have := strBranch_ok_iff 5 t qos (.opts o) l
        simp only [Sub.strSecond, if_true] at this
        simpa [collect, Sub.Shape, Sub.pairs] using this
    · cases x with
      | opts o =>
        simp only [collect, Sub.Shape, if_neg hp]
        constructor
        · intro h; cases h
        · rintro ⟨⟨h, _⟩, _⟩; exact absurd h hp
      | int q =>
        have := strBranch_ok_iff proto t q options l
        have hss : Entry.ofSecond (Sub.strSecond proto q options) = Entry.ofSecond (Second.int q : Second ω) := by
          cases options <;> simp [Sub.strSecond, hp]
        rw [hss] at this
        simpa [collect, Sub.Shape, Sub.pairs, hp] using this
  | list ls =>
    simp only [collect, Sub.Shape, Sub.pairs]
    by_cases hl0 : ls.length = 0
    · have hnil : ls = [] := List.length_eq_zero_iff.1 hl0
      have hc : Gen.subEmptyListCmp.evalNat ls.length Gen.subEmptyListLen = true := by
        simp [Gen.subEmptyListCmp, Gen.subEmptyListLen, Cmp.evalNat, hl0]
      rw [if_pos hc]
      constructor
      · intro h; cases h
      · rintro ⟨⟨h, _⟩, _⟩; exact absurd hnil h
    · have hne : ls ≠ [] := fun h => hl0 (by simp [h])
      have hc : ¬ Gen.subEmptyListCmp.evalNat ls.length Gen.subEmptyListLen = true := by
        simp [Gen.subEmptyListCmp, Gen.subEmptyListLen, Cmp.evalNat, hl0]
      rw [if_neg hc]
      by_cases hp : proto = 5
      · subst hp
        rw [if_pos rfl, listV5_ok_iff]
        constructor
        · rintro ⟨hs, rfl⟩
          exact ⟨⟨hne, fun e he => ⟨hs e he, fun h => absurd rfl h⟩⟩, rfl⟩
        · rintro ⟨⟨_, hs⟩, rfl⟩
          exact ⟨fun e he => (hs e he).1, rfl⟩
      · rw [if_neg hp, listV3_ok_iff]
        constructor
        · rintro ⟨hs, rfl⟩
          refine ⟨⟨hne, fun e he => ?_⟩, rfl⟩
          obtain ⟨hn, q, hq, h0, h2⟩ := hs e he
          refine ⟨?_, fun _ => hn⟩
          rw [hq]; exact ⟨h0, h2⟩
        · rintro ⟨⟨_, hs⟩, rfl⟩
          refine ⟨fun e he => ?_, rfl⟩
          obtain ⟨hok, hn⟩ := hs e he
          refine ⟨hn hp, ?_⟩
          cases hx : e.2 with
          | int q => rw [hx] at hok; exact ⟨q, rfl, hok.1, hok.2⟩
          | opts o => rw [hx] at hok; exact absurd hok hp

theorem normalize_ok_iff (proto : Nat) (topic : TopicForm ω) (qos : Int) (options : OptArg ω)
    (l : List (Bytes × Entry ω)) :
    normalize proto topic qos options = .ok l ↔
      (collect proto topic qos options = .ok l ∧ ∀ e ∈ l, Spec.validFilter e.1 = true) := by
  unfold normalize
  cases hc : collect proto topic qos options with
  | error e =>
    constructor
    · intro h; cases h
    · rintro ⟨h, _⟩; cases h
  | ok l' =>
    by_cases ha : l'.any (fun e => !filterCheck e.1) = true
    · simp only [ha, if_true]
      constructor
      · intro h; cases h
      · rintro ⟨h, hall⟩
        cases h
        obtain ⟨e, he, hbad⟩ := List.any_eq_true.1 ha
        rw [c19_filter, hall e he] at hbad
        cases hbad
    · simp only [ha]
      constructor
      · intro h; cases h
        refine ⟨rfl, fun e he => ?_⟩
        have : ¬ (!filterCheck e.1) = true := fun hb => ha (List.any_eq_true.2 ⟨e, he, hb⟩)
        rw [c19_filter] at this
        simpa using this
      · rintro ⟨h, _⟩; cases h; rfl

theorem accept_iff_shape (proto : Nat) (topic : TopicForm ω) (qos : Int) (options : OptArg ω) :
    Sub.Accept proto topic qos options ↔
      (Sub.Shape proto topic qos options ∧ ∀ e ∈ Sub.pairs proto topic qos options, Spec.validFilter e.1 = true) := by
  have str : ∀ (t : Bytes) (q : Int) (o : OptArg ω),
      Sub.StrOk proto t q o ↔ (Sub.StrShape proto t q o ∧ Spec.validFilter t = true) := by
    intro t q o
    unfold Sub.StrOk Sub.StrShape
    constructor
    · rintro ⟨h0, h2, hv, ho⟩; exact ⟨⟨h0, h2, fun _ => validFilter_ne_nil hv, ho⟩, hv⟩
    · rintro ⟨⟨h0, h2, _, ho⟩, hv⟩; exact ⟨h0, h2, hv, ho⟩
  cases topic with
  | none => simp [Sub.Accept, Sub.Shape]
  | str t => simp [Sub.Accept, Sub.Shape, Sub.pairs, str]
  | tuple t x =>
    cases x with
    | int q => simp [Sub.Accept, Sub.Shape, Sub.pairs, str, and_assoc]
    | opts o => simp [Sub.Accept, Sub.Shape, Sub.pairs, str, and_assoc]
  | list ls =>
    simp only [Sub.Accept, Sub.Shape, Sub.pairs]
    constructor
    · rintro ⟨hne, h⟩
      exact ⟨⟨hne, fun e he => ⟨(h e he).2, fun _ => validFilter_ne_nil (h e he).1⟩⟩, fun e he => (h e he).1⟩
    · rintro ⟨⟨hne, hs⟩, hv⟩
      exact ⟨hne, fun e he => ⟨hv e he, (hs e he).1⟩⟩

/-! ### property theorems -/

/-- whatever `subscribe()` hands to `_send_subscribe` is, filter for filter and in order, what the call asked for:
the filters unchanged, an `int` QoS kept, a `SubscribeOptions` object passed through -/
theorem c19_subscribe_result (proto : Nat) (topic : TopicForm ω) (qos : Int) (options : OptArg ω)
    (l : List (Bytes × Entry ω)) (h : normalize proto topic qos options = .ok l) :
    l = (Sub.pairs proto topic qos options).map (fun e => (e.1, Entry.ofSecond e.2)) :=
  ((collect_ok_iff proto topic qos options l).1 ((normalize_ok_iff proto topic qos options l).1 h).1).2

/-- `subscribe()` accepts a call exactly when it is one of the documented forms, names at least one filter, every
filter is allowed by the MQTT grammar and every requested QoS lies in 0..2 - for every protocol version, every
argument shape and ALL byte strings -/
theorem c19_subscribe_accept_iff (proto : Nat) (topic : TopicForm ω) (qos : Int) (options : OptArg ω) :
    (∃ l, normalize proto topic qos options = .ok l) ↔ Sub.Accept proto topic qos options := by
  rw [accept_iff_shape]
  constructor
  · rintro ⟨l, h⟩
    obtain ⟨hc, hv⟩ := (normalize_ok_iff proto topic qos options l).1 h
    obtain ⟨hs, rfl⟩ := (collect_ok_iff proto topic qos options l).1 hc
    exact ⟨hs, fun e he => hv (e.1, Entry.ofSecond e.2) (List.mem_map.2 ⟨e, he, rfl⟩)⟩
  · rintro ⟨hs, hv⟩
    refine ⟨_, (normalize_ok_iff proto topic qos options _).2 ⟨(collect_ok_iff proto topic qos options _).2 ⟨hs, rfl⟩, ?_⟩⟩
    intro e he
    obtain ⟨e', he', rfl⟩ := List.mem_map.1 he
    exact hv e' he'

/-- an accepted call names at least one filter (so the SUBSCRIBE packet has a payload, MQTT-3.8.3-3) and every
filter handed to the encoder is allowed by the grammar -/
theorem c19_subscribe_nonempty (proto : Nat) (topic : TopicForm ω) (qos : Int) (options : OptArg ω)
    (l : List (Bytes × Entry ω)) (h : normalize proto topic qos options = .ok l) :
    l ≠ [] ∧ ∀ e ∈ l, Spec.validFilter e.1 = true := by
  obtain ⟨hc, hv⟩ := (normalize_ok_iff proto topic qos options l).1 h
  obtain ⟨hs, rfl⟩ := (collect_ok_iff proto topic qos options l).1 hc
  refine ⟨?_, hv⟩
  cases topic with
  | none => exact hs.elim
  | str t => simp [Sub.pairs]
  | tuple t x => cases x <;> simp [Sub.pairs]
  | list ls => simpa [Sub.pairs] using hs.1

/-- every rejection by `subscribe()` is a ValueError - except the undocumented MQTT 3 call
`subscribe((topic, SubscribeOptions))`, where comparing the options object with 0 raises TypeError -/
theorem c19_subscribe_errors (proto : Nat) (topic : TopicForm ω) (qos : Int) (options : OptArg ω) (e : Exc)
    (h : normalize proto topic qos options = .error e) :
    e = .valueError ∨ (e = .typeError ∧ proto ≠ 5 ∧ ∃ t o, topic = .tuple t (.opts o)) := by
  have hsb : ∀ (p : Nat) (t : Bytes) (q : Int) (o : OptArg ω) (e : Exc), strBranch p t q o = .error e → e = .valueError := by
    intro p t q o e h
    unfold strBranch at h
    repeat' split at h
    all_goals first | (cases h; rfl) | cases h
  have h5 : ∀ (l : List (Bytes × Second ω)) (e : Exc), listV5 l = .error e → e = .valueError := by
    intro l
    induction l with
    | nil => intro e h; cases h
    | cons x l ih =>
      intro e h
      obtain ⟨t, x⟩ := x
      cases x with
      | opts o =>
        simp only [listV5] at h
        cases hl : listV5 l with
        | ok r => simp [hl] at h
        | error e' => simp only [hl] at h; cases h; exact ih _ hl
      | int q =>
        simp only [listV5] at h
        split at h
        · cases h; rfl
        · cases hl : listV5 l with
          | ok r => simp [hl] at h
          | error e' => simp only [hl] at h; cases h; exact ih _ hl
  have h3 : ∀ (l : List (Bytes × Second ω)) (e : Exc), listV3 l = .error e → e = .valueError := by
    intro l
    induction l with
    | nil => intro e h; cases h
    | cons x l ih =>
      intro e h
      obtain ⟨t, x⟩ := x
      cases x with
      | opts o => simp only [listV3] at h; cases h; rfl
      | int q =>
        simp only [listV3] at h
        split at h
        · cases h; rfl
        · split at h
          · cases h; rfl
          · cases hl : listV3 l with
            | ok r => simp [hl] at h
            | error e' => simp only [hl] at h; cases h; exact ih _ hl
  unfold normalize at h
  cases hc : collect proto topic qos options with
  | ok l' =>
    simp only [hc] at h
    split at h
    · cases h; exact Or.inl rfl
    · cases h
  | error e' =>
    simp only [hc] at h
    cases h
    cases topic with
    | none => simp only [collect] at hc; cases hc; exact Or.inl rfl
    | str t => simp only [collect] at hc; exact Or.inl (hsb _ _ _ _ _ hc)
    | tuple t x =>
      by_cases hp : proto = 5
      · cases x with
        | int q => simp only [collect, hp, if_true] at hc; cases hc; exact Or.inl rfl
        | opts o => simp only [collect, hp, if_true] at hc; exact Or.inl (hsb _ _ _ _ _ hc)
      · cases x with
        | int q => simp only [collect, if_neg hp] at hc; exact Or.inl (hsb _ _ _ _ _ hc)
        | opts o => simp only [collect, if_neg hp] at hc; cases hc; exact Or.inr ⟨rfl, hp, t, o, rfl⟩
    | list ls =>
      simp only [collect] at hc
      split at hc
      · cases hc; exact Or.inl rfl
      · by_cases hp : proto = 5
        · simp only [hp, if_true] at hc; exact Or.inl (h5 _ _ hc)
        · simp only [if_neg hp] at hc; exact Or.inl (h3 _ _ hc)

/-- `unsubscribe()` accepts exactly a non-empty string or a NON-EMPTY list of non-empty strings, hands them on
unchanged and in order, and every rejection is a ValueError (the empty list is refused since the F36 repair: an
UNSUBSCRIBE packet must carry at least one topic filter, MQTT-3.10.3-2) -/
theorem c19_unsubscribe_accept_iff (f : UnsubForm) (l : List Bytes) :
    unsubNormalize f = .ok l ↔
      ((∃ t, f = .str t ∧ t ≠ [] ∧ l = [t]) ∨ (f = .list l ∧ l ≠ [] ∧ ∀ t ∈ l, t ≠ [])) := by
  cases f with
  | none => simp [unsubNormalize]
  | other => simp [unsubNormalize]
  | str t =>
    simp only [unsubNormalize, Gen.unsubStrEmptyCmp, Gen.unsubStrEmptyLen, Cmp.evalNat]
    by_cases ht : t.length = 0
    · have : t = [] := List.length_eq_zero_iff.1 ht
      simp [ht, this]
    · have : t ≠ [] := fun h => ht (by simp [h])
      simp [ht, this, eq_comm]
  | list ls =>
    simp only [unsubNormalize]
    by_cases hl0 : ls.length = 0
    · have hnil : ls = [] := List.length_eq_zero_iff.1 hl0
      have hc : Gen.unsubEmptyListCmp.evalNat ls.length Gen.unsubEmptyListLen = true := by
        simp [Gen.unsubEmptyListCmp, Gen.unsubEmptyListLen, Cmp.evalNat, hl0]
      rw [if_pos hc]
      constructor
      · intro h; cases h
      · rintro (⟨_, h, _⟩ | ⟨h, hne, _⟩)
        · cases h
        · cases h; exact absurd hnil hne
    · have hne : ls ≠ [] := fun h => hl0 (by simp [h])
      have hc : ¬ Gen.unsubEmptyListCmp.evalNat ls.length Gen.unsubEmptyListLen = true := by
        simp [Gen.unsubEmptyListCmp, Gen.unsubEmptyListLen, Cmp.evalNat, hl0]
      rw [if_neg hc]
      have hany : (ls.any (fun t => Gen.unsubElemEmptyCmp.evalNat t.length Gen.unsubElemEmptyLen) = true) ↔ ∃ t ∈ ls, t = [] := by
        rw [List.any_eq_true]
        constructor
        · rintro ⟨t, ht, h0⟩
          refine ⟨t, ht, List.length_eq_zero_iff.1 ?_⟩
          simpa [Gen.unsubElemEmptyCmp, Gen.unsubElemEmptyLen, Cmp.evalNat] using h0
        · rintro ⟨t, ht, rfl⟩
          exact ⟨[], ht, by simp [Gen.unsubElemEmptyCmp, Gen.unsubElemEmptyLen, Cmp.evalNat]⟩
      by_cases ha : ls.any (fun t => Gen.unsubElemEmptyCmp.evalNat t.length Gen.unsubElemEmptyLen) = true
      · obtain ⟨t, ht, ht0⟩ := hany.1 ha
        rw [if_pos ha]
        constructor
        · intro h; cases h
        · rintro (⟨_, h, _⟩ | ⟨h, _, hall⟩)
          · cases h
          · cases h; exact absurd ht0 (hall t ht)
      · rw [if_neg ha]
        constructor
        · intro h; cases h
          exact Or.inr ⟨rfl, hne, fun t ht h0 => ha (hany.2 ⟨t, ht, h0⟩)⟩
        · rintro (⟨_, h, _⟩ | ⟨h, _, _⟩)
          · cases h
          · cases h; rfl

theorem c19_unsubscribe_errors (f : UnsubForm) (e : Exc) (h : unsubNormalize f = .error e) : e = .valueError := by
  cases f <;> simp only [unsubNormalize] at h
  · cases h; rfl
  · split at h
    · cases h; rfl
    · cases h
  · repeat' split at h
    all_goals first | (cases h; rfl) | cases h
  · cases h; rfl

/-- an accepted `unsubscribe()` names at least one topic filter -/
theorem c19_unsubscribe_nonempty (f : UnsubForm) (l : List Bytes) (h : unsubNormalize f = .ok l) : l ≠ [] := by
  rcases (c19_unsubscribe_accept_iff f l).1 h with ⟨t, _, _, rfl⟩ | ⟨_, hne, _⟩
  · simp
  · exact hne

/-! non-vacuity ('a'=97 '/'=47 '+'=43 '#'=35) -/
example : normalize (ω := Unit) 4 (.str [97, 47, 35]) 1 .none = .ok [([97, 47, 35], .qos 1)] := by rfl
example : normalize (ω := Unit) 5 (.str [97]) 0 (.opts ()) = .ok [([97], .opts ())] := by rfl
example : normalize (ω := Unit) 5 (.str [97]) 1 (.opts ()) = .error .valueError := by rfl
example : normalize (ω := Unit) 5 (.tuple [97] (.opts ())) 0 .none = .ok [([97], .opts ())] := by rfl
example : normalize (ω := Unit) 4 (.tuple [97] (.int 2)) 0 .none = .ok [([97], .qos 2)] := by rfl
example : normalize (ω := Unit) 4 (.tuple [97] (.int 3)) 0 .none = .error .valueError := by rfl
example : normalize (ω := Unit) 4 (.list [([97], .int 0), ([43], .int 2)]) 0 .none
    = .ok [([97], .qos 0), ([43], .qos 2)] := by rfl
example : normalize (ω := Unit) 5 (.list [([97], .int 1), ([35], .opts ())]) 0 .none
    = .ok [([97], .qos 1), ([35], .opts ())] := by rfl
example : normalize (ω := Unit) 4 (.list [([97], .int 0), ([97, 43], .int 2)]) 0 .none = .error .valueError := by rfl
example : normalize (ω := Unit) 4 (.list []) 0 .none = .error .valueError := by rfl
example : normalize (ω := Unit) 4 (.tuple [97] (.opts ())) 0 .none = .error .typeError := by rfl
example : unsubNormalize (.list []) = .error .valueError := by rfl
example : unsubNormalize (.list [[97], [98]]) = .ok [[97], [98]] := by rfl
example : unsubNormalize (.str []) = .error .valueError := by rfl

end Paho
