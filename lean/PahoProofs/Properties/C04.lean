/-
C04 — every emitted packet is well-formed and carries exactly the values supplied.
STATEMENTS TO PROVE. Encoders: Paho/Model/Codec.lean (model of the Python `_send_*` functions);
independent strict decoder: Paho/Spec/Wire.lean (`Spec.Wire.decode`), spec VBI: `Spec.vbi` (Paho/Spec/Props.lean).
-/
import Paho.Model.Codec
import Paho.Model.Session
import Paho.Spec.Props
import Paho.Spec.Wire
import PahoProofs.Lemmas.SessionDefs
import PahoProofs.Lemmas.Wire
import PahoProofs.Lemmas.CleanFlag

namespace Paho
open Spec.Wire (Packet WillS decode)
open WireLemmas CleanFlag

-- some hypotheses of the statements below (protocol range, …) are not needed by the proofs
set_option linter.unusedVariables false

/-- what a packed property block looks like: VBI length prefix + body (established for `Props.pack` by C17;
for `props = none` on MQTT 5 the block is `[0]`, i.e. body = []) -/
def IsBlock (pp body : Bytes) : Prop := pp = Spec.vbi body.length ++ body ∧ body.length ≤ 268435455

/-- property block (or its absence below MQTT 5) followed by the rest of the packet -/
theorem optProps_pp {proto : Nat} {props : Option Props} {pp body : Bytes}
    (hp : packProps proto props = .ok pp) (hb : proto = 5 → IsBlock pp body) (rest : Bytes) :
    Spec.Wire.optProps proto (pp ++ rest) = some (if proto = 5 then some body else none, rest) := by
  by_cases h5 : proto = 5
  · obtain ⟨rfl, hbl⟩ := hb h5
    subst h5
    simp [optProps_five body rest hbl]
  · rw [packProps_not_five hp h5, optProps_not_five _ h5]
    simp [h5]

/-! ## remaining length -/

/-- the remaining-length encoder produces the specification's minimal VBI for every length MQTT can express … -/
theorem c04_remlen_spec (n : Nat) (h : n ≤ 268435455) : remLenEncChecked n = .ok (Spec.vbi n) := by
  exact remLenEncChecked_ok n h
/-- … and raises for every other length: a five-byte remaining length is never emitted -/
theorem c04_remlen_reject (n : Nat) (h : n > 268435455) : remLenEncChecked n = .error .valueError := by
  exact remLenEncChecked_err n h
/-- the strict decoder inverts it -/
theorem c04_vbi_decode (n : Nat) (h : n ≤ 268435455) (tl : Bytes) :
    Spec.Wire.vbiDecode (Spec.vbi n ++ tl) = some (n, tl) := by
  exact vbiDecode_vbi n h tl

/-! ## framing: the announced remaining length is the real one -/

theorem c04_frame_publish (proto mid : Nat) (topic payload : Bytes) (qos : Nat) (retain dup : Bool)
    (props : Option Props) (bs : Bytes)
    (h : encPublish proto mid topic payload qos retain dup props = .ok bs) :
    ∃ hdr body, bs = hdr :: (Spec.vbi body.length ++ body) ∧ body.length ≤ 268435455 := by
  obtain ⟨pp, _, _, _, hlen, rfl⟩ := encPublish_inv h
  exact ⟨_, _, rfl, hlen⟩

theorem c04_frame_connect (a : ConnectArgs) (bs : Bytes) (h : encConnect a = .ok bs) :
    ∃ body, bs = 0x10 :: (Spec.vbi body.length ++ body) ∧ body.length ≤ 268435455 := by
  obtain ⟨cprops, wprops, _, _, _, _, _, _, _, hlen, rfl⟩ := encConnect_inv h
  exact ⟨_, rfl, hlen⟩

theorem c04_frame_subscribe (proto mid : Nat) (topics : List (Bytes × Nat)) (props : Option Props) (bs : Bytes)
    (h : encSubscribe proto mid topics props = .ok bs) :
    ∃ body, bs = 0x82 :: (Spec.vbi body.length ++ body) ∧ body.length ≤ 268435455 := by
  obtain ⟨pp, _, _, _, hlen, rfl⟩ := encSubscribe_inv h
  exact ⟨_, rfl, hlen⟩

theorem c04_frame_unsubscribe (proto mid : Nat) (topics : List Bytes) (props : Option Props) (bs : Bytes)
    (h : encUnsubscribe proto mid topics props = .ok bs) :
    ∃ body, bs = 0xA2 :: (Spec.vbi body.length ++ body) ∧ body.length ≤ 268435455 := by
  obtain ⟨pp, _, _, _, hlen, rfl⟩ := encUnsubscribe_inv h
  exact ⟨_, rfl, hlen⟩

/-! ## round trips through the independent decoder -/

/-- PUBLISH: the strict decoder recovers exactly dup, qos, retain, topic, packet id, property block and payload -/
theorem c04_roundtrip_publish (proto mid : Nat) (topic payload : Bytes) (qos : Nat) (retain dup : Bool)
    (props : Option Props) (pp body bs tl : Bytes)
    (hproto : proto = 3 ∨ proto = 4 ∨ proto = 5) (hq : qos ≤ 2) (hmid : qos > 0 → 1 ≤ mid) (hdup : qos = 0 → dup = false)
    (hp : packProps proto props = .ok pp) (hb : proto = 5 → IsBlock pp body)
    (h : encPublish proto mid topic payload qos retain dup props = .ok bs) :
    decode proto (bs ++ tl) =
      some (.publish dup qos retain topic (if qos > 0 then some mid else none) (if proto = 5 then some body else none) payload, tl) := by
  obtain ⟨pp', hpp', ht, hm, hlen, rfl⟩ := encPublish_inv h
  rw [hp] at hpp'
  cases hpp'
  rw [List.cons_append, List.append_assoc, decode_frame _ _ _ _ hlen, pubHdr_toNat _ _ _ hq]
  have hd := boolBit_le dup
  have hr := boolBit_le retain
  have e1 : (48 + 8 * boolBit dup + 2 * qos + boolBit retain) / 16 = 3 := by omega
  have e2 : (48 + 8 * boolBit dup + 2 * qos + boolBit retain) % 16 / 2 % 4 = qos := by omega
  have e3 : (48 + 8 * boolBit dup + 2 * qos + boolBit retain) % 16 / 8 % 2 = boolBit dup := by omega
  have e4 : (48 + 8 * boolBit dup + 2 * qos + boolBit retain) % 16 % 2 = boolBit retain := by omega
  have hq3 : qos ≠ 3 := by omega
  have hopt : Spec.Wire.optProps proto (pp ++ payload) = some (if proto = 5 then some body else none, payload) := by
    by_cases h5 : proto = 5
    · obtain ⟨rfl, hbl⟩ := hb h5
      subst h5
      simp [optProps_five body payload hbl]
    · rw [packProps_not_five hp h5, optProps_not_five _ h5]
      simp [h5]
  simp only [Spec.Wire.decodeBody, e1, e2, e3, e4, boolBit_eq_one, pubBody, lp_field topic _ ht]
  by_cases hq0 : qos > 0
  · have := hmid hq0
    have hm0 : mid ≠ 0 := by omega
    simp [hq0, hq3, u16_u16b mid (hm hq0), hm0, hopt, Nat.pos_iff_ne_zero.mp hq0]
  · have hq0' : qos = 0 := by omega
    simp [hq0', hdup hq0', hopt]

/-- PUBACK / PUBREC / PUBREL / PUBCOMP -/
theorem c04_roundtrip_ack (proto mid : Nat) (bs tl : Bytes) (k : Nat) (hk : k = 4 ∨ k = 5 ∨ k = 6 ∨ k = 7)
    (hmid : 1 ≤ mid ∧ mid ≤ 65535)
    (h : encCmdMid (if k = 6 then 0x62 else k * 16) mid false = .ok bs) :
    decode proto (bs ++ tl) = some (.ack k mid, tl) := by
  simp only [encCmdMid, bind_ok, pure_ok] at h
  obtain ⟨m, hm, rfl⟩ := h
  obtain ⟨_, rfl⟩ := packU16_nat_inv hm
  have hf := decode_frame proto (b8 (if k = 6 then 0x62 else k * 16)) (u16b mid) tl (by simp [u16b_length])
  have hu : Spec.Wire.u16 (u16b mid) = some (mid, []) := by
    simpa using u16_u16b mid hmid.2 []
  have hm0 : mid ≠ 0 := by omega
  rcases hk with rfl | rfl | rfl | rfl <;>
    simpa [u16b_length, Spec.vbi, Spec.Wire.decodeBody, b8_toNat, hu, hm0] using hf

theorem c04_roundtrip_ping (proto : Nat) (tl : Bytes) :
    decode proto (encPingreq ++ tl) = some (.pingreq, tl) ∧ decode proto (encPingresp ++ tl) = some (.pingresp, tl) := by
  constructor
  · have := decode_frame proto (b8 0xC0) [] tl (by simp)
    simpa [encPingreq, encSimple, Spec.vbi, Spec.Wire.decodeBody, b8_toNat] using this
  · have := decode_frame proto (b8 0xD0) [] tl (by simp)
    simpa [encPingresp, encSimple, Spec.vbi, Spec.Wire.decodeBody, b8_toNat] using this

/-- SUBSCRIBE: packet id, property block, and every (filter, options byte) pair in order -/
theorem c04_roundtrip_subscribe (proto mid : Nat) (topics : List (Bytes × Nat)) (props : Option Props) (pp body bs tl : Bytes)
    (hproto : proto = 3 ∨ proto = 4 ∨ proto = 5) (hmid : 1 ≤ mid) (hne : topics ≠ [])
    (hp : packProps proto props = .ok pp) (hb : proto = 5 → IsBlock pp body)
    (h : encSubscribe proto mid topics props = .ok bs) :
    decode proto (bs ++ tl) = some (.subscribe mid (if proto = 5 then some body else none) topics, tl) := by
  obtain ⟨pp', hpp', hm, hgood, hlen, rfl⟩ := encSubscribe_inv h
  rw [hp] at hpp'
  cases hpp'
  rw [List.cons_append, List.append_assoc, decode_frame _ _ _ _ hlen, b8_toNat 130 (by omega)]
  have hm0 : mid ≠ 0 := by omega
  obtain ⟨f, fs, rfl⟩ : ∃ f fs, topics = f :: fs := by
    cases topics with
    | nil => exact absurd rfl hne
    | cons f fs => exact ⟨f, fs, rfl⟩
  simp [Spec.Wire.decodeBody, u16_u16b mid hm, hm0, optProps_pp hp hb,
    subFilters_subBody _ hgood _ (Nat.le_refl _)]

theorem c04_roundtrip_unsubscribe (proto mid : Nat) (topics : List Bytes) (props : Option Props) (pp body bs tl : Bytes)
    (hproto : proto = 3 ∨ proto = 4 ∨ proto = 5) (hmid : 1 ≤ mid) (hne : topics ≠ [])
    (hp : packProps proto props = .ok pp) (hb : proto = 5 → IsBlock pp body)
    (h : encUnsubscribe proto mid topics props = .ok bs) :
    decode proto (bs ++ tl) = some (.unsubscribe mid (if proto = 5 then some body else none) topics, tl) := by
  obtain ⟨pp', hpp', hm, hgood, hlen, rfl⟩ := encUnsubscribe_inv h
  rw [hp] at hpp'
  cases hpp'
  rw [List.cons_append, List.append_assoc, decode_frame _ _ _ _ hlen, b8_toNat 162 (by omega)]
  have hm0 : mid ≠ 0 := by omega
  obtain ⟨f, fs, rfl⟩ : ∃ f fs, topics = f :: fs := by
    cases topics with
    | nil => exact absurd rfl hne
    | cons f fs => exact ⟨f, fs, rfl⟩
  simp [Spec.Wire.decodeBody, u16_u16b mid hm, hm0, optProps_pp hp hb,
    unsubFilters_unsubBody _ hgood _ (Nat.le_refl _)]

/-- DISCONNECT in all three encodings (bare, reason code only, reason code + properties) -/
theorem c04_roundtrip_disconnect (proto : Nat) (rc : Option Nat) (props : Option Props) (pp body bs tl : Bytes)
    (hproto : proto = 3 ∨ proto = 4 ∨ proto = 5) (hrc : ∀ r, rc = some r → r ≤ 255)
    (hp : ∀ p, props = some p → p.pack = .ok pp ∧ IsBlock pp body)
    (h : encDisconnect proto rc props = .ok bs) :
    decode proto (bs ++ tl) =
      some (if proto = 5 then
              (match rc, props with
               | none, none => .disconnect none none
               | _, none => .disconnect (some (rc.getD 0)) none
               | _, some _ => .disconnect (some (rc.getD 0)) (some body))
            else .disconnect none none, tl) := by
  have hbare : ∀ p, decode p ([b8 0xE0] ++ Spec.vbi 0 ++ tl) =
      (Spec.Wire.decodeBody p 14 0 []).map fun q => (q, tl) := by
    intro p
    have := decode_frame p (b8 0xE0) [] tl (by simp)
    simpa [b8_toNat] using this
  have hrc1 : ∀ r pp', r ≤ 255 → 1 + pp'.length ≤ 268435455 →
      decode 5 ([b8 0xE0] ++ Spec.vbi (1 + pp'.length) ++ [b8 r] ++ pp' ++ tl) =
      (Spec.Wire.decodeBody 5 14 0 (b8 r :: pp')).map fun q => (q, tl) := by
    intro r pp' hr hl
    have := decode_frame 5 (b8 0xE0) (b8 r :: pp') tl (by simp; omega)
    simpa [b8_toNat, Nat.add_comm] using this
  -- the two non-bare MQTT 5 encodings
  have hfull : ∀ r, r ≤ 255 → rc.getD 0 = r → (rc.isSome ∨ props.isSome) →
      (do
        let pp ← match props with
          | some p => p.pack
          | none => pure []
        let rlb ← remLenEncChecked (1 + pp.length)
        pure ([b8 0xE0] ++ rlb ++ [b8 r] ++ pp) : Except Exc Bytes) = .ok bs →
      decode 5 (bs ++ tl) = some (match props with
        | none => .disconnect (some r) none
        | some _ => .disconnect (some r) (some body), tl) := by
    intro r hr _ _ h
    cases props with
    | none =>
      simp only [bind_ok, pure_ok] at h
      obtain ⟨pp', rfl, rlb, hrl, rfl⟩ := h
      obtain ⟨hl, rfl⟩ := remLenEncChecked_inv hrl
      rw [hrc1 _ _ hr hl]
      simp [Spec.Wire.decodeBody, b8_toNat r (by omega)]
    | some p =>
      obtain ⟨hpk, rfl, hbl⟩ := hp p rfl
      simp only [hpk, bind_ok, pure_ok] at h
      obtain ⟨pp', hpp', rlb, hrl, rfl⟩ := h
      cases hpp'
      obtain ⟨hl, rfl⟩ := remLenEncChecked_inv hrl
      rw [hrc1 _ _ hr hl, decodeBody_disconnect_props _ _ hbl]
      simp [b8_toNat r (by omega)]
  by_cases h5 : proto = 5
  · subst h5
    unfold encDisconnect at h
    cases rc with
    | none =>
      cases props with
      | none =>
        simp only [if_true, bind_ok, pure_ok] at h
        obtain ⟨rlb, hrl, rfl⟩ := h
        obtain ⟨_, rfl⟩ := remLenEncChecked_inv hrl
        rw [hbare]; simp [Spec.Wire.decodeBody]
      | some p =>
        simp only [if_true] at h
        have := hfull 0 (by omega) rfl (by simp) h
        simpa using this
    | some r =>
      simp only [if_true] at h
      have := hfull r (hrc r rfl) rfl (by simp) h
      cases props <;> simpa using this
  · unfold encDisconnect at h
    simp only [h5, if_false, bind_ok, pure_ok] at h
    obtain ⟨rlb, hrl, rfl⟩ := h
    obtain ⟨_, rfl⟩ := remLenEncChecked_inv hrl
    rw [hbare]; simp [Spec.Wire.decodeBody, h5]

/-- CONNECT: protocol name/level, bridge bit, clean flag, keep-alive, client id, will (topic, payload, QoS,
retain, will properties), user name, password and CONNECT properties -/
theorem c04_roundtrip_connect (a : ConnectArgs) (pp wpp body wbody bs tl : Bytes)
    (hproto : a.proto = 3 ∨ a.proto = 4 ∨ a.proto = 5)
    (hwq : ∀ w, a.will = some w → w.qos ≤ 2)
    (hpw : a.password.isSome → a.username.isSome)
    (hp : packProps a.proto a.props = .ok pp) (hb : a.proto = 5 → IsBlock pp body)
    (hwp : ∀ w, a.will = some w → packProps a.proto w.props = .ok wpp ∧ (a.proto = 5 → IsBlock wpp wbody))
    (h : encConnect a = .ok bs) :
    decode a.proto (bs ++ tl) =
      some (.connect a.proto a.bridge a.cleanFlag a.keepalive.toNat a.clientId
              (a.will.map fun w => { topic := w.topic, payload := w.payload, qos := w.qos, retain := w.retain,
                                     props := if a.proto = 5 then some wbody else none })
              a.username a.password (if a.proto = 5 then some body else none), tl) := by
  obtain ⟨cprops, wprops, hc, hw, hk1, hk2, hcid, hwill, huser, hlen, rfl⟩ := encConnect_inv h
  rw [hp] at hc
  cases hc
  rw [List.cons_append, List.append_assoc, decode_frame _ _ _ _ hlen, b8_toNat 16 (by omega)]
  obtain ⟨hnl, hname⟩ := connName_ok a.proto hproto
  have hver := connVer_toNat a hproto
  have hfl : (b8 (connFlags a)).toNat = connFlagsVal a := by
    rw [connFlags_eq a hwq, b8_toNat _ (connFlagsVal_lt a hwq)]
  obtain ⟨f0, f1, f2, f3, f4, f5, f6⟩ := connFlagsVal_bits a hwq
  have hbr := boolBit_le a.bridge
  have v1 : (a.proto + 128 * boolBit a.bridge) % 128 = a.proto := by omega
  have v2 : (a.proto + 128 * boolBit a.bridge ≥ 128) = (a.bridge = true) := by
    cases hb' : a.bridge <;> simp [boolBit] <;> omega
  have hka : ∀ tl, Spec.Wire.u16 (u16b a.keepalive.toNat ++ tl) = some (a.keepalive.toNat, tl) :=
    u16_u16b _ (by omega)
  obtain ⟨proto, bridge, clean, ka, cid, will, user, pass, props⟩ := a
  simp only at *
  cases will with
  | none =>
    simp only [wpropsEnc, pure_ok] at hw
    subst hw
    cases user with
    | none =>
      have : pass = none := by
        cases pass with
        | none => rfl
        | some p => simp at hpw
      subst this
      simp [Spec.Wire.decodeBody, connBody, willBytes, userBytes, lp_field _ _ hnl, hver, hfl, v1, v2, hname,
        f0, f1, f2, f3, f4, f5, f6, hka, optProps_pp hp hb, lp_field_end _ hcid, boolBit_eq_one]
    | some u =>
      obtain ⟨hu, hpl⟩ := huser u rfl
      cases pass with
      | none =>
        simp [Spec.Wire.decodeBody, connBody, willBytes, userBytes, lp_field _ _ hnl, hver, hfl, v1, v2, hname,
          f0, f1, f2, f3, f4, f5, f6, hka, optProps_pp hp hb, lp_field _ _ hcid, lp_field_end _ hu, boolBit_eq_one]
      | some p =>
        have hpl' := hpl p rfl
        simp [Spec.Wire.decodeBody, connBody, willBytes, userBytes, lp_field _ _ hnl, hver, hfl, v1, v2, hname,
          f0, f1, f2, f3, f4, f5, f6, hka, optProps_pp hp hb, lp_field _ _ hcid, lp_field _ _ hu,
          lp_field_end _ hpl', boolBit_eq_one]
  | some w =>
    obtain ⟨hwp1, hwp2⟩ := hwp w rfl
    simp only [wpropsEnc] at hw
    rw [hwp1] at hw
    cases hw
    obtain ⟨hwt, hwpl⟩ := hwill w rfl
    have hq := hwq w rfl
    have hq3 : w.qos ≠ 3 := by omega
    cases user with
    | none =>
      have : pass = none := by
        cases pass with
        | none => rfl
        | some p => simp at hpw
      subst this
      simp [Spec.Wire.decodeBody, connBody, willBytes, userBytes, lp_field _ _ hnl, hver, hfl, v1, v2, hname,
        f0, f1, f2, f3, f4, f5, f6, hka, optProps_pp hp hb, optProps_pp hwp1 hwp2, lp_field _ _ hcid,
        lp_field _ _ hwt, lp_field_end _ hwpl, boolBit_eq_one, hq3]
    | some u =>
      obtain ⟨hu, hpl⟩ := huser u rfl
      cases pass with
      | none =>
        simp [Spec.Wire.decodeBody, connBody, willBytes, userBytes, lp_field _ _ hnl, hver, hfl, v1, v2, hname,
          f0, f1, f2, f3, f4, f5, f6, hka, optProps_pp hp hb, optProps_pp hwp1 hwp2, lp_field _ _ hcid,
          lp_field _ _ hwt, lp_field _ _ hwpl, lp_field_end _ hu, boolBit_eq_one, hq3]
      | some p =>
        have hpl' := hpl p rfl
        simp [Spec.Wire.decodeBody, connBody, willBytes, userBytes, lp_field _ _ hnl, hver, hfl, v1, v2, hname,
          f0, f1, f2, f3, f4, f5, f6, hka, optProps_pp hp hb, optProps_pp hwp1 hwp2, lp_field _ _ hcid,
          lp_field _ _ hwt, lp_field _ _ hwpl, lp_field _ _ hu, lp_field_end _ hpl', boolBit_eq_one, hq3]

/-! ## an input that cannot be represented is rejected, never emitted -/

theorem c04_reject_publish_size (proto mid : Nat) (topic payload : Bytes) (qos : Nat) (retain dup : Bool) (pp : Bytes)
    (props : Option Props) (hp : packProps proto props = .ok pp)
    (h : 2 + topic.length + payload.length + (if qos > 0 then 2 else 0) + pp.length > 268435455) :
    ∃ e, encPublish proto mid topic payload qos retain dup props = .error e := by
  refine ⟨.valueError, ?_⟩
  unfold encPublish
  simp [hp, bind, Except.bind, remLenEncChecked_err _ h]

theorem c04_reject_long_string (b : Bytes) (h : b.length > 65535) : str16 b = .error .structError := by
  exact str16_err b h

theorem c04_reject_mid (command : Nat) (mid : Int) (h : mid < 0 ∨ mid > 65535) :
    encCmdMid command mid false = .error .structError := by
  simp only [encCmdMid]
  rw [packU16_err mid h]
  rfl

theorem c04_reject_keepalive (a : ConnectArgs) (h : a.keepalive < 0 ∨ a.keepalive > 65535)
    (hp : ∃ pp, packProps a.proto a.props = .ok pp) (hw : ∀ w, a.will = some w → ∃ wpp, packProps a.proto w.props = .ok wpp)
    (hsize : True) :
    ∀ bs, encConnect a ≠ .ok bs := by
  intro bs hbs
  obtain ⟨_, _, _, _, h1, h2, _⟩ := encConnect_inv hbs
  omega

/-! ## the CONNECT clean flag (session level) -/

/-- MQTT 3: the flag equals clean_session on every CONNECT; MQTT 5 with an explicit clean_start: equals it -/
theorem c04_clean_flag_fixed (s : S) :
    (s.proto ≠ 5 → s.connectCleanFlag = decide (s.cfg.clean = 1)) ∧
    (s.proto = 5 → s.cfg.clean ≠ 3 → s.connectCleanFlag = decide (s.cfg.clean = 1)) := by
  constructor
  · intro h; simp [S.connectCleanFlag, h]
  · intro h h3; simp [S.connectCleanFlag, h, h3]

/-- MQTT 5 default (first-only): the CONNECT issued by connect() has the flag set -/
theorem c04_clean_first_connect (s : S) (ok : Bool) (hp : s.proto = 5) (hc : s.cfg.clean = 3) :
    ((if s.proto = 5 then { s with firstConnect := true } else s).connectAsync).connectCleanFlag = true := by
  have hk : key ((if s.proto = 5 then { s with firstConnect := true } else s).connectAsync) = ⟨s.cfg, 5, true⟩ := by
    simp [hp]
  simp only [key, Key.mk.injEq] at hk
  simp [S.connectCleanFlag, hk.1, hk.2.1, hk.2.2, hc]

/-- … and after a CONNACK with result 0 has been processed, every later reconnect() (until the next connect())
issues CONNECT with the flag clear. (Restated: the hypothesis used to read `rc = 0 ∨ rc ≥ 128`; since only a
successful CONNACK ends the "first connect", that statement is false for a refused CONNACK — witness
`c04_clean_refused_connack_witness` — and the refused case is `c04_clean_flag_refused_connack`.) -/
theorem c04_clean_after_connack (cfg : Cfg) (ops : List Op) (sp ok : Bool) (rc : Nat) (post : List Op)
    (hc : cfg.clean = 3)
    (hpost : ∀ op ∈ post, ∀ b, op ≠ .connect b)
    (hsock : (runFrom cfg 5 ops).sock.isSome)
    (hrc : rc = 0) :
    ((runFrom cfg 5 (ops ++ [.rx (.pkt (.connack sp rc)) ok] ++ post)).connectCleanFlag = false) ∨
    (∃ e, (runFrom cfg 5 (ops ++ [.rx (.pkt (.connack sp rc)) ok])).log.getLast? = some (.exc e)) := by
  have h0 : (S.init cfg 5 t0).proto = 5 := rfl
  have hs := run_cfg_proto ops (S.init cfg 5 t0) h0
  simp only [runFrom, run_append] at *
  generalize (S.init cfg 5 t0).run ops = s at *
  have hcfg : s.cfg = cfg := hs.1
  have h5 : s.proto = 5 := hs.2
  have hstep : S.run s [.rx (.pkt (.connack sp rc)) ok] = s.step (.rx (.pkt (.connack sp rc)) ok) := rfl
  rw [hstep]
  rcases loopRead_connack_five s sp rc ok h5 hsock hrc with ⟨n, hn⟩ | hk
  · right
    refine ⟨n, ?_⟩
    simp [S.step, S.emit, hn, hresEv]
  · left
    have hk' : key (s.step (.rx (.pkt (.connack sp rc)) ok)) = ⟨s.cfg, 5, false⟩ := by
      simpa [S.step] using hk
    simp only [key, Key.mk.injEq] at hk'
    have hf := run_fc_false post _ hk'.2.1 hk'.2.2 hpost
    have hr := run_cfg_proto post _ hk'.2.1
    simp [S.connectCleanFlag, hr.2, hr.1, hk'.1, hcfg, hc, hf]

/-- a CONNACK with a non-zero result (refused, or rejected by the reason code constructor) does not touch the flag:
the CONNECT a reconnect() would issue right after it carries the same clean start as one issued right before it.
Together with `c04_clean_after_connack`: the flag is cleared exactly by a CONNACK with result 0 -/
theorem c04_clean_flag_refused_connack (cfg : Cfg) (ops : List Op) (sp ok : Bool) (rc : Nat)
    (hrc : rc ≠ 0) :
    (runFrom cfg 5 (ops ++ [.rx (.pkt (.connack sp rc)) ok])).firstConnect = (runFrom cfg 5 ops).firstConnect ∧
    (runFrom cfg 5 (ops ++ [.rx (.pkt (.connack sp rc)) ok])).connectCleanFlag = (runFrom cfg 5 ops).connectCleanFlag := by
  have h0 : (S.init cfg 5 t0).proto = 5 := rfl
  have hs := run_cfg_proto ops (S.init cfg 5 t0) h0
  simp only [runFrom, run_append] at *
  generalize (S.init cfg 5 t0).run ops = s at *
  have hstep : S.run s [.rx (.pkt (.connack sp rc)) ok] = s.step (.rx (.pkt (.connack sp rc)) ok) := rfl
  rw [hstep]
  have hk : key (s.step (.rx (.pkt (.connack sp rc)) ok)) = key s := by
    simpa [S.step] using loopRead_connack_five_refused s sp rc ok hs.2 hrc
  refine ⟨?_, flag_of_key hk⟩
  simp only [key, Key.mk.injEq] at hk
  exact hk.2.2

/-- witness that the former statement of `c04_clean_after_connack` (with `rc ≥ 128` allowed) no longer holds:
connect(), then CONNACK 135 (Not authorized) on the live socket: no exception, and the flag is still armed -/
theorem c04_clean_refused_connack_witness :
    (runFrom { clean := 3 } 5 [.connect true]).sock.isSome = true ∧
    (runFrom { clean := 3 } 5 ([.connect true] ++ [.rx (.pkt (.connack false 135)) true] ++ [])).connectCleanFlag = true ∧
    ¬ (∃ e, (runFrom { clean := 3 } 5 ([.connect true] ++ [.rx (.pkt (.connack false 135)) true])).log.getLast?
        = some (.exc e)) := by
  have hl : (runFrom { clean := 3 } 5 ([.connect true] ++ [.rx (.pkt (.connack false 135)) true])).log.getLast?
      = some (.ret 2 none) := by decide +kernel
  refine ⟨by decide +kernel, by decide +kernel, ?_⟩
  rintro ⟨e, he⟩
  rw [hl] at he
  cases he

/-- FULL-STRENGTH statement of the property's clause "clears it on every automatic reconnection": FALSE on the
current code (known finding F12): the flag is cleared by the first processed CONNACK, not by the first CONNECT -/
def C04_clean_start_full : Prop :=
  ∀ (cfg : Cfg) (pre mid : List Op) (b : Bool), cfg.clean = 3 → (∀ op ∈ mid, ∀ x, op ≠ .connect x) →
    -- the CONNECT that a reconnect() issued now would carry clean start = 0
    (runFrom cfg 5 (pre ++ [.connect b] ++ mid)).connectCleanFlag = false

/-- witness: connect(), the connection dies before CONNACK, then the state still has the flag armed, so the
CONNECT of the automatic reconnection carries clean start = 1 -/
theorem c04_clean_start_full_false : ¬ C04_clean_start_full := by
  intro h
  have h1 := h { clean := 3 } [] [] true rfl (by simp)
  have hk := step_connect (S.init { clean := 3 } 5 t0) true
  have he : runFrom { clean := 3 } 5 ([] ++ [.connect true] ++ []) = (S.init { clean := 3 } 5 t0).step (.connect true) := rfl
  rw [he] at h1
  simp only [key, Key.mk.injEq] at hk
  rw [S.connectCleanFlag, hk.2.1, hk.2.2, hk.1] at h1
  simp [S.init] at h1

/-! ## non-vacuity: the hypotheses of the round-trip theorems are satisfiable on concrete packets -/

example : encPublish 4 1 [116] [1, 2] 1 false false none = .ok [50, 7, 0, 1, 116, 0, 1, 1, 2] := by
  simp [encPublish, packProps, remLenEncChecked_ok, Spec.vbi, str16, packU16, bind, Except.bind, pure, Except.pure,
    boolBit, b8]

example : decode 4 ([50, 7, 0, 1, 116, 0, 1, 1, 2] ++ [9]) =
    some (.publish false 1 false [116] (some 1) none [1, 2], [9]) := by
  have h : encPublish 4 1 [116] [1, 2] 1 false false none = .ok [50, 7, 0, 1, 116, 0, 1, 1, 2] := by
    simp [encPublish, packProps, remLenEncChecked_ok, Spec.vbi, str16, packU16, bind, Except.bind, pure, Except.pure,
      boolBit, b8]
  simpa using c04_roundtrip_publish 4 1 [116] [1, 2] 1 false false none [] [] _ [9] (by simp) (by simp) (by simp)
    (by simp) (by simp [packProps]) (by simp) h

example : encSubscribe 5 10 [([1, 2], 1)] none = .ok [130, 8, 0, 10, 0, 0, 2, 1, 2, 1] := by
  simp [encSubscribe, encSubEntries, packProps, remLenEncChecked_ok, Spec.vbi, str16, packU16, bind, Except.bind, pure,
    Except.pure, b8]

example : decode 5 ([130, 8, 0, 10, 0, 0, 2, 1, 2, 1] ++ []) = some (.subscribe 10 (some []) [([1, 2], 1)], []) := by
  have h : encSubscribe 5 10 [([1, 2], 1)] none = .ok [130, 8, 0, 10, 0, 0, 2, 1, 2, 1] := by
    simp [encSubscribe, encSubEntries, packProps, remLenEncChecked_ok, Spec.vbi, str16, packU16, bind, Except.bind,
      pure, Except.pure, b8]
  simpa using c04_roundtrip_subscribe 5 10 [([1, 2], 1)] none [0] [] _ [] (by simp) (by simp) (by simp)
    (by simp [packProps]) (fun _ => ⟨by simp [Spec.vbi], by simp⟩) h

/-- the CONNECT the session model itself issues (MQTT 5, clean start, keep-alive 60, client id "cid") -/
example : ∃ bs, encConnect ⟨5, false, true, 60, [99, 105, 100], none, none, none, none⟩ = .ok bs := by
  refine ⟨[16, 16, 0, 4, 77, 81, 84, 84, 5, 2, 0, 60, 0, 0, 3, 99, 105, 100], ?_⟩
  simp [encConnect, packProps, remLenEncChecked_ok, Spec.vbi, str16, packU16, bind, Except.bind, pure, Except.pure, b8]

/-- CONNECT with bridge bit, will (QoS 2, retain), user name and password, MQTT 5 -/
example : decode 5 ([16, 31, 0, 4, 77, 81, 84, 84, 133, 246, 0, 60, 0, 0, 3, 1, 2, 3, 0, 0, 1, 5, 0, 2, 6, 7, 0, 1, 8,
      0, 2, 9, 9] ++ [9]) =
    some (.connect 5 true true 60 [1, 2, 3]
      (some { topic := [5], payload := [6, 7], qos := 2, retain := true, props := some [] })
      (some [8]) (some [9, 9]) (some []), [9]) := by
  have h : encConnect ⟨5, true, true, 60, [1, 2, 3], some ⟨[5], [6, 7], 2, true, none⟩, some [8], some [9, 9], none⟩ =
      .ok [16, 31, 0, 4, 77, 81, 84, 84, 133, 246, 0, 60, 0, 0, 3, 1, 2, 3, 0, 0, 1, 5, 0, 2, 6, 7, 0, 1, 8,
        0, 2, 9, 9] := by
    simp [encConnect, packProps, remLenEncChecked_ok, Spec.vbi, str16, packU16, bind, Except.bind, pure, Except.pure,
      b8, boolBit]
  simpa using c04_roundtrip_connect _ [0] [0] [] [] _ [9] (by simp) (by simp) (by simp) (by simp [packProps])
    (fun _ => ⟨by simp [Spec.vbi], by simp⟩) (by simp [packProps, IsBlock, Spec.vbi]) h

end Paho
