/-
T1, translated methods of the session layer: `Client._check_clean_session` and `Client._messages_reconnect_reset_out`
(the rewind of the outgoing QoS handshake states that every reconnect performs), translated statement by statement from
the AST of the current source by py/py2lean.py (`Paho.Gen.FnSession`, regenerated on every run), equal the functions of the
hand-written session model that the theorems of C01 / C02 / C12 / C13 are stated about - for every configuration and every
message table.
-/
import Paho.Gen.FnSession
import Paho.Model.Session

namespace Paho.FnEq
open Paho Paho.Gen.Fn

/-- the integer value of `MessageState` (enums.py); the values the translated code uses are the generated constants -/
def msCode : MS → Int
  | .invalid => 0
  | .publish => c_mqtt_ms_publish
  | .waitPuback => c_mqtt_ms_wait_for_puback
  | .waitPubrec => c_mqtt_ms_wait_for_pubrec
  | .resendPubrel => c_mqtt_ms_resend_pubrel
  | .waitPubrel => 5
  | .resendPubcomp => 6
  | .waitPubcomp => c_mqtt_ms_wait_for_pubcomp
  | .sendPubrec => 8
  | .queued => c_mqtt_ms_queued

theorem msCode_inj (a b : MS) : msCode a = msCode b ↔ a = b := by
  cases a <;> cases b <;> decide

/-- the record the translated loop works on, for a message of the model (the model keeps no timestamps) -/
def absOut (ts : Int) (m : OutMsg) : PyOutMsg :=
  { timestamp := ts, qos := (m.qos : Int), state := msCode m.state, dup := m.dup }

/-- the configurations the client can be in: `clean_session` a bool (MQTT 3), `clean_start` a bool or
MQTT_CLEAN_START_FIRST_ONLY (MQTT 5) -/
def cleanOk (c : Cfg) : Prop := c.clean = 0 ∨ c.clean = 1 ∨ c.clean = 3

/-- **`Client._check_clean_session` as the source has it now = the model's `checkCleanSession`**, for every protocol
version and configuration -/
theorem fn_checkCleanSession (s : S) (hc : cleanOk s.cfg) :
    Gen.Fn.checkCleanSession (s.proto : Int) (s.cfg.clean : Int) s.firstConnect (decide (s.cfg.clean = 1))
      = .ok s.checkCleanSession := by
  unfold Gen.Fn.checkCleanSession S.checkCleanSession c_MQTTv5 c_MQTT_CLEAN_START_FIRST_ONLY
  rcases hc with h | h | h <;> by_cases hp : s.proto = 5 <;> simp [h, hp, pure, Except.pure] <;> omega

/-- one iteration of the loop of `_messages_reconnect_reset_out`: with the in-flight counter at 0 (where the method puts it,
and where it stays: the increments are commented out in the source) the window test always succeeds and the record is
rewound exactly as the model's `resetOutMsg` says; its timestamp is zeroed -/
theorem fn_resetOut_body (s : S) (hc : cleanOk s.cfg) (ts : Int) (m : OutMsg) :
    messagesReconnectResetOut_body 0 (s.cfg.maxInflight : Int) (s.proto : Int) (s.cfg.clean : Int) s.firstConnect
        (decide (s.cfg.clean = 1)) (absOut ts m)
      = .ok (0, absOut 0 (S.resetOutMsg s.checkCleanSession m)) := by
  have hw : (((s.cfg.maxInflight : Int) == 0) || decide ((0 : Int) < (s.cfg.maxInflight : Int))) = true := by
    by_cases h : s.cfg.maxInflight = 0
    · simp [h]
    · have : 0 < s.cfg.maxInflight := by omega
      simp [this]
  unfold messagesReconnectResetOut_body
  simp only [hw, fn_checkCleanSession s hc, bind, Except.bind, pure, Except.pure, if_true]
  unfold S.resetOutMsg absOut
  by_cases h0 : m.qos = 0
  · simp [h0, msCode]
  by_cases h1 : m.qos = 1
  · cases hs : m.state <;> simp [h1, msCode, c_mqtt_ms_publish, c_mqtt_ms_wait_for_puback, c_mqtt_ms_wait_for_pubrec,
      c_mqtt_ms_resend_pubrel, c_mqtt_ms_wait_for_pubcomp, c_mqtt_ms_queued]
  by_cases h2 : m.qos = 2
  · cases hcl : s.checkCleanSession <;> cases hs : m.state <;>
      simp [h2, msCode, c_mqtt_ms_publish, c_mqtt_ms_wait_for_puback, c_mqtt_ms_wait_for_pubrec,
        c_mqtt_ms_resend_pubrel, c_mqtt_ms_wait_for_pubcomp, c_mqtt_ms_queued]
  · have e0 : ((m.qos : Int) == 0) = false := by rw [beq_eq_false_iff_ne]; omega
    have e1 : ((m.qos : Int) == 1) = false := by rw [beq_eq_false_iff_ne]; omega
    have e2 : ((m.qos : Int) == 2) = false := by rw [beq_eq_false_iff_ne]; omega
    simp [h0, h1, h2, e0, e1, e2]

theorem fn_resetOut_loop (s : S) (hc : cleanOk s.cfg) (ts : OutMsg → Int) (ms : List OutMsg) :
    messagesReconnectResetOut_loop (s.cfg.maxInflight : Int) (s.proto : Int) (s.cfg.clean : Int) s.firstConnect
        (decide (s.cfg.clean = 1)) 0 (ms.map (fun m => absOut (ts m) m))
      = .ok (0, (ms.map (S.resetOutMsg s.checkCleanSession)).map (absOut 0)) := by
  induction ms with
  | nil => rfl
  | cons m rest ih =>
    simp only [List.map_cons, messagesReconnectResetOut_loop, fn_resetOut_body s hc, ih, bind, Except.bind, pure,
      Except.pure]

/-- **`Client._messages_reconnect_reset_out` as the source has it now = the model's `messagesReconnectResetOut`**: for every
state of the model (any protocol version, clean-session / clean-start setting, window size, counter value) and every stored
message table, the translated method leaves `_inflight_messages = 0` and the table whose records are those of the model's
result, in the same order, with their timestamps zeroed. In particular the QoS 2 branch keeps a message that has seen its
PUBREC in `resend_pubrel` in a persistent session (C02), sets DUP only on messages that had been sent (C02), and never
parks a message as `queued` (the window test is vacuous here - known finding F4, C12). -/
theorem fn_messagesReconnectResetOut (s : S) (hc : cleanOk s.cfg) (ts : OutMsg → Int) :
    Gen.Fn.messagesReconnectResetOut s.inflight (s.cfg.maxInflight : Int) (s.proto : Int) (s.cfg.clean : Int) s.firstConnect
        (decide (s.cfg.clean = 1)) (s.out.map (fun m => absOut (ts m) m))
      = .ok (s.messagesReconnectResetOut.inflight, s.messagesReconnectResetOut.out.map (absOut 0)) := by
  unfold Gen.Fn.messagesReconnectResetOut
  simp only [fn_resetOut_loop s hc ts, S.messagesReconnectResetOut]

/-- the hypothesis is met by every configuration the drivers use, e.g. the default one -/
example : cleanOk ({} : Cfg) := by unfold cleanOk; decide

end Paho.FnEq
