/-
C20 — one-shot helpers publish every message once, in order, and return what arrived.
Theorems about the helpers' callback logic (Paho.Model.Helpers), for all message lists / arrival sequences.
-/
import Paho.Model.Helpers

namespace Paho.Helpers

/-- invariant of the publish loop: published ++ queue is the original list -/
theorem runMultiple_inv (fuel : Nat) (s : PubSt) (msgs : List Msg)
    (h : s.published ++ s.queue = msgs) :
    (runMultiple fuel s).published ++ (runMultiple fuel s).queue = msgs := by
  induction fuel generalizing s with
  | zero => simpa [runMultiple] using h
  | succ n ih =>
    unfold runMultiple
    split
    · exact h
    · apply ih
      unfold onPublish
      split
      · simpa using h
      · unfold doPublish
        cases hq : s.queue with
        | nil => simp_all
        | cons m rest => simp [hq] at h ⊢; exact h

/-- with enough fuel the loop ends disconnected with an empty queue -/
theorem runMultiple_done (fuel : Nat) (s : PubSt) (hf : s.queue.length < fuel) :
    (runMultiple fuel s).disconnected = true ∧ (runMultiple fuel s).queue = [] ∨ s.disconnected = true := by
  induction fuel generalizing s with
  | zero => omega
  | succ n ih =>
    unfold runMultiple
    by_cases hd : s.disconnected = true
    · right; exact hd
    · left
      simp only [hd, if_false, Bool.false_eq_true]
      cases hq : s.queue with
      | nil =>
        have : (onPublish s) = { s with disconnected := true } := by simp [onPublish, hq]
        rw [this]
        cases n with
        | zero => simp [runMultiple, hq]
        | succ k => simp [runMultiple, hq]
      | cons m rest =>
        have hstep : onPublish s = { s with queue := rest, published := s.published ++ [m] } := by
          simp [onPublish, doPublish, hq]
        rw [hstep]
        have hlen : ({ s with queue := rest, published := s.published ++ [m] } : PubSt).queue.length < n := by
          simp [hq] at hf ⊢; omega
        rcases ih _ hlen with h | h
        · exact h
        · simp at h; exact absurd h hd

/-- MAIN (publish.multiple / single): for every non-empty message list, against a responsive conforming broker the
helper hands every message to publish() exactly once, in list order, with its topic, payload, QoS and retain flag
unchanged, then calls disconnect() — and nothing else -/
theorem c20_multiple (msgs : List Msg) (hne : msgs ≠ []) :
    ∃ s, multiple msgs = some s ∧ s.published = msgs ∧ s.queue = [] ∧ s.disconnected = true := by
  unfold multiple onConnect
  have hlen : msgs.length > 0 := List.length_pos_iff.mpr hne
  simp only [if_true, hlen]
  cases hm : msgs with
  | nil => exact absurd hm hne
  | cons m rest =>
    simp only [doPublish, List.nil_append, List.length_cons]
    refine ⟨_, rfl, ?_⟩
    have hinv := runMultiple_inv (rest.length + 1 + 1) { queue := rest, published := [m] } (m :: rest) (by simp)
    have hdone := runMultiple_done (rest.length + 1 + 1) { queue := rest, published := [m] }
      (by show rest.length < rest.length + 1 + 1; omega)
    rcases hdone with ⟨hd, hq⟩ | hd
    · rw [hq] at hinv
      simp at hinv
      exact ⟨hinv, hq, hd⟩
    · simp at hd

/-- publish.single is multiple with a one-element list -/
theorem c20_single (m : Msg) : ∃ s, multiple [m] = some s ∧ s.published = [m] ∧ s.disconnected = true := by
  obtain ⟨s, h1, h2, _, h4⟩ := c20_multiple [m] (by simp)
  exact ⟨s, h1, h2, h4⟩

/-- a refused CONNACK makes the helper raise instead of publishing -/
theorem c20_refused (msgs : List Msg) (rc : Nat) (h : rc ≠ 0) : onConnect { queue := msgs } rc = .error () := by
  simp [onConnect, h]

/-! ### subscribe.simple -/

/-- number of messages still wanted, what was collected so far: closed form of the fold -/
theorem simple_fold (s : SubSt) (arrivals : List InMsg) (hm : s.single = false) :
    let kept := arrivals.filter (keep s.retained)
    (arrivals.foldl onMessageSimple s).messages = s.messages ++ kept.take s.msgCount ∧
    (arrivals.foldl onMessageSimple s).msgCount = s.msgCount - kept.length ∧
    (arrivals.foldl onMessageSimple s).retained = s.retained ∧
    (arrivals.foldl onMessageSimple s).single = false := by
  induction arrivals generalizing s with
  | nil => simp [hm]
  | cons m rest ih =>
    simp only [List.foldl_cons]
    by_cases h0 : s.msgCount = 0
    · have hs : onMessageSimple s m = s := by simp [onMessageSimple, h0]
      rw [hs]
      have := ih s hm
      simp only [h0, List.take_zero, List.append_nil, Nat.zero_sub] at this ⊢
      exact this
    · by_cases hk : keep s.retained m = true
      · have hnr : ¬ (m.retain = true ∧ (!s.retained) = true) := by
          unfold keep at hk
          intro ⟨a, b⟩
          simp [a] at hk
          simp [hk] at b
        have hstep : (onMessageSimple s m).messages = s.messages ++ [m] ∧ (onMessageSimple s m).msgCount = s.msgCount - 1
            ∧ (onMessageSimple s m).retained = s.retained ∧ (onMessageSimple s m).single = false := by
          unfold onMessageSimple
          simp only [h0, if_false, hnr, hm, Bool.false_eq_true, false_and]
          split <;> simp
        obtain ⟨h1, h2, h3, h4⟩ := hstep
        have := ih (onMessageSimple s m) h4
        rw [h1, h2, h3] at this
        simp only [List.filter_cons, hk, if_true, List.length_cons]
        obtain ⟨a, b, c, d⟩ := this
        refine ⟨?_, ?_, c, d⟩
        · rw [a]
          cases hc : s.msgCount with
          | zero => exact absurd hc h0
          | succ k => simp [List.take_succ_cons]
        · rw [b]; omega
      · have hk' : keep s.retained m = false := by simpa using hk
        have hdrop : onMessageSimple s m = s := by
          unfold keep at hk'
          simp only [Bool.or_eq_false_iff, Bool.not_eq_false'] at hk'
          simp [onMessageSimple, h0, hk'.1, hk'.2]
        rw [hdrop]
        have := ih s hm
        simp only [List.filter_cons, hk', Bool.false_eq_true, if_false]
        exact this

/-- MAIN (subscribe.simple, msg_count > 1): whatever arrives, the helper collects exactly the first msg_count messages
that are not excluded by retained=False, in arrival order -/
theorem c20_simple_list (n : Nat) (retained : Bool) (arrivals : List InMsg) (hn : n ≥ 2) :
    (simple n retained arrivals).messages = ((arrivals.filter (keep retained)).take n) := by
  have hs : (simpleInit n retained).single = false := by
    simp [simpleInit]; omega
  have := (simple_fold (simpleInit n retained) arrivals hs).1
  simpa [simple, simpleInit] using this

/-- … and disconnects exactly when the msg_count-th such message has arrived -/
theorem c20_simple_list_disconnects (n : Nat) (retained : Bool) (arrivals : List InMsg) (hn : n ≥ 2) :
    (simple n retained arrivals).msgCount = n - (arrivals.filter (keep retained)).length := by
  have hs : (simpleInit n retained).single = false := by
    simp [simpleInit]; omega
  have := (simple_fold (simpleInit n retained) arrivals hs).2.1
  simpa [simple, simpleInit] using this

/-- msg_count = 1: the first kept message is returned as a bare object, later ones are ignored -/
theorem c20_simple_one (retained : Bool) (arrivals : List InMsg) :
    (simple 1 retained arrivals).result = (arrivals.filter (keep retained)).head? ∧
    (simple 1 retained arrivals).messages = [] := by
  unfold simple
  suffices h : ∀ (s : SubSt), s.single = true → s.messages = [] → s.retained = retained →
      ((s.msgCount = 1 ∧ s.result = none) ∨ (s.msgCount = 0)) →
      (arrivals.foldl onMessageSimple s).result = (if s.msgCount = 0 then s.result else (arrivals.filter (keep retained)).head?) ∧
      (arrivals.foldl onMessageSimple s).messages = [] by
    have := h (simpleInit 1 retained) (by simp [simpleInit]) (by simp [simpleInit]) (by simp [simpleInit]) (by simp [simpleInit])
    simpa [simpleInit] using this
  induction arrivals with
  | nil => intro s _ hm _ hc; rcases hc with ⟨h1, h2⟩ | h0 <;> simp_all
  | cons m rest ih =>
    intro s hs hm hr hc
    simp only [List.foldl_cons]
    rcases hc with ⟨h1, h2⟩ | h0
    · by_cases hk : keep retained m = true
      · have hnr : ¬ (m.retain = true ∧ (!s.retained) = true) := by
          rw [hr]; unfold keep at hk
          intro ⟨a, b⟩
          simp [a] at hk
          simp [hk] at b
        have hstep : onMessageSimple s m = { s with msgCount := 0, result := some m, disconnected := true } := by
          have hnr' : m.retain = true → s.retained = false → False := by
            intro a b; exact hnr ⟨a, by simp [b]⟩
          unfold onMessageSimple
          simp [h1, hs, h2]
          intro a b; exact (hnr' a b).elim
        rw [hstep]
        have := ih { s with msgCount := 0, result := some m, disconnected := true } hs hm hr (Or.inr rfl)
        simp only [if_true] at this
        simp [h1, hk, this.1, this.2]
      · have hk' : keep retained m = false := by simpa using hk
        have hdrop : onMessageSimple s m = s := by
          unfold keep at hk'
          simp only [Bool.or_eq_false_iff, Bool.not_eq_false'] at hk'
          simp [onMessageSimple, h1, hr, hk'.1, hk'.2]
        rw [hdrop]
        have := ih s hs hm hr (Or.inl ⟨h1, h2⟩)
        simp only [h1, Nat.succ_ne_zero, if_false] at this ⊢
        simp [hk', this.1, this.2]
    · have hdrop : onMessageSimple s m = s := by simp [onMessageSimple, h0]
      rw [hdrop]
      have := ih s hs hm hr (Or.inr h0)
      simpa [h0] using this

/-- non-vacuity -/
example : (multiple [⟨[116], [1], 0, false⟩, ⟨[117], [2], 2, true⟩]).map (·.published.length) = some 2 := by decide
example : (simple 2 false [⟨[116], [], 0, true⟩, ⟨[116], [1], 0, false⟩, ⟨[116], [2], 1, false⟩, ⟨[116], [3], 1, false⟩]).messages.map (·.payload)
    = [[1], [2]] := by decide

end Paho.Helpers
