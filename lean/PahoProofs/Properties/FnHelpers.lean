/-
T1, translated callbacks of the one-shot helpers: `subscribe._on_message_simple`, `subscribe._on_connect`,
`publish._do_publish`, `publish._on_connect`, `publish._on_publish`, translated statement by statement from the AST of the
current source by py/py2lean.py (`Paho.Gen.FnHelpers`, regenerated on every run), equal the functions of the hand-written
helper model (`Paho.Model.Helpers`) that the theorems of C20 are stated about - new userdata and the calls made on the
client, in order.
-/
import Paho.Gen.FnHelpers
import Paho.Model.Helpers

namespace Paho.FnEq
open Paho Paho.Py Paho.Gen.Fn Paho.Helpers

/-! ### subscribe.py -/

/-- an inbound message as the callback sees it (`tag` names everything the callback does not look at) -/
def absIn (tag : InMsg → Nat) (m : InMsg) : PyInMsg := { retain := m.retain, tag := tag m }

/-- the `userdata` dictionary of subscribe.simple for a state of the model: `messages` is `None` until the single message
of the msg_count = 1 form has arrived, otherwise the list -/
def absUD (tag : InMsg → Nat) (s : SubSt) : SimpleUD :=
  { msg_count := (s.msgCount : Int), retained := s.retained,
    messages := if s.single then (match s.result with | some m => .one (absIn tag m) | none => .none)
                else .many (s.messages.map (absIn tag)) }

/-- the states subscribe.simple can be in: the msg_count = 1 form holds no list, counts down from 1 and has no result
before the count reaches 0 -/
def SimpleInv (s : SubSt) : Prop :=
  (s.single = true → s.msgCount ≤ 1 ∧ s.messages = [] ∧ (s.msgCount = 1 → s.result = none)) ∧
  (s.single = false → s.result = none)

theorem simpleInit_inv (n : Nat) (r : Bool) : SimpleInv (simpleInit n r) := by
  unfold SimpleInv simpleInit
  by_cases h : n = 1 <;> simp [h]

theorem onMessageSimple_inv (s : SubSt) (m : InMsg) (h : SimpleInv s) :
    SimpleInv (Helpers.onMessageSimple s m) := by
  unfold SimpleInv at *
  unfold Helpers.onMessageSimple
  obtain ⟨h1, h2⟩ := h
  by_cases h0 : s.msgCount = 0
  · rw [if_pos h0]; exact ⟨h1, h2⟩
  by_cases hk : (m.retain = true ∧ s.retained = false)
  · have : (decide (m.retain = true) && !s.retained) = true := by simp [hk]
    have hk2 : (m.retain = true ∧ (!s.retained) = true) := by simp [hk]
    rw [if_neg h0, if_pos hk2]; exact ⟨h1, h2⟩
  have hk2 : ¬ (m.retain = true ∧ (!s.retained) = true) := by
    intro h; apply hk; cases hr : s.retained <;> simp_all
  rw [if_neg h0, if_neg hk2]
  by_cases hs : s.single = true
  · obtain ⟨a, b, c⟩ := h1 hs
    have h1' : s.msgCount = 1 := by omega
    have hr := c h1'
    simp [hs, b, hr, h1']
  · have hs' : s.single = false := by simpa using hs
    have hr := h2 hs'
    by_cases h1' : s.msgCount - 1 = 0 <;> simp [hs', hr, h1']

/-- the calls `_on_message_simple` makes on the client: `disconnect()` exactly when the message is kept and it is the last
one wanted -/
def simpleEffs (s : SubSt) (m : InMsg) : List HEff :=
  if s.msgCount = 1 ∧ ¬ (m.retain = true ∧ s.retained = false) then [.disconnect] else []

/-- **`subscribe._on_message_simple` as the source has it now = the model's `onMessageSimple`**, for every state
subscribe.simple can be in and every message: the new `userdata` is the model's, no exception is raised, and `disconnect()`
is called exactly when the model sets its flag -/
theorem fn_onMessageSimple (tag : InMsg → Nat) (s : SubSt) (m : InMsg) (h : SimpleInv s) :
    Gen.Fn.onMessageSimple (absUD tag s) (absIn tag m)
      = .ok (absUD tag (Helpers.onMessageSimple s m), simpleEffs s m) ∧
    (Helpers.onMessageSimple s m).disconnected = (s.disconnected || !(simpleEffs s m).isEmpty) := by
  obtain ⟨h1, h2⟩ := h
  unfold Gen.Fn.onMessageSimple Helpers.onMessageSimple simpleEffs absUD absIn
  by_cases hs : s.single = true
  · obtain ⟨a, b, c⟩ := h1 hs
    by_cases h0 : s.msgCount = 0
    · simp [h0, hs, b, pure, Except.pure, bind, Except.bind]
    · have h1' : s.msgCount = 1 := by omega
      have hr := c h1'
      by_cases hk : (m.retain = true ∧ s.retained = false)
      · simp [hk, hs, b, hr, h1', pure, Except.pure, bind, Except.bind]
      · have hk' : (m.retain && !s.retained) = false := by
          cases hm : m.retain <;> cases hrr : s.retained <;> simp_all
        simp [hk, hk', hs, b, hr, h1', pure, Except.pure, bind, Except.bind, PyMsgs.isNone]
  · have hs' : s.single = false := by simpa using hs
    have hr := h2 hs'
    by_cases h0 : s.msgCount = 0
    · simp [h0, hs', hr, pure, Except.pure, bind, Except.bind]
    · by_cases hk : (m.retain = true ∧ s.retained = false)
      · have h0' : ((s.msgCount : Int) == 0) = false := by rw [beq_eq_false_iff_ne]; omega
        simp [h0, h0', hk, hs', hr, pure, Except.pure, bind, Except.bind]
      · have hk' : (m.retain && !s.retained) = false := by
          cases hm : m.retain <;> cases hrr : s.retained <;> simp_all
        have h0' : ((s.msgCount : Int) == 0) = false := by rw [beq_eq_false_iff_ne]; omega
        by_cases h1' : s.msgCount = 1
        · simp [h0, hk, hk', hs', hr, h1', pure, Except.pure, bind, Except.bind, PyMsgs.isNone, PyMsgs.append]
        · have h2' : ((s.msgCount : Int) - 1 == 0) = false := by rw [beq_eq_false_iff_ne]; omega
          have h3' : ¬ (s.msgCount - 1 = 0) := by omega
          simp [h0, h0', hk, hk', hs', hr, h1', h2', h3', pure, Except.pure, bind, Except.bind, PyMsgs.isNone, PyMsgs.append]
          omega

/-- the hypothesis of `fn_onMessageSimple` holds in every state subscribe.simple reaches, for every arrival sequence -/
theorem simple_inv (n : Nat) (r : Bool) (arrivals : List InMsg) : SimpleInv (simple n r arrivals) := by
  unfold simple
  suffices h : ∀ s, SimpleInv s → SimpleInv (arrivals.foldl Helpers.onMessageSimple s) from h _ (simpleInit_inv n r)
  induction arrivals with
  | nil => intro s hs; exact hs
  | cons a rest ih => intro s hs; exact ih _ (onMessageSimple_inv s a hs)

/-- **`subscribe._on_connect` as the source has it now**: a refused CONNACK raises; otherwise the helper subscribes to the
given topics - each element of a list, in list order, or the single value - with the given QoS, and does nothing else
(C20: 'subscribes to the given topics') -/
theorem fn_subOnConnect (ud : SubUD) (rc : Int) :
    Gen.Fn.subOnConnect ud rc =
      if rc ≠ 0 then .error .mqttException
      else .ok (ud, match ud.topics with
                    | .list l => l.map (fun t => HEff.subscribe (.single t) ud.qos)
                    | .single t => [HEff.subscribe (.single t) ud.qos]) := by
  unfold Gen.Fn.subOnConnect
  by_cases h : rc = 0
  · cases ht : ud.topics <;> simp [h, ht, pure, Except.pure, bind, Except.bind, PyTopics.isList, PyTopics.items]
  · have h' : (rc != 0) = true := by simpa using h
    simp [h, h', throw, throwThe, MonadExceptOf.throw, bind, Except.bind]

/-! ### publish.py -/

/-- an element of `msgs` as `_do_publish` sees it: `form` is what `isinstance` reports, `tag` its contents -/
def absPub (form : Msg → PyForm) (tag : Msg → Nat) (m : Msg) : PyPubMsg := { form := form m, tag := tag m }

/-- the call `_do_publish` makes for a message -/
def pubEff (form : Msg → PyForm) (tag : Msg → Nat) (m : Msg) : HEff :=
  if form m = .dict then .publishKw (absPub form tag m) else .publishArgs (absPub form tag m)

/-- every message is a dict, a tuple or a list (anything else makes `_do_publish` raise TypeError: `fn_doPublish_other`) -/
def formsOk (form : Msg → PyForm) : Prop := ∀ m, form m = .dict ∨ form m = .seq

/-- **`publish._do_publish` as the source has it now = the model's `doPublish`**: the head of the deque is removed and handed
to `client.publish()` (as keyword arguments for a dict, as positional arguments for a tuple / list); on an empty deque
`popleft()` raises IndexError (the callers test the length first) -/
theorem fn_doPublish (form : Msg → PyForm) (tag : Msg → Nat) (hf : formsOk form) (s : PubSt) :
    Gen.Fn.doPublish (s.queue.map (absPub form tag)) =
      match s.queue with
      | [] => .error .indexError
      | m :: _ => .ok ((Helpers.doPublish s).queue.map (absPub form tag), [pubEff form tag m]) := by
  unfold Gen.Fn.doPublish
  cases hq : s.queue with
  | nil => simp [popleft, bind, Except.bind]
  | cons m rest =>
    rcases hf m with h | h <;>
      simp [popleft, bind, Except.bind, pure, Except.pure, Helpers.doPublish, hq, absPub, pubEff, h]

/-- a message that is neither a dict nor a tuple / list makes `_do_publish` raise TypeError -/
theorem fn_doPublish_other (m : PyPubMsg) (rest : List PyPubMsg) (h : m.form = .other) :
    Gen.Fn.doPublish (m :: rest) = .error .typeError := by
  unfold Gen.Fn.doPublish
  simp [popleft, bind, Except.bind, h, throw, throwThe, MonadExceptOf.throw]

/-- **`publish._on_connect` = the model's `onConnect`**: an accepted CONNACK publishes the first message (if any), a refused
one raises MQTTException -/
theorem fn_pubOnConnect (form : Msg → PyForm) (tag : Msg → Nat) (hf : formsOk form) (s : PubSt) (rc : Nat) :
    Gen.Fn.pubOnConnect (s.queue.map (absPub form tag)) (rc : Int) =
      match Helpers.onConnect s rc with
      | .error _ => .error .mqttException
      | .ok s' => .ok (s'.queue.map (absPub form tag), (s.queue.take 1).map (pubEff form tag)) := by
  unfold Gen.Fn.pubOnConnect Helpers.onConnect
  by_cases h : rc = 0
  · subst h
    cases hq : s.queue with
    | nil => simp [pure, Except.pure, bind, Except.bind, hq]
    | cons m rest =>
      have := fn_doPublish form tag hf s
      rw [hq] at this
      simp only [List.map_cons] at this
      simp [pure, Except.pure, bind, Except.bind, this, hq]
  · have h' : ((rc : Int) == 0) = false := by rw [beq_eq_false_iff_ne]; omega
    simp [h, h', throw, throwThe, MonadExceptOf.throw, bind, Except.bind]

/-- **`publish._on_publish` = the model's `onPublish`**: with the deque empty the helper calls `disconnect()`, otherwise it
publishes the next message -/
theorem fn_pubOnPublish (form : Msg → PyForm) (tag : Msg → Nat) (hf : formsOk form) (s : PubSt) :
    Gen.Fn.pubOnPublish (s.queue.map (absPub form tag)) =
      .ok ((Helpers.onPublish s).queue.map (absPub form tag),
           match s.queue with
           | [] => [HEff.disconnect]
           | m :: _ => [pubEff form tag m]) ∧
    (Helpers.onPublish s).disconnected = (s.disconnected || s.queue.isEmpty) := by
  unfold Gen.Fn.pubOnPublish Helpers.onPublish
  cases hq : s.queue with
  | nil => simp [pure, Except.pure, bind, Except.bind]
  | cons m rest =>
    have := fn_doPublish form tag hf s
    rw [hq] at this
    simp only [List.map_cons] at this
    have hne : ((((rest.length : Int) + 1) == 0) = false) := by rw [beq_eq_false_iff_ne]; omega
    simp [pure, Except.pure, bind, Except.bind, this, hq, hne, Helpers.doPublish]

end Paho.FnEq
