/-
C15 — per-topic callbacks: exactly the matching handlers run, else on_message.
Corollaries of the trie theorems (C11) for `Paho.Dispatch` (model of `_handle_on_message`,
`message_callback_add`, `message_callback_remove`).
-/
import Paho.Model.Dispatch
import PahoProofs.Properties.C11

namespace Paho
open Node

/-- a topic that is not valid UTF-8 is delivered to on_message only -/
theorem c15_invalid_utf8 (d : Dispatch) (topic : Bytes) (h : utf8Valid topic = false) :
    d.invoked topic = d.onMessage.toList := by
  simp [Dispatch.invoked, h]

/-- valid UTF-8: the per-topic callbacks found by the trie, or on_message if there is none -/
theorem c15_valid (d : Dispatch) (topic : Bytes) (h : utf8Valid topic = true) :
    d.invoked topic =
      (if (d.filtered.iterMatch topic).isEmpty then d.onMessage.toList else d.filtered.iterMatch topic) := by
  simp [Dispatch.invoked, h]

/-- the registrations the specification says match `topic` -/
def Dispatch.matching (d : Dispatch) (topic : Bytes) : List Nat :=
  ((toList d.filtered).filter
    (fun kv => Spec.matchesL (Spec.isDollarTopic topic) kv.1 (splitTopic topic))).map (·.2)

/-- MAIN: for every registration state whose filters are valid and every wildcard-free UTF-8 topic, the callbacks
invoked are exactly (a permutation of = each once) the registered callbacks whose filter matches per the MQTT
specification; on_message is used if and only if no registered filter matches. -/
theorem c15_exact (d : Dispatch) (topic : Bytes) (hu : utf8Valid topic = true)
    (hwf : WFN d.filtered) (hvalid : ∀ kv ∈ toList d.filtered, Spec.validLevels kv.1 = true)
    (htopic : NoWildLevel (splitTopic topic)) :
    (d.matching topic ≠ [] → (d.invoked topic).Perm (d.matching topic)) ∧
    (d.matching topic = [] → d.invoked topic = d.onMessage.toList) := by
  have hp := c11_iter d.filtered topic hwf hvalid htopic
  rw [c15_valid d topic hu]
  constructor
  · intro hne
    have : (d.filtered.iterMatch topic) ≠ [] := by
      intro he
      rw [he] at hp
      exact hne (List.Perm.nil_eq hp).symm
    simp only [List.isEmpty_iff, this, if_false]
    exact hp
  · intro he
    unfold Dispatch.matching at he
    rw [he] at hp
    have : d.filtered.iterMatch topic = [] := List.Perm.eq_nil hp
    simp [this]

/-- registering: afterwards `sub` maps to the new callback and every other filter is untouched -/
theorem c15_add (d : Dispatch) (hwf : WFN d.filtered) (sub : Bytes) (cb : Nat) (k : List Level) :
    get k (d.add sub cb).filtered = if k = splitTopic sub then some cb else get k d.filtered := by
  simp only [Dispatch.add]
  exact c11_get_insert d.filtered hwf (splitTopic sub) k cb

theorem c15_add_wf (d : Dispatch) (hwf : WFN d.filtered) (sub : Bytes) (cb : Nat) :
    WFN (d.add sub cb).filtered := by
  simp only [Dispatch.add]
  exact c11_insert_wf d.filtered hwf (splitTopic sub) cb

/-- removing: afterwards `sub` is not registered and every other filter is untouched; removing a filter that is
not registered changes nothing that lookups can see -/
theorem c15_remove (d : Dispatch) (hwf : WFN d.filtered) (sub : Bytes) (k : List Level) :
    get k (d.remove sub).filtered = if k = splitTopic sub then none else get k d.filtered := by
  unfold Dispatch.remove
  cases hd : delete (splitTopic sub) d.filtered with
  | some t' =>
    simp only
    exact c11_get_delete d.filtered t' hwf (splitTopic sub) k (splitTopic_ne_nil sub) hd
  | none =>
    simp only
    by_cases hk : k = splitTopic sub
    · subst hk
      simp only [if_true]
      -- the path is not even present, so nothing is stored under it
      cases hg : get (splitTopic sub) d.filtered with
      | none => rfl
      | some v =>
        obtain ⟨t', ht'⟩ := c11_delete_stored d.filtered (splitTopic sub) v hg
        rw [hd] at ht'
        exact absurd ht' (by simp)
    · simp [hk]

theorem c15_remove_wf (d : Dispatch) (hwf : WFN d.filtered) (sub : Bytes) :
    WFN (d.remove sub).filtered := by
  unfold Dispatch.remove
  cases hd : delete (splitTopic sub) d.filtered with
  | some t' => exact c11_delete_wf d.filtered t' hwf (splitTopic sub) hd
  | none => exact hwf

/-- the initial registration state is well-formed, so every state reached by add/remove is -/
theorem c15_init_wf : WFN ({} : Dispatch).filtered := by
  simp [Node.empty, WFN, WFL]

end Paho
