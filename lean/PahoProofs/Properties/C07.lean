/-
C07 — concurrent publish() with the background loop: the theorems are in three files
(C07Mid: packet ids and lock-protected sections; C07Wake: queue / wake-up pipe / writer; C07Lock: lock order),
all about the transition systems of Paho/Model/Threads.lean, over ALL schedules.
-/
import PahoProofs.Properties.C07Mid
import PahoProofs.Properties.C07Wake
import PahoProofs.Properties.C07Lock
