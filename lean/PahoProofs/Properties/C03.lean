/-
C03 — inbound QoS 2 delivered exactly once; acknowledgements follow the callback.
STATEMENTS TO PROVE. `s` ranges over ALL states (no reachability needed) unless stated.
-/
import Paho.Model.Session
import Paho.Model.SessionInv
import PahoProofs.Lemmas.SessionDefs
import PahoProofs.Lemmas.InSpec

namespace Paho

def isOnMessage : Ev → Bool
  | .onMessage _ => true
  | _ => false

/-- index of the first event satisfying `p` -/
def firstIdx (p : Ev → Bool) (l : List Ev) : Option Nat := l.findIdx? p

/-- bytes of PUBACK / PUBREC / PUBCOMP for a packet id, as the code encodes them -/
def ackBytes (cmd mid : Nat) : Bytes := [b8 cmd, 2, b8 (mid / 256), b8 (mid % 256)]

section helpers
open InLemmas

/-- events allowed by `PB (fun _ => True) False` are not `on_message` -/
theorem not_onMessage_of_PB {e : Ev} (h : PB (fun _ => True) False e) : (!isOnMessage e) = true := by
  cases e <;> first | rfl | exact h.elim

theorem all_not_onMessage {evs : List Ev} (h : ∀ e ∈ evs, PB (fun _ => True) False e) :
    evs.all (fun e => !isOnMessage e) = true :=
  List.all_eq_true.mpr fun e he => not_onMessage_of_PB (h e he)

theorem filter_onMessage_nil {evs : List Ev} (h : ∀ e ∈ evs, PB (fun _ => True) False e) :
    evs.filter isOnMessage = [] := by
  refine List.filter_eq_nil_iff.mpr ?_
  intro e he
  have := not_onMessage_of_PB (h e he)
  simpa using this

theorem PB_true_of_P0 {evs : List Ev} (h : ∀ e ∈ evs, P0 e) : ∀ e ∈ evs, PB (fun _ => True) False e :=
  fun e he => PB_of_P0 (h e he)

/-- shape of the `rx` step: handler events, then events of the tail (no `queued`, no `on_message`) -/
theorem rx_step_shape (s : S) (p : S.RxPkt) (ok : Bool) {c : Nat} (hs : s.sock = some c) {hevs : List Ev}
    (hh : (s.packetHandle p ok).1.log = s.log ++ hevs) :
    ∃ tl, newEvents s (.rx (.pkt p) ok) = hevs ++ tl ∧ (∀ e ∈ tl, P0 e)
      ∧ (s.step (.rx (.pkt p) ok)).inm = (s.packetHandle p ok).1.inm := by
  have hfr := step_rx_fr (B := fun _ => False) (k := False) p ok hs
  obtain ⟨tl, htl, hP⟩ := hfr.lg
  refine ⟨tl, ?_, hP, hfr.inm⟩
  apply newEvents_eq
  rw [htl, hh, List.append_assoc]

theorem any_mid_of_find_none {l : List InMsg} {mid : Nat}
    (h : l.find? (fun x => decide (x.mid = mid)) = none) : l.any (fun x => decide (x.mid = mid)) = false := by
  rw [List.any_eq_false]
  intro x hx
  exact List.find?_eq_none.mp h x hx

theorem any_mid_of_find_some {l : List InMsg} {mid : Nat} {m : InMsg}
    (h : l.find? (fun x => decide (x.mid = mid)) = some m) : l.any (fun x => decide (x.mid = mid)) = true := by
  rw [List.any_eq_true]
  exact ⟨m, List.mem_of_find?_eq_some h, List.find?_some (p := fun (x : InMsg) => decide (x.mid = mid)) h⟩

theorem any_mid_filter_ne (l : List InMsg) (mid : Nat) :
    (l.filter (fun x => decide (x.mid ≠ mid))).any (fun x => decide (x.mid = mid)) = false := by
  rw [List.any_eq_false]
  intro x hx
  have := (List.mem_filter.mp hx).2
  simpa using this

theorem lg_newEvents {P : Ev → Prop} {s : S} {op : Op} (h : Lg P s (s.step op)) : ∀ e ∈ newEvents s op, P e := by
  obtain ⟨evs, he, hP⟩ := h
  rw [newEvents_eq he]
  exact hP

/-- the inbound store after the delivery of a PUBLISH is the one left by `_handle_publish` -/
theorem rx_publish_inm (s : S) (m : InMsg) (ok : Bool) :
    (s.step (.rx (.pkt (.publish m)) ok)).inm = s.inm ∨
      (m.qos = 2 ∧ (s.step (.rx (.pkt (.publish m)) ok)).inm =
        (if s.inm.any (fun x => decide (x.mid = m.mid)) then s.inm.map (fun x => if x.mid = m.mid then m else x)
         else s.inm ++ [m])) := by
  rcases hs : s.sock with _ | c
  · left; rw [step_rx_none _ ok hs]; rfl
  · have h := (step_rx_fr (B := fun _ => True) (k := True) (.publish m) ok hs).inm
    rw [h]
    exact handlePublish_inm m

/-- invariant of the inbound store: distinct packet ids, QoS 2 only -/
def InmInv (l : List InMsg) : Prop := (l.map (·.mid)).Nodup ∧ ∀ m ∈ l, m.qos = 2

theorem InmInv.filter {l : List InMsg} (h : InmInv l) (p : InMsg → Bool) : InmInv (l.filter p) :=
  ⟨h.1.sublist (List.filter_sublist.map _), fun m hm => h.2 m (List.mem_filter.mp hm).1⟩

theorem nodup_store {l : List InMsg} (m : InMsg) (h : (l.map (·.mid)).Nodup) :
    ((if l.any (fun x => decide (x.mid = m.mid)) then l.map (fun x => if x.mid = m.mid then m else x)
      else l ++ [m]).map (·.mid)).Nodup := by
  split
  · have : (l.map (fun x => if x.mid = m.mid then m else x)).map (·.mid) = l.map (·.mid) := by
      rw [List.map_map]
      apply List.map_congr_left
      intro x _
      show (if x.mid = m.mid then m else x).mid = x.mid
      split
      · rename_i hx; exact hx.symm
      · rfl
    rw [this]; exact h
  · rename_i hany
    rw [List.map_append, List.nodup_append]
    refine ⟨h, by simp, ?_⟩
    intro a ha b hb
    simp only [List.map_cons, List.map_nil, List.mem_singleton] at hb
    subst hb
    obtain ⟨x, hx, rfl⟩ := List.mem_map.mp ha
    intro hxm
    apply hany
    rw [List.any_eq_true]
    exact ⟨x, hx, by simpa using hxm⟩

theorem InmInv.store {l : List InMsg} (h : InmInv l) (m : InMsg) (hq : m.qos = 2) :
    InmInv (if l.any (fun x => decide (x.mid = m.mid)) then l.map (fun x => if x.mid = m.mid then m else x)
      else l ++ [m]) := by
  refine ⟨nodup_store m h.1, ?_⟩
  split
  · intro x hx
    obtain ⟨y, hy, rfl⟩ := List.mem_map.mp hx
    split
    · exact hq
    · exact h.2 y hy
  · intro x hx
    rcases List.mem_append.mp hx with hx | hx
    · exact h.2 x hx
    · simp only [List.mem_singleton] at hx; subst hx; exact hq

theorem step_inmInv (s : S) (op : Op) (h : InmInv s.inm) : InmInv (s.step op).inm := by
  by_cases hp : ∃ m ok, op = .rx (.pkt (.publish m)) ok
  · obtain ⟨m, ok, rfl⟩ := hp
    rcases rx_publish_inm s m ok with he | ⟨hq, he⟩
    · rw [he]; exact h
    · rw [he]; exact h.store m hq
  · have hfw := step_fw (s := s) (B := fun _ => True) (Q := fun _ => True) (k := True) good_true
      (fun _ _ => trivial) op (fun m ok e => hp ⟨m, ok, e⟩) (fun _ _ _ => ⟨trivial, fun _ _ _ => trivial⟩)
      (fun _ _ _ _ _ _ _ _ => trivial)
    obtain ⟨p, hp'⟩ := hfw.inm
    rw [hp']
    exact h.filter p

theorem run_inmInv (ops : List Op) : ∀ (s : S), InmInv s.inm → InmInv (s.run ops).inm := by
  induction ops with
  | nil => intro s h; exact h
  | cons op ops ih =>
    intro s h
    exact ih (s.step op) (step_inmInv s op h)

theorem runFrom_inmInv (cfg : Cfg) (proto : Nat) (ops : List Op) : InmInv (runFrom cfg proto ops).inm :=
  run_inmInv ops _ ⟨List.nodup_nil, fun _ h => nomatch h⟩

/-- with `on_message` first and no other one, its index is 0 and every other event comes later -/
theorem first_onMessage_order {m : InMsg} {rest : List Ev} {q : Ev} (hq : isOnMessage q = false)
    (hrest : ∀ e ∈ rest, (!isOnMessage e) = true) (i j : Nat)
    (hi : (Ev.onMessage m :: rest)[i]? = some (Ev.onMessage m)) (hj : (Ev.onMessage m :: rest)[j]? = some q) :
    i < j := by
  have hi0 : i = 0 := by
    cases i with
    | zero => rfl
    | succ i =>
      simp only [List.getElem?_cons_succ] at hi
      have := hrest _ (List.mem_of_getElem? hi)
      simp [isOnMessage] at this
  have hj0 : j ≠ 0 := by
    rintro rfl
    simp only [List.getElem?_cons_zero, Option.some.injEq] at hj
    subst hj
    simp [isOnMessage] at hq
  omega

end helpers

/-- every inbound QoS 2 PUBLISH (valid topic) on an open socket is answered with PUBREC (handed to the
connection) and is NOT delivered at that time -/
theorem c03_pubrec (s : S) (m : InMsg) (ok : Bool) (c : Nat) (hs : s.sock = some c) (hq : m.qos = 2)
    (hmid : m.mid ≤ 65535) (ht : s.proto = 5 ∨ m.topic ≠ []) :
    let evs := newEvents s (.rx (.pkt (.publish m)) ok)
    Ev.queued c (ackBytes 0x50 m.mid) ∈ evs ∧ evs.all (fun e => !isOnMessage e) = true
      ∧ (s.step (.rx (.pkt (.publish m)) ok)).inm.any (·.mid = m.mid) = true := by
  obtain ⟨hl, hi⟩ := InLemmas.handlePublish_qos2 (s := s) m hq ht
  obtain ⟨evs1, he1, hP1⟩ := InLemmas.sendCmdMid_first (s := s) 0x50 m.mid true hs hmid
  have hh : (s.packetHandle (.publish m) ok).1.log = s.log ++ (Ev.queued c (ackBytes 0x50 m.mid) :: evs1) := by
    show (s.handlePublish m).1.log = _
    rw [hl, he1]; rfl
  obtain ⟨tl, hev, hPtl, hinm2⟩ := rx_step_shape s (.publish m) ok hs hh
  intro evs
  refine ⟨?_, ?_, ?_⟩
  · show _ ∈ newEvents s (.rx (.pkt (.publish m)) ok)
    rw [hev]; simp
  · show (newEvents s (.rx (.pkt (.publish m)) ok)).all _ = true
    rw [hev, List.all_append, List.all_cons, all_not_onMessage (PB_true_of_P0 hP1),
      all_not_onMessage (PB_true_of_P0 hPtl)]
    rfl
  · rw [hinm2]
    show (s.handlePublish m).1.inm.any _ = true
    rw [hi]
    split
    · rename_i hany
      rw [List.any_eq_true] at hany ⊢
      obtain ⟨x, hx, hxm⟩ := hany
      refine ⟨m, List.mem_map.mpr ⟨x, hx, ?_⟩, by simp⟩
      have : x.mid = m.mid := by simpa using hxm
      rw [if_pos this]
    · simp

/-- every PUBREL on an open socket is answered with PUBCOMP, known id or not, unless manual_ack is on or the
callback's exception propagates -/
theorem c03_pubcomp (s : S) (mid : Nat) (ok : Bool) (c : Nat) (hs : s.sock = some c) (hmid : mid ≤ 65535)
    (hman : s.cfg.manualAck = false) (hraise : s.raiseOnMessage = 0 ∨ s.cfg.suppress = true) :
    Ev.queued c (ackBytes 0x70 mid) ∈ newEvents s (.rx (.pkt (.pubrel mid)) ok) := by
  obtain ⟨evs, hlog, hP, hinm, hq⟩ := InLemmas.handlePubrel_spec (s := s) mid
  have hh : (s.packetHandle (.pubrel mid) ok).1.log
      = s.log ++ ((s.inm.find? (fun x => decide (x.mid = mid))).toList.map Ev.onMessage ++ evs) := by
    show (s.handlePubrel mid).1.log = _
    rw [hlog, List.append_assoc]
  obtain ⟨tl, hev, _, _⟩ := rx_step_shape s (.pubrel mid) ok hs hh
  rw [hev]
  have := hq c hs hmid hman hraise
  exact List.mem_append_left _ (List.mem_append_right _ this)

/-- exactly once: PUBREL delivers the stored message exactly once iff its id is stored, and removes it -/
theorem c03_pubrel_once (s : S) (mid : Nat) (ok : Bool) (hs : s.sock.isSome) :
    let evs := newEvents s (.rx (.pkt (.pubrel mid)) ok)
    (evs.filter isOnMessage).length = (if s.inm.any (·.mid = mid) then 1 else 0)
      ∧ (s.step (.rx (.pkt (.pubrel mid)) ok)).inm.any (·.mid = mid) = false := by
  obtain ⟨c, hc⟩ := Option.isSome_iff_exists.mp hs
  obtain ⟨evs, hlog, hP, hinm, _⟩ := InLemmas.handlePubrel_spec (s := s) mid
  have hh : (s.packetHandle (.pubrel mid) ok).1.log
      = s.log ++ ((s.inm.find? (fun x => decide (x.mid = mid))).toList.map Ev.onMessage ++ evs) := by
    show (s.handlePubrel mid).1.log = _
    rw [hlog, List.append_assoc]
  obtain ⟨tl, hev, hPtl, hinm2⟩ := rx_step_shape s (.pubrel mid) ok hc hh
  intro evs'
  refine ⟨?_, ?_⟩
  · show ((newEvents s (.rx (.pkt (.pubrel mid)) ok)).filter isOnMessage).length = _
    rw [hev, List.filter_append, List.filter_append, filter_onMessage_nil hP,
      filter_onMessage_nil (PB_true_of_P0 hPtl)]
    rcases hf : s.inm.find? (fun x => decide (x.mid = mid)) with _ | m
    · rw [any_mid_of_find_none hf, hf]; rfl
    · rw [any_mid_of_find_some hf, hf]; rfl
  · rw [hinm2]
    show (s.handlePubrel mid).1.inm.any _ = false
    rw [hinm]
    exact any_mid_filter_ne _ _

/-- the delivered message is the stored one -/
theorem c03_pubrel_delivers_stored (s : S) (mid : Nat) (ok : Bool) (m : InMsg) (hs : s.sock.isSome)
    (hm : s.inm.find? (·.mid = mid) = some m) :
    Ev.onMessage m ∈ newEvents s (.rx (.pkt (.pubrel mid)) ok) := by
  obtain ⟨c, hc⟩ := Option.isSome_iff_exists.mp hs
  obtain ⟨evs, hlog, hP, hinm, _⟩ := InLemmas.handlePubrel_spec (s := s) mid
  have hh : (s.packetHandle (.pubrel mid) ok).1.log = s.log ++ (Ev.onMessage m :: evs) := by
    show (s.handlePubrel mid).1.log = _
    have hm' : s.inm.find? (fun x => decide (x.mid = mid)) = some m := hm
    rw [hlog, hm', List.append_assoc]
    rfl
  obtain ⟨tl, hev, _, _⟩ := rx_step_shape s (.pubrel mid) ok hc hh
  rw [hev]
  simp

/-- a repeated QoS 2 PUBLISH with the same id does not create a second stored entry -/
theorem c03_dup_publish_no_second_entry (s : S) (m : InMsg) (ok : Bool) (hs : s.sock.isSome) (hq : m.qos = 2)
    (hnd : (s.inm.map (·.mid)).Nodup) :
    ((s.step (.rx (.pkt (.publish m)) ok)).inm.map (·.mid)).Nodup := by
  have _ := hs
  have _ := hq
  rcases rx_publish_inm s m ok with he | ⟨_, he⟩
  · rw [he]; exact hnd
  · rw [he]; exact nodup_store m hnd

/-- stored inbound ids stay pairwise distinct in every reachable state -/
theorem c03_inm_nodup (cfg : Cfg) (proto : Nat) (ops : List Op) :
    ((runFrom cfg proto ops).inm.map (·.mid)).Nodup :=
  (runFrom_inmInv cfg proto ops).1

/-- on_message fires only in steps that deliver a PUBLISH (QoS 0/1) or a PUBREL -/
theorem c03_on_message_only_rx (s : S) (op : Op)
    (h : ∀ m ok, op ≠ .rx (.pkt (.publish m)) ok) (h' : ∀ mid ok, op ≠ .rx (.pkt (.pubrel mid)) ok) :
    (newEvents s op).all (fun e => !isOnMessage e) = true := by
  have hfw := InLemmas.step_fw (s := s) (B := fun _ => True) (Q := fun _ => True) (k := False) InLemmas.good_true
    (fun _ _ => trivial) op h (fun mid ok e => absurd e (h' mid ok)) (fun _ _ _ _ _ _ _ _ => trivial)
  exact all_not_onMessage (lg_newEvents hfw.lg)

/-- QoS 1: delivered exactly once per packet; PUBACK is handed to the connection after the callback, and
only if the callback's exception does not propagate and manual_ack is off -/
theorem c03_qos1 (s : S) (m : InMsg) (ok : Bool) (c : Nat) (hs : s.sock = some c) (hq : m.qos = 1)
    (hmid : m.mid ≤ 65535) (ht : s.proto = 5 ∨ m.topic ≠ []) :
    let evs := newEvents s (.rx (.pkt (.publish m)) ok)
    let raised := decide (s.raiseOnMessage > 0) && !s.cfg.suppress
    (evs.filter isOnMessage) = [Ev.onMessage m] ∧
    ((Ev.queued c (ackBytes 0x40 m.mid) ∈ evs) ↔ (s.cfg.manualAck = false ∧ raised = false)) ∧
    (∀ i j : Nat, evs[i]? = some (Ev.onMessage m) → evs[j]? = some (Ev.queued c (ackBytes 0x40 m.mid)) → i < j) := by
  have hspec := InLemmas.handlePublish_qos1 (s := s) m hq ht
  have hl1 := InLemmas.handleOnMessage_log (s := s) m
  have hs1 : (s.handleOnMessage m).1.sock = some c := (InLemmas.handleOnMessage_sock m).trans hs
  -- the events of the handler: `on_message`, then possibly the PUBACK and what `loop_write` does
  have key : ∃ rest, newEvents s (.rx (.pkt (.publish m)) ok) = Ev.onMessage m :: rest
      ∧ (∀ e ∈ rest, (!isOnMessage e) = true)
      ∧ (Ev.queued c (ackBytes 0x40 m.mid) ∈ rest ↔
          (s.cfg.manualAck = false ∧ (decide (s.raiseOnMessage > 0) && !s.cfg.suppress) = false)) := by
    by_cases hr : (decide (s.raiseOnMessage > 0) && !s.cfg.suppress) = true
    · rw [if_pos hr] at hspec
      have hh : (s.packetHandle (.publish m) ok).1.log = s.log ++ [Ev.onMessage m] := by
        show (s.handlePublish m).1.log = _
        rw [hspec, hl1]
      obtain ⟨tl, hev, hPtl, _⟩ := rx_step_shape s (.publish m) ok hs hh
      refine ⟨tl, hev, fun e he => not_onMessage_of_PB (InLemmas.PB_of_P0 (hPtl e he)), ?_⟩
      constructor
      · intro hmem; exact (hPtl _ hmem).elim
      · intro h; rw [hr] at h; cases h.2
    · rw [if_neg hr] at hspec
      by_cases hm : s.cfg.manualAck = true
      · rw [if_pos hm] at hspec
        have hh : (s.packetHandle (.publish m) ok).1.log = s.log ++ [Ev.onMessage m] := by
          show (s.handlePublish m).1.log = _
          rw [hspec, hl1]
        obtain ⟨tl, hev, hPtl, _⟩ := rx_step_shape s (.publish m) ok hs hh
        refine ⟨tl, hev, fun e he => not_onMessage_of_PB (InLemmas.PB_of_P0 (hPtl e he)), ?_⟩
        constructor
        · intro hmem; exact (hPtl _ hmem).elim
        · intro h; rw [hm] at h; cases h.1
      · rw [if_neg hm] at hspec
        obtain ⟨evs1, he1, hP1⟩ := InLemmas.sendCmdMid_first (s := (s.handleOnMessage m).1) 0x40 m.mid true hs1 hmid
        have hh : (s.packetHandle (.publish m) ok).1.log
            = s.log ++ (Ev.onMessage m :: Ev.queued c (ackBytes 0x40 m.mid) :: evs1) := by
          show (s.handlePublish m).1.log = _
          rw [hspec, he1, hl1, List.append_assoc]; rfl
        obtain ⟨tl, hev, hPtl, _⟩ := rx_step_shape s (.publish m) ok hs hh
        refine ⟨Ev.queued c (ackBytes 0x40 m.mid) :: evs1 ++ tl, by rw [hev]; rfl, ?_, ?_⟩
        · intro e he
          rcases List.mem_append.mp he with he | he
          · rcases List.mem_cons.mp he with he | he
            · subst he; rfl
            · exact not_onMessage_of_PB (InLemmas.PB_of_P0 (hP1 e he))
          · exact not_onMessage_of_PB (InLemmas.PB_of_P0 (hPtl e he))
        · constructor
          · intro _
            exact ⟨by simpa using hm, by simpa using hr⟩
          · intro _; simp
  obtain ⟨rest, hev, hrest, hiff⟩ := key
  intro evs raised
  have hevs : evs = Ev.onMessage m :: rest := hev
  refine ⟨?_, ?_, ?_⟩
  · rw [hevs, List.filter_cons]
    have : List.filter isOnMessage rest = [] := by
      refine List.filter_eq_nil_iff.mpr ?_
      intro e he
      have := hrest e he
      simpa using this
    rw [this]; rfl
  · rw [hevs, List.mem_cons]
    constructor
    · rintro (h | h)
      · cases h
      · exact hiff.mp h
    · intro h; exact Or.inr (hiff.mpr h)
  · intro i j hi hj
    rw [hevs] at hi hj
    exact first_onMessage_order (by rfl) hrest i j hi hj

/-- manual acknowledgement: with manual_ack on, no PUBACK/PUBCOMP is queued by any step other than ack() -/
-- STATEMENT CHANGED: hypothesis `hout` (every stored outgoing message has QoS ≤ 2, true in every reachable
-- state: `publish()` rejects other values) added. Without it the statement is false for arbitrary states: the
-- PUBLISH header byte is `0x30 ||| dup<<<3 ||| qos<<<1 ||| retain`, which for a stored message with qos = 32
-- is 0x70 (PUBCOMP's first byte). Counterexample (evaluated): `s` = a connected session (manual_ack on,
-- max_inflight 1, inflight 1) with `out = [⟨mid 1, qos 1, waitPuback⟩, ⟨mid 2, qos 32, queued⟩]`; the step
-- `.rx (.pkt (.puback 1)) true` runs `_update_inflight`, which sends message 2 and emits
-- `Ev.queued 1 [112, 5, 0, 1, 97, 0, 2]` (112 = 0x70).
theorem c03_manual (s : S) (op : Op) (hman : s.cfg.manualAck = true) (hop : ∀ m q, op ≠ .ack m q)
    (hout : ∀ m ∈ s.out, m.qos ≤ 2) :
    ∀ c b, Ev.queued c b ∈ newEvents s op → b.head? ≠ some 0x40 ∧ b.head? ≠ some 0x70 := by
  have hlg : InLemmas.Lg (InLemmas.PB InLemmas.NotAck True) s (s.step op) := by
    by_cases hp : ∃ m ok, op = .rx (.pkt (.publish m)) ok
    · obtain ⟨m, ok, rfl⟩ := hp
      rcases hs : s.sock with _ | c
      · rw [InLemmas.step_rx_none _ ok hs]
        exact InLemmas.Lg.emit InLemmas.Lg.refl trivial
      · exact InLemmas.Lg.trans (InLemmas.handlePublish_lg_manual m hman)
          (InLemmas.step_rx_fr (B := InLemmas.NotAck) (k := True) (.publish m) ok hs).lg
    · exact (InLemmas.step_fw (s := s) (k := True) InLemmas.good_notAck hout op
        (fun m ok e => hp ⟨m, ok, e⟩)
        (fun _ _ _ => ⟨trivial, fun hm => by rw [hman] at hm; cases hm⟩)
        (fun m q e => absurd e (hop m q))).lg
  intro c b hmem
  exact lg_newEvents hlg _ hmem

/-- `c03_manual` for reachable states: the added hypothesis `hout` is an invariant of the model, so in
every reachable state the property holds as originally stated -/
theorem c03_manual_reachable (cfg : Cfg) (proto : Nat) (ops : List Op) (op : Op)
    (hman : (runFrom cfg proto ops).cfg.manualAck = true) (hop : ∀ m q, op ≠ .ack m q) :
    ∀ c b, Ev.queued c b ∈ newEvents (runFrom cfg proto ops) op → b.head? ≠ some 0x40 ∧ b.head? ≠ some 0x70 :=
  c03_manual _ op hman hop (InLemmas.runFrom_qosOk cfg proto ops)

/-- session reset: a clean session forgets half-received QoS 2 messages on reconnect, a persistent one keeps them -/
theorem c03_reset_clean (s : S) (hc : s.checkCleanSession = true) : s.messagesReconnectResetIn.inm = [] := by
  unfold S.messagesReconnectResetIn
  rw [if_pos hc]
theorem c03_reset_persistent (s : S) (hc : s.checkCleanSession = false) (hq : ∀ m ∈ s.inm, m.qos = 2) :
    s.messagesReconnectResetIn.inm = s.inm := by
  unfold S.messagesReconnectResetIn
  rw [if_neg (by rw [hc]; decide)]
  show s.inm.filter (fun x => decide (x.qos = 2)) = s.inm
  refine List.filter_eq_self.mpr ?_
  intro m hm
  simpa using hq m hm
/-- only QoS 2 messages are ever stored -/
theorem c03_inm_qos2 (cfg : Cfg) (proto : Nat) (ops : List Op) : ∀ m ∈ (runFrom cfg proto ops).inm, m.qos = 2 :=
  (runFrom_inmInv cfg proto ops).2

/-! ### non-vacuity: the hypotheses are met by reachable states (external event loop, so that the
evaluation never enters the socket write path) -/

section nonvacuity

private def m7 : InMsg := { mid := 7, qos := 2, dup := false, retain := false, topic := [97], payload := [1, 2] }

/-- connected session holding one half-received QoS 2 message -/
private def sStored : S :=
  runFrom { ext := true } 4 [.connect true, .rx (.pkt (.connack false 0)) true, .rx (.pkt (.publish m7)) true]

example : sStored.sock = some 1 ∧ sStored.inm = [m7] := by decide

example : Ev.onMessage m7 ∈ newEvents sStored (.rx (.pkt (.pubrel 7)) true) :=
  c03_pubrel_delivers_stored sStored 7 true m7 (by decide) (by decide)

example : Ev.queued 1 (ackBytes 0x70 7) ∈ newEvents sStored (.rx (.pkt (.pubrel 7)) true) :=
  c03_pubcomp sStored 7 true 1 (by decide) (by decide) (by decide) (by decide)

/-- the hypotheses of `c03_manual` hold in a reachable state -/
example : ∀ c b, Ev.queued c b ∈ newEvents
      (runFrom { ext := true, manualAck := true } 4 [.connect true, .rx (.pkt (.connack false 0)) true])
      (.rx (.pkt (.pubrel 7)) true) → b.head? ≠ some 0x40 ∧ b.head? ≠ some 0x70 :=
  c03_manual _ _ (by decide) (fun _ _ h => nomatch h) (by decide)

end nonvacuity

end Paho
