/-
C05 (composition) — the MQTT packet reader on top of the WebSocket wrapper: `Client._packet_read` with
`self._sock` = `_WebsocketWrapper` (`packetReadWs` / `drainWs`, Paho/Model/ReaderWs.lean).
ALL PROVED, for every list of well-formed server frames (any opcodes, FIN/RSV bits, masked or not, any length form),
every chunking of their encoding into raw `recv()` results (would-block anywhere, EOF / error or nothing at the end;
no empty chunk) — frame boundaries, packet boundaries and chunk boundaries unrelated:
* `packetReadOn_recvN`, `drain_eq_drainOn`: the reader / pump of C05 are the generic reader / pump over `recvN`;
* `c05ws_drain_feed`: the packets `drainWs` hands over, and how it ends, are what the byte-at-a-time reference automaton
  computes from `Ws.dataOf frames` (the concatenated payloads of the BINARY/CONTINUATION frames) and the terminal event;
  unless it ends with a protocol error, the wrapper is back in its initial state with every frame consumed and — given
  unmasked PING/CLOSE frames — exactly the owed PONG/CLOSE replies written;
* `c05ws_frag_independent`: two raw chunkings of the same frames with the same terminal event give the same packets,
  the same end and the same replies;
* `c05ws_drain_spec`: the packets are the reference split `splitStream` of `Ws.dataOf frames` (streams in which no packet
  starts with a zero byte, as in `c05_drain_spec_strong`);
* `c05ws_same_as_plain`: the result is the one the plain-socket reader `drain` gives on ANY raw-socket queue carrying
  `Ws.dataOf frames` with the same terminal event (so `c05_frag_independent` extends across the two transports).
No counterexample was found: control frames between or inside packets, several packets per frame, one packet over many
frames, a would-block at a frame boundary after the 100-read guard (`againBusy`) are all covered by the statement.
Lemmas: PahoProofs/Lemmas/WsReaderGen.lean (generic reader over a transport specification `TSpec`),
WsReaderAux.lean, WsReaderSpec.lean (the wrapper satisfies `TSpec`), and the C05Ws lemma files.
-/
import Paho.Model.ReaderWs
import PahoProofs.Properties.C05
import PahoProofs.Lemmas.WsReaderSpec
namespace Paho
open ReaderLemmas ReaderGen

/-! ## the generic reader / pump are those of C05 -/

def toDrainEnd : PumpEnd → DrainEnd
  | .idle => .idle
  | .connLost => .connLost
  | .protocol => .protocol

theorem endOf_eq (t : Bool) (s : StreamEnd) : endOf t s = toDrainEnd (endOfP t s) := by
  cases s <;> cases t <;> rfl

/-- `packetRead` (Paho.Model.Reader) is `packetReadOn` over the plain-socket transport `recvN` -/
theorem packetRead_eq_packetReadOn (r : RState) (q : List RecvItem) : packetRead r q = packetReadOn recvN r q :=
  (packetReadOn_recvN r q).symm

/-- `drain` (C05) is `drainOn` over `recvN` with "queue empty" as the idle test -/
theorem drain_eq_drainOn : ∀ (fuel : Nat) (r : RState) (q : List RecvItem) (acc : List (Nat × Bytes)),
    drain fuel r q acc =
      ((drainOn recvN List.isEmpty fuel r q acc).1, (drainOn recvN List.isEmpty fuel r q acc).2.1,
        toDrainEnd (drainOn recvN List.isEmpty fuel r q acc).2.2.2) := by
  intro fuel
  induction fuel with
  | zero => intro r q acc; rfl
  | succ fuel ih =>
    intro r q acc
    rw [drain, drainOn, packetReadOn_recvN]
    by_cases h : q.isEmpty = true ∧ ¬ (r.haveRemaining = true ∧ r.toProcess = 0)
    · rw [if_pos h, if_pos h]; rfl
    · rw [if_neg h, if_neg h]
      rcases packetRead r q with ⟨r', q', out⟩
      cases out with
      | again =>
        simp only
        by_cases hq : q'.isEmpty = true
        · rw [if_pos hq, if_pos hq]; rfl
        · rw [if_neg hq, if_neg hq]; exact ih r' q' acc
      | againBusy => exact ih r' q' acc
      | connLost => rfl
      | protocol => rfl
      | complete c b => exact ih {} q' _

/-! ## the WebSocket transport -/

/-- fresh wrapper over the raw queue `q` -/
def wsInit (q : List RecvItem) : WsT := { st := {}, q := q, sent := [] }

/-- enough `_packet_read()` calls for the raw queue `q` carrying `frames` -/
def drainWsFuel (frames : List Ws.Frame) (q : List RecvItem) : Nat :=
  2 * (q.length + (dataOf q).length + Ws.weight frames) + 2

theorem flat_eq_dataOf (q : List RecvItem) : Ws.flat q = dataOf q := by
  induction q with
  | nil => rfl
  | cons i rest ih => cases i <;> simp [Ws.flat, dataOf, ih]

/-- **C05 over WebSockets (reference semantics).** -/
theorem c05ws_drain_feed (frames : List Ws.Frame) (hwf : ∀ f ∈ frames, f.wf) (q : List RecvItem)
    (hq : noEmptyChunks q = true) (hd : dataOf q = Ws.encs frames) :
    (drainWs (drainWsFuel frames q) {} (wsInit q) []).1 = (feed {} (Ws.dataOf frames) []).1 ∧
    (drainWs (drainWsFuel frames q) {} (wsInit q) []).2.2.2 =
      endOfP (terminalOf q) (feed {} (Ws.dataOf frames) []).2 ∧
    ((drainWs (drainWsFuel frames q) {} (wsInit q) []).2.2.2 ≠ .protocol →
      Ws.WsDone frames (drainWs (drainWsFuel frames q) {} (wsInit q) []).2.2.1) := by
  rw [noEmptyChunks_eq] at hq
  have hrel := Ws.wsRel_init frames hwf q hq (by rw [flat_eq_dataOf, hd])
  have hfuel : 2 * Ws.mu frames {} q + (if full ({} : RState) then 1 else 0) + 1 ≤ drainWsFuel frames q := by
    rw [if_neg not_full_init]
    simp only [drainWsFuel, Ws.mu, Ws.qMeasure, flat_eq_dataOf]
    show 2 * (q.length + (dataOf q).length + (Ws.weight frames - 0)) + 0 + 1 ≤ _
    omega
  have h := drainOn_ref (Ws.wsSpec frames) (drainWsFuel frames q) {} (wsInit q) [] (Ws.dataOf frames) (qTerm q)
    (Ws.mu frames {} q) hrel good_init hfuel
  rw [Ref_init] at h
  rw [terminalOf_eq]
  exact ⟨h.1, h.2.1, fun hne => (h.2.2 hne).1⟩

/-- **C05 over WebSockets (fragmentation independence).** Two raw chunkings of the encoding of the same frames, with
the same terminal event: the same packets are handed to `_packet_handle`, the run ends the same way, and — unless it
ends with a protocol error — the wrapper has consumed every frame and (given unmasked PING/CLOSE) written the same
replies, namely the owed ones. -/
theorem c05ws_frag_independent (frames : List Ws.Frame) (hwf : ∀ f ∈ frames, f.wf) (q1 q2 : List RecvItem)
    (h1 : noEmptyChunks q1 = true) (h2 : noEmptyChunks q2 = true)
    (hd1 : dataOf q1 = Ws.encs frames) (hd2 : dataOf q2 = Ws.encs frames) (ht : terminalOf q1 = terminalOf q2) :
    (drainWs (drainWsFuel frames q1) {} (wsInit q1) []).1 = (drainWs (drainWsFuel frames q2) {} (wsInit q2) []).1 ∧
    (drainWs (drainWsFuel frames q1) {} (wsInit q1) []).2.2.2 = (drainWs (drainWsFuel frames q2) {} (wsInit q2) []).2.2.2 ∧
    ((∀ f ∈ frames, f.ctlUnmasked) → (drainWs (drainWsFuel frames q1) {} (wsInit q1) []).2.2.2 ≠ .protocol →
      (drainWs (drainWsFuel frames q1) {} (wsInit q1) []).2.2.1.sent = Ws.owedAll frames ∧
      (drainWs (drainWsFuel frames q2) {} (wsInit q2) []).2.2.1.sent = Ws.owedAll frames) := by
  have a := c05ws_drain_feed frames hwf q1 h1 hd1
  have b := c05ws_drain_feed frames hwf q2 h2 hd2
  refine ⟨by rw [a.1, b.1], by rw [a.2.1, b.2.1, ht], ?_⟩
  intro hctl hne
  have hne2 : (drainWs (drainWsFuel frames q2) {} (wsInit q2) []).2.2.2 ≠ .protocol := by
    rw [b.2.1, ← ht, ← a.2.1]; exact hne
  exact ⟨(a.2.2 hne).2.2.2 hctl, (b.2.2 hne2).2.2.2 hctl⟩

/-- … and the packets are the reference split of the concatenated data-frame payloads (no packet starting with a zero
byte: there the reader stops with a protocol error, cf. `c05_zero_cmd_protocol`) -/
theorem c05ws_drain_spec (frames : List Ws.Frame) (hwf : ∀ f ∈ frames, f.wf) (q : List RecvItem)
    (hq : noEmptyChunks q = true) (hd : dataOf q = Ws.encs frames)
    (hz : cmdsNonzero ((Ws.dataOf frames).length + 1) (Ws.dataOf frames) = true) :
    (drainWs (drainWsFuel frames q) {} (wsInit q) []).1 =
      (splitStream ((Ws.dataOf frames).length + 1) (Ws.dataOf frames)).1 := by
  rw [cmdsNonzero_eq] at hz
  have hf := feed_frames ((Ws.dataOf frames).length + 1) (Ws.dataOf frames) [] (by omega) hz
  rw [(c05ws_drain_feed frames hwf q hq hd).1, hf, splitStream_eq]
  simp

/-- … and it is what the plain-socket reader hands over for ANY raw-socket queue `p` carrying the same MQTT bytes with
the same terminal event: the WebSocket layer is transparent for the packet reader -/
theorem c05ws_same_as_plain (frames : List Ws.Frame) (hwf : ∀ f ∈ frames, f.wf) (q p : List RecvItem)
    (hq : noEmptyChunks q = true) (hd : dataOf q = Ws.encs frames)
    (hp : noEmptyChunks p = true) (hpd : dataOf p = Ws.dataOf frames) (ht : terminalOf p = terminalOf q) :
    (drain (drainFuel p) {} p []).1 = (drainWs (drainWsFuel frames q) {} (wsInit q) []).1 ∧
    (drain (drainFuel p) {} p []).2.2 = toDrainEnd (drainWs (drainWsFuel frames q) {} (wsInit q) []).2.2.2 := by
  have a := c05ws_drain_feed frames hwf q hq hd
  have b := drain_feed p hp
  rw [a.1, a.2.1, b.1, b.2, hpd, ht, endOf_eq]
  exact ⟨rfl, rfl⟩

/-! ## non-vacuity: one MQTT stream, frames cut across the packets, two raw chunkings -/

/-- MQTT bytes `D0 00 | 30 05 00 01 74 61 62 | 40 02 00 07` (PINGRESP, PUBLISH "t" "ab", PUBACK 7) carried by:
masked BINARY (FIN clear) `D0 00 30`, PING "hi", CONTINUATION in the 16-bit length form `05 00 01`, empty CLOSE,
CONTINUATION `74 61 62 40 02 00`, BINARY `07` -/
def exWsFrames : List Ws.Frame :=
  [⟨0x02, 0, some [1, 2, 3, 4], [0xD0, 0x00, 0x30]⟩, ⟨0x89, 0, none, [0x68, 0x69]⟩,
   ⟨0x00, 1, none, [0x05, 0x00, 0x01]⟩, ⟨0x88, 0, none, []⟩,
   ⟨0x80, 0, none, [0x74, 0x61, 0x62, 0x40, 0x02, 0x00]⟩, ⟨0x82, 0, none, [0x07]⟩]

theorem exWsFrames_wf : ∀ f ∈ exWsFrames, f.wf := by
  intro f hf
  simp only [exWsFrames, List.mem_cons, List.not_mem_nil, or_false] at hf
  rcases hf with rfl | rfl | rfl | rfl | rfl | rfl
  · exact ⟨(fun k h => by cases h; rfl), Or.inl ⟨rfl, by decide⟩⟩
  · exact ⟨(fun k h => by cases h), Or.inl ⟨rfl, by decide⟩⟩
  · exact ⟨(fun k h => by cases h), Or.inr (Or.inl ⟨rfl, by decide⟩)⟩
  · exact ⟨(fun k h => by cases h), Or.inl ⟨rfl, by decide⟩⟩
  · exact ⟨(fun k h => by cases h), Or.inl ⟨rfl, by decide⟩⟩
  · exact ⟨(fun k h => by cases h), Or.inl ⟨rfl, by decide⟩⟩

/-- everything in one raw chunk -/
def exRaw1 : List RecvItem := [.data (Ws.encs exWsFrames)]

/-- cut inside the first header, the mask key, a payload, the 16-bit length, between frames; would-block in between; EOF -/
def exRaw2 : List RecvItem :=
  [.data [2], .eagain, .data [131, 1, 2], .data [3, 4, 209], .eagain, .eagain, .data [2, 51, 137, 2, 104], .data [105, 0, 126, 0],
   .eagain, .data [3, 5, 0, 1, 136], .data [0, 128, 6, 116, 97, 98, 64], .eagain, .data [2, 0, 130, 1, 7], .eof]

example : dataOf exRaw1 = Ws.encs exWsFrames ∧ dataOf exRaw2 = Ws.encs exWsFrames ∧
    noEmptyChunks exRaw1 = true ∧ noEmptyChunks exRaw2 = true ∧ (∀ f ∈ exWsFrames, f.ctlUnmasked) ∧
    Ws.dataOf exWsFrames = [0xD0, 0, 0x30, 5, 0, 1, 0x74, 0x61, 0x62, 0x40, 2, 0, 7] := by
  decide

set_option maxRecDepth 100000 in
example :
    let d := drainWs (drainWsFuel exWsFrames exRaw1) {} (wsInit exRaw1) []
    d.1 = [(0xD0, []), (0x30, [0, 1, 0x74, 0x61, 0x62]), (0x40, [0, 7])] ∧ d.2.2.2 = .idle ∧
    d.2.2.1.sent = [[0x8a, 2, 0x68, 0x69], [0x88, 0]] ∧ d.2.2.1.st = {} := by
  decide

set_option maxRecDepth 100000 in
example :
    let d := drainWs (drainWsFuel exWsFrames exRaw2) {} (wsInit exRaw2) []
    d.1 = [(0xD0, []), (0x30, [0, 1, 0x74, 0x61, 0x62]), (0x40, [0, 7])] ∧ d.2.2.2 = .connLost ∧
    d.2.2.1.sent = [[0x8a, 2, 0x68, 0x69], [0x88, 0]] := by
  decide

/-- a body of 101 one-byte frames: the 100-read guard fires in the middle of the packet (`againBusy`), the next call
finishes it -/
def exBusyFrames : List Ws.Frame :=
  (([0x30, 101] ++ List.replicate 101 0x55 : Bytes).map fun b => (⟨0x82, 0, none, [b]⟩ : Ws.Frame))

set_option maxRecDepth 1000000 in
example :
    let q : List RecvItem := [.data (Ws.encs exBusyFrames)]
    (packetReadWs {} (wsInit q)).2.2 = .againBusy ∧
    (packetReadWs {} (wsInit q)).1.toProcess = 1 ∧
    (drainWs (drainWsFuel exBusyFrames q) {} (wsInit q) []).1 = [(0x30, List.replicate 101 0x55)] ∧
    (drainWs (drainWsFuel exBusyFrames q) {} (wsInit q) []).2.2.2 = .idle := by
  decide

end Paho
