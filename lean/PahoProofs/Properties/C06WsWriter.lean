/-
C06 over WebSockets, the two layers together: the client's packet queue and `_packet_write()` on top of
`_WebsocketWrapper._send_impl` (Paho.Model.WsWriter).  For EVERY sequence of `_packet_queue` appends and
`_packet_write()` calls and EVERY behaviour of the raw socket in each send (accept k bytes, BlockingIOError, another
OSError):
-/
import PahoProofs.Lemmas.WsWriter
import PahoProofs.Properties.C06Ws

namespace Paho.WsW
open Paho Paho.Ws

/-- read `n` frames with the RFC 6455 reference parser and collect their payloads -/
def payloads : Nat → Bytes → Option (List Bytes)
  | 0, _ => some []
  | n + 1, b =>
    match parseFrame b with
    | none => none
    | some (f, rest) =>
      if f.fin = true ∧ f.rsv = 0 ∧ f.opcode = 2 ∧ f.masked = true then (payloads n rest).map (f.payload :: ·) else none

theorem keyOf_length (i : Nat) : (keyOf i).length = 4 := rfl

/-! ### consequences of the invariant, for any state satisfying it -/

theorem wire_prefix_of_inv {s : St} (h : Inv s) : s.wire <+: (framesOf 0 s.enq).flatten := by
  have hsplit : framesOf 0 s.enq = s.frames ++ framesOf (0 + (s.enq.take s.nkeys).length) (s.enq.drop s.nkeys) := by
    have e := framesOf_append_list 0 (s.enq.take s.nkeys) (s.enq.drop s.nkeys)
    rw [List.take_append_drop] at e
    rw [e, ← h.frames]
  rw [hsplit, List.flatten_append, ← h.wire, List.append_assoc]
  exact List.prefix_append _ _

theorem done_on_wire_of_inv {s : St} (h : Inv s) : (framesOf 0 s.done).flatten <+: s.wire := by
  by_cases hb : s.ws.sendbuffer = []
  · have hn := h.idle hb
    have hw := h.wire
    rw [hb, List.append_nil] at hw
    have ht : s.enq.take s.nkeys = s.done := by
      rw [hn, ← h.fifo]; simp
    rw [hw, h.frames, ht]
    exact List.prefix_refl _
  · obtain ⟨hn, ⟨p, rest, hq, _⟩, fs, pre, hlast⟩ := h.busy hb
    have ht : s.enq.take s.nkeys = s.done ++ [p.bytes] := by
      rw [hn, ← h.fifo, hq]
      simp [List.take_append, List.take_succ]
    have hf := h.frames
    rw [ht, framesOf_append, hlast] at hf
    have hfs : fs = framesOf 0 s.done := (List.append_inj' hf (by simp)).1
    have hw := h.wire
    rw [hlast, List.flatten_append] at hw
    simp only [List.flatten_cons, List.flatten_nil, List.append_nil] at hw
    rw [← List.append_assoc] at hw
    have := List.append_cancel_right hw
    rw [this, hfs]
    exact List.prefix_append _ _

theorem drained_of_inv {s : St} (h : Inv s) (hq : s.queue = []) :
    s.wire = (framesOf 0 s.enq).flatten ∧ s.ws.sendbuffer = [] := by
  have hb : s.ws.sendbuffer = [] := by
    by_cases hb : s.ws.sendbuffer = []
    · exact hb
    · obtain ⟨_, ⟨p, rest, hq', _⟩, _⟩ := h.busy hb
      rw [hq] at hq'; cases hq'
  have hn := h.idle hb
  have hd : s.done = s.enq := by
    have := h.fifo
    rw [hq] at this
    simpa using this
  refine ⟨?_, hb⟩
  have hw := h.wire
  rw [hb, List.append_nil] at hw
  rw [hw, h.frames, hn, hd, List.take_length]

/-! ### property theorems: every operation sequence, every behaviour of the raw socket -/

/-- nothing is lost, duplicated or reordered in the queue: completed packets followed by the queued ones are the
appended ones, in order -/
theorem c06wsw_fifo (ops : List Op) (hops : OpsOk ops) :
    let s := run {} ops
    s.done ++ s.queue.map (·.bytes) = s.enq :=
  (inv_run {} ops inv_init hops).fifo

/-- **the wire**: what the raw socket has accepted is a prefix of the concatenation of the frames of the appended
packets, one well-formed masked binary frame per packet, in append order -/
theorem c06wsw_wire_prefix (ops : List Op) (hops : OpsOk ops) :
    let s := run {} ops
    s.wire <+: (framesOf 0 s.enq).flatten :=
  wire_prefix_of_inv (inv_run {} ops inv_init hops)

/-- a packet is popped for good (and a QoS 0 publish reported as sent) only when the last byte of its frame has
been accepted: the frames of the completed packets are wholly on the wire -/
theorem c06wsw_done_on_wire (ops : List Op) (hops : OpsOk ops) :
    let s := run {} ops
    (framesOf 0 s.done).flatten <+: s.wire :=
  done_on_wire_of_inv (inv_run {} ops inv_init hops)

/-- when the queue is drained everything appended is on the wire: every packet complete, exactly once, in queue order,
and the wrapper holds nothing back -/
theorem c06wsw_drained (ops : List Op) (hops : OpsOk ops) :
    let s := run {} ops
    s.queue = [] → s.wire = (framesOf 0 s.enq).flatten ∧ s.ws.sendbuffer = [] :=
  drained_of_inv (inv_run {} ops inv_init hops)

/-- unsent bytes <=> something queued: while the wrapper holds part of a frame the packet it belongs to is still the
head of the queue (so `want_write()` stays true and the same data is offered again) -/
theorem c06wsw_pending_has_head (ops : List Op) (hops : OpsOk ops) :
    let s := run {} ops
    s.ws.sendbuffer ≠ [] → ∃ p rest, s.queue = p :: rest ∧ p.pos = 0 ∧ s.ws.requestedSize = p.bytes.length := by
  intro s hb
  have h : Inv s := inv_run {} ops inv_init hops
  obtain ⟨_, ⟨p, rest, hq, hr⟩, _⟩ := h.busy hb
  exact ⟨p, rest, hq, (h.fresh p (by rw [hq]; exact List.mem_cons_self)).1, hr⟩

/-- `_packet_write()` always returns: the loop ends with SUCCESS, AGAIN or CONN_LOST, never spins on a packet it
cannot finish (every iteration that does not return completes a packet) -/
theorem c06wsw_never_stuck (ops : List Op) (hops : OpsOk ops) (outs : List SockSend) :
    (step (run {} ops) (.write outs)).2 ≠ some .stuck := by
  have h := inv_run {} ops inv_init hops
  simp only [step, ne_eq, Option.some.injEq]
  exact (inv_packetWrite _ _ outs h).2 (by unfold fuelFor; omega)

/-- the frames are what RFC 6455 says: the reference parser reads the frames of any packet list back as final masked
binary frames whose payloads are exactly the packets (packets shorter than 2^64 bytes) -/
theorem c06wsw_payloads (i : Nat) (l : List Bytes) (tail : Bytes) (hl : ∀ p ∈ l, p.length < 2 ^ 64) :
    payloads l.length ((framesOf i l).flatten ++ tail) = some l := by
  induction l generalizing i with
  | nil => rfl
  | cons p ps ih =>
    simp only [framesOf, List.flatten_cons, List.append_assoc, List.length_cons, payloads]
    rw [ws_frame_roundtrip p (keyOf i) _ (keyOf_length i) (hl p List.mem_cons_self)]
    simp only [and_self, if_true]
    rw [ih (i + 1) (fun q hq => hl q (List.mem_cons_of_mem _ hq))]
    rfl

/-- so, once drained, the unmasked payload stream the broker reads is the concatenation of the queued packets -/
theorem c06wsw_drained_payload (ops : List Op) (hops : OpsOk ops) :
    let s := run {} ops
    s.queue = [] → (∀ p ∈ s.enq, p.length < 2 ^ 64) → payloads s.enq.length s.wire = some s.enq := by
  intro s hq hl
  have h : Inv s := inv_run {} ops inv_init hops
  rw [(drained_of_inv h hq).1]
  simpa using c06wsw_payloads 0 s.enq [] hl

/-! non-vacuity: two packets, the first frame accepted in two parts with a packet appended in between -/
example :
    let s := run {} [.enq [0x30, 1, 65], .write [.accept 3], .enq [0x40, 2, 0, 1], .write [.wouldBlock], .write []]
    s.queue = [] ∧ s.done = [[0x30, 1, 65], [0x40, 2, 0, 1]] ∧ payloads 2 s.wire = some [[0x30, 1, 65], [0x40, 2, 0, 1]] := by
  decide

end Paho.WsW
