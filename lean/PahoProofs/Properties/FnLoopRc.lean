/-
T1, translated: `Client._loop_rc_handle` - where the client decides how a connection that ended with an error is reported
(C10: one on_disconnect per connection, client-generated result success iff disconnect() had been called, nothing for a
connection already closed and reported). Translated from the AST of the current source by py/py2lean.py
(`Paho.Gen.FnLoopRc`, regenerated on every run) and proved equal to the session model's `loopRcHandle`.
-/
import Paho.Gen.FnLoopRc
import PahoProofs.Properties.FnKeepalive

namespace Paho.FnEq
open Paho Paho.Py

/-- **`Client._loop_rc_handle` as the source has it now = the model's `loopRcHandle`** (result code and effect on the
client), for every state and every result code >= 0: nothing for rc = 0; nothing when the socket is already gone (closed and
reported while the packet was handled: F20); otherwise close, state DISCONNECTED with result success if disconnect() had been
called, else CONNECTION_LOST with the given result, and exactly one on_disconnect -/
theorem fn_loopRcHandle (s : S) (rc : Nat) :
    ∃ rc' effs, Gen.Fn.LoopRc.loopRcHandle (sockId s.sock) (csCode s.cstate) (s.now : Int) (rc : Int) = .ok (rc', effs) ∧
      (runEffs s effs, rc') = s.loopRcHandle (rc : Int) := by
  unfold Gen.Fn.LoopRc.loopRcHandle S.loopRcHandle
  by_cases h0 : rc = 0
  · subst h0
    exact ⟨0, [], by simp [pure, Except.pure, bind, Except.bind], by simp [runEffs]⟩
  have h0' : ((rc : Int) != 0) = true := by simp; omega
  have h0'' : ((rc : Int) ≠ 0) := by omega
  cases hs : s.sock with
  | none =>
    exact ⟨rc, [], by simp [h0', sockId, pure, Except.pure, bind, Except.bind], by simp [h0'', runEffs]⟩
  | some c =>
    have e0 : ((c : Int) + 1 == 0) = false := by rw [beq_eq_false_iff_ne]; omega
    have hcst : (s.sockClose).cstate = s.cstate := (TimerLemmas.sockClose_proj s false).2.2.2.2.2
    by_cases hd : s.cstate = .disconnecting ∨ s.cstate = .disconnected
    · refine ⟨0, [.call "_sock_close" [], .setInt "_state" Gen.Fn.c__ConnectionState_MQTT_CS_DISCONNECTED,
        .call "_do_on_disconnect" [0, 0]], ?_, ?_⟩
      · rcases hd with hd | hd <;>
          simp [h0', sockId, e0, hd, csCode, pure, Except.pure, bind, Except.bind,
            Gen.Fn.LoopRc.c__ConnectionState_MQTT_CS_DISCONNECTING, Gen.Fn.LoopRc.c__ConnectionState_MQTT_CS_DISCONNECTED,
            Gen.Fn.c__ConnectionState_MQTT_CS_DISCONNECTING, Gen.Fn.c__ConnectionState_MQTT_CS_DISCONNECTED]
      · have : (s.sockClose).disconnectingOrDone = true := by
          unfold S.disconnectingOrDone; rw [hcst]; rcases hd with hd | hd <;> simp [hd]
        simp [h0, hs, this, runEffs, runEff, rcSuccess]
    · refine ⟨rc, [.call "_sock_close" [], .setInt "_state" Gen.Fn.c__ConnectionState_MQTT_CS_CONNECTION_LOST,
        .call "_do_on_disconnect" [0, rc]], ?_, ?_⟩
      · have : ((csCode s.cstate == Gen.Fn.LoopRc.c__ConnectionState_MQTT_CS_DISCONNECTING) ||
            (csCode s.cstate == Gen.Fn.LoopRc.c__ConnectionState_MQTT_CS_DISCONNECTED)) = false := by
          cases hcs : s.cstate <;> simp_all [csCode, Gen.Fn.c__ConnectionState_MQTT_CS_CONNECTED,
            Gen.Fn.c__ConnectionState_MQTT_CS_CONNECTION_LOST, Gen.Fn.c__ConnectionState_MQTT_CS_DISCONNECTING,
            Gen.Fn.c__ConnectionState_MQTT_CS_DISCONNECTED, Gen.Fn.LoopRc.c__ConnectionState_MQTT_CS_DISCONNECTING,
            Gen.Fn.LoopRc.c__ConnectionState_MQTT_CS_DISCONNECTED]
        simp only [h0', sockId, e0, this]
        simp [pure, Except.pure, bind, Except.bind, Gen.Fn.LoopRc.c__ConnectionState_MQTT_CS_CONNECTION_LOST,
          Gen.Fn.c__ConnectionState_MQTT_CS_CONNECTION_LOST]
      · have : (s.sockClose).disconnectingOrDone = false := by
          unfold S.disconnectingOrDone; rw [hcst]
          cases hcs : s.cstate <;> simp_all
        simp [h0, hs, this, runEffs, runEff, Gen.Fn.c__ConnectionState_MQTT_CS_CONNECTION_LOST,
          Gen.Fn.c__ConnectionState_MQTT_CS_DISCONNECTED]

/-! ### `Client.disconnect` -/

/-- `_send_disconnect()` on the model: encode the DISCONNECT packet and queue it (result of the queueing) -/
def sendDisconnectM (s : S) : S × RC :=
  match encDisconnect s.proto none none with
  | .error _ => (s.emit (.exc "encode"), rcSuccess)
  | .ok bytes => s.packetQueue (S.mkPkt 0xE0 0 0 bytes)

/-- the steps of `disconnect()` executed on the model; the assignment of DISCONNECTING is where the model's ghost flag
"disconnect() was called on this connection" is set -/
def runDisc (s : S) : MEff → S
  | .setInt "_state" v =>
    if v = Gen.Fn.LoopRc.c__ConnectionState_MQTT_CS_DISCONNECTED then { s with cstate := .disconnected }
    else if v = Gen.Fn.LoopRc.c__ConnectionState_MQTT_CS_DISCONNECTING then { s with cstate := .disconnecting, discCalled := true }
    else s
  | .call "_send_disconnect" [] => (sendDisconnectM s).1
  | _ => s

/-- **`Client.disconnect` as the source has it now = the model's `disconnect`**, for every state in which the DISCONNECT packet
can be encoded: without a socket the state becomes DISCONNECTED and MQTT_ERR_NO_CONN is returned, nothing is queued; with a
socket the state becomes DISCONNECTING *before* DISCONNECT is handed to `_send_disconnect()`, whose result is returned -/
theorem fn_disconnect (s : S) (now : Int) (bytes : Bytes) (henc : encDisconnect s.proto none none = .ok bytes) :
    ∃ rc effs, Gen.Fn.LoopRc.disconnect (sockId s.sock) now (sendDisconnectM { s with cstate := .disconnecting, discCalled := true }).2
        = .ok (rc, effs) ∧
      (effs.foldl runDisc s).emit (.ret rc none) = s.disconnect := by
  unfold Gen.Fn.LoopRc.disconnect S.disconnect
  cases hs : s.sock with
  | none =>
    refine ⟨4, [.setInt "_state" Gen.Fn.LoopRc.c__ConnectionState_MQTT_CS_DISCONNECTED], ?_, ?_⟩
    · simp [sockId, pure, Except.pure, bind, Except.bind, Gen.Fn.LoopRc.c_MQTT_ERR_NO_CONN]
    · simp [runDisc, rcNoConn, hs]
  | some c =>
    have e0 : ((c : Int) + 1 == 0) = false := by rw [beq_eq_false_iff_ne]; omega
    refine ⟨(sendDisconnectM { s with cstate := .disconnecting, discCalled := true }).2,
      [.setInt "_state" Gen.Fn.LoopRc.c__ConnectionState_MQTT_CS_DISCONNECTING, .call "_send_disconnect" []], ?_, ?_⟩
    · simp only [sockId, e0]
      simp [pure, Except.pure, bind, Except.bind, hs]
    · have henc' : encDisconnect ({ s with cstate := ConnState.disconnecting, discCalled := true } : S).proto none none = .ok bytes := henc
      simp [runDisc, sendDisconnectM, henc, henc', hs, Gen.Fn.LoopRc.c__ConnectionState_MQTT_CS_DISCONNECTING,
        Gen.Fn.LoopRc.c__ConnectionState_MQTT_CS_DISCONNECTED]

/-- the DISCONNECT packet of a plain `disconnect()` can always be encoded -/
theorem encDisconnect_plain (proto : Nat) : ∃ bytes, encDisconnect proto none none = .ok bytes := by
  have h0 : remLenEncChecked 0 = .ok (remLenEnc 0) := by rfl
  unfold encDisconnect
  by_cases h : proto = 5 <;> simp [h, h0, pure, Except.pure, bind, Except.bind]

/-! ### the two observers the properties speak about -/

/-- **`Client.is_connected` as the source has it now = the model's `isConnected`** (C10: `c10_connected_sound` is about it) -/
theorem fn_isConnected (s : S) (now : Int) :
    Gen.Fn.LoopRc.isConnected (csCode s.cstate) now = .ok (s.isConnected, []) := by
  unfold Gen.Fn.LoopRc.isConnected S.isConnected
  cases hcs : s.cstate <;> simp [csCode, pure, Except.pure, Gen.Fn.LoopRc.c__ConnectionState_MQTT_CS_CONNECTED,
    Gen.Fn.c__ConnectionState_MQTT_CS_CONNECTED, Gen.Fn.c__ConnectionState_MQTT_CS_CONNECTION_LOST,
    Gen.Fn.c__ConnectionState_MQTT_CS_DISCONNECTING, Gen.Fn.c__ConnectionState_MQTT_CS_DISCONNECTED]

/-- **`Client.want_write` = the model's `wantWrite`**: true exactly while the outgoing packet queue is not empty (C06:
`c06_want_write`, C16: `c16_no_lost_wakeup` are about it) -/
theorem fn_wantWrite (s : S) (now : Int) :
    Gen.Fn.LoopRc.wantWrite (s.outq.length : Int) now = .ok (s.wantWrite, []) := by
  unfold Gen.Fn.LoopRc.wantWrite S.wantWrite
  cases h : s.outq with
  | nil => simp [pure, Except.pure]
  | cons p rest => simp [pure, Except.pure]

/-! ### `Client.ack` (manual acknowledgement) -/

/-- the calls `ack()` makes, executed on the model -/
def runAck (s : S) : MEff → S
  | .call "_send_puback" [m] => (s.sendPuback m.toNat).1
  | .call "_send_pubcomp" [m] => (s.sendPubcomp m.toNat).1
  | _ => s

/-- **`Client.ack(mid, qos)` as the source has it now = the model's `ack`**: with manual acknowledgement on, QoS 1 sends PUBACK and
QoS 2 sends PUBCOMP for that id (the result of the send is returned); in every other case nothing is sent and the call
returns success (C03: `c03_manual` - no PUBACK / PUBCOMP is queued by anything but `ack()`) -/
theorem fn_ack (s : S) (mid qos : Nat) (now : Int) :
    ∃ rc effs, Gen.Fn.LoopRc.ack s.cfg.manualAck now (mid : Int) (qos : Int) (s.sendPuback mid).2 (s.sendPubcomp mid).2 = .ok (rc, effs) ∧
      (effs.foldl runAck s).emit (.ret rc none) = s.ack mid qos := by
  unfold Gen.Fn.LoopRc.ack S.ack
  by_cases hm : s.cfg.manualAck = true
  · by_cases h1 : qos = 1
    · subst h1
      exact ⟨(s.sendPuback mid).2, [.call "_send_puback" [(mid : Int)]], by simp [hm, pure, Except.pure, bind, Except.bind], by simp [hm, runAck]⟩
    · by_cases h2 : qos = 2
      · subst h2
        exact ⟨(s.sendPubcomp mid).2, [.call "_send_pubcomp" [(mid : Int)]], by simp [hm, pure, Except.pure, bind, Except.bind], by simp [hm, runAck]⟩
      · have e1 : ((qos : Int) == 1) = false := by rw [beq_eq_false_iff_ne]; omega
        have e2 : ((qos : Int) == 2) = false := by rw [beq_eq_false_iff_ne]; omega
        exact ⟨0, [], by simp [hm, e1, e2, pure, Except.pure, bind, Except.bind], by simp [hm, h1, h2, rcSuccess]⟩
  · have hm' : s.cfg.manualAck = false := by simpa using hm
    exact ⟨0, [], by simp [hm', pure, Except.pure, bind, Except.bind], by simp [hm', rcSuccess]⟩

end Paho.FnEq
