/-
T1, translated functions: each function of `Paho.Gen.Fn` (generated on every run from the AST of the current source by
py/py2lean.py, one generated file per consumer) equals, for ALL arguments, the hand-written model function the property
theorems are stated about. A change to the body of one of these Python functions changes the generated definition; then
either the property still holds and these proofs have to be redone, or it does not and the failing-input search exhibits
the input.
-/
import Paho.Gen.FnVbi
import PahoProofs.Lemmas.PyOps

namespace Paho.FnEq
open Paho Paho.Gen.Fn

/-! ### `VariableByteIntegers.encode` -/

theorem vbiEncode_body_eq (buf : Bytes) (n : Nat) :
    vbiEncode_body (n : Int) buf =
      .ok (if n / 128 > 0 then .cont (((n / 128 : Nat) : Int), buf ++ [b8 ((n % 128) ||| 128)])
           else .brk (((n / 128 : Nat) : Int), buf ++ [b8 (n % 128)])) := by
  unfold vbiEncode_body
  simp only [bind, Except.bind, pure, Except.pure]
  have hm : (n : Int) % 128 = ((n % 128 : Nat) : Int) := by omega
  have hd : (n : Int) / 128 = ((n / 128 : Nat) : Int) := by omega
  have hlt : n % 128 < 128 := Nat.mod_lt _ (by decide)
  rw [hm, hd]
  have e128 : (128 : Int) = ((128 : Nat) : Int) := rfl
  by_cases h : n / 128 > 0
  · have h' : decide ((((n / 128 : Nat) : Int)) > 0) = true := by simp; omega
    have hne : ((((n / 128 : Nat) : Int)) == 0) = false := by simp; omega
    rw [if_pos h', if_pos h, e128, bor_nat]
    simp only [byteOf_nat _ (or128_lt _ hlt), hne]
    rfl
  · have h' : ¬ decide ((((n / 128 : Nat) : Int)) > 0) = true := by simp; omega
    have hz : ((((n / 128 : Nat) : Int)) == 0) = true := by simp; omega
    rw [if_neg h', if_neg h]
    simp only [byteOf_nat _ (show n % 128 < 256 by omega), hz, if_true]

theorem vbiEncode_loop_eq (fuel : Nat) : ∀ (n : Nat) (buf : Bytes), n < fuel →
    vbiEncode_loop fuel ((n : Int), buf) = .ok (buf ++ remLenEnc n) := by
  induction fuel with
  | zero => intro n _ h; omega
  | succ fuel ih =>
    intro n buf hn
    unfold vbiEncode_loop
    simp only [vbiEncode_body_eq]
    by_cases h : n / 128 > 0
    · have hlt : n / 128 < fuel := by
        have : n / 128 < n := Nat.div_lt_self (by omega) (by decide)
        omega
      rw [remLenEnc_ge n (by omega), if_pos h]
      simp only
      rw [ih _ _ hlt]
      simp
    · have hn' : n < 128 := by omega
      have hm : n % 128 = n := by omega
      rw [remLenEnc_lt n hn', if_neg h, hm]
      simp [vbiEncode_after, pure, Except.pure]

/-- **`VariableByteIntegers.encode` as the source has it now = the model's `vbiEnc`**, for every integer (the range
check included) -/
theorem fn_vbiEncode (x : Int) : vbiEncode x = vbiEnc x := by
  unfold vbiEncode
  simp only [bind, Except.bind, pure, Except.pure]
  by_cases h : 0 ≤ x ∧ x ≤ 268435455
  · have hv : vbiEnc x = .ok (remLenEnc x.toNat) := by simp [vbiEnc, Gen.vbiLo, Gen.vbiHi, h.1, h.2]
    have h' : (!(decide (0 ≤ x) && decide (x ≤ 268435455))) = false := by simp [h.1, h.2]
    rw [hv]
    simp only [h', Bool.false_eq_true, if_false]
    obtain ⟨n, rfl⟩ := Int.eq_ofNat_of_zero_le h.1
    rw [Int.toNat_natCast, vbiEncode_loop_eq _ _ _ (by omega)]
    simp
  · have hv : vbiEnc x = .error .valueError := by
      unfold vbiEnc
      rw [if_neg (by simpa [Gen.vbiLo, Gen.vbiHi] using h)]
    have h' : (!(decide (0 ≤ x) && decide (x ≤ 268435455))) = true := by
      simp only [Bool.not_eq_true', Bool.and_eq_false_iff, decide_eq_false_iff_not]
      by_cases h0 : 0 ≤ x
      · exact Or.inr (fun h1 => h ⟨h0, h1⟩)
      · exact Or.inl h0
    rw [hv]
    simp [h', throw, throwThe, MonadExceptOf.throw]

/-! ### `VariableByteIntegers.decode` -/

/-- the model's result read as Python values (ints), its "buffer exhausted" error as IndexError -/
def liftDec : Except Exc (Nat × Nat) → Except Exc (Int × Int)
  | .ok (v, k) => .ok ((v : Int), (k : Int))
  | .error _ => .error .indexError

theorem vbiDecode_loop_eq (fuel : Nat) : ∀ (b : Bytes) (mult value used : Nat), b.length < fuel →
    vbiDecode_loop fuel (b, (mult : Int), (value : Int), (used : Int)) = liftDec (vbiDecAux b mult value used) := by
  induction fuel with
  | zero => intro b _ _ _ h; omega
  | succ fuel ih =>
    intro b mult value used hb
    unfold vbiDecode_loop vbiDecode_body
    simp only [bind, Except.bind, pure, Except.pure]
    cases b with
    | nil => simp [Py.first, vbiDecAux, liftDec]
    | cons d rest =>
      simp only [Py.first, vbiDecAux, List.drop_succ_cons, List.drop_zero]
      have e127 : (127 : Int) = ((127 : Nat) : Int) := rfl
      have e128 : (128 : Int) = ((128 : Nat) : Int) := rfl
      rw [e127, e128, band_nat, band_nat]
      simp only
      by_cases hz : d.toNat &&& 128 = 0
      · have : ((((d.toNat &&& 128 : Nat) : Int)) == 0) = true := by simp [hz]
        simp only [this, if_true, hz]
        simp [vbiDecode_after, pure, Except.pure, liftDec]
      · have : ((((d.toNat &&& 128 : Nat) : Int)) == 0) = false := by
          simp only [beq_eq_false_iff_ne, ne_eq]
          intro h0; apply hz; exact_mod_cast h0
        simp only [this, hz, if_false, Bool.false_eq_true]
        have hl : rest.length < fuel := by simp at hb; omega
        have := ih rest (mult * 128) (value + (d.toNat &&& 127) * mult) (used + 1) hl
        push_cast at this
        rw [← this]
        rfl

/-- **`VariableByteIntegers.decode` as the source has it now = the model's `vbiDec`** (value and number of bytes
used; IndexError when the buffer ends inside the integer), for every buffer -/
theorem fn_vbiDecode (b : Bytes) : vbiDecode b = liftDec (vbiDec b) := by
  unfold vbiDecode vbiDec
  have := vbiDecode_loop_eq (b.length + 1) b 1 0 0 (by omega)
  simpa using this

end Paho.FnEq
