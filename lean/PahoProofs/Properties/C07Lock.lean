/-
C07, section C — lock order: mutual exclusion and deadlock freedom of blocking acquisition under the rank discipline
extracted from the source, over all schedules; plus the extracted facts checked on this run.
-/
import Paho.Model.Threads
import PahoProofs.Lemmas.ThrLock
namespace Paho.Thr
open Paho

/-! ### facts extracted from the source on this run (T1) -/
theorem c07_gen_facts :
    Gen.midGenUnderLock = true ∧ Gen.midGenShapeOk = true ∧ Gen.wakeAfterAppend = true ∧
    Gen.directWriteOnlyWithoutThread = true ∧ Gen.pushbackFront = true ∧ Gen.dequeMutatorsOk = true ∧
    Gen.loopOrderOk = true ∧ Gen.threadClearedAtExit = true := by decide
theorem c07_ranks_ok : ranksOk = true := by decide
theorem c07_accesses_guarded : accessesGuarded = true := by decide

/-! ### C. lock order -/
def LockSys.init (n : Nat) : LockSys := { n := n }

theorem LockSys.init_run (n : Nat) (sched : List (Tid × LAct)) :
    LInv ((LockSys.init n).run sched) ∧ ((LockSys.init n).run sched).n = n :=
  (LInv.init n).run sched

/-- mutual exclusion: no lock is held by two threads -/
theorem c07_lock_mutex (n : Nat) (sched : List (Tid × LAct)) (t u : Tid) (l : LockId) :
    let s := (LockSys.init n).run sched
    t < n → u < n → s.holders l t = true → s.holders l u = true → t = u := by
  intro s ht hu h1 h2
  obtain ⟨hinv, hn⟩ := LockSys.init_run n sched
  exact hinv.mutex l t u (by rw [hn]; exact ht) (by rw [hn]; exact hu) h1 h2

/-- deadlock freedom: as long as some thread has not finished, some thread can take a step -/
theorem c07_no_deadlock (n : Nat) (sched : List (Tid × LAct)) :
    let s := (LockSys.init n).run sched
    (∃ t, t < n ∧ (s.thr t).done = false) → ∃ t, s.canMove t = true := by
  intro s hex
  obtain ⟨hinv, hn⟩ := LockSys.init_run n sched
  obtain ⟨t, ht, hnd⟩ := hex
  exact hinv.no_deadlock ⟨t, by rw [hn]; exact ht, hnd⟩

/-- `canMove` means what it says: an action of that thread is enabled -/
theorem c07_canMove_enabled (n : Nat) (sched : List (Tid × LAct)) (t : Tid) :
    let s := (LockSys.init n).run sched
    s.canMove t = true → ∃ a, (s.step t a).isSome = true := by
  intro s hc
  exact LockSys.canMove_enabled s t hc

/-- every acquisition the source can make (extracted edges) is one the model's discipline admits -/
theorem c07_edges_disciplined : ∀ e ∈ Gen.lockEdges, disciplined [e.1] e.2 = true := by decide

-- non-vacuity: two threads contending for outMessage then inCallback; the second is blocked until the first releases
example :
    let s := (LockSys.init 2).run [(0, .request .outMessage), (0, .grant), (1, .request .outMessage), (1, .grant),
      (0, .request .inCallback), (0, .grant), (0, .release), (0, .release), (1, .grant)]
    (s.thr 1).held = [.outMessage] ∧ (s.thr 0).held = [] ∧ s.canMove 0 = true := by decide

end Paho.Thr
