/-
T1, translated functions: each function of `Paho.Gen.Fn` (generated on every run from the AST of the current source by
py/py2lean.py, one generated file per consumer) equals, for ALL arguments, the hand-written model function the property
theorems are stated about. A change to the body of one of these Python functions changes the generated definition; then
either the property still holds and these proofs have to be redone, or it does not and the failing-input search exhibits
the input.
-/
import Paho.Gen.FnSubOpts
import Paho.Model.Props
import PahoProofs.Lemmas.PyOps

namespace Paho.FnEq
open Paho Paho.Gen.Fn

/-! ### `SubscribeOptions.pack` / `unpack` -/

/-- **`SubscribeOptions.pack` as the source has it now = the model's `SubOpts.pack`** (one byte, or AssertionError),
for every options object with non-negative integer fields -/
theorem fn_subOptsPack (o : SubOpts) :
    subOptsPack (o.qos : Int) o.noLocal o.retainAsPublished (o.retainHandling : Int) = (o.pack).map (fun b => [b]) := by
  obtain ⟨q, nl, rap, rh⟩ := o
  unfold subOptsPack SubOpts.pack SubOpts.valid
  simp only [bind, Except.bind, pure, Except.pure]
  by_cases hrh : rh ≤ 2
  · by_cases hq : q ≤ 2
    · have hr3 : rh = 0 ∨ rh = 1 ∨ rh = 2 := by omega
      have hq3 : q = 0 ∨ q = 1 ∨ q = 2 := by omega
      rcases hr3 with rfl | rfl | rfl <;> rcases hq3 with rfl | rfl | rfl <;> cases nl <;> cases rap <;> rfl
    · have hq' : ¬ (q ≤ 2) := hq
      have h1 : (((q : Int) == 0) || ((q : Int) == 1) || ((q : Int) == 2)) = false := by simp; omega
      have h2 : ((((rh : Int) == 0) || ((rh : Int) == 1) || ((rh : Int) == 2))) = true := by
        have hr3 : rh = 0 ∨ rh = 1 ∨ rh = 2 := by omega
        rcases hr3 with rfl | rfl | rfl <;> rfl
      simp [h1, h2, hrh, hq', Except.map, throw, throwThe, MonadExceptOf.throw]
  · have h2 : ((((rh : Int) == 0) || ((rh : Int) == 1) || ((rh : Int) == 2))) = false := by simp; omega
    simp [h2, hrh, Except.map, throw, throwThe, MonadExceptOf.throw]

/-- the model's decoded options read as the attribute values the Python method leaves behind, with its return value 1 -/
def liftUnpack : Except Exc SubOpts → Except Exc (Int × Int × Bool × Bool × Int)
  | .ok o => .ok (1, (o.qos : Int), o.noLocal, o.retainAsPublished, (o.retainHandling : Int))
  | .error e => .error e

/-- **`SubscribeOptions.unpack` as the source has it now = the model's `SubOpts.unpack`**: the four attributes it sets
(whatever they were before), the return value 1, AssertionError for QoS 3 / retain handling 3, for every byte -/
theorem fn_subOptsUnpack (q0 : Int) (nl0 rap0 : Bool) (rh0 : Int) (b : UInt8) (rest : Bytes) :
    subOptsUnpack q0 nl0 rap0 rh0 (b :: rest) = liftUnpack (SubOpts.unpack b) := by
  unfold subOptsUnpack SubOpts.unpack SubOpts.valid
  simp only [bind, Except.bind, pure, Except.pure, Py.first]
  have e3 : (3 : Int) = ((3 : Nat) : Int) := rfl
  have e1 : (1 : Int) = ((1 : Nat) : Int) := rfl
  rw [e3, e1]
  simp only [shr_nat, band_nat]
  have hr : (b.toNat >>> 4) &&& 3 ≤ 3 := Nat.and_le_right
  have hq : b.toNat &&& 3 ≤ 3 := Nat.and_le_right
  have ha : (b.toNat >>> 3) &&& 1 ≤ 1 := Nat.and_le_right
  have hn : (b.toNat >>> 2) &&& 1 ≤ 1 := Nat.and_le_right
  generalize (b.toNat >>> 4) &&& 3 = r at *
  generalize b.toNat &&& 3 = q at *
  generalize (b.toNat >>> 3) &&& 1 = a at *
  generalize (b.toNat >>> 2) &&& 1 = n at *
  have hr4 : r = 0 ∨ r = 1 ∨ r = 2 ∨ r = 3 := by omega
  have hq4 : q = 0 ∨ q = 1 ∨ q = 2 ∨ q = 3 := by omega
  have ha2 : a = 0 ∨ a = 1 := by omega
  have hn2 : n = 0 ∨ n = 1 := by omega
  rcases hr4 with rfl | rfl | rfl | rfl <;> rcases hq4 with rfl | rfl | rfl | rfl <;>
    rcases ha2 with rfl | rfl <;> rcases hn2 with rfl | rfl <;> rfl

theorem fn_subOptsUnpack_empty (q0 : Int) (nl0 rap0 : Bool) (rh0 : Int) :
    subOptsUnpack q0 nl0 rap0 rh0 [] = .error .indexError := rfl

end Paho.FnEq
