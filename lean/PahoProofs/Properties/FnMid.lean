/-
T1, translated functions: each function of `Paho.Gen.Fn` (generated on every run from the AST of the current source by
py/py2lean.py, one generated file per consumer) equals, for ALL arguments, the hand-written model function the property
theorems are stated about. A change to the body of one of these Python functions changes the generated definition; then
either the property still holds and these proofs have to be redone, or it does not and the failing-input search exhibits
the input.
-/
import Paho.Gen.FnMid
import Paho.Model.Mid

namespace Paho.FnEq
open Paho Paho.Gen.Fn

/-! ### `Client._mid_generate` (the critical section) -/

theorem midNext_eq (last : Nat) : midNext last = if last + 1 = 65536 then 1 else last + 1 := by
  unfold midNext
  simp only [Gen.midIncr, Gen.midWrapCmp, Gen.midWrap, Gen.midReset, Cmp.evalNat, decide_eq_true_eq]

/-- **`Client._mid_generate` as the source has it now = the model's `midNext`**: the value returned and the new
`_last_mid`, for every `_last_mid` -/
theorem fn_midGenerate (last : Nat) :
    midGenerate (last : Int) = .ok (((midNext last : Nat) : Int), ((midNext last : Nat) : Int)) := by
  rw [midNext_eq]
  unfold midGenerate
  by_cases h : last + 1 = 65536
  · have : last = 65535 := by omega
    subst this; rfl
  · have h' : (((last : Int) + 1) == 65536) = false := by
      rw [beq_eq_false_iff_ne]; omega
    rw [if_neg h]
    simp only [pure, Except.pure, h', Bool.false_eq_true, if_false]
    push_cast
    rfl

end Paho.FnEq
