/-
T1, translated functions: each function of `Paho.Gen.Fn` (generated on every run from the AST of the current source by
py/py2lean.py) equals, for ALL arguments, the hand-written model function the property theorems are stated about.
A change to the body of one of these Python functions changes the generated definition; then either the property still
holds and these proofs have to be redone, or it does not and the failing-input search exhibits the input.
-/
import Paho.Gen.Fn
import Paho.Model.Bytes
import Paho.Model.Mid
import Paho.Model.Props

namespace Paho.FnEq
open Paho Paho.Gen.Fn

/-! ### the Python helper operations on the values that occur -/

theorem bor_nat (a b : Nat) : Py.bor (a : Int) (b : Int) = .ok ((a ||| b : Nat) : Int) := by
  simp [Py.bor]

theorem band_nat (a b : Nat) : Py.band (a : Int) (b : Int) = .ok ((a &&& b : Nat) : Int) := by
  simp [Py.band]

theorem byteOf_nat (k : Nat) (h : k < 256) : Py.byteOf (k : Int) = .ok (b8 k) := by
  have : (k : Int) < 256 := by omega
  simp [Py.byteOf, this, b8]

theorem or128_lt (a : Nat) (h : a < 128) : a ||| 128 < 256 := by
  have h1 : a < 2 ^ 8 := by omega
  have h2 : (128 : Nat) < 2 ^ 8 := by decide
  exact Nat.or_lt_two_pow h1 h2

/-! ### `Client._pack_remaining_length` -/

theorem remLenEnc_lt (n : Nat) (h : n < 128) : remLenEnc n = [b8 n] := by
  rw [remLenEnc]
  have h1 : n / 128 = 0 := by omega
  have h2 : n % 128 = n := by omega
  simp [Gen.rlBase, h1, h2]

theorem remLenEnc_ge (n : Nat) (h : 128 ≤ n) :
    remLenEnc n = b8 (n % 128 ||| 128) :: remLenEnc (n / 128) := by
  rw [remLenEnc]
  have h1 : 0 < n / 128 := by omega
  simp [Gen.rlBase, Gen.rlFlag, h1]

theorem packRemainingLength_body_eq (pkt : Bytes) (n : Nat) (rb : List Int) :
    packRemainingLength_body pkt n rb =
      .ok (if n / 128 > 0 then
             .cont (pkt ++ [b8 ((n % 128) ||| 128)], ((n / 128 : Nat) : Int), rb ++ [(((n % 128) ||| 128 : Nat) : Int)])
           else .ret (pkt ++ [b8 (n % 128)])) := by
  unfold packRemainingLength_body
  simp only [bind, Except.bind, pure, Except.pure]
  have hm : (n : Int) % 128 = ((n % 128 : Nat) : Int) := by omega
  have hd : (n : Int) / 128 = ((n / 128 : Nat) : Int) := by omega
  have hlt : n % 128 < 128 := Nat.mod_lt _ (by decide)
  rw [hm, hd]
  have e128 : (128 : Int) = ((128 : Nat) : Int) := rfl
  by_cases h : n / 128 > 0
  · have h' : decide ((((n / 128 : Nat) : Int)) > 0) = true := by simp; omega
    have hne : ((((n / 128 : Nat) : Int)) == 0) = false := by simp; omega
    rw [if_pos h', if_pos h, e128, bor_nat]
    simp only [byteOf_nat _ (or128_lt _ hlt), hne]
    rfl
  · have h' : ¬ decide ((((n / 128 : Nat) : Int)) > 0) = true := by simp; omega
    have hz : ((((n / 128 : Nat) : Int)) == 0) = true := by simp; omega
    rw [if_neg h', if_neg h]
    simp only [byteOf_nat _ (show n % 128 < 256 by omega), hz, if_true]

theorem packRemainingLength_loop_eq (fuel : Nat) : ∀ (n : Nat) (pkt : Bytes) (rb : List Int), n < fuel →
    packRemainingLength_loop fuel (pkt, (n : Int), rb) = .ok (pkt ++ remLenEnc n) := by
  induction fuel with
  | zero => intro n _ _ h; omega
  | succ fuel ih =>
    intro n pkt rb hn
    unfold packRemainingLength_loop
    simp only [packRemainingLength_body_eq]
    by_cases h : n / 128 > 0
    · have hlt : n / 128 < fuel := by
        have : n / 128 < n := Nat.div_lt_self (by omega) (by decide)
        omega
      rw [remLenEnc_ge n (by omega), if_pos h]
      simp only
      rw [ih _ _ _ hlt]
      simp
    · have hn' : n < 128 := by omega
      have hm : n % 128 = n := by omega
      rw [remLenEnc_lt n hn', if_neg h, hm]

/-- **`Client._pack_remaining_length` as the source has it now = the model's encoder**, for every packet prefix and
every length (the guard `> 268435455` included) -/
theorem fn_packRemainingLength (pkt : Bytes) (n : Nat) :
    packRemainingLength pkt (n : Int) = (remLenEncChecked n).map (pkt ++ ·) := by
  unfold packRemainingLength remLenEncChecked
  simp only [bind, Except.bind, pure, Except.pure, Gen.rlGuardCmp, Gen.rlGuardMax, Cmp.evalNat]
  by_cases h : n > 268435455
  · have h' : decide ((n : Int) > 268435455) = true := by simp; omega
    simp [h', h, throw, throwThe, MonadExceptOf.throw, Except.map]
  · have h' : ¬ decide ((n : Int) > 268435455) = true := by simp; omega
    simp only [h', h, if_false, decide_false, Bool.false_eq_true]
    rw [Int.toNat_natCast, packRemainingLength_loop_eq _ _ _ _ (by omega)]
    rfl

/-! ### `VariableByteIntegers.encode` -/

theorem vbiEncode_body_eq (buf : Bytes) (n : Nat) :
    vbiEncode_body (n : Int) buf =
      .ok (if n / 128 > 0 then .cont (((n / 128 : Nat) : Int), buf ++ [b8 ((n % 128) ||| 128)])
           else .brk (((n / 128 : Nat) : Int), buf ++ [b8 (n % 128)])) := by
  unfold vbiEncode_body
  simp only [bind, Except.bind, pure, Except.pure]
  have hm : (n : Int) % 128 = ((n % 128 : Nat) : Int) := by omega
  have hd : (n : Int) / 128 = ((n / 128 : Nat) : Int) := by omega
  have hlt : n % 128 < 128 := Nat.mod_lt _ (by decide)
  rw [hm, hd]
  have e128 : (128 : Int) = ((128 : Nat) : Int) := rfl
  by_cases h : n / 128 > 0
  · have h' : decide ((((n / 128 : Nat) : Int)) > 0) = true := by simp; omega
    have hne : ((((n / 128 : Nat) : Int)) == 0) = false := by simp; omega
    rw [if_pos h', if_pos h, e128, bor_nat]
    simp only [byteOf_nat _ (or128_lt _ hlt), hne]
    rfl
  · have h' : ¬ decide ((((n / 128 : Nat) : Int)) > 0) = true := by simp; omega
    have hz : ((((n / 128 : Nat) : Int)) == 0) = true := by simp; omega
    rw [if_neg h', if_neg h]
    simp only [byteOf_nat _ (show n % 128 < 256 by omega), hz, if_true]

theorem vbiEncode_loop_eq (fuel : Nat) : ∀ (n : Nat) (buf : Bytes), n < fuel →
    vbiEncode_loop fuel ((n : Int), buf) = .ok (buf ++ remLenEnc n) := by
  induction fuel with
  | zero => intro n _ h; omega
  | succ fuel ih =>
    intro n buf hn
    unfold vbiEncode_loop
    simp only [vbiEncode_body_eq]
    by_cases h : n / 128 > 0
    · have hlt : n / 128 < fuel := by
        have : n / 128 < n := Nat.div_lt_self (by omega) (by decide)
        omega
      rw [remLenEnc_ge n (by omega), if_pos h]
      simp only
      rw [ih _ _ hlt]
      simp
    · have hn' : n < 128 := by omega
      have hm : n % 128 = n := by omega
      rw [remLenEnc_lt n hn', if_neg h, hm]
      simp [vbiEncode_after, pure, Except.pure]

/-- **`VariableByteIntegers.encode` as the source has it now = the model's `vbiEnc`**, for every integer (the range
check included) -/
theorem fn_vbiEncode (x : Int) : vbiEncode x = vbiEnc x := by
  unfold vbiEncode
  simp only [bind, Except.bind, pure, Except.pure]
  by_cases h : 0 ≤ x ∧ x ≤ 268435455
  · have hv : vbiEnc x = .ok (remLenEnc x.toNat) := by simp [vbiEnc, Gen.vbiLo, Gen.vbiHi, h.1, h.2]
    have h' : (!(decide (0 ≤ x) && decide (x ≤ 268435455))) = false := by simp [h.1, h.2]
    rw [hv]
    simp only [h', Bool.false_eq_true, if_false]
    obtain ⟨n, rfl⟩ := Int.eq_ofNat_of_zero_le h.1
    rw [Int.toNat_natCast, vbiEncode_loop_eq _ _ _ (by omega)]
    simp
  · have hv : vbiEnc x = .error .valueError := by
      unfold vbiEnc
      rw [if_neg (by simpa [Gen.vbiLo, Gen.vbiHi] using h)]
    have h' : (!(decide (0 ≤ x) && decide (x ≤ 268435455))) = true := by
      simp only [Bool.not_eq_true', Bool.and_eq_false_iff, decide_eq_false_iff_not]
      by_cases h0 : 0 ≤ x
      · exact Or.inr (fun h1 => h ⟨h0, h1⟩)
      · exact Or.inl h0
    rw [hv]
    simp [h', throw, throwThe, MonadExceptOf.throw]

/-! ### `VariableByteIntegers.decode` -/

/-- the model's result read as Python values (ints), its "buffer exhausted" error as IndexError -/
def liftDec : Except Exc (Nat × Nat) → Except Exc (Int × Int)
  | .ok (v, k) => .ok ((v : Int), (k : Int))
  | .error _ => .error .indexError

theorem vbiDecode_loop_eq (fuel : Nat) : ∀ (b : Bytes) (mult value used : Nat), b.length < fuel →
    vbiDecode_loop fuel (b, (mult : Int), (value : Int), (used : Int)) = liftDec (vbiDecAux b mult value used) := by
  induction fuel with
  | zero => intro b _ _ _ h; omega
  | succ fuel ih =>
    intro b mult value used hb
    unfold vbiDecode_loop vbiDecode_body
    simp only [bind, Except.bind, pure, Except.pure]
    cases b with
    | nil => simp [Py.first, vbiDecAux, liftDec]
    | cons d rest =>
      simp only [Py.first, vbiDecAux, List.drop_succ_cons, List.drop_zero]
      have e127 : (127 : Int) = ((127 : Nat) : Int) := rfl
      have e128 : (128 : Int) = ((128 : Nat) : Int) := rfl
      rw [e127, e128, band_nat, band_nat]
      simp only
      by_cases hz : d.toNat &&& 128 = 0
      · have : ((((d.toNat &&& 128 : Nat) : Int)) == 0) = true := by simp [hz]
        simp only [this, if_true, hz]
        simp [vbiDecode_after, pure, Except.pure, liftDec]
      · have : ((((d.toNat &&& 128 : Nat) : Int)) == 0) = false := by
          simp only [beq_eq_false_iff_ne, ne_eq]
          intro h0; apply hz; exact_mod_cast h0
        simp only [this, hz, if_false, Bool.false_eq_true]
        have hl : rest.length < fuel := by simp at hb; omega
        have := ih rest (mult * 128) (value + (d.toNat &&& 127) * mult) (used + 1) hl
        push_cast at this
        rw [← this]
        rfl

/-- **`VariableByteIntegers.decode` as the source has it now = the model's `vbiDec`** (value and number of bytes
used; IndexError when the buffer ends inside the integer), for every buffer -/
theorem fn_vbiDecode (b : Bytes) : vbiDecode b = liftDec (vbiDec b) := by
  unfold vbiDecode vbiDec
  have := vbiDecode_loop_eq (b.length + 1) b 1 0 0 (by omega)
  simpa using this

/-! ### `Client._mid_generate` (the critical section) -/

theorem midNext_eq (last : Nat) : midNext last = if last + 1 = 65536 then 1 else last + 1 := by
  unfold midNext
  simp only [Gen.midIncr, Gen.midWrapCmp, Gen.midWrap, Gen.midReset, Cmp.evalNat, decide_eq_true_eq]

/-- **`Client._mid_generate` as the source has it now = the model's `midNext`**: the value returned and the new
`_last_mid`, for every `_last_mid` -/
theorem fn_midGenerate (last : Nat) :
    midGenerate (last : Int) = .ok (((midNext last : Nat) : Int), ((midNext last : Nat) : Int)) := by
  rw [midNext_eq]
  unfold midGenerate
  by_cases h : last + 1 = 65536
  · have : last = 65535 := by omega
    subst this; rfl
  · have h' : (((last : Int) + 1) == 65536) = false := by
      rw [beq_eq_false_iff_ne]; omega
    rw [if_neg h]
    simp only [pure, Except.pure, h', Bool.false_eq_true, if_false]
    push_cast
    rfl

/-! ### `SubscribeOptions.pack` / `unpack` -/

theorem shl_nat (a k : Nat) : Py.shl (a : Int) k = .ok ((a <<< k : Nat) : Int) := by
  simp [Py.shl, Nat.shiftLeft_eq]

theorem shr_nat (a k : Nat) : Py.shr (a : Int) k = .ok ((a >>> k : Nat) : Int) := by
  unfold Py.shr
  rw [if_pos (Int.natCast_nonneg a), Nat.shiftRight_eq_div_pow]
  congr 1

/-- **`SubscribeOptions.pack` as the source has it now = the model's `SubOpts.pack`** (one byte, or AssertionError),
for every options object with non-negative integer fields -/
theorem fn_subOptsPack (o : SubOpts) :
    subOptsPack (o.qos : Int) o.noLocal o.retainAsPublished (o.retainHandling : Int) = (o.pack).map (fun b => [b]) := by
  obtain ⟨q, nl, rap, rh⟩ := o
  unfold subOptsPack SubOpts.pack SubOpts.valid
  simp only [bind, Except.bind, pure, Except.pure]
  by_cases hrh : rh ≤ 2
  · by_cases hq : q ≤ 2
    · have hr3 : rh = 0 ∨ rh = 1 ∨ rh = 2 := by omega
      have hq3 : q = 0 ∨ q = 1 ∨ q = 2 := by omega
      rcases hr3 with rfl | rfl | rfl <;> rcases hq3 with rfl | rfl | rfl <;> cases nl <;> cases rap <;> rfl
    · have hq' : ¬ (q ≤ 2) := hq
      have h1 : (((q : Int) == 0) || ((q : Int) == 1) || ((q : Int) == 2)) = false := by simp; omega
      have h2 : ((((rh : Int) == 0) || ((rh : Int) == 1) || ((rh : Int) == 2))) = true := by
        have hr3 : rh = 0 ∨ rh = 1 ∨ rh = 2 := by omega
        rcases hr3 with rfl | rfl | rfl <;> rfl
      simp [h1, h2, hrh, hq', Except.map, throw, throwThe, MonadExceptOf.throw]
  · have h2 : ((((rh : Int) == 0) || ((rh : Int) == 1) || ((rh : Int) == 2))) = false := by simp; omega
    simp [h2, hrh, Except.map, throw, throwThe, MonadExceptOf.throw]

/-- the model's decoded options read as the attribute values the Python method leaves behind, with its return value 1 -/
def liftUnpack : Except Exc SubOpts → Except Exc (Int × Int × Bool × Bool × Int)
  | .ok o => .ok (1, (o.qos : Int), o.noLocal, o.retainAsPublished, (o.retainHandling : Int))
  | .error e => .error e

/-- **`SubscribeOptions.unpack` as the source has it now = the model's `SubOpts.unpack`**: the four attributes it sets
(whatever they were before), the return value 1, AssertionError for QoS 3 / retain handling 3, for every byte -/
theorem fn_subOptsUnpack (q0 : Int) (nl0 rap0 : Bool) (rh0 : Int) (b : UInt8) (rest : Bytes) :
    subOptsUnpack q0 nl0 rap0 rh0 (b :: rest) = liftUnpack (SubOpts.unpack b) := by
  unfold subOptsUnpack SubOpts.unpack SubOpts.valid
  simp only [bind, Except.bind, pure, Except.pure, Py.first]
  have e3 : (3 : Int) = ((3 : Nat) : Int) := rfl
  have e1 : (1 : Int) = ((1 : Nat) : Int) := rfl
  rw [e3, e1]
  simp only [shr_nat, band_nat]
  have hr : (b.toNat >>> 4) &&& 3 ≤ 3 := Nat.and_le_right
  have hq : b.toNat &&& 3 ≤ 3 := Nat.and_le_right
  have ha : (b.toNat >>> 3) &&& 1 ≤ 1 := Nat.and_le_right
  have hn : (b.toNat >>> 2) &&& 1 ≤ 1 := Nat.and_le_right
  generalize (b.toNat >>> 4) &&& 3 = r at *
  generalize b.toNat &&& 3 = q at *
  generalize (b.toNat >>> 3) &&& 1 = a at *
  generalize (b.toNat >>> 2) &&& 1 = n at *
  have hr4 : r = 0 ∨ r = 1 ∨ r = 2 ∨ r = 3 := by omega
  have hq4 : q = 0 ∨ q = 1 ∨ q = 2 ∨ q = 3 := by omega
  have ha2 : a = 0 ∨ a = 1 := by omega
  have hn2 : n = 0 ∨ n = 1 := by omega
  rcases hr4 with rfl | rfl | rfl | rfl <;> rcases hq4 with rfl | rfl | rfl | rfl <;>
    rcases ha2 with rfl | rfl <;> rcases hn2 with rfl | rfl <;> rfl

theorem fn_subOptsUnpack_empty (q0 : Int) (nl0 rap0 : Bool) (rh0 : Int) :
    subOptsUnpack q0 nl0 rap0 rh0 [] = .error .indexError := rfl

end Paho.FnEq
