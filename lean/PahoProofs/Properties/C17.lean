/-
C17 — MQTT 5 properties and reason codes: lossless codec and validation.
STATEMENTS TO PROVE.  The tables `Gen.propRows`, `Gen.propNames`, `Gen.propTypes`, `Gen.propMultiIds`,
`Gen.reasonRows`, `Gen.propRangeRules`, `Gen.propEnumRules` in Paho/Gen/Tables.lean are GENERATED from the
Python source; `Spec.*` in Paho/Spec/Props.lean is typed in from the MQTT 5.0 standard.
-/
import Paho.Model.Props
import Paho.Spec.Props
import PahoProofs.Lemmas.PropsVbi
import PahoProofs.Lemmas.PropsTable
import PahoProofs.Lemmas.PropsWF
import PahoProofs.Lemmas.PropsPack
import PahoProofs.Lemmas.PropsUnpack

namespace Paho
open Spec PropsLemmas

/-! ## the source's tables are the specification's tables -/

/-- property table: same identifiers, same wire types (by the code's type names), same packet lists -/
theorem c17_prop_table :
    Gen.propRows.map (fun (i, t, pk) => (i, Gen.propTypes[t]?, pk)) =
      Spec.propTable.map (fun (i, ty, pk) => (i, some ty.codeName, pk)) := by decide +kernel

theorem c17_prop_names_ids : Gen.propNames.map (·.2) = Spec.propTable.map (·.1) := by decide +kernel

theorem c17_repeatable : Gen.propMultiIds = Spec.repeatable := by decide +kernel

/-- all 16 × 256 (packet type, value) pairs, checked by evaluation -/
theorem reason_all : ((List.range 16).all fun pt => (List.range 256).all fun v =>
    (pt == 0) || (((Reason.mkById pt v).isOk == Spec.reasonDefined pt v) &&
      ((Reason.unpack pt v).isOk == Spec.reasonDefined pt v) &&
      (!Spec.reasonDefined pt v || (match Reason.unpack pt v with | .ok w => w == v | .error _ => false)))) = true := by
  decide +kernel

theorem reason_pair (pt v : Nat) (hpt : 1 ≤ pt ∧ pt ≤ 15) (hv : v < 256) :
    (Reason.mkById pt v).isOk = Spec.reasonDefined pt v ∧
    (Reason.unpack pt v).isOk = Spec.reasonDefined pt v ∧
    (Spec.reasonDefined pt v = true → Reason.unpack pt v = .ok v) := by
  have h1 := List.all_eq_true.mp reason_all pt (List.mem_range.mpr (by omega))
  have h2 := List.all_eq_true.mp h1 v (List.mem_range.mpr hv)
  have hpt0 : (pt == 0) = false := by simp; omega
  simp only [hpt0, Bool.false_or, Bool.and_eq_true, beq_iff_eq, Bool.or_eq_true, Bool.not_eq_true'] at h2
  obtain ⟨⟨h3, h4⟩, h5⟩ := h2
  refine ⟨h3, h4, fun hd => ?_⟩
  rcases h5 with h5 | h5
  · rw [hd] at h5; cases h5
  · split at h5
    · rename_i w hw; rw [hw]; simp only [beq_iff_eq] at h5; rw [h5]
    · cases h5

/-- reason codes: a ReasonCode can be constructed (by identifier) for exactly the (packet type, value)
pairs the specification defines — all 15 packet types × 256 values -/
theorem c17_reason_table (pt v : Nat) (hpt : 1 ≤ pt ∧ pt ≤ 15) (hv : v < 256) :
    (Reason.mkById pt v).isOk = Spec.reasonDefined pt v := (reason_pair pt v hpt hv).1

/-- … and unpacking a byte yields that same value, for exactly the same pairs (for an existing object) -/
theorem c17_reason_unpack (pt v : Nat) (hpt : 1 ≤ pt ∧ pt ≤ 15) (hv : v < 256) :
    Reason.unpack pt v = (if Spec.reasonDefined pt v then .ok v else Reason.unpack pt v) ∧
    ((Reason.unpack pt v).isOk = Spec.reasonDefined pt v) := by
  refine ⟨?_, (reason_pair pt v hpt hv).2.1⟩
  split
  · rename_i hd; exact (reason_pair pt v hpt hv).2.2 hd
  · rfl

/-- EXTRA (the content the first conjunct above was meant to carry): for the defined pairs, unpacking a byte
yields that very value -/
theorem c17_reason_unpack_value (pt v : Nat) (hpt : 1 ≤ pt ∧ pt ≤ 15) (hv : v < 256)
    (hd : Spec.reasonDefined pt v = true) : Reason.unpack pt v = .ok v :=
  (reason_pair pt v hpt hv).2.2 hd

/-! ## variable byte integers -/

/-- the encoder produces exactly the specification's (minimal) encoding on its whole domain … -/
theorem c17_vbi_spec (n : Nat) (h : n ≤ 268435455) : vbiEnc (n : Int) = .ok (Spec.vbi n) := vbiEnc_nat n h

/-- … and rejects everything else -/
theorem c17_vbi_range (n : Int) : (vbiEnc n).isOk = (decide (0 ≤ n ∧ n ≤ 268435455)) := vbiEnc_isOk n

/-- decoding an encoding followed by anything returns the value and consumes exactly the encoding -/
theorem c17_vbi_roundtrip (n : Nat) (h : n ≤ 268435455) (tl : Bytes) :
    vbiDec (Spec.vbi n ++ tl) = .ok (n, (Spec.vbi n).length) := vbiDec_vbi n h tl

theorem c17_vbi_length (n : Nat) (h : n ≤ 268435455) :
    (Spec.vbi n).length = (if n < 128 then 1 else if n < 16384 then 2 else if n < 2097152 then 3 else 4) := by
  have _ := h  -- the length formula holds for every n; the hypothesis is not needed
  exact vbi_length n

/-! ## subscribe options -/
theorem c17_subopts_roundtrip (o : SubOpts) (h : o.valid = true) :
    ∃ b, o.pack = .ok b ∧ SubOpts.unpack b = .ok o := by
  obtain ⟨q, nl, rap, rh⟩ := o
  simp only [SubOpts.valid, Bool.and_eq_true, decide_eq_true_eq] at h
  have hq : q = 0 ∨ q = 1 ∨ q = 2 := by omega
  have hr : rh = 0 ∨ rh = 1 ∨ rh = 2 := by omega
  rcases hq with rfl | rfl | rfl <;> rcases hr with rfl | rfl | rfl <;> cases nl <;> cases rap <;>
    exact ⟨_, rfl, rfl⟩

theorem c17_subopts_reject (o : SubOpts) (h : o.valid = false) : o.pack = .error .assertionError := by
  simp [SubOpts.pack, h]

theorem subopts_aux : ∀ x < 256, (x % 4 = 3 ∨ x / 16 % 4 = 3) →
    (decide ((x >>> 4) &&& 3 ≤ 2) && decide (x &&& 3 ≤ 2)) = false := by decide +kernel

theorem c17_subopts_unpack_reject (b : UInt8) (h : b.toNat % 4 = 3 ∨ b.toNat / 16 % 4 = 3) :
    SubOpts.unpack b = .error .assertionError := by
  have := subopts_aux b.toNat (UInt8.toNat_lt b) h
  simp only [SubOpts.unpack, SubOpts.valid, this]
  simp

/-! ## assignment-time validation -/

/-- assignment succeeds only for a known name that is allowed for the packet type -/
theorem c17_setattr_allowed (p p' : Props) (name : String) (v : PVal) (h : p.setAttr name v = .ok p') :
    ∃ i ty pk, Gen.propNames.lookup name = some i ∧ (i, ty, pk) ∈ Spec.propTable ∧ p.ptype ∈ pk := by
  obtain ⟨i, t, pk, hi, hr, hc, _, _⟩ := setAttr_ok h
  obtain ⟨ty, hty, _⟩ := rows_in_spec i t pk hr
  exact ⟨i, ty, pk, hi, hty, contains_mem hc⟩

/-- the specification's forbidden values are refused at assignment (scalar or list form) -/
theorem c17_setattr_forbidden (p : Props) (name : String) (n : Int)
    (h : (name ∈ ["ReceiveMaximum", "TopicAlias"] ∧ (n < 1 ∨ n > 65535)) ∨
         (name = "TopicAliasMaximum" ∧ (n < 0 ∨ n > 65535)) ∨
         (name = "SubscriptionIdentifier" ∧ (n < 1 ∨ n > 268435455)) ∨
         (name = "MaximumPacketSize" ∧ (n < 1 ∨ n > 4294967295)) ∨
         (name ∈ ["RequestResponseInformation", "RequestProblemInformation", "PayloadFormatIndicator"] ∧ n ≠ 0 ∧ n ≠ 1)) :
    (∀ p', p.setAttr name (.int n) ≠ .ok p') ∧ (∀ vs p', (.int n) ∈ vs → p.setAttrList name vs ≠ .ok p') := by
  have hf := forbidden_true name n h
  constructor
  · intro p' hp
    obtain ⟨_, _, _, _, _, _, hnf, _⟩ := setAttr_ok hp
    rw [hf] at hnf; cases hnf
  · intro vs p' hm hp
    obtain ⟨_, _, _, _, _, _, hnf, _⟩ := setAttrList_ok hp
    have : vs.any (Props.valueForbidden name) = true := List.any_eq_true.mpr ⟨_, hm, hf⟩
    rw [this] at hnf; cases hnf

/-! ## packing: exactly the specification's encoding, nothing invalid reaches the wire -/

/-- well-formedness of an object: what `setAttr`/`setAttrList` from an empty object establish -/
def Props.WF (p : Props) : Prop :=
  (p.attrs.map (·.1)).Nodup ∧
  ∀ i vs, (i, vs) ∈ p.attrs →
    vs ≠ [] ∧ (∃ ty pk, (i, ty, pk) ∈ Spec.propTable ∧ p.ptype ∈ pk) ∧ (i ∉ Spec.repeatable → vs.length = 1)

/-- objects built by assignments are well-formed -/
theorem c17_setattr_wf (p p' : Props) (name : String) (v : PVal) (hwf : p.WF) (h : p.setAttr name v = .ok p') : p'.WF :=
  setAttr_wf p p' name v hwf h
theorem c17_setattrlist_wf (p p' : Props) (name : String) (vs : List PVal) (hne : vs ≠ []) (hwf : p.WF)
    (h : p.setAttrList name vs = .ok p') : p'.WF :=
  setAttrList_wf p p' name vs hne hwf h
theorem c17_empty_wf (pt : Nat) : (Props.empty pt).WF := by
  simp [Props.WF, Props.empty]

/-- the specification's encoding of a whole object: properties in table order, repeatable ones in
assignment order, each by `Spec.encodeProp`, prefixed by the VBI length -/
def specBody (p : Props) : Option Bytes :=
  (Spec.propTable.foldr (fun (row : Nat × PType × List Nat) (acc : Option Bytes) =>
    match acc, p.attrs.lookup row.1 with
    | none, _ => none
    | some rest, none => some rest
    | some rest, some vs =>
      (vs.foldr (fun v (a : Option Bytes) => match a, Spec.encodeProp row.1 row.2.1 v with
        | some r, some b => some (b ++ r)
        | _, _ => none) (some [])).map (· ++ rest)) (some []))

theorem packBody_specBody (p : Props) : (p.packBody Gen.propNames).toOption = specBody p :=
  packBody_spec p Gen.propNames Spec.propTable c17_prop_names_ids (fun row hr => by
    obtain ⟨i, ty, pk⟩ := row
    obtain ⟨t, h1, h2, h3⟩ := spec_in_rows i ty pk hr
    exact ⟨t, pk, h1, h2, h3⟩)

theorem pack_char (p : Props) :
    (∀ b, p.pack = .ok b → ∃ body, specBody p = some body ∧ body.length ≤ 268435455 ∧ b = Spec.vbi body.length ++ body) ∧
    (∀ body, specBody p = some body → body.length ≤ 268435455 → p.pack = .ok (Spec.vbi body.length ++ body)) := by
  have hb := packBody_specBody p
  constructor
  · intro b hp
    unfold Props.pack at hp
    cases hB : p.packBody Gen.propNames with
    | error e => rw [hB] at hp; cases hp
    | ok body =>
      rw [hB] at hp hb
      refine ⟨body, hb.symm, ?_⟩
      by_cases hl : body.length ≤ 268435455
      · refine ⟨hl, ?_⟩
        simp only [bind, Except.bind, vbiEnc_nat body.length hl, pure, Except.pure] at hp
        cases hp; rfl
      · have : ¬ ((0 : Int) ≤ ↑body.length ∧ (↑body.length : Int) ≤ 268435455) := by omega
        simp only [bind, Except.bind, vbiEnc_err _ this] at hp
        cases hp
  · intro body hs hl
    rw [hs] at hb
    unfold Props.pack
    cases hB : p.packBody Gen.propNames with
    | error e => rw [hB] at hb; cases hb
    | ok body' =>
      rw [hB] at hb
      have : body' = body := by simpa [Except.toOption] using hb
      subst this
      simp only [bind, Except.bind, vbiEnc_nat body'.length hl, pure, Except.pure]

/-- pack succeeds exactly when every value fits its wire type, and then yields the specification's encoding -/
theorem c17_pack_spec (p : Props) (hwf : p.WF) :
    (∀ b, p.pack = .ok b → ∃ body, specBody p = some body ∧ body.length ≤ 268435455 ∧ b = Spec.vbi body.length ++ body) ∧
    (∀ body, specBody p = some body → body.length ≤ 268435455 → p.pack = .ok (Spec.vbi body.length ++ body)) := by
  have _ := hwf
  exact pack_char p

/-- never on the wire: if some value does not fit its wire type, pack fails -/
theorem c17_pack_rejects (p : Props) (hwf : p.WF) (h : specBody p = none) : ∃ e, p.pack = .error e := by
  have _ := hwf
  cases hp : p.pack with
  | error e => exact ⟨e, rfl⟩
  | ok b =>
    obtain ⟨body, hs, _⟩ := (pack_char p).1 b hp
    rw [h] at hs; cases hs

/-! ## round trip -/

/-- values that survive a round trip: fit the wire type, strings are valid UTF-8 without the code points
MQTT forbids, and pass the assignment rules (unpack re-validates through `setAttr`) -/
def valOk (name : String) (ty : PType) (v : PVal) : Prop :=
  (∃ id, (Spec.encodeProp id ty v).isSome) ∧ Props.valueForbidden name v = false ∧
  match ty, v with
  | .str, .bin b => (∃ cps, utf8Decode b.length b = some cps ∧ mqttCharsOk cps = true)
  | .pair, .pair k w => (∃ cps, utf8Decode k.length k = some cps ∧ mqttCharsOk cps = true) ∧
                        (∃ cps, utf8Decode w.length w = some cps ∧ mqttCharsOk cps = true)
  | _, _ => True

def Props.RoundTrippable (p : Props) : Prop :=
  p.WF ∧ p.ptype < 16 ∧ ∀ i vs, (i, vs) ∈ p.attrs → ∀ name ty pk, Gen.propNames.lookup name = some i →
    (i, ty, pk) ∈ Spec.propTable → ∀ v ∈ vs, valOk name ty v

theorem valOk_readable (name : String) (ty : PType) (v : PVal) (h : valOk name ty v) :
    Props.valueForbidden name v = false ∧ readable ty v := by
  obtain ⟨_, hf, hm⟩ := h
  refine ⟨hf, ?_⟩
  cases ty <;> cases v <;> first | exact hm | trivial

theorem roundTrippable_propOK (p : Props) (h : p.RoundTrippable) : PropOK p := by
  obtain ⟨⟨_, hwf⟩, _, hval⟩ := h
  intro name i vs hmem hg
  have hin : (i, vs) ∈ p.attrs := mem_of_lookup _ _ _ hg
  obtain ⟨hne, ⟨ty, pk, htab, hpt⟩, hlen⟩ := hwf i vs hin
  obtain ⟨t, hrow, hty, hi⟩ := spec_in_rows i ty pk htab
  obtain ⟨hn, _⟩ := names_lookup name i hmem
  refine ⟨hne, t, pk, ty, hrow, hty, by omega, by simpa using hpt, ?_, ?_⟩
  · intro v hv
    exact valOk_readable name ty v (hval i vs hin name ty pk hn htab v hv)
  · by_cases hr : i ∈ Spec.repeatable
    · exact Or.inl ((allowsMultiple_iff i).mpr hr)
    · exact Or.inr (by rw [hlen hr]; exact Nat.le_refl 1)

/-- unpacking a packed object (followed by any bytes) reproduces the same values, property by property
in table order with repeatable ones in their order, and consumes exactly the packed length -/
theorem c17_roundtrip (p : Props) (b tl : Bytes) (h : p.RoundTrippable) (hp : p.pack = .ok b) :
    ∃ q, Props.unpack p.ptype (b ++ tl) = .ok (q, b.length) ∧ q.view = p.view :=
  unpack_pack p (roundTrippable_propOK p h) b tl hp


/-! ## non-vacuity: a concrete object, its bytes, and the way back -/

def exObj : Props := { ptype := 3, attrs := [(38, [.pair [97] [98], .pair [97] [99]]), (11, [.int 300]), (3, [.bin [97]])] }

theorem name_of_lookup (name : String) (i : Nat) (h : Gen.propNames.lookup name = some i) :
    Props.nameOfId i = some name := by
  have hm := mem_of_lookup _ _ _ h
  exact (names_lookup name i hm).2

theorem exObj_rt : exObj.RoundTrippable := by
  refine ⟨⟨by decide, ?_⟩, by decide, ?_⟩
  · intro i vs hm
    simp only [exObj, List.mem_cons, Prod.mk.injEq, List.not_mem_nil, or_false] at hm
    rcases hm with ⟨rfl, rfl⟩ | ⟨rfl, rfl⟩ | ⟨rfl, rfl⟩
    · exact ⟨by simp, ⟨.pair, ((Spec.propTable.lookup 38).getD (.byte, [])).2, by decide, by decide⟩, by decide⟩
    · exact ⟨by simp, ⟨.varint, ((Spec.propTable.lookup 11).getD (.byte, [])).2, by decide, by decide⟩, by decide⟩
    · exact ⟨by simp, ⟨.str, ((Spec.propTable.lookup 3).getD (.byte, [])).2, by decide, by decide⟩, by decide⟩
  · intro i vs hm name ty pk hn ht v hv
    have hname := name_of_lookup name i hn
    simp only [exObj, List.mem_cons, Prod.mk.injEq, List.not_mem_nil, or_false] at hm
    rcases hm with ⟨rfl, rfl⟩ | ⟨rfl, rfl⟩ | ⟨rfl, rfl⟩
    · have : ty = .pair := by
        simp [Spec.propTable] at ht; exact ht.1
      subst this
      simp only [List.mem_cons, List.not_mem_nil, or_false] at hv
      rcases hv with rfl | rfl
      · exact ⟨⟨0, by decide⟩, rfl, ⟨[97], by decide⟩, ⟨[98], by decide⟩⟩
      · exact ⟨⟨0, by decide⟩, rfl, ⟨[97], by decide⟩, ⟨[99], by decide⟩⟩
    · have : ty = .varint := by
        simp [Spec.propTable] at ht; exact ht.1
      subst this
      have hnm : name = "SubscriptionIdentifier" := by
        have : Props.nameOfId 11 = some "SubscriptionIdentifier" := by decide +kernel
        rw [this] at hname; cases hname; rfl
      subst hnm
      simp only [List.mem_cons, List.not_mem_nil, or_false] at hv
      subst hv
      exact ⟨⟨0, by decide⟩, by decide +kernel, trivial⟩
    · have : ty = .str := by
        simp [Spec.propTable] at ht; exact ht.1
      subst this
      simp only [List.mem_cons, List.not_mem_nil, or_false] at hv
      subst hv
      exact ⟨⟨0, by decide⟩, rfl, ⟨[97], by decide⟩⟩

/-- the example object is what four assignments to an empty PUBLISH object produce -/
example : ((Props.empty 3).setAttr "UserProperty" (.pair [97] [98]) >>= (·.setAttr "UserProperty" (.pair [97] [99]))
    >>= (·.setAttr "SubscriptionIdentifier" (.int 300)) >>= (·.setAttr "ContentType" (.bin [97]))).toOption
      = some exObj := by
  decide +kernel

theorem exObj_pack :
    exObj.pack = .ok [21, 3, 0, 1, 97, 11, 172, 2, 38, 0, 1, 97, 0, 1, 98, 38, 0, 1, 97, 0, 1, 99] :=
  (c17_pack_spec exObj exObj_rt.1).2 [3, 0, 1, 97, 11, 172, 2, 38, 0, 1, 97, 0, 1, 98, 38, 0, 1, 97, 0, 1, 99]
    (by decide +kernel) (by decide)

/-- evaluation of `unpack` on those bytes followed by garbage -/
example : (Props.unpack 3 ([21, 3, 0, 1, 97, 11, 172, 2, 38, 0, 1, 97, 0, 1, 98, 38, 0, 1, 97, 0, 1, 99] ++ [1, 2, 3])).toOption =
    some ({ ptype := 3, attrs := [(3, [.bin [97]]), (11, [.int 300]), (38, [.pair [97] [98], .pair [97] [99]])] }, 22) := by
  decide +kernel

/-- … and the same through the theorem (its hypotheses are satisfiable) -/
example : ∃ q, Props.unpack 3 ([21, 3, 0, 1, 97, 11, 172, 2, 38, 0, 1, 97, 0, 1, 98, 38, 0, 1, 97, 0, 1, 99] ++ [1, 2, 3])
    = .ok (q, 22) ∧ q.view = exObj.view :=
  c17_roundtrip exObj _ [1, 2, 3] exObj_rt exObj_pack

/-- a value that does not fit its wire type never reaches the wire -/
example : ∃ e, ({ ptype := 2, attrs := [(19, [.int 65536])] } : Props).pack = .error e :=
  c17_pack_rejects _ ⟨by decide, by
    intro i vs hm
    simp only [List.mem_cons, Prod.mk.injEq, List.not_mem_nil, or_false] at hm
    obtain ⟨rfl, rfl⟩ := hm
    exact ⟨by simp, ⟨.two, [2], by decide, by decide⟩, by decide⟩⟩ (by decide +kernel)

example : Spec.vbi 300 = [172, 2] := by decide
example : vbiDec ([172, 2] ++ [9]) = .ok (300, 2) := c17_vbi_roundtrip 300 (by decide) [9]
example : vbiEnc 268435455 = .ok [255, 255, 255, 127] := c17_vbi_spec 268435455 (by decide)
example : (vbiEnc 268435456).isOk = false := by rw [c17_vbi_range]; decide
example : (SubOpts.mk 2 true false 1).pack = .ok 22 := rfl
example : SubOpts.unpack 22 = .ok (SubOpts.mk 2 true false 1) := rfl
example : Spec.reasonDefined 14 4 = true ∧ Spec.reasonDefined 2 4 = false := by decide

end Paho

namespace Paho
open Paho.Props in
/-- `clear()` leaves no property behind: whatever the object held (and whatever was packed before), it then packs to the
empty property block, the single byte 0 -/
theorem c17_clear_pack (p : Props) : (p.clear).pack = .ok [0] := by
  have hb : ∀ names, packBody p.clear names = .ok [] := by
    intro names
    induction names with
    | nil => rfl
    | cons n rest ih =>
      obtain ⟨_, i⟩ := n
      simp only [packBody, getAttr, clear, List.lookup]
      exact ih
  unfold pack
  rw [hb]
  have hv : vbiEnc (((0 : Nat)) : Int) = .ok [0] := by
    rw [PropsLemmas.vbiEnc_nat 0 (by omega)]; rfl
  simp only [bind, Except.bind, List.length_nil, pure, Except.pure, List.append_nil, hv]

open Paho.Props in
/-- `del props.<name>` succeeds exactly when the property is set; afterwards it is not set and every other property is
untouched -/
theorem c17_del (p p' : Props) (name : String) (h : p.delAttr name = some p') :
    ∃ i, idOfName name = some i ∧ (p.getAttr i).isSome ∧ p'.getAttr i = none ∧
      ∀ j, j ≠ i → p'.getAttr j = p.getAttr j := by
  unfold delAttr at h
  cases hn : idOfName name with
  | none => simp [hn] at h
  | some i =>
    simp only [hn] at h
    by_cases hs : (p.getAttr i).isSome
    · simp only [hs, if_true, Option.some.injEq] at h
      subst h
      refine ⟨i, rfl, hs, ?_, ?_⟩
      · unfold getAttr
        induction p.attrs with
        | nil => rfl
        | cons kv rest ih =>
          by_cases hk : kv.1 = i
          · simp [List.filter, hk, ih]
          · have : (kv.1 != i) = true := by simpa using hk
            simp only [List.filter, this, List.lookup]
            have : (i == kv.1) = false := by rw [beq_eq_false_iff_ne]; exact fun h => hk h.symm
            simp only [this]; exact ih
      · intro j hj
        unfold getAttr
        induction p.attrs with
        | nil => rfl
        | cons kv rest ih =>
          by_cases hk : kv.1 = i
          · have hjk : (j == kv.1) = false := by rw [beq_eq_false_iff_ne, hk]; exact hj
            have hji : (j == i) = false := by rw [beq_eq_false_iff_ne]; exact hj
            simp only [List.filter, hk, bne_self_eq_false, List.lookup, hji]
            exact ih
          · have : (kv.1 != i) = true := by simpa using hk
            simp only [List.filter, this, List.lookup]
            cases hjk : (j == kv.1) with
            | true => rfl
            | false => exact ih
    · simp [hs] at h
end Paho
