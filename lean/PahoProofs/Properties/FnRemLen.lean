/-
T1, translated functions: each function of `Paho.Gen.Fn` (generated on every run from the AST of the current source by
py/py2lean.py, one generated file per consumer) equals, for ALL arguments, the hand-written model function the property
theorems are stated about. A change to the body of one of these Python functions changes the generated definition; then
either the property still holds and these proofs have to be redone, or it does not and the failing-input search exhibits
the input.
-/
import Paho.Gen.FnRemLen
import PahoProofs.Lemmas.PyOps

namespace Paho.FnEq
open Paho Paho.Gen.Fn

/-! ### `Client._pack_remaining_length` -/

theorem packRemainingLength_body_eq (pkt : Bytes) (n : Nat) (rb : List Int) :
    packRemainingLength_body pkt n rb =
      .ok (if n / 128 > 0 then
             .cont (pkt ++ [b8 ((n % 128) ||| 128)], ((n / 128 : Nat) : Int), rb ++ [(((n % 128) ||| 128 : Nat) : Int)])
           else .ret (pkt ++ [b8 (n % 128)])) := by
  unfold packRemainingLength_body
  simp only [bind, Except.bind, pure, Except.pure]
  have hm : (n : Int) % 128 = ((n % 128 : Nat) : Int) := by omega
  have hd : (n : Int) / 128 = ((n / 128 : Nat) : Int) := by omega
  have hlt : n % 128 < 128 := Nat.mod_lt _ (by decide)
  rw [hm, hd]
  have e128 : (128 : Int) = ((128 : Nat) : Int) := rfl
  by_cases h : n / 128 > 0
  · have h' : decide ((((n / 128 : Nat) : Int)) > 0) = true := by simp; omega
    have hne : ((((n / 128 : Nat) : Int)) == 0) = false := by simp; omega
    rw [if_pos h', if_pos h, e128, bor_nat]
    simp only [byteOf_nat _ (or128_lt _ hlt), hne]
    rfl
  · have h' : ¬ decide ((((n / 128 : Nat) : Int)) > 0) = true := by simp; omega
    have hz : ((((n / 128 : Nat) : Int)) == 0) = true := by simp; omega
    rw [if_neg h', if_neg h]
    simp only [byteOf_nat _ (show n % 128 < 256 by omega), hz, if_true]

theorem packRemainingLength_loop_eq (fuel : Nat) : ∀ (n : Nat) (pkt : Bytes) (rb : List Int), n < fuel →
    packRemainingLength_loop fuel (pkt, (n : Int), rb) = .ok (pkt ++ remLenEnc n) := by
  induction fuel with
  | zero => intro n _ _ h; omega
  | succ fuel ih =>
    intro n pkt rb hn
    unfold packRemainingLength_loop
    simp only [packRemainingLength_body_eq]
    by_cases h : n / 128 > 0
    · have hlt : n / 128 < fuel := by
        have : n / 128 < n := Nat.div_lt_self (by omega) (by decide)
        omega
      rw [remLenEnc_ge n (by omega), if_pos h]
      simp only
      rw [ih _ _ _ hlt]
      simp
    · have hn' : n < 128 := by omega
      have hm : n % 128 = n := by omega
      rw [remLenEnc_lt n hn', if_neg h, hm]

/-- **`Client._pack_remaining_length` as the source has it now = the model's encoder**, for every packet prefix and
every length (the guard `> 268435455` included) -/
theorem fn_packRemainingLength (pkt : Bytes) (n : Nat) :
    packRemainingLength pkt (n : Int) = (remLenEncChecked n).map (pkt ++ ·) := by
  unfold packRemainingLength remLenEncChecked
  simp only [bind, Except.bind, pure, Except.pure, Gen.rlGuardCmp, Gen.rlGuardMax, Cmp.evalNat]
  by_cases h : n > 268435455
  · have h' : decide ((n : Int) > 268435455) = true := by simp; omega
    simp [h', h, throw, throwThe, MonadExceptOf.throw, Except.map]
  · have h' : ¬ decide ((n : Int) > 268435455) = true := by simp; omega
    simp only [h', h, if_false, decide_false, Bool.false_eq_true]
    rw [Int.toNat_natCast, packRemainingLength_loop_eq _ _ _ _ (by omega)]
    rfl

end Paho.FnEq
