/-
C19 — "A rejected call has no other effect": in the session model a publish()/subscribe()/unsubscribe() whose
arguments are refused records the exception and changes NO other component of the client state (message tables,
packet queue, id generator, in-flight counter, timers, socket, callbacks ...), in every state.
-/
import Paho.Model.Session
import PahoProofs.Properties.C19

namespace Paho

/-- publish(): refused arguments (the whole of `publish()`'s up-front validation) leave the state untouched -/
theorem c19_publish_reject_atomic (s : S) (qos : Nat) (topic payload : Bytes) (retain : Bool) (e : Exc)
    (h : publishCheckFull s.proto topic qos .bytes payload.length (if s.proto = 5 then 1 else 0) = some e) :
    ∃ name, s.step (.publish qos topic payload retain) = { s with log := s.log ++ [Ev.exc name] } := by
  simp only [S.step, S.publish, h]
  cases e <;> exact ⟨_, rfl⟩

/-- ... and the refusal is raised exactly when the documented conditions fail (c19_publish_accept), e.g. a wildcard
in the topic or QoS 3 -/
theorem c19_publish_reject_when (s : S) (qos : Nat) (topic payload : Bytes) (retain : Bool)
    (hbad : Spec.validTopic topic = false ∨ qos > 2 ∨ topic.length > 65535 ∨ (s.proto ≠ 5 ∧ topic = [])) :
    ∃ name, s.step (.publish qos topic payload retain) = { s with log := s.log ++ [Ev.exc name] } := by
  have hne : publishCheck s.proto topic qos .bytes payload.length ≠ none := by
    intro hn
    have := (c19_publish_accept s.proto topic qos .bytes payload.length).1 hn
    rcases hbad with h | h | h | ⟨h1, h2⟩
    · rw [this.2.1] at h; cases h
    · omega
    · omega
    · rcases this.1 with h | h
      · exact h1 h
      · exact h h2
  cases hc : publishCheck s.proto topic qos .bytes payload.length with
  | none => exact absurd hc hne
  | some e =>
    exact c19_publish_reject_atomic s qos topic payload retain e (by simp [publishCheckFull, hc])

/-- subscribe(): QoS out of range, an empty topic (MQTT 3) or a filter the MQTT grammar forbids: ValueError and
nothing else -/
theorem c19_subscribe_reject_atomic (s : S) (topic : Bytes) (qos : Nat)
    (hbad : qos > 2 ∨ Spec.validFilter topic = false) :
    s.step (.subscribe topic qos) = { s with log := s.log ++ [Ev.exc "ValueError"] } := by
  simp only [S.step, S.subscribe]
  by_cases hq : qos > 2
  · simp [hq, S.emit]
  · have hv : Spec.validFilter topic = false := by
      rcases hbad with h | h
      · exact absurd h hq
      · exact h
    have hf : filterCheck topic = false := by rw [c19_filter]; exact hv
    simp only [hq, if_false]
    split
    · rfl
    · simp [hf, S.emit]

/-- unsubscribe(): an empty topic string: ValueError and nothing else -/
theorem c19_unsubscribe_reject_atomic (s : S) :
    s.step (.unsubscribe []) = { s with log := s.log ++ [Ev.exc "ValueError"] } := by
  simp [S.step, S.unsubscribe, S.emit]

/-- a call made without a connection (MQTT_ERR_NO_CONN) has no other effect either -/
theorem c19_subscribe_noconn_atomic (s : S) (topic : Bytes) (qos : Nat) (hs : s.sock = none)
    (hq : qos ≤ 2) (hv : Spec.validFilter topic = true) :
    s.step (.subscribe topic qos) = { s with log := s.log ++ [Ev.ret rcNoConn none] } := by
  have hf : filterCheck topic = true := by rw [c19_filter]; exact hv
  have hne : topic ≠ [] := by
    intro h0; subst h0; simp [Spec.validFilter] at hv
  have hq' : ¬ qos > 2 := by omega
  simp [S.step, S.subscribe, hq', hf, hs, S.emit, hne]

/-! non-vacuity: a connected state with stored messages; the rejected call changes only the log -/
example : (S.init {} 4 0).step (.publish 1 [97, 47, 43] [1] false)
    = { (S.init {} 4 0) with log := [Ev.exc "ValueError"] } := by rfl

end Paho
