/-
T1, statement-order facts of the session layer (extracted from the current source on every run by py/extract.py,
`Paho.Gen.SessionOrder`) that the hand-written session model follows and that no translated function covers yet.
-/
import Paho.Gen.SessionOrder
import Paho.Model.Session

namespace Paho

/-- T1: in `Client._do_on_publish` the user's `on_publish` callback runs before the message is removed from `_out_messages`,
before its MQTTMessageInfo is marked published and before its window slot is freed, and `_update_inflight()` refills the
window only after that - the order the model's `doOnPublish` has (theorem c01_complete_has_callback; and on which the FIFO release of C12 / C13 rests when the
application publishes from inside `on_publish`: a slot freed before the callback lets that publish overtake the backlog) -/
theorem session_doOnPublish_order : Gen.doOnPublishOrderOk = true := rfl

/-- T1: in `Client._handle_pubrec`, for a stored message, the state becomes `wait_for_pubcomp` unconditionally and before PUBREL
is handed to `_send_pubrel()` - as in the model's `handlePubrec` -, so that a PUBREL write that fails cannot make the client
forget the PUBREC (C02: `c02_rec_phase_closed` / `c02_no_republish`; seeded C02, X37 made the state change depend on the result
of the write) -/
theorem session_handlePubrec_order : Gen.handlePubrecOrderOk = true := rfl

/-- T1: `Client._handle_pubrel` removes the stored message first (only when the id is stored), delivers what it removed, and then
answers with PUBCOMP unless manual acknowledgement is on - whether the id was known plays no part in that last decision (C03:
`c03_pubcomp`, `c03_pubrel_once`, `c03_manual`; seeded X30, C03e, X43 changed exactly this) -/
theorem session_handlePubrel_shape : Gen.handlePubrelShapeOk = true := rfl

/-- T1: the QoS dispatch of `Client._handle_publish`: QoS 0 delivers; QoS 1 delivers first and acknowledges afterwards, unless
manual acknowledgement is on; QoS 2 answers PUBREC and stores the message without delivering it (C03: `c03_qos1`, `c03_pubrec`,
`c03_manual`) -/
theorem session_handlePublish_shape : Gen.handlePublishShapeOk = true := rfl

/-- T1: `Client.publish()` for QoS 1/2, under `_out_message_mutex` and in this order: refusal with MQTT_ERR_QUEUE_SIZE when
max_queued messages are outstanding, refusal when the fresh id is still in use, the message is stored, then the window test -
inside the window the slot is taken and the state set before `_send_publish()` is called (still under the lock), MQTT_ERR_NO_CONN
gives the slot back and leaves the message in state `publish`; outside the window the message is queued (the shape the model's
`publish` has: C01 `c01_accepted_stored`, C12 `c12_queue_bound`, C14 `c14_collision_refused`; seeded X39 moved `_send_publish()`
out of the lock) -/
theorem session_publish_shape : Gen.publishStoreShapeOk = true := rfl

end Paho
