/-
C05Ws — WebSocket framing, receive side (`_WebsocketWrapper._recv_impl` / `_buffered_read`).
The reference meaning of a server byte stream: `Frame` (any first byte, masked or not, any length form that can hold
the payload), `encs` (bytes on the wire), `dataOf` (payloads of the BINARY/CONTINUATION frames in order), `owedAll`
(PONG for every PING, CLOSE for every CLOSE) — PahoProofs/Lemmas/WsRecvDefs.lean. Transport: any queue of `RecvItem`s;
`flat q` = the bytes it delivers before its first EOF/error. `runRecv st q lens` = one `_recv_impl(n)` per `n ∈ lens`.

PROVED, for ALL frame lists, ALL chunkings (would-block / EOF / error / empty chunks anywhere) and ALL request sizes:
* `ws_recv_stream` (safety, also for truncated streams `flat q <+: encs frames`): what has been delivered is a prefix of
  `dataOf frames`; no call returns more than requested, nor b'' for a request ≥ 1; if the PING/CLOSE frames are
  unmasked, the replies sent are a prefix of `owedAll frames`.
* `ws_recv_complete` (liveness): if the whole stream arrives (`flat q = encs frames`), then after
  `q.length + (flat q).length + Σ (1 + payload length)` calls of size ≥ 1 everything has been delivered, every owed
  reply sent, and the wrapper is back in its initial state.
* `ws_recv_closed`: a call reports "closed" only with `connected = False`; other calls leave `connected` alone.
FALSE of the code as it is (witness below, found by T2 and by proof attempt): "each complete PING is answered by a
PONG with the same payload" for MASKED pings whose payload is read by more than one call —
`ws_recv_masked_ping_reply_wrong` / `ws_recv_reply_claim_false_for_masked`. The strongest true variant is the
`ctlUnmasked` clause of the two theorems above (RFC 6455 5.1: a server MUST NOT mask its frames).
Model: Paho/Model/Ws.lean. Lemmas: PahoProofs/Lemmas/WsBytes.lean, WsRecvDefs.lean, WsRecvRead.lean, WsRecvStep.lean,
WsRecvRun.lean.
-/
import Paho.Model.Ws
import PahoProofs.Lemmas.WsRecvRun
namespace Paho.Ws
open Paho

/-- **C05Ws (safety).** `frames`: any well-formed server frames; `q`: any transport whose bytes are a prefix of their
encoding (all of it, or cut anywhere), chunked in any way with would-block / EOF / error anywhere; `lens`: any request
sizes. After the calls:
* the bytes returned so far are a prefix of the payloads of the data frames, in order (nothing lost, duplicated,
  reordered or invented);
* each call returned at most what was asked, and never b'' when asked for ≥ 1 byte (b'' would read as EOF);
* if no PING/CLOSE is masked, the frames written to the raw socket are a prefix of the replies owed. -/
theorem ws_recv_stream (frames : List Frame) (hwf : ∀ f ∈ frames, f.wf) (q : List RecvItem)
    (hq : flat q <+: encs frames) (lens : List Nat) :
    delivered (runRecv {} q lens).results <+: dataOf frames ∧
    CallsOk lens (runRecv {} q lens).results ∧
    ((∀ f ∈ frames, f.ctlUnmasked) → (runRecv {} q lens).sent <+: owedAll frames) := by
  obtain ⟨done, fs', hsplit, _, hdata, hsent, hcalls, _⟩ := run_inv lens frames {} q (inv_init frames hwf q hq)
  have h0 : partialData frames ({} : RecvSt).payloadHead = [] := partialData_zero frames
  rw [h0, List.nil_append] at hdata
  refine ⟨?_, hcalls, ?_⟩
  · rw [hdata, hsplit, dataOf_append]
    exact (List.prefix_append_right_inj _).mpr (partialData_prefix _ _)
  · intro hc
    rw [hsent (fun f hf => hc f (by rw [hsplit]; simp [hf])), hsplit, owedAll_append]
    exact List.prefix_append _ _

/-- the number of calls after which everything has been delivered -/
def callsNeeded (frames : List Frame) (q : List RecvItem) : Nat := q.length + (flat q).length + weight frames

/-- **C05Ws (liveness).** If the transport delivers the whole encoding of `frames` (chunked in any way, would-block
anywhere, anything after it), then `callsNeeded frames q` calls of any sizes ≥ 1 deliver exactly the payloads of the
data frames, send exactly the owed replies (given unmasked PING/CLOSE), and leave `_readbuffer` empty, `_payload_head`
0 and nothing undelivered on the socket. -/
theorem ws_recv_complete (frames : List Frame) (hwf : ∀ f ∈ frames, f.wf) (q : List RecvItem)
    (hq : flat q = encs frames) (lens : List Nat) (hpos : ∀ n ∈ lens, 1 ≤ n)
    (hlen : callsNeeded frames q ≤ lens.length) :
    delivered (runRecv {} q lens).results = dataOf frames ∧
    ((∀ f ∈ frames, f.ctlUnmasked) → (runRecv {} q lens).sent = owedAll frames) ∧
    (runRecv {} q lens).st.readbuffer = [] ∧ (runRecv {} q lens).st.payloadHead = 0 ∧
    flat (runRecv {} q lens).q = [] := by
  obtain ⟨done, fs', hsplit, hI, hdata, hsent, _, hcomp⟩ :=
    run_inv lens frames {} q (inv_init frames hwf q (by rw [hq]; exact List.prefix_refl _))
  have h0 : partialData frames ({} : RecvSt).payloadHead = [] := partialData_zero frames
  rw [h0, List.nil_append] at hdata
  obtain ⟨hfull, hprog⟩ := hcomp (by simpa using hq)
  have hnil : fs' = [] := by
    rcases hprog hpos with h | h
    · exact h
    · cases fs' with
      | nil => rfl
      | cons f rest =>
        have hp := mu_pos hI
        have hm : mu frames {} q = callsNeeded frames q := by simp [mu, callsNeeded, qMeasure]
        omega
  subst hnil
  have hdone : done = frames := by simpa using hsplit.symm
  subst hdone
  have hb : (runRecv {} q lens).st.readbuffer ++ flat (runRecv {} q lens).q = [] := by simpa [encs] using hfull
  refine ⟨by simpa [partialData] using hdata, hsent, (List.append_eq_nil_iff.mp hb).1, hI.2.2,
    (List.append_eq_nil_iff.mp hb).2⟩

/-- `_recv_impl` reports "closed" exactly together with `connected = False`; any other outcome leaves it alone -/
theorem ws_recv_closed (st : RecvSt) (q : List RecvItem) (n : Nat) :
    ((recvImpl st q n).2.2.1 = .closed → (recvImpl st q n).1.connected = false) ∧
    ((recvImpl st q n).2.2.1 ≠ .closed → (recvImpl st q n).1.connected = st.connected) := by
  cases hr : readHeader { buf := st.readbuffer, head := 0, q := q } with
  | block c => rw [recvImpl_hdr_block st q n hr]; exact ⟨(fun h => by cases h), fun _ => rfl⟩
  | closed c => rw [recvImpl_hdr_closed st q n hr]; exact ⟨fun _ => rfl, fun h => absurd rfl h⟩
  | ok h c =>
    cases hr2 : readPayload h st.payloadHead (rIdx st n h.plen) c with
    | block c => rw [recvImpl_pl_block st q n hr hr2]; exact ⟨(fun h => by cases h), fun _ => rfl⟩
    | closed c => rw [recvImpl_pl_closed st q n hr hr2]; exact ⟨fun _ => rfl, fun h => absurd rfl h⟩
    | ok x c =>
      obtain ⟨p, r, ph⟩ := x
      rw [recvImpl_pl_ok st q n hr hr2]
      by_cases hc : (h.opcode = 2 ∨ h.opcode = 0) ∧ h.plen > 0
      · rw [if_pos hc]; split <;> exact ⟨(fun h => by cases h), fun _ => rfl⟩
      · rw [if_neg hc]; split <;> exact ⟨(fun h => by cases h), fun _ => rfl⟩

/-! ### non-vacuity: a concrete stream -/

/-- masked BINARY "abc" (FIN clear), unmasked PING "hi", unmasked CONTINUATION of 2 bytes in the 16-bit length form,
unmasked CLOSE with an empty payload -/
def exFrames : List Frame :=
  [⟨0x02, 0, some [1, 2, 3, 4], [0x61, 0x62, 0x63]⟩, ⟨0x89, 0, none, [0x68, 0x69]⟩, ⟨0x80, 1, none, [0x64, 0x65]⟩,
   ⟨0x88, 0, none, []⟩]

theorem exFrames_wf : ∀ f ∈ exFrames, f.wf := by
  intro f hf
  simp only [exFrames, List.mem_cons, List.not_mem_nil, or_false] at hf
  rcases hf with rfl | rfl | rfl | rfl
  · exact ⟨(fun k h => by cases h; rfl), Or.inl ⟨rfl, by decide⟩⟩
  · exact ⟨(fun k h => by cases h), Or.inl ⟨rfl, by decide⟩⟩
  · exact ⟨(fun k h => by cases h), Or.inr (Or.inl ⟨rfl, by decide⟩)⟩
  · exact ⟨(fun k h => by cases h), Or.inl ⟨rfl, by decide⟩⟩

/-- the stream cut into chunks inside the first header, inside the mask key, inside a payload, with would-block -/
def exQueue : List RecvItem :=
  [.data [0x02], .eagain, .data [0x83, 1, 2], .data [3, 4, 0x60], .eagain, .data [0x60, 0x60, 0x89, 0x02, 0x68],
   .data [0x69, 0x80, 126, 0, 2, 0x64, 0x65, 0x88, 0]]

example : flat exQueue = encs exFrames := by decide

example : (∀ f ∈ exFrames, f.ctlUnmasked) := by decide

/-- 12 calls of sizes 1, 2, 5 (10 would do) deliver "abc" ++ "de" and answer the PING and the CLOSE (`callsNeeded` is a generous bound) -/
example :
    let r := runRecv {} exQueue [1, 1, 1, 5, 2, 1, 1, 1, 1, 5, 5, 5]
    delivered r.results = [0x61, 0x62, 0x63, 0x64, 0x65] ∧ delivered r.results = dataOf exFrames ∧
    r.sent = [[0x8a, 2, 0x68, 0x69], [0x88, 0]] ∧ r.sent = owedAll exFrames ∧
    r.results = [.wouldBlock, .wouldBlock, .data [0x61], .wouldBlock, .data [0x62, 0x63], .wouldBlock, .wouldBlock,
                 .data [0x64], .data [0x65], .wouldBlock, .wouldBlock, .wouldBlock] ∧
    r.st = {} ∧ r.q = [] := by
  decide

/-! ### what is false of the code as it is: the reply to a MASKED ping -/

/-- a masked PING with payload 01 02 (a server must not send this, the code accepts it) -/
def maskedPing : Frame := ⟨0x89, 0, some [0x10, 0x20, 0x30, 0x40], [1, 2]⟩

theorem maskedPing_wf : maskedPing.wf := ⟨(fun k h => by cases h; rfl), Or.inl ⟨rfl, by decide⟩⟩

/-- **Witness.** The frame arrives in one piece; the application reads with `recv(1)`, `recv(1)` (as `_packet_read`
does for the command byte). The PONG carries 11 02 — the first byte still masked — instead of 01 02. With one
`recv(2)` the PONG is right. -/
theorem ws_recv_masked_ping_reply_wrong :
    (runRecv {} [.data maskedPing.enc] [1, 1]).sent = [[0x8a, 2, 0x11, 2]] ∧
    maskedPing.owed = [[0x8a, 2, 1, 2]] ∧
    (runRecv {} [.data maskedPing.enc] [2]).sent = [[0x8a, 2, 1, 2]] := by
  decide

/-- hence the reply clause of `ws_recv_stream` / `ws_recv_complete` does not hold without `ctlUnmasked` -/
theorem ws_recv_reply_claim_false_for_masked :
    ¬ (∀ (frames : List Frame), (∀ f ∈ frames, f.wf) → ∀ (q : List RecvItem), flat q = encs frames →
        ∀ (lens : List Nat), (∀ n ∈ lens, 1 ≤ n) → (runRecv {} q lens).sent <+: owedAll frames) := by
  intro h
  have := h [maskedPing] (fun f hf => by simp at hf; subst hf; exact maskedPing_wf) [.data maskedPing.enc]
    (by decide) [1, 1] (by decide)
  revert this
  decide

end Paho.Ws
