/-
C18 — the client API may be called from inside any callback without self-deadlock (lock-discipline part).
The quantifier is the finite table extracted from the source: {every user-callback call site × every set of locks
that may be held there} × {publish, subscribe, unsubscribe, disconnect, reconnect, message_callback_add,
message_callback_remove, loop_stop} × {every blocking acquisition reachable from that call} × {every configuration
of installed optional callbacks}. `decide +kernel` over the whole table is a proof, not a sample.
-/
import Paho.Model.Locks

namespace Paho.Locks

/-- the optional callbacks and path conditions that guard acquisitions -/
def allGuards : List String :=
  ["on_log", "on_pre_connect", "on_connect", "on_connect_fail", "on_subscribe", "on_message", "on_publish", "on_unsubscribe",
   "on_disconnect", "on_socket_open", "on_socket_close", "on_socket_register_write", "on_socket_unregister_write"]

/-- inside a callback on the network-loop thread: everything may be installed, and we ARE the loop thread -/
def cfgAll : String → Bool := fun g => g != "not-loop-thread"

/-- monotonicity: installing fewer callbacks can only remove deadlocks -/
theorem selfDeadlock_mono (held : List LockId) (i j : String → Bool) (a : Acq)
    (h : ∀ g, i g = true → j g = true) : selfDeadlock held i a = true → selfDeadlock held j a = true := by
  unfold selfDeadlock
  simp only [Bool.and_eq_true, List.all_eq_true]
  rintro ⟨⟨⟨h1, h2⟩, h3⟩, h4⟩
  exact ⟨⟨⟨h1, h2⟩, h3⟩, fun g hg => h g (h4 g hg)⟩

/-- the extracted lock kinds: exactly the two reentrant locks the design relies on -/
theorem c18_lock_kinds :
    Gen.lockKinds = [(.inCallback, false), (.callback, true), (.msgtime, false), (.outMessage, true),
                     (.inMessage, false), (.reconnectDelay, false), (.midGenerate, false)] := by decide

/-- FULL-STRENGTH statement: no API call made inside any callback can block forever on a lock. FALSE on the current
code (known finding F17). -/
def C18_no_self_deadlock_full : Prop := deadlocks cfgAll = []

/-- what holds: in the worst-case configuration (every optional callback installed), the ONLY self-deadlocks are
`reconnect()` re-acquiring `_in_callback_mutex` through `_call_socket_open` / `_call_socket_close`
(i.e. with on_socket_open / on_socket_close installed) from a callback that runs under that lock -/
theorem c18_only_reconnect_socket_callbacks :
    (deadlocks cfgAll).all (fun (x : String × List LockId × String × Acq) =>
      x.2.2.1 == "reconnect" && x.2.2.2.lock == .inCallback &&
      (x.2.2.2.guards.contains "on_socket_open" || x.2.2.2.guards.contains "on_socket_close")) = true := by
  decide +kernel

/-- … so for every API other than reconnect(), from every callback site, under EVERY configuration: no self-deadlock -/
theorem c18_no_self_deadlock_partial (site : String) (held : List LockId) (api : String) (a : Acq) (installed : String → Bool)
    (hs : (site, held) ∈ siteHelds) (hapi : api ∈ apis) (hne : api ≠ "reconnect") (ha : a ∈ apiAcqs api)
    (hloop : installed "not-loop-thread" = false) :
    selfDeadlock held installed a = false := by
  cases hd' : selfDeadlock held installed a with
  | false => rfl
  | true =>
  exfalso
  have hmono := selfDeadlock_mono held installed cfgAll a (by
    intro g hg
    unfold cfgAll
    simp only [bne_iff_ne, ne_eq]
    intro hgeq
    subst hgeq
    rw [hloop] at hg
    exact absurd hg (by simp)) hd'
  have hmem : (site, held, api, a) ∈ deadlocks cfgAll := by
    unfold deadlocks
    simp only [List.mem_flatten, List.mem_map]
    refine ⟨_, ⟨(site, held), hs, rfl⟩, ?_⟩
    simp only [List.mem_flatten, List.mem_map]
    refine ⟨_, ⟨api, hapi, rfl⟩, ?_⟩
    simp only [List.mem_map, List.mem_filter]
    exact ⟨a, ⟨ha, hmono⟩, rfl⟩
  have hall := c18_only_reconnect_socket_callbacks
  rw [List.all_eq_true] at hall
  have := hall _ hmem
  simp only [Bool.and_eq_true, beq_iff_eq] at this
  exact hne this.1.1

/-- reconnect() itself is safe when neither on_socket_open nor on_socket_close is installed -/
theorem c18_reconnect_without_socket_callbacks (site : String) (held : List LockId) (a : Acq) (installed : String → Bool)
    (hs : (site, held) ∈ siteHelds) (ha : a ∈ apiAcqs "reconnect")
    (hloop : installed "not-loop-thread" = false)
    (ho : installed "on_socket_open" = false) (hc : installed "on_socket_close" = false) :
    selfDeadlock held installed a = false := by
  cases hd' : selfDeadlock held installed a with
  | false => rfl
  | true =>
  exfalso
  have hg : a.guards.all installed = true := by
    unfold selfDeadlock at hd'
    simp only [Bool.and_eq_true] at hd'
    exact hd'.2
  have hmono := selfDeadlock_mono held installed cfgAll a (by
    intro g hg'
    unfold cfgAll
    simp only [bne_iff_ne, ne_eq]
    intro hgeq
    subst hgeq
    rw [hloop] at hg'
    exact absurd hg' (by simp)) hd'
  have hmem : (site, held, "reconnect", a) ∈ deadlocks cfgAll := by
    unfold deadlocks
    simp only [List.mem_flatten, List.mem_map]
    refine ⟨_, ⟨(site, held), hs, rfl⟩, ?_⟩
    simp only [List.mem_flatten, List.mem_map]
    refine ⟨_, ⟨"reconnect", by decide, rfl⟩, ?_⟩
    simp only [List.mem_map, List.mem_filter]
    exact ⟨a, ⟨ha, hmono⟩, rfl⟩
  have hall := c18_only_reconnect_socket_callbacks
  rw [List.all_eq_true] at hall
  have h3 := hall _ hmem
  simp only [Bool.and_eq_true, Bool.or_eq_true, List.contains_iff_mem] at h3
  rw [List.all_eq_true] at hg
  rcases h3.2 with h | h
  · have := hg _ (by simpa using h); rw [ho] at this; exact absurd this (by simp)
  · have := hg _ (by simpa using h); rw [hc] at this; exact absurd this (by simp)

/-- WITNESS (known finding F17): reconnect() inside on_disconnect with on_socket_open installed blocks forever -/
theorem c18_full_false : ¬ C18_no_self_deadlock_full := by
  unfold C18_no_self_deadlock_full
  decide +kernel

/-- loop_stop() called from a callback on the loop thread does not join itself -/
theorem c18_no_self_join (a : Acq) (ha : a ∈ apiAcqs "loop_stop") (hl : a.lock = .threadJoin) :
    a.guards.contains "not-loop-thread" = true := by
  revert a
  decide +kernel

/-- non-vacuity: the table is not empty -/
example : siteHelds.length ≥ 14 ∧ (apiAcqs "publish").length ≥ 5 ∧ (apiAcqs "reconnect").length ≥ 5 := by decide +kernel

end Paho.Locks
