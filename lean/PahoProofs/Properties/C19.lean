/-
C19 — invalid arguments are rejected exactly per the MQTT grammar.
STATEMENTS TO PROVE.
-/
import Paho.Model.Validate
import Paho.Spec.Topic
import PahoProofs.Lemmas.Validate

namespace Paho

/-- the code's subscription-filter test accepts exactly the filters the MQTT grammar allows — for ALL byte strings -/
theorem c19_filter (bs : List UInt8) : filterCheck bs = Spec.validFilter bs := by
  have hL := levels_check (splitOn 47 bs) (splitOn_ne_nil 47 bs)
  rw [← hasSub_eq_hashSlash] at hL
  have hf : filterCheck bs =
      !(decide (bs.length = 0) || decide (bs.length > 65535)
        || ((splitOn 47 bs).any lvlBad || hasSub [35, 47] bs)) := by
    simp only [filterCheck, Gen.filterEmptyCmp, Gen.filterEmptyLen, Gen.filterLenCmp, Gen.filterLenMax,
      Gen.filterSep, Gen.filterLvlCmp, Gen.filterLvlLen, Gen.filterWild1, Gen.filterWild2,
      Gen.filterBadPat, Cmp.evalNat, Bool.or_assoc]
    rfl
  rw [hf, hL, Spec.validFilter, Spec.slash]
  generalize Spec.validLevels (splitOn 47 bs) = v
  by_cases h0 : bs.length = 0
  · simp [h0]
  · by_cases h1 : bs.length > 65535
    · have : ¬ bs.length ≤ 65535 := by omega
      simp [h1, this]
    · have h2 : bs.length ≤ 65535 := by omega
      have h3 : 1 ≤ bs.length := by omega
      simp [h0, h1, h2, h3]

/-- the publish-topic test rejects exactly: wildcard characters anywhere, or more than 65535 bytes -/
theorem c19_topic (t : List UInt8) :
    topicInvalid t = (!Spec.validTopic t || decide (t.length > 65535)) := by
  simp only [topicInvalid, Gen.topicWild1, Gen.topicWild2, Gen.topicLenCmp, Gen.topicLenMax,
    Cmp.evalNat, Spec.validTopic, Spec.plus, Spec.hash]
  cases t.contains 43 <;> cases t.contains 35 <;> rfl


theorem topicInvalid_false_iff (t : List UInt8) :
    topicInvalid t = false ↔ (Spec.validTopic t = true ∧ t.length ≤ 65535) := by
  rw [c19_topic]
  cases Spec.validTopic t <;> simp

theorem payloadTypeOk_iff (tag : PayloadTag) : payloadTypeOk tag = true ↔ tag ≠ .other := by
  cases tag <;> simp [payloadTypeOk]

/-- `publishCheck` with the extracted literals substituted -/
theorem publishCheck_eq (proto : Nat) (topic : List UInt8) (qos : Int) (tag : PayloadTag) (plen : Nat) :
    publishCheck proto topic qos tag plen =
      if proto ≠ 5 ∧ topic = [] then some .valueError
      else if ¬ (Spec.validTopic topic = true ∧ topic.length ≤ 65535) then some .valueError
      else if qos < 0 ∨ qos > 2 then some .valueError
      else if tag = .other then some .typeError
      else if plen > 268435455 then some .valueError
      else none := by
  have hT : (topicInvalid topic = true) = ¬ (Spec.validTopic topic = true ∧ topic.length ≤ 65535) := by
    rw [← topicInvalid_false_iff]; simp
  have hP : ((!payloadTypeOk tag) = true) = (tag = .other) := by
    cases tag <;> simp [payloadTypeOk]
  simp only [publishCheck, Gen.pubQosLoCmp, Gen.pubQosLo, Gen.pubQosHiCmp, Gen.pubQosHi,
    Gen.pubPayloadCmp, Gen.pubPayloadMax, Cmp.evalInt, Cmp.evalNat, List.isEmpty_iff,
    Bool.or_eq_true, decide_eq_true_eq, hT, hP]

/-- publish(): accepted iff every documented condition holds -/
theorem c19_publish_accept (proto : Nat) (topic : List UInt8) (qos : Int) (tag : PayloadTag) (plen : Nat) :
    publishCheck proto topic qos tag plen = none ↔
      ((proto = 5 ∨ topic ≠ []) ∧ Spec.validTopic topic = true ∧ topic.length ≤ 65535
        ∧ 0 ≤ qos ∧ qos ≤ 2 ∧ tag ≠ .other ∧ plen ≤ 268435455) := by
  rw [publishCheck_eq]
  repeat' split
  all_goals grind

/-- publish(): TypeError exactly for an unsupported payload type when topic and QoS are fine -/
theorem c19_publish_typeerror (proto : Nat) (topic : List UInt8) (qos : Int) (tag : PayloadTag) (plen : Nat) :
    publishCheck proto topic qos tag plen = some .typeError ↔
      ((proto = 5 ∨ topic ≠ []) ∧ Spec.validTopic topic = true ∧ topic.length ≤ 65535
        ∧ 0 ≤ qos ∧ qos ≤ 2 ∧ tag = .other) := by
  rw [publishCheck_eq]
  repeat' split
  all_goals grind

/-- publish(): every other rejection is a ValueError -/
theorem c19_publish_errors (proto : Nat) (topic : List UInt8) (qos : Int) (tag : PayloadTag) (plen : Nat) :
    publishCheck proto topic qos tag plen = none ∨ publishCheck proto topic qos tag plen = some .valueError
      ∨ publishCheck proto topic qos tag plen = some .typeError := by
  rw [publishCheck_eq]
  repeat' split
  all_goals simp

/-! non-vacuity: the test really accepts and rejects ('a'=97 'b'=98 '/'=47 '+'=43 '#'=35) -/
example : filterCheck [97, 47, 43, 47, 35] = true := by decide      -- "a/+/#"
example : filterCheck [97, 47, 35, 47, 98] = false := by decide     -- "a/#/b"
example : filterCheck [97, 43] = false := by decide                 -- "a+"
example : filterCheck [] = false := by decide                       -- ""
example : filterCheck [35] = true := by decide                      -- "#"
example : filterCheck [43, 47, 43] = true := by decide              -- "+/+"
example : filterCheck [47] = true := by decide                      -- "/"
example : filterCheck [35, 47] = false := by decide                 -- "#/"
example : filterCheck [97, 35] = false := by decide                 -- "a#"
example : Spec.validFilter [97, 47, 43, 47, 35] = true := by decide
example : Spec.validFilter [97, 47, 35, 47, 98] = false := by decide
example : topicInvalid [97, 47, 98] = false := by decide
example : topicInvalid [97, 47, 43] = true := by decide
example : publishCheck 4 [97] 1 .bytes 3 = none := by decide
example : publishCheck 4 [] 1 .bytes 3 = some .valueError := by decide
example : publishCheck 5 [] 1 .bytes 3 = none := by decide
example : publishCheck 4 [97] 3 .bytes 3 = some .valueError := by decide
example : publishCheck 4 [97] 2 .other 3 = some .typeError := by decide
example : publishCheck 4 [97] 2 .str 268435456 = some .valueError := by decide

end Paho
