/-
C06Ws — WebSocket framing, send side (`_WebsocketWrapper._create_frame` / `_send_impl`).
ALL PROVED.
* `ws_frame_roundtrip`: the RFC 6455 reference parser `parseFrame` (Lemmas/WsSend.lean) reads `createFrame 2 data key 1`
  back as a FIN, RSV=0, opcode 2, masked frame with key `key` whose unmasked payload is `data`, and leaves exactly what
  followed the frame — for every `data` shorter than 2^64 bytes (the 125/126 and 65535/65536 boundaries included).
* `ws_send_stream`: for every sequence of `_send_impl` calls that keeps the retry discipline of `_packet_write` (same
  data again after a 0 AND after an exception), with arbitrary mask keys and arbitrary behaviour of the raw socket in
  each call (takes k bytes / raises BlockingIOError / raises another OSError), the bytes on the raw socket are the
  concatenation of the frames of the sends started, cut at the number of bytes accepted; at most the last frame is
  incomplete; a call returns `len(data)` exactly when its frame is completely accepted, 0 when the socket took bytes
  but not all, and raises exactly when the raw send raised — in which case nothing is written and the frame in flight
  (created by this very call if none was pending) stays in `_sendbuffer` (`ws_send_raise_keeps_frame`).
Model: Paho/Model/Ws.lean. Helper lemmas: PahoProofs/Lemmas/WsBytes.lean, WsSend.lean.
-/
import Paho.Model.Ws
import PahoProofs.Lemmas.WsBytes
import PahoProofs.Lemmas.WsSend
namespace Paho.Ws
open Paho

/-! ## frame round trip -/

theorem parseFrame_build (b0 b1 : UInt8) (ext key data tail : Bytes) (hmask : 128 ≤ b1.toNat)
    (hlen : ∀ X, parseLen (b1.toNat % 128) (ext ++ X) = some (data.length, X)) (hk : key.length = 4) :
    parseFrame (b0 :: b1 :: (ext ++ (key ++ xorRange key 0 data.length data ++ tail))) =
      some ({ fin := decide (128 ≤ b0.toNat), rsv := b0.toNat / 16 % 8, opcode := b0.toNat % 16, masked := true,
              key := key, payload := data }, tail) := by
  simp only [parseFrame, hlen]
  have hm : decide (128 ≤ b1.toNat) = true := by simpa using hmask
  simp only [hm, parseKey, if_true]
  have h4 : 4 ≤ (key ++ xorRange key 0 data.length data ++ tail).length := by simp [hk]
  simp only [h4, if_true]
  have ht : (key ++ xorRange key 0 data.length data ++ tail).take 4 = key := by
    rw [List.append_assoc]; exact List.take_left' hk
  have hd : (key ++ xorRange key 0 data.length data ++ tail).drop 4 = xorRange key 0 data.length data ++ tail := by
    rw [List.append_assoc]; exact List.drop_left' hk
  simp only [ht, hd]
  have hl : ¬ (xorRange key 0 data.length data ++ tail).length < data.length := by simp
  simp only [hl, if_false]
  have ht2 : (xorRange key 0 data.length data ++ tail).take data.length = xorRange key 0 data.length data :=
    List.take_left' (by simp)
  have hd2 : (xorRange key 0 data.length data ++ tail).drop data.length = tail := List.drop_left' (by simp)
  rw [ht2, hd2, xorRange_xorRange]

/-- **C06Ws (frame).** What `_create_frame(OPCODE_BINARY, data)` builds is, by the RFC 6455 parsing rule, one complete
final masked binary frame carrying `data`, whatever the data (up to 2^64 - 1 bytes) and the mask key. -/
theorem ws_frame_roundtrip (data key tail : Bytes) (hk : key.length = 4) (hn : data.length < 2 ^ 64) :
    parseFrame (createFrame 2 data key 1 ++ tail) =
      some ({ fin := true, rsv := 0, opcode := 2, masked := true, key := key, payload := data }, tail) := by
  rw [createFrame_masked]
  have h0 : (b8 (128 ||| 2)).toNat = 130 := by decide
  have h7 : (1 <<< 7 : Nat) = 128 := by decide
  simp only [hdrBytes, h7]
  by_cases c1 : data.length < 126
  · simp only [c1, if_true]
    have hb : (b8 (128 ||| data.length)).toNat = 128 + data.length := by
      rw [or128_eq (by omega), b8_toNat (by omega)]
    have := parseFrame_build (b8 (128 ||| 2)) (b8 (128 ||| data.length)) [] key data tail (by omega)
      (by intro X; rw [hb]
          have : (128 + data.length) % 128 = data.length := by omega
          rw [this]; exact parseLen_small c1 _) hk
    rw [h0] at this
    simpa using this
  · by_cases c2 : data.length < 65536
    · simp only [c1, c2, if_true, if_false]
      have hb : (b8 (128 ||| 126)).toNat = 254 := by decide
      have := parseFrame_build (b8 (128 ||| 2)) (b8 (128 ||| 126)) (beBytes 2 data.length) key data tail (by omega)
        (by intro X; rw [hb]; exact parseLen_126 (by omega) X) hk
      rw [h0] at this
      simpa using this
    · simp only [c1, c2, if_false]
      have hb : (b8 (128 ||| 127)).toNat = 255 := by decide
      have := parseFrame_build (b8 (128 ||| 2)) (b8 (128 ||| 127)) (beBytes 8 data.length) key data tail (by omega)
        (by intro X; rw [hb]; exact parseLen_127 hn X) hk
      rw [h0] at this
      simpa using this

/-- non-vacuity: the three length forms, checked by evaluation (lengths 3, 126 and 65536) -/
example : parseFrame (createFrame 2 [1, 2, 3] [0x11, 0x22, 0x33, 0x44] 1 ++ [9]) =
    some ({ fin := true, rsv := 0, opcode := 2, masked := true, key := [0x11, 0x22, 0x33, 0x44], payload := [1, 2, 3] }, [9]) := by
  decide
example : (createFrame 2 [1, 2, 3] [0x11, 0x22, 0x33, 0x44] 1) = [0x82, 0x83, 0x11, 0x22, 0x33, 0x44, 0x10, 0x20, 0x30] := by
  decide
set_option maxRecDepth 100000 in
example : (createFrame 2 (List.replicate 126 7) [1, 2, 3, 4] 1).take 8 = [0x82, 0xFE, 0, 126, 1, 2, 3, 4] := by decide
example : (createFrame 2 (List.replicate 126 7) [1, 2, 3, 4] 1).length = 134 := by
  rw [createFrame_masked_length _ _ _ rfl]; simp

/-! ## the stream of `_send_impl` calls -/

/-- **C06Ws (stream).** `cs` is any sequence of `_send_impl` calls on a fresh wrapper (data, the 4 bytes `os.urandom`
returned, what the raw `socket.send` did: `accept k` / `wouldBlock` / `error`) in which a call that returned 0 or raised
is followed by a call with the same data. With `s := refRun 0 cs` (the byte-counting reference: a call starts the frame
`createFrame 2 data key 1` iff the previous frame is completely accepted — also when its raw send then raises; the
socket takes `min k remaining`, nothing when it raises):
* the bytes on the raw socket are the concatenation of the frames of the sends started, cut after the accepted bytes;
* what is left of it is exactly `_sendbuffer`;
* the socket never took more than was framed, and the unsent part fits in the last frame (every earlier frame is complete);
* the outcomes are those of the reference: `len(data)` when the call's frame is now completely accepted, 0 when the
  socket took some bytes but not the rest, the socket's exception when it raised. -/
theorem ws_send_stream (cs : List Call) (hd : Disciplined {} cs) :
    let r := runSend {} cs
    let s := refRun 0 cs
    r.wire = s.frames.flatten.take s.total ∧
    r.st.sendbuffer = s.frames.flatten.drop s.total ∧
    r.rets = s.rets ∧
    s.total + r.st.sendbuffer.length = s.frames.flatten.length ∧
    r.st.sendbuffer.length ≤ (match s.frames.getLast? with | some f => f.length | none => 0) := by
  have h := runSend_ref cs {} (by intro h; exact absurd rfl h) hd
  simp only at h
  obtain ⟨h1, h2, h3, h4⟩ := h
  have ht := refRun_total cs 0
  have hl := refRun_rem_le cs 0
  refine ⟨by simpa using h1, by simpa using h2, h3, ?_, ?_⟩
  · have e : (({} : SendSt).sendbuffer).length = 0 := rfl
    rw [e] at h4; rw [h4]; omega
  · have e : (({} : SendSt).sendbuffer).length = 0 := rfl
    rw [e] at h4; rw [h4]; exact hl

/-- the outcome of each call, spelled out (first step of `refRun`): with the discipline it is `len(data)` of THIS call
iff the socket takes all that is left of the frame in flight, 0 if it takes less, and the socket's exception if it raises -/
theorem refRun_ret_head (rem : Nat) (c : Call) (cs : List Call) :
    (refRun rem (c :: cs)).rets.head? =
      some (match c.out with
        | .accept a =>
          .ret (if (if rem = 0 then (createFrame 2 c.data c.key 1).length else rem) ≤ a then c.data.length else 0)
        | .wouldBlock => .raised true
        | .error => .raised false) := by
  simp only [refRun, List.head?_cons]
  congr 1
  cases hc : c.out with
  | wouldBlock => rfl
  | error => rfl
  | accept a =>
    simp only [outcome, taken]
    have hk := createFrame_masked_length_ge 2 c.data c.key
    generalize hL : (if rem = 0 then (createFrame 2 c.data c.key 1).length else rem) = L
    have hpos : 0 < L := by rw [← hL]; split <;> omega
    by_cases h : L ≤ a
    · simp [h]
    · have hne : L - min a L ≠ 0 := by omega
      simp [h, hne]

/-- when the raw send raises, `_send_impl` writes nothing, raises, and keeps in `_sendbuffer` the frame in flight —
the one this very call created if none was pending (that frame, with this call's mask key, is what the retry sends) -/
theorem ws_send_raise_keeps_frame (st : SendSt) (data key : Bytes) (out : SockSend) (h : out = .wouldBlock ∨ out = .error) :
    (sendImpl st data key out).1.sendbuffer =
      (if st.sendbuffer.length = 0 then createFrame 2 data key 1 else st.sendbuffer) ∧
    (sendImpl st data key out).1.requestedSize = (if st.sendbuffer.length = 0 then data.length else st.requestedSize) ∧
    (sendImpl st data key out).2.1 = [] ∧
    (sendImpl st data key out).2.2 = .raised (decide (out = .wouldBlock)) := by
  rw [sendImpl_eq]
  rcases h with rfl | rfl
  · by_cases he : st.sendbuffer.length = 0
    · have hnil : st.sendbuffer = [] := List.eq_nil_of_length_eq_zero he
      simp [taken, outcome, hnil]
    · simp [taken, outcome, he]
  · by_cases he : st.sendbuffer.length = 0
    · have hnil : st.sendbuffer = [] := List.eq_nil_of_length_eq_zero he
      simp [taken, outcome, hnil]
    · simp [taken, outcome, he]

/-- without the discipline the claim about return values is false: the size returned is the one remembered from the
call that created the frame -/
theorem ws_send_undisciplined_ret :
    (runSend {} [⟨[1, 2, 3], [0, 0, 0, 0], .accept 2⟩, ⟨[9], [0, 0, 0, 0], .accept 100⟩]).rets = [.ret 0, .ret 3] := by
  decide

/-- non-vacuity: two messages; the first needs three calls (0 bytes, 4 bytes, the rest), the second goes out at once -/
example :
    let cs : List Call := [⟨[1, 2], [0xA, 0xB, 0xC, 0xD], .accept 0⟩, ⟨[1, 2], [5, 5, 5, 5], .accept 4⟩,
                           ⟨[1, 2], [6, 6, 6, 6], .accept 100⟩, ⟨[7], [1, 1, 1, 1], .accept 100⟩]
    Disciplined {} cs ∧ (runSend {} cs).rets = [.ret 0, .ret 0, .ret 2, .ret 1] ∧
    (runSend {} cs).wire = [0x82, 0x82, 0xA, 0xB, 0xC, 0xD, 0xB, 0x9] ++ [0x82, 0x81, 1, 1, 1, 1, 6] ∧
    (refRun 0 cs).frames.length = 2 := by
  decide

/-- non-vacuity with a raising socket: an 8-byte message (frame of 14 bytes); the socket takes 10 bytes, then is full
(BlockingIOError), then takes the rest. One frame on the wire, in one piece, with the FIRST call's key; the calls end
0 / BlockingIOError / 8. Then a message whose first raw send fails with EPIPE, then would-block, then goes out: its
frame carries the key of the call that raised first. -/
example :
    let d : Bytes := [1, 2, 3, 4, 5, 6, 7, 8]
    let cs : List Call := [⟨d, [0x10, 0x20, 0x30, 0x40], .accept 10⟩, ⟨d, [9, 9, 9, 9], .wouldBlock⟩,
                           ⟨d, [8, 8, 8, 8], .accept 100000⟩,
                           ⟨[0xff], [1, 1, 1, 1], .error⟩, ⟨[0xff], [2, 2, 2, 2], .wouldBlock⟩, ⟨[0xff], [3, 3, 3, 3], .accept 7⟩]
    Disciplined {} cs ∧
    (runSend {} cs).rets = [.ret 0, .raised true, .ret 8, .raised false, .raised true, .ret 1] ∧
    (runSend {} cs).wire = createFrame 2 d [0x10, 0x20, 0x30, 0x40] 1 ++ createFrame 2 [0xff] [1, 1, 1, 1] 1 ∧
    (runSend {} cs).wire = [0x82, 0x88, 0x10, 0x20, 0x30, 0x40, 0x11, 0x22, 0x33, 0x44, 0x15, 0x26, 0x37, 0x48] ++
                           [0x82, 0x81, 1, 1, 1, 1, 0xfe] ∧
    (refRun 0 cs).frames.length = 2 ∧ (runSend {} cs).st.sendbuffer = [] := by
  decide

/-! ## outside the theorem: replies written by `_recv_impl` bypass `_sendbuffer` -/

/-- unmasked reply frames (`createFrame op data · 0`, op < 16) also parse back: FIN, opcode `op`, not masked -/
theorem ws_reply_roundtrip (op : Nat) (hop : op < 16) (data key tail : Bytes) (hn : data.length < 126) :
    parseFrame (createFrame op data key 0 ++ tail) =
      some ({ fin := true, rsv := 0, opcode := op, masked := false, key := [], payload := data }, tail) := by
  rw [createFrame_unmasked]
  have h7 : (0 <<< 7 : Nat) = 0 := by decide
  have hb0 : (b8 (128 ||| op)).toNat = 128 + op := by rw [or128_eq (by omega), b8_toNat (by omega)]
  have hb1 : (b8 (0 ||| data.length)).toNat = data.length := by rw [Nat.zero_or, b8_toNat (by omega)]
  simp only [hdrBytes, h7, hn, if_true, List.cons_append, List.nil_append, parseFrame, hb0, hb1]
  have hm : decide (128 ≤ data.length) = false := by simp; omega
  have hmod : data.length % 128 = data.length := by omega
  simp only [hm, hmod, parseLen_small hn, parseKey]
  have hl : ¬ (data ++ tail).length < data.length := by simp
  simp only [hl, if_false, Bool.false_eq_true]
  have e2 : (128 + op) / 16 % 8 = 0 := by omega
  have e3 : (128 + op) % 16 = op := by omega
  simp [e2, e3]

/-- **Witness (defect in the code as it is).** `ws_send_stream` is about the bytes `_send_impl` writes. `_recv_impl`
writes its PONG / CLOSE replies straight to the raw socket, also while `_sendbuffer` still holds the rest of a partly
sent frame. Here: a 5-byte message of which the socket takes 3 bytes (return 0), then an empty PING is read, then the
retry completes the message (return 5). On the wire the PONG `8a 00` sits inside the binary frame: the peer parses a
frame whose payload is not `01 02 03 04 05`. -/
theorem ws_reply_interleaves_partial_send :
    let s1 := sendImpl {} [1, 2, 3, 4, 5] [0xa1, 0xa2, 0xa3, 0xa4] (.accept 3)
    let r := recvImpl {} [.data [0x89, 0x00]] 1
    let s2 := sendImpl s1.1 [1, 2, 3, 4, 5] [0xa1, 0xa2, 0xa3, 0xa4] (.accept 100)
    let wire := s1.2.1 ++ r.2.2.2.flatten ++ s2.2.1
    s1.2.2 = .ret 0 ∧ r.2.2.2 = [[0x8a, 0x00]] ∧ s2.2.2 = .ret 5 ∧
    wire = [0x82, 0x85, 0xa1, 0x8a, 0x00, 0xa2, 0xa3, 0xa4, 0xa0, 0xa0, 0xa0, 0xa0, 0xa4] ∧
    (parseFrame wire).map (fun x => x.1.payload) = some [0x02, 0x2e, 0xa0, 0x02, 0x01] := by
  decide

end Paho.Ws
