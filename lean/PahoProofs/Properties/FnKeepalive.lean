/-
T1, translated: `Client._check_keepalive` - the decision part of the keep-alive (C08; the branch that gives up on the
connection is also where C10's "exactly one on_disconnect, result success iff disconnect() was called" is decided).
py/py2lean.py translates the method from the AST of the current source into the sequence of calls and attribute assignments
it makes (`Paho.Gen.FnKeepalive`, regenerated on every run); executing that sequence with the model's `sendSimple` /
`sockClose` / `doOnDisconnect` is the session model's `checkKeepalive`, for every state whose timers are not ahead of the clock
(which `c08_time_inv` proves of every reachable state).
-/
import Paho.Gen.FnKeepalive
import PahoProofs.Lemmas.Timer5
import PahoProofs.Lemmas.OutFrame

namespace Paho.FnEq
open Paho Paho.Py Paho.Gen.Fn

/-- the integer value of `_ConnectionState` (enums.py, `enum.auto()`); the members the method names are generated constants -/
def csCode : ConnState → Int
  | .new => 1
  | .connectAsync => 2
  | .connecting => 3
  | .connected => c__ConnectionState_MQTT_CS_CONNECTED
  | .connectionLost => c__ConnectionState_MQTT_CS_CONNECTION_LOST
  | .disconnecting => c__ConnectionState_MQTT_CS_DISCONNECTING
  | .disconnected => c__ConnectionState_MQTT_CS_DISCONNECTED

theorem csCode_inj (a b : ConnState) : csCode a = csCode b ↔ a = b := by
  cases a <;> cases b <;> decide

/-- one step of a translated method, executed on the model: the methods called are the model's functions of the same name
(`_send_pingreq` = `_send_simple_command(PINGREQ)` + `_ping_t = now` on success) -/
def runEff (s : S) : MEff → S
  | .call "_send_pingreq" [] =>
    let (s', rc) := s.sendSimple 0xC0
    if rc = rcSuccess then { s' with pingT := s'.now } else s'
  | .call "_sock_close" [] => s.sockClose
  | .call "_check_keepalive" [] => s.checkKeepalive
  | .call "_do_on_disconnect" [fromBroker, rc] => s.doOnDisconnect rc (fromBroker != 0)
  | .setInt "_state" v =>
    if v = c__ConnectionState_MQTT_CS_DISCONNECTED then { s with cstate := .disconnected }
    else if v = c__ConnectionState_MQTT_CS_CONNECTION_LOST then { s with cstate := .connectionLost }
    else s
  | .call "_send_simple_command" [cmd] => (s.sendSimple cmd.toNat).1
  | .setInt "_ping_t" v => { s with pingT := v.toNat }
  | .setInt "_last_msg_out" v => { s with lastOut := v.toNat }
  | .setInt "_last_msg_in" v => { s with lastIn := v.toNat }
  | _ => s

def runEffs (s : S) (effs : List MEff) : S := effs.foldl runEff s

/-- the arguments of the translated method read off a model state (times in milliseconds on both sides) -/
def kaEffs (s : S) : Except Exc (List MEff) :=
  Gen.Fn.checkKeepalive ((s.cfg.keepalive * 1000 : Nat) : Int) (s.lastOut : Int) (s.lastIn : Int) (csCode s.cstate) (s.pingT : Int)
    s.sock.isSome (s.now : Int) false

/-- **`Client._check_keepalive` as the source has it now = the model's `checkKeepalive`**: for every state whose activity
timers are not ahead of the clock the translated method raises nothing and the calls and assignments it makes - PINGREQ and
both timers refreshed when idle for K with no ping outstanding; otherwise close, state DISCONNECTED / CONNECTION_LOST by whether
disconnect() had been called, one on_disconnect with result success / MQTT_ERR_KEEPALIVE - executed on the model give exactly
`checkKeepalive s` -/
theorem fn_checkKeepalive (s : S) (ho : s.lastOut ≤ s.now) (hi : s.lastIn ≤ s.now) :
    ∃ effs, kaEffs s = .ok effs ∧ runEffs s effs = s.checkKeepalive := by
  unfold kaEffs Gen.Fn.checkKeepalive S.checkKeepalive
  by_cases hk : s.cfg.keepalive = 0
  · exact ⟨[], by simp [hk, pure, Except.pure], by simp [hk, runEffs]⟩
  have hk' : (((s.cfg.keepalive * 1000 : Nat) : Int) == 0) = false := by
    rw [beq_eq_false_iff_ne]; omega
  cases hs : s.sock with
  | none =>
    exact ⟨[], by simp [hk', pure, Except.pure, bind, Except.bind], by simp [hk, runEffs]⟩
  | some c =>
    have e1 : decide (((s.now : Int) - (s.lastOut : Int)) ≥ ((s.cfg.keepalive * 1000 : Nat) : Int))
        = Gen.kaOutCmp.evalNat (s.now - s.lastOut) (s.cfg.keepalive * 1000) := by
      simp only [Gen.kaOutCmp, Cmp.evalNat]; congr 1; apply propext; constructor <;> intro h <;> omega
    have e2 : decide (((s.now : Int) - (s.lastIn : Int)) ≥ ((s.cfg.keepalive * 1000 : Nat) : Int))
        = Gen.kaInCmp.evalNat (s.now - s.lastIn) (s.cfg.keepalive * 1000) := by
      simp only [Gen.kaInCmp, Cmp.evalNat]; congr 1; apply propext; constructor <;> intro h <;> omega
    simp only [hk', hk, e1, e2, Option.isSome_some, Bool.true_and, if_false, Bool.false_eq_true]
    cases hidle : (Gen.kaOutCmp.evalNat (s.now - s.lastOut) (s.cfg.keepalive * 1000) ||
        Gen.kaInCmp.evalNat (s.now - s.lastIn) (s.cfg.keepalive * 1000)) with
    | false => exact ⟨[], by simp [pure, Except.pure, bind, Except.bind], by simp [runEffs]⟩
    | true =>
      simp only [if_true]
      by_cases hp : s.cstate = .connected ∧ s.pingT = 0
      · obtain ⟨hc, hpt⟩ := hp
        have hnow := (TimerLemmas.sendSimple_fr (g := false) s 0xC0 (by simp)).1.now
        refine ⟨[.call "_send_pingreq" [], .setInt "_last_msg_out" s.now, .setInt "_last_msg_in" s.now], ?_, ?_⟩
        · simp [hc, hpt, csCode, pure, Except.pure, bind, Except.bind]
        · simp only [hc, hpt, and_self, if_true, runEffs, List.foldl, runEff]
          cases hsend : s.sendSimple 0xC0 with
          | mk s' rc =>
            rw [hsend] at hnow
            simp only at hnow
            by_cases hrc : rc = rcSuccess <;> simp [hrc, hnow]
      · have hcode : ((csCode s.cstate == c__ConnectionState_MQTT_CS_CONNECTED) && ((s.pingT : Int) == 0)) = false := by
          cases hcs : s.cstate <;> simp_all [csCode, c__ConnectionState_MQTT_CS_CONNECTED,
            c__ConnectionState_MQTT_CS_CONNECTION_LOST, c__ConnectionState_MQTT_CS_DISCONNECTING,
            c__ConnectionState_MQTT_CS_DISCONNECTED] <;> omega
        have hcst : (s.sockClose).cstate = s.cstate := (TimerLemmas.sockClose_proj s false).2.2.2.2.2
        by_cases hd : s.cstate = .disconnecting ∨ s.cstate = .disconnected
        · refine ⟨[.call "_sock_close" [], .setInt "_state" c__ConnectionState_MQTT_CS_DISCONNECTED,
            .call "_do_on_disconnect" [0, 0]], ?_, ?_⟩
          · rcases hd with hd | hd <;> simp [hd, csCode, pure, Except.pure, bind, Except.bind,
              c__ConnectionState_MQTT_CS_DISCONNECTING, c__ConnectionState_MQTT_CS_DISCONNECTED,
              c__ConnectionState_MQTT_CS_CONNECTED]
          · have : (s.sockClose).disconnectingOrDone = true := by
              unfold S.disconnectingOrDone; rw [hcst]; rcases hd with hd | hd <;> simp [hd]
            simp [hp, this, runEffs, runEff, rcSuccess]
        · refine ⟨[.call "_sock_close" [], .setInt "_state" c__ConnectionState_MQTT_CS_CONNECTION_LOST,
            .call "_do_on_disconnect" [0, 16]], ?_, ?_⟩
          · have : ((csCode s.cstate == c__ConnectionState_MQTT_CS_DISCONNECTING) ||
                (csCode s.cstate == c__ConnectionState_MQTT_CS_DISCONNECTED)) = false := by
              cases hcs : s.cstate <;> simp_all [csCode, c__ConnectionState_MQTT_CS_CONNECTED,
                c__ConnectionState_MQTT_CS_CONNECTION_LOST, c__ConnectionState_MQTT_CS_DISCONNECTING,
                c__ConnectionState_MQTT_CS_DISCONNECTED]
            simp [hcode, this, pure, Except.pure, bind, Except.bind]
          · have : (s.sockClose).disconnectingOrDone = false := by
              unfold S.disconnectingOrDone; rw [hcst]
              cases hcs : s.cstate <;> simp_all
            simp [hp, this, runEffs, runEff, rcKeepalive, c__ConnectionState_MQTT_CS_CONNECTION_LOST,
              c__ConnectionState_MQTT_CS_DISCONNECTED]

/-! ### `Client._send_pingreq` -/

/-- **`Client._send_pingreq` as the source has it now** is what the interpreter above executes for the call `_send_pingreq()`:
the PINGREQ goes through `_send_simple_command`, the result of that call is returned, and `_ping_t` is set to the current time
exactly when that result is MQTT_ERR_SUCCESS - so `fn_checkKeepalive` rests on translated code for this callee too -/
theorem fn_sendPingreq (s : S) :
    ∃ effs, Gen.Fn.sendPingreq (s.now : Int) (s.sendSimple 0xC0).2 = .ok ((s.sendSimple 0xC0).2, effs) ∧
      runEffs s effs = runEff s (.call "_send_pingreq" []) := by
  have hnow := (TimerLemmas.sendSimple_fr (g := false) s 0xC0 (by simp)).1.now
  unfold Gen.Fn.sendPingreq
  cases hsend : s.sendSimple 0xC0 with
  | mk s' rc =>
    rw [hsend] at hnow
    simp only at hnow
    by_cases hrc : rc = 0
    · refine ⟨[.call "_send_simple_command" [c_PINGREQ], .setInt "_ping_t" s.now], ?_, ?_⟩
      · simp [hrc, pure, Except.pure, bind, Except.bind]
      · simp [runEffs, runEff, c_PINGREQ, hsend, hrc, rcSuccess, hnow]
    · refine ⟨[.call "_send_simple_command" [c_PINGREQ]], ?_, ?_⟩
      · have : (rc == 0) = false := by rw [beq_eq_false_iff_ne]; exact hrc
        simp [this, pure, Except.pure, bind, Except.bind]
      · simp [runEffs, runEff, c_PINGREQ, hsend, hrc, rcSuccess]

/-! ### `Client._handle_pingresp` -/

/-- **`Client._handle_pingresp` as the source has it now**: a PINGRESP with remaining length 0 clears the outstanding-PINGREQ
marker and nothing else - executed on the model that is what the session model does with a PINGRESP (`packetHandle`,
theorem c08_pingresp) -; any other remaining length is a protocol error and changes nothing -/
theorem fn_handlePingresp (s : S) (now : Int) (rl : Nat) :
    Gen.Fn.handlePingresp (rl : Int) now =
      .ok (if rl = 0 then ((0 : Int), [MEff.setInt "_ping_t" 0]) else ((2 : Int), [])) ∧
    runEffs s [MEff.setInt "_ping_t" 0] = { s with pingT := 0 } := by
  constructor
  · unfold Gen.Fn.handlePingresp
    by_cases h : rl = 0
    · subst h; simp [pure, Except.pure, bind, Except.bind]
    · have : ((rl : Int) != 0) = true := by simp; omega
      simp [h, this, pure, Except.pure, bind, Except.bind]
  · simp [runEffs, runEff]

/-! ### `Client.loop_misc` -/

/-- a socket as an object reference: 0 = None -/
def sockId : Option Nat → Int
  | none => 0
  | some c => (c : Int) + 1

/-- the tail of both give-up branches (`_check_keepalive` and `loop_misc`): close, state by whether disconnect() had been
called, one on_disconnect - executed on the model it is `kaClose` -/
theorem run_close (t : S) :
    (t.cstate = .disconnecting ∨ t.cstate = .disconnected →
      runEffs t [.call "_sock_close" [], .setInt "_state" c__ConnectionState_MQTT_CS_DISCONNECTED,
        .call "_do_on_disconnect" [0, 0]] = TimerLemmas.kaClose t) ∧
    (¬ (t.cstate = .disconnecting ∨ t.cstate = .disconnected) →
      runEffs t [.call "_sock_close" [], .setInt "_state" c__ConnectionState_MQTT_CS_CONNECTION_LOST,
        .call "_do_on_disconnect" [0, 16]] = TimerLemmas.kaClose t) := by
  have hcst : (t.sockClose).cstate = t.cstate := (TimerLemmas.sockClose_proj t false).2.2.2.2.2
  constructor
  · intro hd
    have : (t.sockClose).disconnectingOrDone = true := by
      unfold S.disconnectingOrDone; rw [hcst]; rcases hd with hd | hd <;> simp [hd]
    simp [TimerLemmas.kaClose, this, runEffs, runEff, rcSuccess]
  · intro hd
    have : (t.sockClose).disconnectingOrDone = false := by
      unfold S.disconnectingOrDone; rw [hcst]
      cases hcs : t.cstate <;> simp_all
    simp [TimerLemmas.kaClose, this, runEffs, runEff, rcKeepalive, c__ConnectionState_MQTT_CS_CONNECTION_LOST,
      c__ConnectionState_MQTT_CS_DISCONNECTED]

/-- the arguments of the translated `loop_misc` read off a model state; the attributes it reads again after the call of
`_check_keepalive()` are those of the model's state after `checkKeepalive` -/
def lmRun (s : S) : Except Exc (Int × List MEff) :=
  let s1 := s.checkKeepalive
  Gen.Fn.loopMisc (sockId s.sock) ((s.cfg.keepalive * 1000 : Nat) : Int) (csCode s.cstate) (s.pingT : Int) (s.now : Int)
    (sockId s1.sock) (s1.pingT : Int) ((s1.cfg.keepalive * 1000 : Nat) : Int) (csCode s1.cstate)

/-- **`Client.loop_misc` as the source has it now = the model's `loopMisc`** (result code and effect on the client), for every
state whose timers are not ahead of the clock: MQTT_ERR_NO_CONN without a socket; MQTT_ERR_CONN_LOST when `_check_keepalive()`
closed the connection (the socket is no longer the one the call started with - F39); when a PINGREQ has been outstanding for
K: close, state by whether disconnect() had been called, one on_disconnect with success / MQTT_ERR_KEEPALIVE, result
MQTT_ERR_CONN_LOST; otherwise MQTT_ERR_SUCCESS -/
theorem fn_loopMisc (s : S) (hinv : TimerLemmas.TInv s) :
    ∃ rc effs, lmRun s = .ok (rc, effs) ∧ (runEffs s effs, rc) = s.loopMisc := by
  have hfr := TimerLemmas.checkKeepalive_frame s
  have hinv1 := hinv.ck hfr
  have hlow := (OutLemmas.checkKeepalive_low s).sock
  obtain ⟨hnow, hcfg, _⟩ := hfr
  unfold lmRun Gen.Fn.loopMisc
  rcases TimerLemmas.loopMisc_cases s with ⟨h1, h2⟩ | ⟨h1, h2, h3⟩ | ⟨h1, h2, h3, h4⟩ | ⟨h1, h2, h3, h4⟩
  · refine ⟨4, [], ?_, ?_⟩
    · simp [h1, sockId, pure, Except.pure, bind, Except.bind]
    · rw [h2]; simp [runEffs, rcNoConn]
  · obtain ⟨c, hc⟩ := Option.isSome_iff_exists.mp h1
    refine ⟨7, [.call "_check_keepalive" []], ?_, ?_⟩
    · have : ((c : Int) + 1 == 0) = false := by rw [beq_eq_false_iff_ne]; omega
      have h' : ((0 : Int) != (c : Int) + 1) = true := by simp; omega
      simp [hc, h2, sockId, this, h', pure, Except.pure, bind, Except.bind]
    · rw [h3]; simp [runEffs, runEff, rcConnLost]
  · obtain ⟨c, hc⟩ := Option.isSome_iff_exists.mp h1
    have hsame : s.checkKeepalive.sock = s.sock := by
      rcases hlow with h | h
      · exact h
      · rw [h] at h2; simp at h2
    have e0 : ((c : Int) + 1 == 0) = false := by rw [beq_eq_false_iff_ne]; omega
    obtain ⟨hp1, hp2⟩ := h3
    have hexp : (decide ((s.checkKeepalive.pingT : Int) > 0) &&
        decide ((s.now : Int) - (s.checkKeepalive.pingT : Int) ≥ ((s.checkKeepalive.cfg.keepalive * 1000 : Nat) : Int))) = true := by
      have := hinv1.2.2.1
      simp only [Bool.and_eq_true, decide_eq_true_eq]
      rw [hnow] at hp2 this
      constructor <;> omega
    have hrun := run_close s.checkKeepalive
    by_cases hd : s.checkKeepalive.cstate = .disconnecting ∨ s.checkKeepalive.cstate = .disconnected
    · refine ⟨7, [.call "_check_keepalive" [], .call "_sock_close" [], .setInt "_state" c__ConnectionState_MQTT_CS_DISCONNECTED,
        .call "_do_on_disconnect" [0, 0]], ?_, ?_⟩
      · simp only [hc, hsame, sockId, hexp]
        rcases hd with hd | hd <;>
          simp [e0, hd, csCode, pure, Except.pure, bind, Except.bind,
            c__ConnectionState_MQTT_CS_DISCONNECTING, c__ConnectionState_MQTT_CS_DISCONNECTED]
      · rw [h4, ← hrun.1 hd]; simp [runEffs, runEff, rcConnLost]
    · refine ⟨7, [.call "_check_keepalive" [], .call "_sock_close" [], .setInt "_state" c__ConnectionState_MQTT_CS_CONNECTION_LOST,
        .call "_do_on_disconnect" [0, 16]], ?_, ?_⟩
      · have : ((csCode s.checkKeepalive.cstate == c__ConnectionState_MQTT_CS_DISCONNECTING) ||
            (csCode s.checkKeepalive.cstate == c__ConnectionState_MQTT_CS_DISCONNECTED)) = false := by
          cases hcs : s.checkKeepalive.cstate <;> simp_all [csCode, c__ConnectionState_MQTT_CS_CONNECTED,
            c__ConnectionState_MQTT_CS_CONNECTION_LOST, c__ConnectionState_MQTT_CS_DISCONNECTING,
            c__ConnectionState_MQTT_CS_DISCONNECTED]
        simp only [hc, hsame, sockId, hexp, this]
        simp [e0, pure, Except.pure, bind, Except.bind]
      · rw [h4, ← hrun.2 hd]; simp [runEffs, runEff, rcConnLost]
  · obtain ⟨c, hc⟩ := Option.isSome_iff_exists.mp h1
    have hsame : s.checkKeepalive.sock = s.sock := by
      rcases hlow with h | h
      · exact h
      · rw [h] at h2; simp at h2
    have e0 : ((c : Int) + 1 == 0) = false := by rw [beq_eq_false_iff_ne]; omega
    have hexp : (decide ((s.checkKeepalive.pingT : Int) > 0) &&
        decide ((s.now : Int) - (s.checkKeepalive.pingT : Int) ≥ ((s.checkKeepalive.cfg.keepalive * 1000 : Nat) : Int))) = false := by
      have := hinv1.2.2.1
      rw [hnow] at this
      rw [Bool.and_eq_false_iff]
      unfold TimerLemmas.pingExpired at h3
      rw [hnow] at h3
      by_cases hp : s.checkKeepalive.pingT > 0
      · right; simp only [decide_eq_false_iff_not]; intro hge; apply h3; constructor <;> omega
      · left; simp only [decide_eq_false_iff_not]; omega
    refine ⟨0, [.call "_check_keepalive" []], ?_, ?_⟩
    · simp only [hc, hsame, sockId, hexp]
      simp [e0, pure, Except.pure, bind, Except.bind]
    · rw [h4]; simp [runEffs, runEff, rcSuccess]

end Paho.FnEq
