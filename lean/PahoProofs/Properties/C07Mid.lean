/-
C07, section A — packet ids under `_mid_generate_mutex` and critical sections over a lock-protected variable, over ALL
schedules of the interleaving models `MidSys` / `SecSys` (Paho/Model/Threads.lean).

The id-generator proofs depend on `Gen.midGenUnderLock = true` (extracted from `Client._mid_generate`): without the
mutex the invariant `ThrMid.MInv` is not preserved by `enter` and these proofs stop checking.
-/
import Paho.Model.Threads
import PahoProofs.Properties.C14
import PahoProofs.Lemmas.ThrMid
import PahoProofs.Lemmas.ThrSec
namespace Paho.Thr
open Paho

/-! ### A. packet ids -/

/-- under every schedule the ids come out exactly as in the sequential run, in the order of the `leave` actions -/
theorem c07_mid_sequential (l0 : Nat) (sched : List (Tid × MAct)) :
    let s := MidSys.run { last := l0 } sched
    (s.rets.reverse.map (·.2)) = midSeq l0 s.rets.length := by
  intro s
  exact (ThrMid.MInv.run sched (ThrMid.MInv.init l0)).seq

/-- all returned mids are distinct (up to a full cycle of the 16-bit id space) -/
theorem c07_mids_distinct (l0 : Nat) (h : l0 ≤ 65535) (sched : List (Tid × MAct)) :
    let s := MidSys.run { last := l0 } sched
    s.rets.length ≤ 65535 → (s.rets.map (·.2)).Nodup := by
  intro s hlen
  have hseq : (s.rets.reverse.map (·.2)) = midSeq l0 s.rets.length := c07_mid_sequential l0 sched
  have hnd := ThrMid.midSeq_nodup l0 s.rets.length h hlen
  rw [← hseq, List.map_reverse, List.Nodup, List.pairwise_reverse] at hnd
  exact hnd.imp (fun hab => Ne.symm hab)

/-- at most one thread is inside the generator -/
theorem c07_mid_mutex (l0 : Nat) (sched : List (Tid × MAct)) (t u : Tid) :
    let s := MidSys.run { last := l0 } sched
    s.pc t ≠ .idle → s.pc u ≠ .idle → t = u := by
  intro s ht hu
  exact (ThrMid.MInv.run sched (ThrMid.MInv.init l0)).unique hu ht

-- non-vacuity: a concrete interleaving of two threads (one blocked on the mutex meanwhile) returning 1 and 2
example : ((MidSys.run {} [(1, .enter), (2, .enter), (1, .load), (2, .load), (1, .store), (1, .leave), (2, .enter), (2, .load), (2, .store), (2, .leave)]).rets.map (·.2)) = [2, 1] := by decide

/-! ### A. critical sections -/

def SecSys.init {σ : Type} (x0 : σ) (progs : Tid → List (List (σ → σ))) : SecSys σ :=
  { shared := x0, committed := x0, thr := fun t => { todo := progs t } }

/-- any interleaving = the sections executed one after the other in the order of their releases -/
theorem c07_sections_serialize {σ : Type} (x0 : σ) (progs : Tid → List (List (σ → σ))) (sched : List (Tid × SAct)) :
    let s := (SecSys.init x0 progs).run sched
    s.committed = applyAll (s.log.map (·.2)).flatten x0 ∧ (s.owner = none → s.shared = s.committed) := by
  intro s
  have hinv : ThrSec.SInv x0 progs s := ThrSec.SInv.run sched (ThrSec.SInv.init x0 progs)
  exact ⟨hinv.comm, hinv.free⟩

/-- ... and every thread's sections appear in the log in program order: the completed ones are a prefix of its program -/
theorem c07_sections_program_order {σ : Type} (x0 : σ) (progs : Tid → List (List (σ → σ))) (sched : List (Tid × SAct)) (t : Tid) :
    let s := (SecSys.init x0 progs).run sched
    ∃ rest, progs t = ((s.log.filter (·.1 = t)).map (·.2)) ++ rest ∧ (rest.length = (s.thr t).todo.length) := by
  intro s
  have hinv : ThrSec.SInv x0 progs s := ThrSec.SInv.run sched (ThrSec.SInv.init x0 progs)
  by_cases ho : s.owner = some t
  · obtain ⟨_, done, rem, rest, _, htd, _, hpr⟩ := hinv.own t ho
    exact ⟨s.cur :: rest, hpr, by rw [htd]; rfl⟩
  · exact ⟨(s.thr t).todo, (hinv.other t ho).2, rfl⟩

/-- when every thread has finished, the protected state is the sequential result of all sections in log order -/
theorem c07_sections_final {σ : Type} (x0 : σ) (progs : Tid → List (List (σ → σ))) (sched : List (Tid × SAct)) :
    let s := (SecSys.init x0 progs).run sched
    (∀ t, (s.thr t).todo = []) → s.shared = applyAll (s.log.map (·.2)).flatten x0 := by
  intro s hall
  have hinv : ThrSec.SInv x0 progs s := ThrSec.SInv.run sched (ThrSec.SInv.init x0 progs)
  have hnone : s.owner = none := by
    cases ho : s.owner with
    | none => rfl
    | some t =>
      obtain ⟨_, done, rem, rest, _, htd, _, _⟩ := hinv.own t ho
      rw [hall t] at htd
      cases htd
  rw [hinv.free hnone]
  exact hinv.comm

end Paho.Thr
