/-
C11 — topic filter matching equals the MQTT spec; the filter trie stays consistent.
All statements below are proved (no sorry); helper lemmas live in PahoProofs/Lemmas/Trie.lean and TrieMatch.lean.
-/
import Paho.Model.Trie
import Paho.Spec.Topic
import PahoProofs.Lemmas.TrieDefs
import PahoProofs.Lemmas.Trie
import PahoProofs.Lemmas.TrieMatch

namespace Paho
open Node

variable {V : Type}

-- some hypotheses of the statements below (`hk : k ≠ []`, `hwf` in a few places) turn out not
-- to be needed by the proofs; the statements are kept as given.
set_option linter.unusedVariables false

/-- topic levels: none of them is the bare wildcard level (true of every valid topic name) -/
def NoWildLevel (tl : List Level) : Prop := ∀ l ∈ tl, l ≠ lvlPlus ∧ l ≠ lvlHash

theorem splitOn_ne_nil (sep : UInt8) (s : List UInt8) : splitOn sep s ≠ [] := by
  induction s with
  | nil => simp [splitOn]
  | cons c cs ih =>
    simp only [splitOn]
    split
    · simp
    · split <;> simp

theorem mem_of_mem_splitOn (sep : UInt8) (s : List UInt8) :
    ∀ l ∈ splitOn sep s, ∀ c ∈ l, c ∈ s := by
  induction s with
  | nil => simp [splitOn]
  | cons c cs ih =>
    intro l hl x hx
    simp only [splitOn] at hl
    split at hl
    · rcases List.mem_cons.1 hl with rfl | hl
      · cases hx
      · exact List.mem_cons_of_mem _ (ih l hl x hx)
    · split at hl
      · simp only [List.mem_singleton] at hl
        subst hl
        simp_all
      · rename_i l' ls heq
        rcases List.mem_cons.1 hl with rfl | hl
        · rcases List.mem_cons.1 hx with rfl | hx
          · simp
          · exact List.mem_cons_of_mem _ (ih l' (by simp [heq]) x hx)
        · exact List.mem_cons_of_mem _ (ih l (by simp [heq, hl]) x hx)

theorem isDollarTopic_eq (topic : List UInt8) : Spec.isDollarTopic topic = startsDollar topic := by
  cases topic <;> rfl

/-- the spec's `matchesL` is `matchW` with "wildcards allowed" = "not a `$` topic" -/
theorem matchesL_eq_matchW (d : Bool) (fl tl : List Level) (htl : tl ≠ []) :
    Spec.matchesL d fl tl = matchW (!d) fl tl := by
  cases fl with
  | nil =>
    cases tl with
    | nil => exact absurd rfl htl
    | cons t ts => simp [Spec.matchesL, matchW, Spec.matchLevels]
  | cons f fs =>
    cases d <;> simp only [Spec.matchesL, matchW]
    · simp
    · by_cases h : f = [Spec.plus] <;> by_cases h' : f = [Spec.hash] <;> simp [h, h']

/-- the heart: for every well-formed trie whose stored keys are valid filters, iterating the
matches of a topic yields exactly the values of the stored filters the spec says match, each once. -/
theorem c11_iter (t : Node V) (topic : List UInt8)
    (hwf : WFN t) (hvalid : ∀ kv ∈ toList t, Spec.validLevels kv.1 = true)
    (htopic : NoWildLevel (splitTopic topic)) :
    (iterMatch t topic).Perm
      (((toList t).filter (fun kv => Spec.matchesL (Spec.isDollarTopic topic) kv.1 (splitTopic topic))).map (·.2)) := by
  have hne : splitTopic topic ≠ [] := splitOn_ne_nil _ _
  have h := iterMatchAux_perm (!startsDollar topic) (splitTopic topic) true t hwf
    (fun kv hkv => hashOK_of_valid _ (hvalid kv hkv)) htopic
  have heq : (fun kv : List Level × V =>
        Spec.matchesL (Spec.isDollarTopic topic) kv.1 (splitTopic topic)) =
      (fun kv => matchW (!startsDollar topic || !true) kv.1 (splitTopic topic)) := by
    funext kv
    rw [matchesL_eq_matchW _ _ _ hne, isDollarTopic_eq]
    simp
  rw [heq]
  exact h

/-- `toList` is a faithful dictionary view: membership is `get`, keys are distinct -/
theorem c11_toList_get (t : Node V) (hwf : WFN t) (k : List Level) (v : V) :
    (k, v) ∈ toList t ↔ get k t = some v :=
  mem_toListN_iff k t v hwf
theorem c11_toList_nodup (t : Node V) (hwf : WFN t) : ((toList t).map (·.1)).Nodup :=
  keys_nodup t hwf

/-- refinement to a dictionary: insert -/
theorem c11_get_insert (t : Node V) (hwf : WFN t) (k k' : List Level) (v : V) :
    get k' (insert k v t) = if k' = k then some v else get k' t :=
  get_insert v k k' t
theorem c11_insert_wf (t : Node V) (hwf : WFN t) (k : List Level) (v : V) : WFN (insert k v t) :=
  insert_wf v k t hwf
theorem c11_insert_pruned (t : Node V) (hp : PrunedN t) (k : List Level) (v : V) (hk : k ≠ []) :
    PrunedN (insert k v t) :=
  insert_pruned v k t hp

/-- refinement to a dictionary: delete -/
theorem c11_get_delete (t t' : Node V) (hwf : WFN t) (k k' : List Level) (hk : k ≠ [])
    (hd : delete k t = some t') :
    get k' t' = if k' = k then none else get k' t :=
  get_delete k k' t t' hwf hd
theorem c11_delete_wf (t t' : Node V) (hwf : WFN t) (k : List Level) (hd : delete k t = some t') : WFN t' :=
  delete_wf k t t' hwf hd
theorem c11_delete_pruned (t t' : Node V) (hp : PrunedN t) (k : List Level) (hk : k ≠ [])
    (hd : delete k t = some t') : PrunedN t' :=
  delete_pruned k t t' hp hd
/-- deleting a stored key never raises KeyError -/
theorem c11_delete_stored (t : Node V) (k : List Level) (v : V) (h : get k t = some v) :
    ∃ t', delete k t = some t' :=
  delete_stored k t v h
/-- deleting a key that is not stored leaves the trie unchanged (whether or not KeyError is raised) -/
theorem c11_delete_absent (t : Node V) (hwf : WFN t) (hp : PrunedN t) (k : List Level) (hk : k ≠ [])
    (h : get k t = none) : delete k t = none ∨ delete k t = some t :=
  delete_absent k t hp h

/-- topic_matches_sub equals the spec relation for valid filters and wildcard-free topics -/
theorem c11_tms (sub topic : List UInt8) (hs : Spec.validLevels (splitTopic sub) = true)
    (ht : NoWildLevel (splitTopic topic)) :
    topicMatchesSub sub topic = Spec.matchesTopic sub topic := by
  have hwf : WFN (insert (splitTopic sub) true (empty : Node Bool)) := insert_wf _ _ _ WFN_empty
  have hl : toList (insert (splitTopic sub) true (empty : Node Bool)) = [(splitTopic sub, true)] := by
    simpa [toList] using toListN_insert_empty true (splitTopic sub) []
  have h := c11_iter (insert (splitTopic sub) true (empty : Node Bool)) topic hwf
    (by rw [hl]; simpa using hs) ht
  rw [hl] at h
  have he := h.isEmpty_eq
  show (!(iterMatch (insert (splitTopic sub) true (empty : Node Bool)) topic).isEmpty) =
    Spec.matchesL (Spec.isDollarTopic topic) (splitTopic sub) (splitTopic topic)
  rw [he]
  cases hm : Spec.matchesL (Spec.isDollarTopic topic) (splitTopic sub) (splitTopic topic) <;>
    simp [hm]

/-- splitTopic never returns the empty list (so `hk : k ≠ []` above is always met by real keys) -/
theorem splitTopic_ne_nil (s : List UInt8) : splitTopic s ≠ [] :=
  splitOn_ne_nil _ _
/-- a valid topic name has no bare wildcard level -/
theorem validTopic_noWild (t : List UInt8) (h : Spec.validTopic t = true) : NoWildLevel (splitTopic t) := by
  intro l hl
  simp only [Spec.validTopic, Bool.and_eq_true, Bool.not_eq_true', List.contains_eq_mem,
    decide_eq_false_iff_not] at h
  have hm := mem_of_mem_splitOn _ _ l hl
  constructor
  · rintro rfl
    exact h.1 (hm Spec.plus (by simp [lvlPlus, Gen.chPlus, Spec.plus]))
  · rintro rfl
    exact h.2 (hm Spec.hash (by simp [lvlHash, Gen.chHash, Spec.hash]))

/-! ### non-vacuity: concrete tries (bytes: a=97 b=98 A=65 /=47 +=43 #=35 $=36 x=120) -/

section Examples

/-- the trie holding the filters `a/#` ↦ 1, `+/b` ↦ 2, `a/+` ↦ 3 (inserted in this order) -/
def exTrie : Node Nat :=
  insert (splitTopic [97, 47, 43]) 3
    (insert (splitTopic [43, 47, 98]) 2
      (insert (splitTopic [97, 47, 35]) 1 empty))

/-- evaluate the (well-founded, hence not kernel-reducible) model functions by their equations -/
macro "trie_eval" : tactic => `(tactic|
  simp [exTrie, iterMatch, splitTopic, splitOn, insert_cons, insert_nil, delete_cons, delete_nil,
    get_cons, get_nil, isDead, eraseChild, empty, lookup, setChild, iterMatchAux_cons,
    iterMatchAux_nil, optL, startsDollar, Gen.chSlash, Gen.chDollar, lvlPlus, lvlHash, Gen.chPlus,
    Gen.chHash, content, toList, toListN_mk, contentList, WFN_mk, PrunedN_mk])

/-- `a/#` matches the topic `a` (parent level) -/
example : iterMatch exTrie [97] = [1] := by trie_eval
/-- `+/b` does not match `$x/b`, and nothing else does -/
example : iterMatch exTrie [36, 120, 47, 98] = [] := by trie_eval
/-- ... but `+/b` matches `x/b` -/
example : iterMatch exTrie [120, 47, 98] = [2] := by trie_eval
/-- `a/+` (and `a/#`) match `a/`, whose second level is empty -/
example : iterMatch exTrie [97, 47] = [3, 1] := by trie_eval
/-- matching is case sensitive: `A` is not `a` -/
example : iterMatch exTrie [65] = [] := by trie_eval
/-- all three match `a/b` -/
example : iterMatch exTrie [97, 47, 98] = [3, 1, 2] := by trie_eval

/-- the hypotheses of `c11_iter` hold of the example trie -/
example : WFN exTrie := by trie_eval
example : PrunedN exTrie := by trie_eval
example : toList exTrie = [([[97], [35]], 1), ([[97], [43]], 3), ([[43], [98]], 2)] := by trie_eval
example : ∀ kv ∈ toList exTrie, Spec.validLevels kv.1 = true := by
  have h : toList exTrie = [([[97], [35]], 1), ([[97], [43]], 3), ([[43], [98]], 2)] := by trie_eval
  rw [h]; decide
example : NoWildLevel (splitTopic [97, 47]) := by
  have h : splitTopic [97, 47] = [[97], []] := by trie_eval
  rw [h]; unfold NoWildLevel; decide

/-- dictionary behaviour on the example -/
example : get (splitTopic [97, 47, 43]) exTrie = some 3 := by trie_eval
example : get (splitTopic [97]) exTrie = none := by trie_eval
example : delete (splitTopic [97]) exTrie = some exTrie := by trie_eval
example : delete (splitTopic [98]) exTrie = none := by trie_eval
example : (delete (splitTopic [43, 47, 98]) exTrie).map toList =
    some [([[97], [35]], 1), ([[97], [43]], 3)] := by trie_eval

/-- the specification itself, on the same data -/
example : Spec.matchesTopic [97, 47, 35] [97] = true := by decide
example : Spec.matchesTopic [43, 47, 98] [36, 120, 47, 98] = false := by decide
example : Spec.matchesTopic [43, 47, 98] [120, 47, 98] = true := by decide
example : Spec.matchesTopic [97, 47, 43] [97, 47] = true := by decide
example : Spec.matchesTopic [97] [65] = false := by decide
example : Spec.matchesTopic [35] [36, 120] = false := by decide
example : Spec.matchesTopic [36, 120, 47, 35] [36, 120] = true := by decide

/-- `topic_matches_sub` on the same data, directly -/
example : topicMatchesSub [97, 47, 35] [97] = true := by
  simp [topicMatchesSub]; trie_eval
example : topicMatchesSub [43, 47, 98] [36, 120, 47, 98] = false := by
  simp [topicMatchesSub]; trie_eval
example : topicMatchesSub [97, 47, 43] [97, 47] = true := by
  simp [topicMatchesSub]; trie_eval
example : topicMatchesSub [97] [65] = false := by
  simp [topicMatchesSub]; trie_eval

/-- why `NoWildLevel` is needed in `c11_iter`/`c11_tms`: on the (invalid) topic `+` the model
reports the filter `+` twice -/
example : iterMatch (insert [[43]] 7 (empty : Node Nat)) [43] = [7, 7] := by trie_eval

end Examples

/-- T1: the five methods of `MQTTMatcher` the trie model follows statement by statement have the modelled statement structure
in the current source (no added fast path, counter or early return) - extracted on this run -/
theorem c11_matcher_shape : Gen.matcherShapeOk = true := rfl

end Paho
