/- C10 registration module: the connection-state theorems (Properties/C10) and `Client._loop_rc_handle` translated from the
source (Properties/FnLoopRc), equal to the model's `loopRcHandle`. -/
import PahoProofs.Properties.C10
import PahoProofs.Properties.FnLoopRc
