/- C02 registration module: the session theorems (Properties/C02) and the translated `_messages_reconnect_reset_out` /
`_check_clean_session` (Properties/FnSession). -/
import PahoProofs.Properties.C02
import PahoProofs.Properties.FnSession
import PahoProofs.Properties.SessionOrder
