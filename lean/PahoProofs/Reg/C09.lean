/- C09 registration module: the loop_forever automaton theorems (Properties/C09) and the back-off arithmetic of
`Client._reconnect_wait` translated from the source (Properties/FnBackoff), equal to the automaton's `delayNext`. -/
import PahoProofs.Properties.C09
import PahoProofs.Properties.FnBackoff
