/- C13 registration module: the ordering theorems (Properties/C01, where C13's theorems live) and the statement-order facts
of `_do_on_publish` (Properties/SessionOrder). -/
import PahoProofs.Properties.C01
import PahoProofs.Properties.SessionOrder
