/- C16 registration module: the socket-callback theorems (Properties/C10, where C16's theorems live) and the write-registration
helpers translated from the source (Properties/FnSockCb), equal to the model's. -/
import PahoProofs.Properties.C10
import PahoProofs.Properties.FnSockCb
import PahoProofs.Properties.FnLoopRc
