/- C05 registration module: the raw-socket reader and decoders (Properties/C05) and the WebSocket receive side
(Properties/C05Ws). -/
import PahoProofs.Properties.C05
import PahoProofs.Properties.C05Ws
