/- C05 registration module: the raw-socket reader and decoders (Properties/C05), the WebSocket receive side
(Properties/C05Ws) and the packet reader on top of the WebSocket wrapper (Properties/C05WsReader). -/
import PahoProofs.Properties.C05
import PahoProofs.Properties.C05Ws
import PahoProofs.Properties.C05WsReader
