/- C06 registration module: the outgoing queue under partial writes (theorems c06_* in Properties/C10), the
WebSocket send side (Properties/C06Ws) and the two layers together (Properties/C06WsWriter). -/
import PahoProofs.Properties.C10
import PahoProofs.Properties.C06Ws
import PahoProofs.Properties.C06WsWriter
import PahoProofs.Properties.C06TcpWriter
import PahoProofs.Properties.FnLoopRc
