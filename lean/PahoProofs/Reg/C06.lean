/- C06 registration module: the outgoing queue under partial writes (theorems c06_* in Properties/C10) and the
WebSocket send side (Properties/C06Ws). -/
import PahoProofs.Properties.C10
import PahoProofs.Properties.C06Ws
