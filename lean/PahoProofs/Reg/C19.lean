/- C19 registration module: the validation rules (Properties/C19), the calling conventions of subscribe()/unsubscribe()
(Properties/C19Sub) and the atomicity of a rejected call in the session model (Properties/C19Atomic). -/
import PahoProofs.Properties.C19
import PahoProofs.Properties.C19Sub
import PahoProofs.Properties.C19Atomic
import PahoProofs.Properties.FnValidate
