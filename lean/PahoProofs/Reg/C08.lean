/- C08 registration module: the keep-alive theorems (Properties/C08) and `Client._check_keepalive` translated from the source
(Properties/FnKeepalive), equal to the model's `checkKeepalive` in every reachable state. -/
import PahoProofs.Properties.C08
import PahoProofs.Properties.FnKeepalive

namespace Paho.FnEq
open Paho

/-- in every reachable state (any history) the translated `_check_keepalive`, executed on the model, is the model's
`checkKeepalive`: the hypothesis of `fn_checkKeepalive` is the clock invariant `c08_time_inv` -/
theorem fn_checkKeepalive_reach (cfg : Cfg) (proto : Nat) (ops : List Op) :
    let s := runFrom cfg proto ops
    ∃ effs, kaEffs s = .ok effs ∧ runEffs s effs = s.checkKeepalive := by
  intro s
  have h := c08_time_inv cfg proto ops
  exact fn_checkKeepalive s h.1 h.2.1

/-- in every reachable state the translated `loop_misc()` - result code and effect on the client - is the model's `loopMisc`,
the function the theorems c08_ping_due / c08_timeout / c08_live / c08_gap_bound are stated about -/
theorem fn_loopMisc_reach (cfg : Cfg) (proto : Nat) (ops : List Op) :
    let s := runFrom cfg proto ops
    ∃ rc effs, lmRun s = .ok (rc, effs) ∧ (runEffs s effs, rc) = s.loopMisc := by
  intro s
  exact fn_loopMisc s (c08_time_inv cfg proto ops)

end Paho.FnEq
