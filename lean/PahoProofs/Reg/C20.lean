/- C20 registration module: the theorems about the helpers' callback logic (Properties/C20) and the callbacks translated
from the source, equal to that model (Properties/FnHelpers). -/
import PahoProofs.Properties.C20
import PahoProofs.Properties.FnHelpers
