/- C03 registration module: the session theorems (Properties/C03) and the translated `_check_clean_session`
(Properties/FnSession), which decides whether half-received QoS 2 messages survive a reconnect. -/
import PahoProofs.Properties.C03
import PahoProofs.Properties.FnSession
import PahoProofs.Properties.SessionOrder
import PahoProofs.Properties.FnLoopRc
