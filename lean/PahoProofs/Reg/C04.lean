/- C04 registration module: the encoders and their strict round trips (Properties/C04) and the SUBSCRIBE/UNSUBSCRIBE
round trips for every call the argument normalisation accepts (Properties/C04Sub, over Paho.Model.SubArgs). -/
import PahoProofs.Properties.C04
import PahoProofs.Properties.C04Sub
import PahoProofs.Properties.FnRemLen
