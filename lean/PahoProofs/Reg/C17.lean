/- C17 registration module: the property/reason-code theorems (Properties/C17) and the equality of the translated
`VariableByteIntegers.encode/decode` (Paho.Gen.Fn, regenerated from the source) with the model's functions. -/
import PahoProofs.Properties.C17
import PahoProofs.Properties.FnVbi
import PahoProofs.Properties.FnSubOpts
