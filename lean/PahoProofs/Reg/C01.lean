/- C01 registration module: the session theorems (Properties/C01) and the translated rewind of the outgoing handshake
states that every reconnect performs (Properties/FnSession). -/
import PahoProofs.Properties.C01
import PahoProofs.Properties.FnSession
import PahoProofs.Properties.FnInfo
import PahoProofs.Properties.SessionOrder
