/- C12 registration module: the flow-control theorems (Properties/C02, where C12's theorems live) and the statement-order
facts of `_do_on_publish` (Properties/SessionOrder). -/
import PahoProofs.Properties.C02
import PahoProofs.Properties.SessionOrder
