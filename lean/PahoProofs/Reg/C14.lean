/- C14 registration module: the sequential id generator (Properties/C14), ids of live messages in the session model
(Properties/C01) and the generator under every thread schedule (Properties/C07Mid). -/
import PahoProofs.Properties.C14
import PahoProofs.Properties.C01
import PahoProofs.Properties.C07Mid
import PahoProofs.Properties.FnMid
