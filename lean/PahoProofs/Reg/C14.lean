import PahoProofs.Properties.C14
import PahoProofs.Properties.C01
