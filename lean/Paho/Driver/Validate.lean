/- Driver for the argument validation (C19). -/
import Paho.Driver.Common
import Paho.Model.Validate
namespace Paho.Driver
open Paho

def parseTag : String → Option PayloadTag
  | "str" => some .str | "bytes" => some .bytes | "bytearray" => some .bytearray
  | "int" => some .int | "float" => some .float | "none" => some .none | "other" => some .other
  | _ => none

def showExc : Option Exc → String
  | none => "ok"
  | some .valueError => "ValueError"
  | some .typeError => "TypeError"
  | some .structError => "struct.error"
  | some .assertionError => "AssertionError"
  | some .mqttException => "MQTTException"
  | some .keyError => "KeyError"
  | some .other => "other"
  | some .indexError => "IndexError"
  | some .unicodeError => "UnicodeDecodeError"
  | some .malformedPacket => "MalformedPacket"

def validateStep (u : Unit) : List String → Unit × String
  | ["filter", s] =>
    match parseHex s with
    | some b => (u, showBool (filterCheck b))
    | none => (u, "bad-op")
  | ["topic", s] =>
    match parseHex s with
    | some b => (u, showBool (!topicInvalid b))
    | none => (u, "bad-op")
  | ["publish", proto, s, qos, tag, plen] =>
    match proto.toNat?, parseHex s, qos.toInt?, parseTag tag, plen.toNat? with
    | some p, some b, some q, some t, some n => (u, showExc (publishCheckFull p b q t n (if p = 5 then 1 else 0)))
    | _, _, _, _, _ => (u, "bad-op")
  | _ => (u, "bad-op")

def validateDrv : Drv := { σ := Unit, init := (), step := validateStep }

end Paho.Driver
