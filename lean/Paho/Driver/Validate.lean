/- Driver for the argument validation (C19). -/
import Paho.Driver.Common
import Paho.Model.Validate
import Paho.Model.SubArgs
namespace Paho.Driver
open Paho

def parseTag : String → Option PayloadTag
  | "str" => some .str | "bytes" => some .bytes | "bytearray" => some .bytearray
  | "int" => some .int | "float" => some .float | "none" => some .none | "other" => some .other
  | _ => none

def showExc : Option Exc → String
  | none => "ok"
  | some .valueError => "ValueError"
  | some .typeError => "TypeError"
  | some .structError => "struct.error"
  | some .assertionError => "AssertionError"
  | some .mqttException => "MQTTException"
  | some .keyError => "KeyError"
  | some .other => "other"
  | some .indexError => "IndexError"
  | some .unicodeError => "UnicodeDecodeError"
  | some .malformedPacket => "MalformedPacket"
  | some .runtimeError => "RuntimeError"

/-- second component: `i<int>` or `o<options byte>` -/
def parseSecond (s : String) : Option (Second Nat) :=
  if s.startsWith "i" then (s.drop 1).toInt?.map .int
  else if s.startsWith "o" then (s.drop 1).toNat?.map .opts
  else none

/-- the `options=` argument: `-` absent, `o<byte>` a SubscribeOptions object, `x` some other object -/
def parseOptArg (s : String) : Option (OptArg Nat) :=
  if s = "-" then some .none
  else if s = "x" then some .other
  else if s.startsWith "o" then (s.drop 1).toNat?.map .opts
  else none

def parsePairs (s : String) : Option (List (Bytes × Second Nat)) :=
  if s = "-" then some []
  else (s.splitOn ",").mapM fun e =>
    match e.splitOn ":" with
    | [h, x] => do let b ← parseHex h; let y ← parseSecond x; pure (b, y)
    | _ => none

def showEntry : Entry Nat → String
  | .qos q => toString q
  | .opts o => toString o

/-- canonical short form of a filter in observations (long ones: length and the first four bytes) -/
def shortHex (b : Bytes) : String :=
  if b.length > 40 then s!"L{b.length}." ++ toHex (b.take 4)
  else if b.isEmpty then "-" else toHex b

def showSub : Except Exc (List (Bytes × Entry Nat)) → String
  | .ok l => "ok " ++ ",".intercalate (l.map fun e => shortHex e.1 ++ ":" ++ showEntry e.2)
  | .error e => showExc (some e)

def showUnsub : Except Exc (List Bytes) → String
  | .ok l => "ok " ++ ",".intercalate (l.map shortHex)
  | .error e => showExc (some e)

def hexOrEmpty (s : String) : Option Bytes := if s = "-" then some [] else parseHex s

def validateStep (u : Unit) : List String → Unit × String
  | ["sub", proto, "str", t, qos, opt] =>
    match proto.toNat?, hexOrEmpty t, qos.toInt?, parseOptArg opt with
    | some p, some b, some q, some o => (u, showSub (Sub.normalize p (.str b) q o))
    | _, _, _, _ => (u, "bad-op")
  | ["sub", proto, "tuple", t, x, qos, opt] =>
    match proto.toNat?, hexOrEmpty t, parseSecond x, qos.toInt?, parseOptArg opt with
    | some p, some b, some y, some q, some o => (u, showSub (Sub.normalize p (.tuple b y) q o))
    | _, _, _, _, _ => (u, "bad-op")
  | ["sub", proto, "list", l, qos, opt] =>
    match proto.toNat?, parsePairs l, qos.toInt?, parseOptArg opt with
    | some p, some ps, some q, some o => (u, showSub (Sub.normalize p (.list ps) q o))
    | _, _, _, _ => (u, "bad-op")
  | ["sub", proto, "none", qos, opt] =>
    match proto.toNat?, qos.toInt?, parseOptArg opt with
    | some p, some q, some o => (u, showSub (Sub.normalize p (.none : TopicForm Nat) q o))
    | _, _, _ => (u, "bad-op")
  | ["unsub", "none"] => (u, showUnsub (unsubNormalize .none))
  | ["unsub", "other"] => (u, showUnsub (unsubNormalize .other))
  | ["unsub", "str", t] =>
    match hexOrEmpty t with
    | some b => (u, showUnsub (unsubNormalize (.str b)))
    | none => (u, "bad-op")
  | ["unsub", "list", l] =>
    if l = "-" then (u, showUnsub (unsubNormalize (.list [])))
    else match (l.splitOn ",").mapM hexOrEmpty with
      | some bs => (u, showUnsub (unsubNormalize (.list bs)))
      | none => (u, "bad-op")
  | ["filter", s] =>
    match parseHex s with
    | some b => (u, showBool (filterCheck b))
    | none => (u, "bad-op")
  | ["topic", s] =>
    match parseHex s with
    | some b => (u, showBool (!topicInvalid b))
    | none => (u, "bad-op")
  | ["publish", proto, s, qos, tag, plen] =>
    match proto.toNat?, parseHex s, qos.toInt?, parseTag tag, plen.toNat? with
    | some p, some b, some q, some t, some n => (u, showExc (publishCheckFull p b q t n (if p = 5 then 1 else 0)))
    | _, _, _, _, _ => (u, "bad-op")
  | _ => (u, "bad-op")

def validateDrv : Drv := { σ := Unit, init := (), step := validateStep }

end Paho.Driver
