/- Line-protocol driver for per-topic callback dispatch (C15). -/
import Paho.Driver.Common
import Paho.Model.Dispatch
namespace Paho.Driver
open Paho

/-- scripted behaviour of callbacks: when callback `id` runs it adds / removes registrations -/
inductive CbAct where
  | add (sub : Bytes) (cb : Nat)
  | remove (sub : Bytes)

structure DSt where
  d : Dispatch := {}
  scripts : List (Nat × CbAct) := []

def runScripts (st : DSt) (cbs : List Nat) : DSt :=
  cbs.foldl (fun st cb =>
    st.scripts.foldl (fun st (p : Nat × CbAct) =>
      if p.1 = cb then
        match p.2 with
        | .add s c => { st with d := st.d.add s c }
        | .remove s => { st with d := st.d.remove s }
      else st) st) st

def dispatchStep (st : DSt) : List String → DSt × String
  | ["add", f, id] => match parseHex f, id.toNat? with
    | some fb, some n => ({ st with d := st.d.add fb n }, "ok")
    | _, _ => (st, "bad-op")
  | ["remove", f] => match parseHex f with
    | some fb => ({ st with d := st.d.remove fb }, "ok")
    | none => (st, "bad-op")
  | ["onmsg", v] => ({ st with d := { st.d with onMessage := if v = "1" then some 0 else none } }, "ok")
  | ["script", id, "add", f, id2] => match id.toNat?, parseHex f, id2.toNat? with
    | some a, some fb, some b => ({ st with scripts := st.scripts ++ [(a, .add fb b)] }, "ok")
    | _, _, _ => (st, "bad-op")
  | ["script", id, "remove", f] => match id.toNat?, parseHex f with
    | some a, some fb => ({ st with scripts := st.scripts ++ [(a, .remove fb)] }, "ok")
    | _, _ => (st, "bad-op")
  | ["msg", _qos, t] => match parseHex t with
    | some tb =>
      let cbs := st.d.invoked tb
      (runScripts st cbs, toString cbs)
    | none => (st, "bad-op")
  | _ => (st, "bad-op")

def dispatchDrv : Drv := { σ := DSt, init := {}, step := dispatchStep }

end Paho.Driver
