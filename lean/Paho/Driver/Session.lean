/- Line-protocol driver for the session model. -/
import Paho.Driver.Common
import Paho.Model.Session
import Paho.Model.SessionInv
namespace Paho.Driver
open Paho

def kv (w : String) : Option (String × String) :=
  match w.splitOn "=" with
  | [k, v] => some (k, v)
  | _ => none

def parseCfg (ws : List String) : Cfg × Nat :=
  ws.foldl (fun (acc : Cfg × Nat) w =>
    let (c, proto) := acc
    match kv w with
    | some ("proto", v) => (c, v.toNat?.getD proto)
    | some ("clean", v) => ({ c with clean := v.toNat?.getD 1 }, proto)
    | some ("N", v) => ({ c with maxInflight := v.toNat?.getD 20 }, proto)
    | some ("M", v) => ({ c with maxQueued := v.toNat?.getD 0 }, proto)
    | some ("manual", v) => ({ c with manualAck := v = "1" }, proto)
    | some ("rof", v) => ({ c with rof := v = "1" }, proto)
    | some ("ext", v) => ({ c with ext := v = "1" }, proto)
    | some ("ka", v) => ({ c with keepalive := v.toNat?.getD 60 }, proto)
    | some ("sup", v) => ({ c with suppress := v = "1" }, proto)
    | _ => acc) ({}, 4)

def t0 : Nat := 1000000

def showState : ConnState → String
  | .new => "new" | .connectAsync => "async" | .connecting => "connecting" | .connected => "connected"
  | .connectionLost => "lost" | .disconnecting => "disconnecting" | .disconnected => "disconnected"

def showMS : MS → String
  | .invalid => "inv" | .publish => "pub" | .waitPuback => "wpa" | .waitPubrec => "wprec"
  | .resendPubrel => "rprel" | .waitPubrel => "wprel" | .resendPubcomp => "rpcomp"
  | .waitPubcomp => "wpcomp" | .sendPubrec => "sprec" | .queued => "que"


def showEv : Ev → Option String
  | .tx c b => some s!"tx{c}:{toHex b}"
  | .sopen c => some s!"sopen{c}"
  | .sclose c _ => some s!"sclose{c}"
  | .queued _ _ => none
  | .qPublish _ _ _ _ _ => none
  | .qPubrel _ _ _ => none
  | .completed _ _ => none
  | .skOpen c => some s!"open{c}"
  | .skClose c => some s!"close{c}"
  | .skRegW c => some s!"regw{c}"
  | .skUnregW c => some s!"unregw{c}"
  | .onPreConnect => some "on_pre_connect"
  | .onConnect rc sp => some s!"on_connect:{rc}:{b01 sp}"
  | .onConnectFail => some "on_connect_fail"
  | .onDisconnect rc fb => some s!"on_disconnect:{rc}:{b01 fb}"
  | .onPublish mid => some s!"on_publish:{mid}"
  | .onMessage m => some s!"on_message:{m.mid}:{m.qos}:{b01 m.dup}:{b01 m.retain}:{toHex m.topic}:{toHex m.payload}"
  | .onSubscribe mid code => some s!"on_subscribe:{mid}:{code}"
  | .onUnsubscribe mid => some s!"on_unsubscribe:{mid}"
  | .infoDone _ _ => none
  | .ret rc (some mid) => some s!"ret:{rc}:{mid}"
  | .ret rc none => some s!"ret:{rc}"
  | .exc n => some s!"exc:{n}"
  | .deadlock l => some s!"deadlock:{l}"
  | .fuelOut => some "FUEL"

def probe (s : S) : String :=
  let out := ",".intercalate (s.out.map fun m => s!"{m.mid}.{showMS m.state}.{b01 m.dup}")
  let inm := ",".intercalate (s.inm.map fun m => toString m.mid)
  let q := match s.outq with
    | [] => "0.0"
    | p :: _ => s!"{s.outq.length}.{p.pos}"
  let infos := ",".intercalate (s.infos.map fun i => s!"{i.rc}{if i.published then "+" else "-"}")
  s!"st={showState s.cstate} sock={s.sock.getD 0} ww={b01 s.wantWrite} rw={b01 s.regWrite} infl={s.inflight} out=[{out}] in=[{inm}] q={q} ping={b01 (s.pingT > 0)} mid={s.lastMid} proto={s.proto} infos={infos}"

def parseSend (w : String) : List SendDir :=
  if w = "-" then [] else
  (w.splitOn ",").filterMap fun d =>
    if d = "b" then some .block
    else if d = "e" then some .error
    else if d.startsWith "a" then (d.drop 1).toString.toNat?.map .accept
    else none

def parseOp : List String → Option Op
  | ["connect", o] => some (.connect (o = "ok"))
  | ["reconnect", o] => some (.reconnect (o = "ok"))
  | ["connect_async"] => some .connectAsync
  | ["rx", "connack", sp, rc] => (rc.toNat?).map fun r => .rx (.pkt (.connack (sp = "1") r)) true
  | ["rx", "connack", sp, rc, o] => (rc.toNat?).map fun r => .rx (.pkt (.connack (sp = "1") r)) (o = "ok")
  -- (MQTT 5 acknowledgements may carry a reason code `rc=<n>`: the client decodes it and, like the model, does not act on it)
  | ["rx", "puback", m, _] => m.toNat?.map fun k => .rx (.pkt (.puback k)) true
  | ["rx", "pubrec", m, _] => m.toNat?.map fun k => .rx (.pkt (.pubrec k)) true
  | ["rx", "pubrel", m, _] => m.toNat?.map fun k => .rx (.pkt (.pubrel k)) true
  | ["rx", "pubcomp", m, _] => m.toNat?.map fun k => .rx (.pkt (.pubcomp k)) true
  | ["rx", "puback", m] => m.toNat?.map fun k => .rx (.pkt (.puback k)) true
  | ["rx", "pubrec", m] => m.toNat?.map fun k => .rx (.pkt (.pubrec k)) true
  | ["rx", "pubrel", m] => m.toNat?.map fun k => .rx (.pkt (.pubrel k)) true
  | ["rx", "pubcomp", m] => m.toNat?.map fun k => .rx (.pkt (.pubcomp k)) true
  | ["rx", "publish", q, m, d, r, t, p] =>
    match q.toNat?, m.toNat?, parseHex t, parseHex p with
    | some q, some m, some t, some p =>
      some (.rx (.pkt (.publish { mid := m, qos := q, dup := d = "1", retain := r = "1", topic := t, payload := p })) true)
    | _, _, _, _ => none
  | ["rx", "suback", m, c] =>
    match m.toNat?, c.toNat? with
    | some m, some c => some (.rx (.pkt (.suback m c)) true)
    | _, _ => none
  | ["rx", "unsuback", m] => m.toNat?.map fun k => .rx (.pkt (.unsuback k)) true
  | ["rx", "pingreq"] => some (.rx (.pkt .pingreq) true)
  | ["rx", "pingresp"] => some (.rx (.pkt .pingresp) true)
  | ["rx", "disconnect", r] => some (.rx (.pkt (.disconnect (if r = "-" then none else r.toNat?))) true)
  | ["rx", "badcmd"] => some (.rx (.pkt .badcmd) true)
  | ["rx", "malformed"] => some (.rx (.pkt .malformed) true)
  | ["rx", "eof"] => some (.rx .eof true)
  | ["rx", "err"] => some (.rx .err true)
  | ["rx", "none"] => some (.rx .none true)
  | ["publish", q, t, p, r] =>
    match q.toNat?, parseHex t, parseHex p with
    | some q, some t, some p => some (.publish q t p (r = "1"))
    | _, _, _ => none
  | ["subscribe", t, q] =>
    match parseHex t, q.toNat? with
    | some t, some q => some (.subscribe t q)
    | _, _ => none
  | ["unsubscribe", t] => (parseHex t).map .unsubscribe
  | ["disconnect"] => some .disconnect
  | ["loop_write"] => some .loopWrite
  | ["loop_misc"] => some .loopMisc
  | ["tick", ms] => ms.toNat?.map .tick
  | ["send", sc] => some (.send (parseSend sc))
  | ["ack", m, q] =>
    match m.toNat?, q.toNat? with
    | some m, some q => some (.ack m q)
    | _, _ => none
  | ["raise_on_message", n] => n.toNat?.map .raiseOnMessage
  | _ => none

/-- `setmid live k`: just before the id of the k-th message the client still owns (the next allocation collides with
it); `setmid edge k`: k + 1 allocations before the wrap-around; `setmid fresh _`: the start of the next block of 1000 ids above the generator and every id still owned -/
def setMid (s : S) (how : String) (k : Nat) : Nat :=
  if how = "live" then
    match s.out[k % (max s.out.length 1)]? with
    | some m => if m.mid ≤ 1 then 65535 else m.mid - 1
    | none => s.lastMid
  else if how = "edge" then 65534 - k      -- just before the wrap-around: the next allocations are 65535 - k, ..., 65535, 1
  else
    let start := ((s.out.foldl (fun acc m => max acc m.mid) s.lastMid) / 1000 + 1) * 1000 % 65000
    -- the first block of 1000 ids from there on that holds no id still in use
    let rec go (fuel cand : Nat) : Nat :=
      match fuel with
      | 0 => cand
      | fuel + 1 => if s.out.any (fun m => cand < m.mid ∧ m.mid ≤ cand + 999) then go fuel ((cand + 1000) % 65000) else cand
    go 70 start

def sessionStep (s : S) (ws : List String) : S × String :=
  match ws with
  | "cfg" :: rest =>
    let (c, proto) := parseCfg rest
    let s := S.init c proto t0
    (s, "ok | " ++ probe s)
  | _ =>
    match ws with
    | ["setmid", how, k] =>
      -- fast-forward of the id generator (stands for the allocations in between, e.g. QoS 0 publishes): T2 only
      let s' := { s with lastMid := setMid s how (k.toNat?.getD 0) }
      ({ s' with log := [] }, " | " ++ probe s')
    | _ =>
    match parseOp ws with
    | none => (s, "bad-op")
    | some op =>
      let n := s.log.length
      let s' := s.step op
      let evs := (s'.log.drop n).filterMap showEv
      -- keep the log short in the driver: observations only need the suffix
      ({ s' with log := [] }, ";".intercalate evs ++ " | " ++ probe s')

def sessionDrv : Drv := { σ := S, init := S.init {} 4 t0, step := sessionStep }

/-- same protocol, but the output is the list of invariants that FAIL after the op (empty = all hold);
the full log is kept so that the stream invariant can be evaluated. -/
def sessionInvStep (st : S × Bool) (ws : List String) : (S × Bool) × String :=
  let (s, conf) := st
  match ws with
  | "cfg" :: rest =>
    let (c, proto) := parseCfg rest
    let s := S.init c proto t0
    ((s, true), " ".intercalate s.failing)
  | _ =>
    match ws with
    | ["setmid", how, k] => (({ s with lastMid := setMid s how (k.toNat?.getD 0) }, conf), "")
    | _ =>
    match parseOp ws with
    | none => (st, "bad-op")
    | some op =>
      let conf := conf && opConforming s op
      let n := s.log.length
      let s' := s.step op
      let evs := s'.log.drop n
      let f := s'.failing ++ (if stepDiscOk evs then [] else ["stepdisc"]) ++ (if invStream s' then [] else ["stream"])
        ++ (if !conf || s'.invInflightCount then [] else ["inflightcount"])
        ++ (if !conf || s'.invNoIdleSlot then [] else ["idleslot"])
        ++ (if !conf || s'.invQueuedBehindFull then [] else ["queuedbehindfull"])
        ++ (if !s'.cfg.ext || sockTraceOk s'.log then [] else ["socktrace"])
      ((s', conf), " ".intercalate f)

def sessionInvDrv : Drv := { σ := S × Bool, init := (S.init {} 4 t0, true), step := sessionInvStep }

end Paho.Driver
