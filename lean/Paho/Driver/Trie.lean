/- Driver for the subscription trie (C11). -/
import Paho.Driver.Common
import Paho.Model.Trie
namespace Paho.Driver
open Paho

def showPath (p : List Level) : String :=
  "/".intercalate (p.map toHex)

def trieDump (t : Node Nat) : String :=
  let d := Node.dumpAux toString [] 1000 t
  " ".intercalate (d.map fun (p, c) => s!"{showPath p}={c.getD "_"}")

def trieStep (t : Node Nat) : List String → Node Nat × String
  | ["set", k, v] =>
    match parseHex k, v.toNat? with
    | some kb, some n => let t' := t.insert (splitTopic kb) n; (t', "ok | " ++ trieDump t')
    | _, _ => (t, "bad-op")
  | ["get", k] =>
    match parseHex k with
    | some kb => (t, (match t.get (splitTopic kb) with | some v => s!"some {v}" | none => "keyerror") ++ " | " ++ trieDump t)
    | none => (t, "bad-op")
  | ["del", k] =>
    match parseHex k with
    | some kb => (match t.delete (splitTopic kb) with
        | some t' => (t', "ok | " ++ trieDump t')
        | none => (t, "keyerror | " ++ trieDump t))
    | none => (t, "bad-op")
  | ["iter", k] =>
    match parseHex k with
    | some kb => (t, toString (t.iterMatch kb))
    | none => (t, "bad-op")
  | ["tms", s, k] =>
    match parseHex s, parseHex k with
    | some sb, some kb => (t, showBool (topicMatchesSub sb kb))
    | _, _ => (t, "bad-op")
  | ["dump"] => (t, trieDump t)
  | _ => (t, "bad-op")

def trieDrv : Drv := { σ := Node Nat, init := Node.empty, step := trieStep }

end Paho.Driver
