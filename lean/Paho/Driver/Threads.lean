/- Line-protocol driver for the concurrency models (C07): replays the shared-memory events of a scheduled run of the
real threads through `MidSys`, `WakeSys` and `LockSys`. An event that is not enabled in the model prints `disabled`. -/
import Paho.Driver.Common
import Paho.Model.Threads
namespace Paho.Driver
open Paho Paho.Thr

structure ThrState where
  mid : MidSys := {}
  wk : WakeSys := {}
  lk : LockSys := { n := 0 }

def parseLock : String → Option LockId
  | "_in_callback_mutex" => some .inCallback
  | "_callback_mutex" => some .callback
  | "_msgtime_mutex" => some .msgtime
  | "_out_message_mutex" => some .outMessage
  | "_in_message_mutex" => some .inMessage
  | "_reconnect_delay_mutex" => some .reconnectDelay
  | "_mid_generate_mutex" => some .midGenerate
  | "thread-join" => some .threadJoin
  | _ => none

/-- bookkeeping actions of the writer that have no shared-memory effect; tried (shortest first) to enable an observed event -/
def silentSeqs : List (List WAct) :=
  [[], [.startw], [.next], [.skipw, .next], [.endw, .next], [.abort], [.skipw], [.endw]]

def applySeq (s : WakeSys) (t : Tid) : List WAct → Option WakeSys
  | [] => some s
  | a :: rest => match s.step t a with
    | some s' => applySeq s' t rest
    | none => none

def wkEvent (s : WakeSys) (t : Tid) (a : WAct) : Option WakeSys :=
  silentSeqs.findSome? fun pre =>
    match applySeq s t pre with
    | some s1 => s1.step t a
    | none => none

def showQueue (q : List Pkt) : String :=
  if q.isEmpty then "-" else ",".intercalate (q.map fun p => s!"{p.id}:{p.pos}")

def showWk (s : WakeSys) : String :=
  s!"ok q={showQueue s.queue} pipe={s.pipe} wire={s.wire.length}"

def thrStep (st : ThrState) : List String → ThrState × String
  | ["mid", "init", l0] => ({ st with mid := { last := l0.toNat?.getD 0 } }, "ok")
  | ["mid", t, act] =>
    match t.toNat?, (match act with | "enter" => some MAct.enter | "load" => some .load | "store" => some .store | "leave" => some .leave | _ => none) with
    | some t, some a =>
      match st.mid.step t a with
      | some m =>
        let out := match a with
          | .leave => s!"ok last={m.last} ret={(m.rets.head?.map (·.2)).getD 0}"
          | _ => "ok"
        ({ st with mid := m }, out)
      | none => (st, "disabled")
    | _, _ => (st, "bad-op")
  | ["wk", "init", w] => ({ st with wk := { loopTid := w.toNat?.getD 0 } }, "ok")
  | "wk" :: t :: act :: args =>
    let a : Option WAct := match act, args with
      | "append", [id, len] => match id.toNat?, len.toNat? with
        | some i, some l => some (.append i l)
        | _, _ => none
      | "wake", [] => some .wake
      | "len", [] => some .wantw
      | "select", [r, w] => some (.select (r = "1") (w = "1"))
      | "recv", [] => some .drain
      | "popleft", [] => some .pop
      | "send", [n] => n.toNat?.map .send
      | "appendleft", [] => some .pushback
      | "clear", [] => some .clear
      | "handover", [] => some .handover
      | "exit", [] => some .stop
      | _, _ => none
    match t.toNat?, a with
    | some t, some a =>
      match wkEvent st.wk t a with
      | some w => ({ st with wk := w }, showWk w)
      | none => (st, "disabled")
    | _, _ => (st, "bad-op")
  | ["lk", "init", n] => ({ st with lk := { n := n.toNat?.getD 0 } }, "ok")
  | "lk" :: t :: act :: args =>
    let a : Option LAct := match act, args with
      | "request", [l] => (parseLock l).map .request
      | "try", [l] => (parseLock l).map .tryGrant
      | "grant", [] => some .grant
      | "release", [l] =>
        -- `with` blocks release in LIFO order: the lock released must be the newest one held
        if (st.lk.thr (t.toNat?.getD 0)).held.head? = parseLock l ∧ (parseLock l).isSome then some .release else none
      | "finish", [] => some .finish
      | _, _ => none
    match t.toNat?, a with
    | some t, some a =>
      match st.lk.step t a with
      | some l => ({ st with lk := l }, "ok")
      | none => (st, "disabled")
    | _, _ => (st, "bad-op")
  | _ => (st, "bad-op")

def threadsDrv : Drv := { σ := ThrState, init := {}, step := thrStep }

end Paho.Driver
