/- Line-protocol driver for the WebSocket framing model (Paho.Model.Ws).
ops:  feed <hex> | eagain | eof | err | items <i,i,...> (hex | . | eof | err)   -> ok
      recv <n>            -> data=<hex> | block | closed, then ` conn=<0|1> sent=<hex>,<hex>..|-`
      send <hex> <key8> <accept n | b | e>  -> ret=<n>|exc:BlockingIOError|exc:BrokenPipeError wire=<hex>
      reset               -> ok -/
import Paho.Driver.Common
import Paho.Model.Ws
namespace Paho.Driver
open Paho Paho.Ws

structure WsSt where
  r : RecvSt := {}
  q : List RecvItem := []
  s : SendSt := {}

def wsItems (w : String) : Option (List RecvItem) :=
  (w.splitOn ",").mapM fun t =>
    if t = "." then some .eagain
    else if t = "eof" then some .eof
    else if t = "err" then some .err
    else (parseHex t).map .data

def wsStep (x : WsSt) (ws : List String) : WsSt × String :=
  match ws with
  | ["feed", h] =>
    match parseHex h with
    | some b => if b.isEmpty then (x, "ok") else ({ x with q := x.q ++ [.data b] }, "ok")
    | none => (x, "bad-op")
  | ["eagain"] => ({ x with q := x.q ++ [.eagain] }, "ok")
  | ["eof"] => ({ x with q := x.q ++ [.eof] }, "ok")
  | ["err"] => ({ x with q := x.q ++ [.err] }, "ok")
  | ["items", w] =>
    match wsItems w with
    | some its => ({ x with q := x.q ++ its }, "ok")
    | none => (x, "bad-op")
  | ["recv", n] =>
    match n.toNat? with
    | none => (x, "bad-op")
    | some n =>
      let (r, q, res, sent) := recvImpl x.r x.q n
      let o := match res with
        | .data b => if b.isEmpty ∧ !r.connected then "closed" else "data=" ++ toHex b
        | .wouldBlock => "block"
        | .closed => "closed"
      let sentS := if sent.isEmpty then "-" else ",".intercalate (sent.map toHex)
      ({ x with r := r, q := q }, o ++ " conn=" ++ b01 r.connected ++ " sent=" ++ sentS)
  | ["send", d, k, a] =>
    let outc : Option SockSend :=
      if a = "b" then some .wouldBlock else if a = "e" then some .error else a.toNat?.map .accept
    match parseHex d, parseHex k, outc with
    | some d, some k, some a =>
      let (s, wire, res) := sendImpl x.s d k a
      let o := match res with
        | .ret n => s!"ret={n}"
        | .raised true => "exc:BlockingIOError"
        | .raised false => "exc:BrokenPipeError"
      ({ x with s := s }, s!"{o} wire={toHex wire}")
    | _, _, _ => (x, "bad-op")
  | ["reset"] => ({}, "ok")
  | _ => (x, "bad-op")

def wsDrv : Drv := { σ := WsSt, init := {}, step := wsStep }

end Paho.Driver
