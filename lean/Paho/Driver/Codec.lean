/- Line-protocol driver for the packet encoders (C04). -/
import Paho.Driver.Common
import Paho.Driver.Props
import Paho.Model.Codec
import Paho.Model.SubArgs
import Paho.Spec.Wire
namespace Paho.Driver
open Paho

def getHex (m : List (String × String)) (k : String) : Bytes := ((m.lookup k).bind parseHex).getD []
def getOptHex (m : List (String × String)) (k : String) : Option Bytes :=
  match m.lookup k with
  | some "none" => none
  | some v => parseHex v
  | none => none

/-- `props=-` (None) or `props=Name~val,Name~val` (assignments applied in order to `Properties(pt)`);
`Name~[v|v]` is the list form -/
def parseProps (pt : Nat) (w : String) : Except String (Option Props) :=
  if w = "-" || w = "none" then .ok none
  else
    let items := if w = "empty" then [] else w.splitOn ","
    items.foldl (fun acc item =>
      match acc with
      | .error e => .error e
      | .ok none => .error "impossible"
      | .ok (some p) =>
        match item.splitOn "~" with
        | [name, v] =>
          if v.startsWith "[" then
            let inner := ((v.drop 1).dropEnd 1).toString
            match (inner.splitOn "|").mapM parseVal with
            | some vs => (match p.setAttrList name vs with | .ok p' => .ok (some p') | .error e => .error (showExcName e))
            | none => .error "bad-op"
          else
            match parseVal v with
            | some x => (match p.setAttr name x with | .ok p' => .ok (some p') | .error e => .error (showExcName e))
            | none => .error "bad-op"
        | _ => .error "bad-op") (.ok (some (Props.empty pt)))

def optHex : Option Bytes → String
  | none => "~"
  | some b => toHex b

def showPacket : Spec.Wire.Packet → String
  | .connect proto bridge clean ka cid will user pass props =>
    let w := match will with
      | none => "~"
      | some w => s!"({toHex w.topic} {toHex w.payload} {w.qos} {showBool w.retain} {optHex w.props})"
    s!"CONNECT {proto} {showBool bridge} {showBool clean} {ka} {toHex cid} {w} {optHex user} {optHex pass} {optHex props}"
  | .publish dup qos retain topic mid props payload =>
    s!"PUBLISH {showBool dup} {qos} {showBool retain} {toHex topic} {mid.getD 0} {optHex props} {toHex payload}"
  | .ack pt mid => s!"ACK {pt} {mid}"
  | .subscribe mid props fl => s!"SUBSCRIBE {mid} {optHex props} " ++ ",".intercalate (fl.map fun (t, o) => s!"{toHex t}:{o}")
  | .unsubscribe mid props fl => s!"UNSUBSCRIBE {mid} {optHex props} " ++ ",".intercalate (fl.map toHex)
  | .pingreq => "PINGREQ"
  | .pingresp => "PINGRESP"
  | .disconnect rc props => s!"DISCONNECT {match rc with | some r => toString r | none => "~"} {optHex props}"

/-- the independent spec decoder applied to the model's own output -/
def showDec (proto : Nat) (b : Bytes) : String :=
  match Spec.Wire.decode proto b with
  | some (p, []) => " dec=" ++ showPacket p
  | some (_, _) => " dec=TRAILING"
  | none => " dec=REJECT"

def showBytesDec (proto : Nat) (b : Bytes) : String :=
  if b.length ≤ 2048 then "ok " ++ toHex b ++ showDec proto b
  else s!"ok len={b.length} head={toHex (b.take 16)} tail={toHex (b.drop (b.length - 8))}"

def showBytes (b : Bytes) : String :=
  if b.length ≤ 2048 then "ok " ++ toHex b
  else s!"ok len={b.length} head={toHex (b.take 16)} tail={toHex (b.drop (b.length - 8))}"

def showEnc (r : Except Exc Bytes) (proto : Nat := 4) : String :=
  match r with
  | .ok b => showBytesDec proto b
  | .error e => showExcName e

def codecStep (u : Unit) (ws : List String) : Unit × String :=
  match ws with
  | "connect" :: rest =>
    let m := kvs rest
    let proto := getN m "proto" 4
    match parseProps 1 (getS m "props"), parseProps 99 (getS m "wprops") with
    | .error e, _ => (u, e)
    | _, .error e => (u, e)
    | .ok props, .ok wprops =>
      let will : Option Will :=
        if getB m "will" then
          some
            { topic := getHex m "wtopic"
              payload := getHex m "wpayload"
              qos := getN m "wqos"
              retain := getB m "wretain"
              props := wprops }
        else none
      let a : ConnectArgs :=
        { proto := proto
          bridge := getB m "bridge"
          cleanFlag := getB m "clean"
          keepalive := getI m "ka" 60
          clientId := getHex m "cid"
          will := will
          username := getOptHex m "user"
          password := getOptHex m "pass"
          props := props }
      (u, showEnc (encConnect a) proto)
  | "publish" :: rest =>
    let m := kvs rest
    let proto := getN m "proto" 4
    match parseProps 3 (getS m "props") with
    | .error e => (u, e)
    | .ok props =>
      let topic := getHex m "topic"
      let payload := if (m.lookup "zeros").isSome then List.replicate (getN m "zeros") 0 else getHex m "payload"
      let qos := getN m "qos"
      let propsLen : Except Exc Nat := if proto = 5 then (match props with
        | none => .ok 1
        | some p => (p.pack).map (·.length)) else .ok 0
      match propsLen with
      | .error e => (u, showExcName e)
      | .ok pl =>
        match publishCheckFull proto topic qos .bytes payload.length pl with
        | some e => (u, showExcName e)
        | none => (u, showEnc (encPublish proto (getN m "mid" 1) topic payload qos (getB m "retain") false props) proto)
  | "subscribe" :: rest =>
    let m := kvs rest
    let proto := getN m "proto" 4
    match parseProps 8 (getS m "props") with
    | .error e => (u, e)
    | .ok props =>
      let ents := ((getS m "filters" "").splitOn ",").filterMap fun e =>
        match e.splitOn ":" with
        | [t, o] => match parseHex t, o.toNat? with
          | some tb, some ob => some (tb, ob)
          | _, _ => none
        | _ => none
      -- the list form of subscribe(): argument normalisation first (MQTT 5: SubscribeOptions objects, MQTT 3: QoS ints)
      let pairs : List (Bytes × Second Nat) := ents.map fun e => (e.1, if proto = 5 then Second.opts e.2 else Second.int e.2)
      match Sub.normalize proto (.list pairs) 0 .none with
      | .error e => (u, showExcName e)
      | .ok l => (u, showEnc (encSubscribe proto (getN m "mid" 1) (l.map fun e => (e.1, entryByte e.2)) props) proto)
  | "unsubscribe" :: rest =>
    let m := kvs rest
    let proto := getN m "proto" 4
    match parseProps 10 (getS m "props") with
    | .error e => (u, e)
    | .ok props =>
      let ents := ((getS m "filters" "").splitOn ",").filterMap parseHex
      match unsubNormalize (.list ents) with
      | .error e => (u, showExcName e)
      | .ok l => (u, showEnc (encUnsubscribe proto (getN m "mid" 1) l props) proto)
  | "disconnect" :: rest =>
    let m := kvs rest
    let proto := getN m "proto" 4
    match parseProps 14 (getS m "props") with
    | .error e => (u, e)
    | .ok props =>
      let rc := (m.lookup "rc").bind (·.toNat?)
      (u, showEnc (encDisconnect proto rc props) proto)
  | _ => (u, "bad-op")

def codecDrv : Drv := { σ := Unit, init := (), step := codecStep }

end Paho.Driver
