/- Line-protocol driver for the loop_forever automaton (C09). -/
import Paho.Driver.Common
import Paho.Model.LoopForever
namespace Paho.Driver
open Paho Paho.LF

def parseDisc (w : String) : DiscAt :=
  { inConnectFail := w.contains 'f', inOnConnect := w.contains 'c', inOnDisconnect := w.contains 'd', inWait := w.contains 'w',
    -- `s<code>` at the end: the server ends the connection with DISCONNECT(code)
    srvDisc := match w.splitOn "s" with
      | [_, n] => n.toNat?
      | _ => none }

def parseOutcome (w : String) : Option Outcome :=
  match w.splitOn ":" with
  | ["refuse", d] => some (.refuse (parseDisc d))
  | ["eof", t, d] => t.toNat?.map fun t => .eof t (parseDisc d)
  | ["nack", rc, t, d] => match rc.toNat?, t.toNat? with
    | some rc, some t => some (.connackRefused rc t (parseDisc d))
    | _, _ => none
  | ["acc", t, life, d] => match t.toNat?, life.toNat? with
    | some t, some l => some (.accepted t l (parseDisc d))
    | _, _ => none
  | ["down", t] => t.toNat?.map .downgrade
  | ["predisc"] => some .preDisc
  | _ => none

def showObs : Obs → String
  | .attempt t ok => s!"attempt@{t}:{if ok then "ok" else "refuse"}"
  | .onConnectFail t => s!"on_connect_fail@{t}"
  | .onConnect rc t => s!"on_connect:{rc}@{t}"
  | .onDisconnect rc t => s!"on_disconnect:{rc}@{t}"
  | .userDisconnect t => s!"disconnect()@{t}"
  | .ret rc => s!"ret:{rc}"
  | .raised => "exc:ConnectionRefusedError"
  | .scriptEnd => "script-end"

def lfStep (u : Unit) : List String → Unit × String
  | "lf" :: rest =>
    let m := kvs rest
    let c : LF.Cfg := { minDelay := getN m "min" 1, maxDelay := getN m "max" 120, rof := getB m "rof",
                        retryFirst := getB m "retry", proto := getN m "proto" 4 }
    match ((getS m "script" "").splitOn ",").mapM parseOutcome with
    | some script => (u, ";".intercalate ((runScript c script).log.map showObs))
    | none => (u, "bad-op")
  | _ => (u, "bad-op")

def lfDrv : Drv := { σ := Unit, init := (), step := lfStep }

end Paho.Driver
