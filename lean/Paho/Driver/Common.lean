/- Line-protocol plumbing shared by all model drivers (core Lean only). -/
namespace Paho.Driver

def hexDigit (c : Char) : Option Nat :=
  if '0' ≤ c ∧ c ≤ '9' then some (c.toNat - '0'.toNat)
  else if 'a' ≤ c ∧ c ≤ 'f' then some (c.toNat - 'a'.toNat + 10)
  else if 'A' ≤ c ∧ c ≤ 'F' then some (c.toNat - 'A'.toNat + 10)
  else none

/-- "-" is the empty byte string, otherwise lowercase hex. -/
def parseHex (s : String) : Option (List UInt8) :=
  if s = "-" then some [] else
  let rec go : List Char → List UInt8 → Option (List UInt8)
    | [], acc => some acc.reverse
    | [_], _ => none
    | a :: b :: rest, acc =>
      match hexDigit a, hexDigit b with
      | some x, some y => go rest (UInt8.ofNat (x * 16 + y) :: acc)
      | _, _ => none
  go s.toList []

def hexChar (n : Nat) : Char :=
  if n < 10 then Char.ofNat ('0'.toNat + n) else Char.ofNat ('a'.toNat + n - 10)

def toHex (bs : List UInt8) : String :=
  if bs.isEmpty then "-" else
  String.ofList (bs.foldr (fun b acc => hexChar (b.toNat / 16) :: hexChar (b.toNat % 16) :: acc) [])

def words (line : String) : List String :=
  (line.splitOn " ").filter (· ≠ "")

def showBool (b : Bool) : String := if b then "true" else "false"

def b01 (b : Bool) : String := if b then "1" else "0"

/-- `k=v` tokens to an association list -/
def kvs (ws : List String) : List (String × String) :=
  ws.filterMap fun w =>
    match w.splitOn "=" with
    | k :: rest@(_ :: _) => some (k, "=".intercalate rest)
    | _ => none

def getS (m : List (String × String)) (k : String) (d : String := "-") : String := (m.lookup k).getD d
def getN (m : List (String × String)) (k : String) (d : Nat := 0) : Nat := ((m.lookup k).bind (·.toNat?)).getD d
def getI (m : List (String × String)) (k : String) (d : Int := 0) : Int := ((m.lookup k).bind (·.toInt?)).getD d
def getB (m : List (String × String)) (k : String) : Bool := (m.lookup k) == some "1"

/-- a driver: initial state and a step on tokenised lines. -/
structure Drv where
  σ : Type
  init : σ
  step : σ → List String → σ × String

partial def runLoop (d : Drv) (h : IO.FS.Stream) (out : IO.FS.Stream) (s : d.σ) : IO Unit := do
  let line ← h.getLine
  if line.isEmpty then
    out.flush
    return ()
  let l := line.trimAscii.toString
  if l = "---" then
    out.putStrLn "---"
    runLoop d h out d.init
  else if l.isEmpty || l.startsWith "#" then
    runLoop d h out s
  else
    let (s', o) := d.step s (words l)
    out.putStrLn o
    runLoop d h out s'

/-- `main` of a model executable serving the given drivers: `<exe> <stream>` -/
def mainFor (drivers : List (String × Drv)) (args : List String) : IO UInt32 := do
  match args with
  | [name] =>
    match drivers.lookup name with
    | some d =>
      let stdin ← IO.getStdin
      let stdout ← IO.getStdout
      runLoop d stdin stdout d.init
      return 0
    | none => IO.eprintln s!"unknown stream {name}"; return 2
  | _ => IO.eprintln "usage: <model exe> <stream>"; return 2

end Paho.Driver
