/- Line-protocol driver for inbound decoding (C05): parseBody + the callback argument shapes of API v1/v2. -/
import Paho.Driver.Common
import Paho.Driver.Props
import Paho.Model.Reader
namespace Paho.Driver
open Paho

def showPropsOpt : Option Props → String
  | none => "-"
  | some p => "[" ++ showView p ++ "]"

/-- empty `Properties(pt)` shows as `[]` -/
def showPropsOrEmpty : Option Props → String
  | none => "[]"
  | some p => "[" ++ showView p ++ "]"

/-- `convert_connack_rc_to_reason_code` -/
def connackV3Reason (r : Nat) : Nat :=
  if r = 0 then 0 else if r = 1 then 132 else if r = 2 then 133 else if r = 3 then 136 else if r = 4 then 134
  else if r = 5 then 135 else 128

def nums (l : List Nat) : String := ",".intercalate (l.map toString)

/-- what the user callback receives (canonical rendering), per callback API version -/
def cbRender (api proto : Nat) : Parsed → String
  | .connack sp result reason props =>
    if api = 1 then
      if proto = 5 then s!"on_connect sp={b01 sp} reason={reason} props={showPropsOpt props}"
      else s!"on_connect sp={b01 sp} rc={result}"
    else
      let r := if proto = 5 then reason else connackV3Reason result
      s!"on_connect sp={b01 sp} reason={r} props={showPropsOrEmpty props}"
  | .publish dup qos retain topic mid props payload =>
    s!"on_message dup={b01 dup} qos={qos} retain={b01 retain} topic={toHex topic} mid={mid} props={showPropsOpt props} payload={toHex payload}"
  | .ack _ mid reason props =>
    if api = 1 then s!"on_publish mid={mid}"
    else s!"on_publish mid={mid} reason={reason} props={showPropsOrEmpty props}"
  | .suback mid codes props =>
    if api = 1 ∧ proto ≠ 5 then s!"on_subscribe mid={mid} granted={nums codes}"
    else s!"on_subscribe mid={mid} codes={nums codes} props={showPropsOrEmpty props}"
  | .unsuback mid codes props =>
    if api = 1 ∧ proto ≠ 5 then s!"on_unsubscribe mid={mid}"
    else if api = 1 then
      (match codes with
       | [c] => s!"on_unsubscribe mid={mid} props={showPropsOrEmpty props} code={c}"
       | _ => s!"on_unsubscribe mid={mid} props={showPropsOrEmpty props} codes={nums codes}")
    else s!"on_unsubscribe mid={mid} codes={nums codes} props={showPropsOrEmpty props}"
  | .pingreq => "none"
  | .pingresp => "none"
  | .disconnect reason props =>
    if api = 1 then s!"on_disconnect reason={match reason with | some r => toString r | none => "None"} props={showPropsOpt props}"
    else s!"on_disconnect from_server=1 reason={reason.getD 0} props={showPropsOrEmpty props}"

/-- does this packet reach a user callback in the fixed scenario of the `decode` stream
(QoS 1 message id 1 and QoS 2 message id 2 outstanding, the latter past PUBREC)? -/
def reachesCallback (proto : Nat) : Parsed → Bool
  | .connack _ result _ _ => !(proto = 4 && result = 1)   -- MQTT 3.1.1: refused protocol version triggers the downgrade retry
  | .ack pt mid _ _ => (pt = 4 || pt = 7) && (mid = 1 || mid = 2)   -- PUBACK and PUBCOMP are treated alike by the code
  | .publish _ qos _ _ _ _ _ => qos ≤ 1
  | .pingreq | .pingresp => false
  | _ => true

def decodeStep (u : Unit) : List String → Unit × String
  | ["handle", proto, api, h] =>
    match proto.toNat?, api.toNat?, parseHex h with
    | some p, some a, some (cmd :: rest) =>
      -- strip the remaining-length bytes: the harness sends whole, well-framed packets
      let rec dropRL : Nat → Bytes → Bytes
        | 0, b => b
        | n + 1, b => match b with
          | [] => []
          | x :: xs => if x.toNat &&& 128 = 0 then xs else dropRL n xs
      let body := dropRL 4 rest
      (u, match parseBody p cmd.toNat body with
        | .ok pk => if reachesCallback p pk then cbRender a p pk else "none"
        | .rc c => s!"ret:{c}"
        | .raised e => "exc:" ++ showExcName e)
    | _, _, _ => (u, "bad-op")
  | _ => (u, "bad-op")

def decodeDrv : Drv := { σ := Unit, init := (), step := decodeStep }

end Paho.Driver
