/- Line-protocol driver for properties / reason codes / VBI / subscribe options (C17). -/
import Paho.Driver.Common
import Paho.Driver.Validate
import Paho.Model.Props
namespace Paho.Driver
open Paho

def parseVal (w : String) : Option PVal :=
  match w.splitOn ":" with
  | ["i", n] => n.toInt?.map .int
  | ["b", h] => (parseHex h).map .bin
  | ["p", a, b] => match parseHex a, parseHex b with
    | some x, some y => some (.pair x y)
    | _, _ => none
  | _ => none

def showVal : PVal → String
  | .int n => s!"i{n}"
  | .bin b => s!"b{toHex b}"
  | .pair k v => s!"p{toHex k}:{toHex v}"

def showView (p : Props) : String :=
  ";".intercalate (p.view.map fun (i, vs) => s!"{i}=" ++ ",".intercalate (vs.map showVal))

def showExcName (e : Exc) : String := showExc (some e)

def propsStep (p : Props) : List String → Props × String
  | ["new", pt] => match pt.toNat? with
    | some t => (Props.empty t, "ok")
    | none => (p, "bad-op")
  | ["set", name, v] =>
    match parseVal v with
    | some x => (match p.setAttr name x with
      | .ok p' => (p', "ok " ++ showView p')
      | .error e => (p, showExcName e))
    | none => (p, "bad-op")
  | "setlist" :: name :: vs =>
    match vs.mapM parseVal with
    | some xs => (match p.setAttrList name xs with
      | .ok p' => (p', "ok " ++ showView p')
      | .error e => (p, showExcName e))
    | none => (p, "bad-op")
  | ["alias", name, v] =>
    -- another Properties object is given this one's current value of `name` (the same Python list object for a
    -- repeatable property) and then a further value: values are immutable here, so this object is unaffected.
    -- Output: whether the assignment to the other object is accepted, and this object's view afterwards.
    match parseVal v with
    | some x =>
      let other := Props.empty p.ptype
      let acc : Bool := match other.setAttr name x with
        | .ok _ => true
        | .error _ => false
      (p, (if acc then "ok " else "rejected ") ++ showView p)
    | none => (p, "bad-op")
  | ["del", name] => (match p.delAttr name with
    | some p' => (p', "ok " ++ showView p')
    | none => (p, "AttributeError"))
  | ["clear"] => (p.clear, "ok " ++ showView p.clear)
  | ["pack"] => (p, match p.pack with | .ok b => toHex b | .error e => showExcName e)
  | ["unpack", pt, h] =>
    match pt.toNat?, parseHex h with
    | some t, some b => (match Props.unpack t b with
      | .ok (q, n) => (q, s!"ok {n} " ++ showView q)
      | .error e => (p, showExcName e))
    | _, _ => (p, "bad-op")
  | ["rc", pt, v] =>
    match pt.toNat?, v.toNat? with
    | some t, some x => (p, match Reason.mkById t x with
      | .ok c => (match Reason.getName t c with | .ok n => s!"ok {c} {n}" | .error e => showExcName e)
      | .error e => showExcName e)
    | _, _ => (p, "bad-op")
  | ["rcname", pt, h] =>
    match pt.toNat?, parseHex h with
    | some t, some nb => (p, match String.fromUTF8? (ByteArray.mk nb.toArray) with
      | some name => (match Reason.mkByName t name with | .ok c => s!"ok {c}" | .error e => showExcName e)
      | none => "bad-op")
    | _, _ => (p, "bad-op")
  | ["rcunpack", pt, v] =>
    match pt.toNat?, v.toNat? with
    | some t, some x => (p, match Reason.mkByName t "Success" with
      | .error e => showExcName e      -- `ReasonCode(pt)` itself fails for packet types without "Success"
      | .ok _ => (match Reason.unpack t x with | .ok c => s!"ok {c}" | .error e => showExcName e))
    | _, _ => (p, "bad-op")
  | ["vbi", n] => match n.toInt? with
    | some k => (p, match vbiEnc k with | .ok b => toHex b | .error e => showExcName e)
    | none => (p, "bad-op")
  | ["vbidec", h] => match parseHex h with
    | some b => (p, match vbiDec b with | .ok (v, n) => s!"ok {v} {n}" | .error _ => "IndexError")
    | none => (p, "bad-op")
  | ["sopack", q, nl, rap, rh] =>
    match q.toNat?, rh.toNat? with
    | some q, some rh => (p, match SubOpts.pack { qos := q, noLocal := nl = "1", retainAsPublished := rap = "1", retainHandling := rh } with
      | .ok b => toHex [b] | .error e => showExcName e)
    | _, _ => (p, "bad-op")
  | ["sounpack", b] => match b.toNat? with
    | some x => (p, match SubOpts.unpack (UInt8.ofNat x) with
      | .ok o => s!"ok {o.qos} {if o.noLocal then 1 else 0} {if o.retainAsPublished then 1 else 0} {o.retainHandling}"
      | .error e => showExcName e)
    | none => (p, "bad-op")
  | _ => (p, "bad-op")

def propsDrv : Drv := { σ := Props, init := Props.empty 1, step := propsStep }

end Paho.Driver
