/- Line-protocol driver for the one-shot helpers (C20). -/
import Paho.Driver.Common
import Paho.Model.Helpers
namespace Paho.Driver
open Paho Paho.Helpers

/-- `t:payload:qos:retain` -/
def parseMsg (w : String) : Option Msg :=
  match w.splitOn ":" with
  | [t, p, q, r] => match parseHex t, parseHex p, q.toNat? with
    | some tb, some pb, some qn => some { topic := tb, payload := pb, qos := qn, retain := r = "1" }
    | _, _, _ => none
  | _ => none

def showMsgs (l : List Msg) : String :=
  ",".intercalate (l.map fun m => s!"{toHex m.topic}:{toHex m.payload}:{m.qos}:{b01 m.retain}")

def helpersStep (u : Unit) : List String → Unit × String
  | "multiple" :: rest =>
    let m := kvs rest
    match ((getS m "msgs" "").splitOn ",").mapM parseMsg with
    | some msgs =>
      (u, match multiple msgs with
        | some s => s!"published={showMsgs s.published} left={s.queue.length} disconnect={b01 s.disconnected}"
        | none => "exc:MQTTException")
    | none => (u, "bad-op")
  | "simple" :: rest =>
    let m := kvs rest
    match ((getS m "arrivals" "").splitOn ",").mapM parseMsg with
    | some arr =>
      let s := simple (getN m "count" 1) (getB m "retained") (arr.map fun x => { topic := x.topic, payload := x.payload, qos := x.qos, retain := x.retain })
      let show1 (x : InMsg) : String := s!"{toHex x.topic}:{toHex x.payload}:{x.qos}:{b01 x.retain}"
      (u, if s.single then
            (match s.result with
             | some x => "one=" ++ show1 x
             | none => "one=None") ++ s!" disconnect={b01 s.disconnected}"
          else "list=" ++ ",".intercalate (s.messages.map show1) ++ s!" disconnect={b01 s.disconnected}")
    | none => (u, "bad-op")
  | _ => (u, "bad-op")

def helpersDrv : Drv := { σ := Unit, init := (), step := helpersStep }

end Paho.Driver
