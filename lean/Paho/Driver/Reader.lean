/- Line-protocol driver: session ops + `rxbytes` (chunked delivery through the byte-level reader). -/
import Paho.Driver.Session
import Paho.Model.ReaderSession
namespace Paho.Driver
open Paho

def parseItems (w : String) : Option (List RecvItem) :=
  (w.splitOn ",").mapM fun t =>
    if t = "." then some .eagain
    else if t = "eof" then some .eof
    else if t = "err" then some .err
    else (parseHex t).map .data

/-- feed the items, then call loop_read() until the queue is drained, the socket is gone,
an exception escapes, or `limit` calls were made; one `ret:` per call -/
def pump : (limit : Nat) → SR → SR
  | 0, x => x
  | limit + 1, x =>
    match x.s.sock with
    | none => x
    | some _ =>
      if x.q.isEmpty then x
      else
        let old := x.s
        let (x, r) := x.loopRead true
        let x := { x with s := x.s.emit (hresEv r) }
        let x := SR.syncConn old x
        match r with
        | .raised _ => pump limit x
        | .rc _ => pump limit x

def readerStep (x : SR) (ws : List String) : SR × String :=
  match ws with
  | ["rxbytes", items] =>
    match parseItems items with
    | none => (x, "bad-op")
    | some its =>
      match x.s.sock with
      | none => (x, " | " ++ probe x.s)
      | some _ =>
        let n := x.s.log.length
        let x := pump 200000 { x with q := x.q ++ its }
        let evs := (x.s.log.drop n).filterMap showEv
        ({ x with s := { x.s with log := [] }, q := [] }, ";".intercalate evs ++ " | " ++ probe x.s)
  | _ =>
    let old := x.s
    let (s, o) := sessionStep x.s ws
    let x := { x with s := s }
    -- `cfg` creates a fresh client; reconnect() resets `_in_packet`
    let x := if ws.head? = some "cfg" then { x with r := {}, q := [] } else SR.syncConn old x
    (x, o)

def readerDrv : Drv := { σ := SR, init := { s := S.init {} 4 t0 }, step := readerStep }

end Paho.Driver
