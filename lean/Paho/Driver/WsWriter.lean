/- Driver for the composition packet queue / `_packet_write` over the WebSocket send side (C06, stream `wswriter`).
   enq <hex>              -> q=<queue length>
   write <a<k>|b|e,..|->  -> rc=<success|again|connLost|stuck> q=<n> sb=<len(_sendbuffer)> wire=<total> new=<bytes accepted in this call>
-/
import Paho.Driver.Common
import Paho.Model.WsWriter
import Paho.Model.TcpWriter
namespace Paho.Driver
open Paho Paho.Ws Paho.WsW

def shortBytes (b : Bytes) : String :=
  if b.length ≤ 300 then (if b.isEmpty then "-" else toHex b)
  else s!"L{b.length}." ++ toHex (b.take 16) ++ "." ++ toHex (b.drop (b.length - 8))

def parseOuts (s : String) : Option (List SockSend) :=
  if s = "-" then some []
  else (s.splitOn ",").mapM fun w =>
    if w = "b" then some .wouldBlock
    else if w = "e" then some .error
    else if w.startsWith "a" then (w.drop 1).toNat?.map .accept
    else none

def showWRes : WRes → String
  | .success => "success" | .again => "again" | .connLost => "connLost" | .stuck => "stuck"

def wswStep (s : St) : List String → St × String
  | ["enq", h] =>
    match parseHex h with
    | some b => let s' := enqueue s b; (s', s!"q={s'.queue.length}")
    | none => (s, "bad-op")
  | ["enqz", n, x] =>     -- a packet of n bytes, all equal to x (large packets)
    match n.toNat?, x.toNat? with
    | some n, some x => let s' := enqueue s (List.replicate n (b8 x)); (s', s!"q={s'.queue.length}")
    | _, _ => (s, "bad-op")
  | ["write", sc] =>
    match parseOuts sc with
    | some outs =>
      let r := step s (.write outs)
      let s' := r.1
      let rc := match r.2 with | some x => showWRes x | none => "?"
      (s', s!"rc={rc} q={s'.queue.length} sb={s'.ws.sendbuffer.length} wire={s'.wire.length} new={shortBytes (s'.wire.drop s.wire.length)}")
    | none => (s, "bad-op")
  | ["dump"] => (s, "WIRE=" ++ toHex s.wire)
  | _ => (s, "bad-op")

def wswDrv : Drv := { σ := St, init := {}, step := wswStep }

/-! the same line protocol over a raw TCP socket (Paho.Model.TcpWriter); `sb` is always 0 there -/

def showTRes : TcpW.WRes → String
  | .success => "success" | .again => "again" | .connLost => "connLost" | .stuck => "stuck"

def tcpwStep (s : TcpW.St) : List String → TcpW.St × String
  | ["enq", h] =>
    match parseHex h with
    | some b => let s' := TcpW.enqueue s b; (s', s!"q={s'.queue.length}")
    | none => (s, "bad-op")
  | ["enqz", n, x] =>
    match n.toNat?, x.toNat? with
    | some n, some x => let s' := TcpW.enqueue s (List.replicate n (b8 x)); (s', s!"q={s'.queue.length}")
    | _, _ => (s, "bad-op")
  | ["write", sc] =>
    match parseOuts sc with
    | some outs =>
      let r := TcpW.step s (.write outs)
      let s' := r.1
      let rc := match r.2 with | some x => showTRes x | none => "?"
      let pos := match s'.queue with | p :: _ => p.pos | [] => 0
      (s', s!"rc={rc} q={s'.queue.length} pos={pos} wire={s'.wire.length} new={shortBytes (s'.wire.drop s.wire.length)}")
    | none => (s, "bad-op")
  | ["dump"] => (s, "WIRE=" ++ toHex s.wire)
  | _ => (s, "bad-op")

def tcpwDrv : Drv := { σ := TcpW.St, init := {}, step := tcpwStep }

end Paho.Driver
