/- Driver for the packet-id generator (C14). -/
import Paho.Driver.Common
import Paho.Model.Mid
namespace Paho.Driver
open Paho

/-- mid generator: state is `_last_mid`. -/
def midStep (last : Nat) : List String → Nat × String
  | ["set", n] => match n.toNat? with | some k => (k, "ok") | none => (last, "bad-op")
  | ["next"] => let m := midNext last; (m, toString m)
  | ["skip", n] =>
    match n.toNat? with
    | some k => let l := (List.range k).foldl (fun l _ => midNext l) last; (l, toString l)
    | none => (last, "bad-op")
  | _ => (last, "bad-op")

def midDrv : Drv := { σ := Nat, init := Gen.midInit, step := midStep }

end Paho.Driver
