/- Line-protocol driver for the packet reader over the WebSocket transport (Paho.Model.ReaderWs).
ops:  items <i,i,...> (hex | . | eof | err)  -> ok
      read    -> one `_packet_read()`:  <out> sent=<hex,..|-> | <probe>
      pump    -> `_packet_read()` until nothing changes any more (or CONN_LOST / PROTOCOL):
                 <out>;<out>;... sent=<..> | <probe> drain=<ok|DIFF>   (drain: `drainWs` from the same state agrees)
      reset   -> ok
out = again | lost | proto | pkt:<cmd>:<hex body> -/
import Paho.Driver.Common
import Paho.Driver.Ws
import Paho.Model.ReaderWs
namespace Paho.Driver
open Paho

structure WsRdSt where
  r : RState := {}
  t : WsT := {}

def showOut : ReadOut → String
  | .again => "again"
  | .againBusy => "again"
  | .connLost => "lost"
  | .protocol => "proto"
  | .complete c b => s!"pkt:{c}:{toHex b}"

def wsrProbe (x : WsRdSt) : String :=
  s!"cmd={x.r.command} hr={b01 x.r.haveRemaining} tp={x.r.toProcess} pl={x.r.packet.length} " ++
  s!"buf={x.t.st.readbuffer.length} ph={x.t.st.payloadHead} conn={b01 x.t.st.connected} q={x.t.q.length}"

def sentStr (l : List Bytes) : String := if l.isEmpty then "-" else ",".intercalate (l.map toHex)

/-- one `_packet_read()`; the caller (`_packet_read` itself, in its `finally`) resets `_in_packet` after a packet -/
def wsrCall (x : WsRdSt) : WsRdSt × ReadOut :=
  let (r, t, out) := packetReadWs x.r x.t
  match out with
  | .complete _ _ => ({ r := {}, t := t }, out)
  | _ => ({ r := r, t := t }, out)

/-- the pump: stop at CONN_LOST / PROTOCOL, or at AGAIN with an empty raw socket and nothing changed by the call -/
def wsrPump : (limit : Nat) → WsRdSt → List ReadOut → WsRdSt × List ReadOut × PumpEnd
  | 0, x, acc => (x, acc.reverse, .idle)
  | limit + 1, x, acc =>
    let (x', out) := wsrCall x
    match out with
    | .connLost => (x', (out :: acc).reverse, .connLost)
    | .protocol => (x', (out :: acc).reverse, .protocol)
    | .again =>
      if x'.t.q.isEmpty ∧ x'.r = x.r ∧ x'.t.st = x.t.st then (x', (out :: acc).reverse, .idle)
      else wsrPump limit x' (out :: acc)
    | _ => wsrPump limit x' (out :: acc)

def qSizeD : List RecvItem → Nat
  | [] => 0
  | .data b :: rest => b.length + 1 + qSizeD rest
  | _ :: rest => 1 + qSizeD rest

def wsrStep (x : WsRdSt) (ws : List String) : WsRdSt × String :=
  match ws with
  | ["items", w] =>
    match wsItems w with
    | some its => ({ x with t := { x.t with q := x.t.q ++ its.filter (fun i => i ≠ .data []) } }, "ok")
    | none => (x, "bad-op")
  | ["read"] =>
    let n := x.t.sent.length
    let (x', out) := wsrCall x
    (x', showOut out ++ " sent=" ++ sentStr (x'.t.sent.drop n) ++ " | " ++ wsrProbe x')
  | ["pump"] =>
    let n := x.t.sent.length
    let (x', outs, e) := wsrPump 100000 x []
    let pk := outs.filterMap fun o => match o with | .complete c b => some (c, b) | _ => none
    let fuel := 2 * (2 * qSizeD x.t.q + x.t.st.readbuffer.length) + 8
    let d := drainWs fuel x.r x.t []
    -- a packet the pump completes first may already have been held complete by the reader state
    let same := d.1 = pk ∧ d.2.2.2 = e ∧ d.2.2.1.sent = x'.t.sent
    (x', ";".intercalate (outs.map showOut) ++ " sent=" ++ sentStr (x'.t.sent.drop n) ++ " | " ++ wsrProbe x' ++
      " drain=" ++ (if same then "ok" else "DIFF"))
  | ["reset"] => ({}, "ok")
  | _ => (x, "bad-op")

def wsReaderDrv : Drv := { σ := WsRdSt, init := {}, step := wsrStep }

end Paho.Driver
