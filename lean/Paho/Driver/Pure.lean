/- Drivers for the pure layers: trie, mid generator, validation. -/
import Paho.Driver.Common
import Paho.Model.Trie
import Paho.Model.Mid
import Paho.Model.Validate
namespace Paho.Driver
open Paho

def showPath (p : List Level) : String :=
  "/".intercalate (p.map toHex)

def trieDump (t : Node Nat) : String :=
  let d := Node.dumpAux toString [] 1000 t
  " ".intercalate (d.map fun (p, c) => s!"{showPath p}={c.getD "_"}")

def trieStep (t : Node Nat) : List String → Node Nat × String
  | ["set", k, v] =>
    match parseHex k, v.toNat? with
    | some kb, some n => let t' := t.insert (splitTopic kb) n; (t', "ok | " ++ trieDump t')
    | _, _ => (t, "bad-op")
  | ["get", k] =>
    match parseHex k with
    | some kb => (t, (match t.get (splitTopic kb) with | some v => s!"some {v}" | none => "keyerror") ++ " | " ++ trieDump t)
    | none => (t, "bad-op")
  | ["del", k] =>
    match parseHex k with
    | some kb => (match t.delete (splitTopic kb) with
        | some t' => (t', "ok | " ++ trieDump t')
        | none => (t, "keyerror | " ++ trieDump t))
    | none => (t, "bad-op")
  | ["iter", k] =>
    match parseHex k with
    | some kb => (t, toString (t.iterMatch kb))
    | none => (t, "bad-op")
  | ["tms", s, k] =>
    match parseHex s, parseHex k with
    | some sb, some kb => (t, showBool (topicMatchesSub sb kb))
    | _, _ => (t, "bad-op")
  | ["dump"] => (t, trieDump t)
  | _ => (t, "bad-op")

def trieDrv : Drv := { σ := Node Nat, init := Node.empty, step := trieStep }

/-- mid generator: state is `_last_mid`. -/
def midStep (last : Nat) : List String → Nat × String
  | ["set", n] => match n.toNat? with | some k => (k, "ok") | none => (last, "bad-op")
  | ["next"] => let m := midNext last; (m, toString m)
  | ["skip", n] =>
    match n.toNat? with
    | some k => let l := (List.range k).foldl (fun l _ => midNext l) last; (l, toString l)
    | none => (last, "bad-op")
  | _ => (last, "bad-op")

def midDrv : Drv := { σ := Nat, init := Gen.midInit, step := midStep }

def parseTag : String → Option PayloadTag
  | "str" => some .str | "bytes" => some .bytes | "bytearray" => some .bytearray
  | "int" => some .int | "float" => some .float | "none" => some .none | "other" => some .other
  | _ => none

def showExc : Option Exc → String
  | none => "ok"
  | some .valueError => "ValueError"
  | some .typeError => "TypeError"
  | some .structError => "struct.error"
  | some .assertionError => "AssertionError"
  | some .mqttException => "MQTTException"
  | some .keyError => "KeyError"
  | some .other => "other"
  | some .indexError => "IndexError"
  | some .unicodeError => "UnicodeDecodeError"
  | some .malformedPacket => "MalformedPacket"

def validateStep (u : Unit) : List String → Unit × String
  | ["filter", s] =>
    match parseHex s with
    | some b => (u, showBool (filterCheck b))
    | none => (u, "bad-op")
  | ["topic", s] =>
    match parseHex s with
    | some b => (u, showBool (!topicInvalid b))
    | none => (u, "bad-op")
  | ["publish", proto, s, qos, tag, plen] =>
    match proto.toNat?, parseHex s, qos.toInt?, parseTag tag, plen.toNat? with
    | some p, some b, some q, some t, some n => (u, showExc (publishCheckFull p b q t n (if p = 5 then 1 else 0)))
    | _, _, _, _, _ => (u, "bad-op")
  | _ => (u, "bad-op")

def validateDrv : Drv := { σ := Unit, init := (), step := validateStep }

end Paho.Driver
