/-
Specification side (written from MQTT 3.1.1 / 5.0 section 4.7, not from the code):
topic-filter grammar and the matching relation. Uses its own literals.
-/
import Paho.Model.Split
namespace Paho.Spec
open Paho

def slash : UInt8 := 47
def plus : UInt8 := 43
def hash : UInt8 := 35
def dollar : UInt8 := 36

/-- a level is a legal *non-final* filter level: the single-level wildcard alone, or no wildcard character -/
def levelOk (l : Level) : Bool :=
  l = [plus] || (!l.contains plus && !l.contains hash)

/-- [MQTT-4.7.1-2], [MQTT-4.7.1-3]: `#` only as the whole last level, `+` only as a whole level -/
def validLevels : List Level → Bool
  | [] => false
  | [l] => l = [hash] || levelOk l
  | l :: ls => levelOk l && validLevels ls

/-- [MQTT-4.7.3-1] at least one character; at most 65535 bytes -/
def validFilter (f : List UInt8) : Bool :=
  1 ≤ f.length && f.length ≤ 65535 && validLevels (splitOn slash f)

/-- topic names carry no wildcard characters [MQTT-4.7.1-1] -/
def validTopic (t : List UInt8) : Bool :=
  !t.contains plus && !t.contains hash

/-- level-wise matching (4.7.1.2, 4.7.1.3): `#` matches the parent and any number of
further levels, `+` exactly one level (possibly empty), others literally. -/
def matchLevels : List Level → List Level → Bool
  | [], [] => true
  | [], _ :: _ => false
  | f :: fs, ts =>
    if f = [hash] then true
    else match ts with
      | [] => false
      | t :: ts' => (f = [plus] || f = t) && matchLevels fs ts'

/-- [MQTT-4.7.2-1]: a filter starting with a wildcard does not match a topic starting with `$` -/
def matchesL (dollarTopic : Bool) (fl tl : List Level) : Bool :=
  match fl with
  | f :: _ => if dollarTopic && (f = [plus] || f = [hash]) then false else matchLevels fl tl
  | [] => false

def isDollarTopic : List UInt8 → Bool
  | c :: _ => c = dollar
  | [] => false

def matchesTopic (filter topic : List UInt8) : Bool :=
  matchesL (isDollarTopic topic) (splitOn slash filter) (splitOn slash topic)

end Paho.Spec
