/-
Specification side: an independent strict decoder for client→server MQTT control packets
(MQTT 3.1 / 3.1.1 / 5.0), written from the standard. Shares no definition with the encoders in
Paho/Model/Codec.lean (only `List UInt8`). Property blocks are returned as their raw body bytes
(their internal structure is the subject of C17).
-/
namespace Paho.Spec.Wire

abbrev Bytes := List UInt8

/-- strict Variable Byte Integer decoder: at most 4 bytes, minimal encoding. Returns (value, rest). -/
def vbiDecode (b : Bytes) : Option (Nat × Bytes) :=
  match b with
  | d0 :: r0 =>
    if d0.toNat < 128 then some (d0.toNat, r0) else
    match r0 with
    | d1 :: r1 =>
      if d1.toNat < 128 then (if d1.toNat = 0 then none else some (d0.toNat - 128 + 128 * d1.toNat, r1)) else
      match r1 with
      | d2 :: r2 =>
        if d2.toNat < 128 then (if d2.toNat = 0 then none else some (d0.toNat - 128 + 128 * (d1.toNat - 128) + 16384 * d2.toNat, r2)) else
        match r2 with
        | d3 :: r3 =>
          if d3.toNat < 128 then
            (if d3.toNat = 0 then none
             else some (d0.toNat - 128 + 128 * (d1.toNat - 128) + 16384 * (d2.toNat - 128) + 2097152 * d3.toNat, r3))
          else none
        | [] => none
      | [] => none
    | [] => none
  | [] => none

def u16 (b : Bytes) : Option (Nat × Bytes) :=
  match b with
  | a :: c :: rest => some (a.toNat * 256 + c.toNat, rest)
  | _ => none

/-- length-prefixed binary / string field -/
def lp (b : Bytes) : Option (Bytes × Bytes) :=
  match u16 b with
  | some (n, rest) => if n ≤ rest.length then some (rest.take n, rest.drop n) else none
  | none => none

/-- a property block: VBI length + that many bytes (body returned raw) -/
def propsBlock (b : Bytes) : Option (Bytes × Bytes) :=
  match vbiDecode b with
  | some (n, rest) => if n ≤ rest.length then some (rest.take n, rest.drop n) else none
  | none => none

structure WillS where
  topic : Bytes
  payload : Bytes
  qos : Nat
  retain : Bool
  props : Option Bytes
  deriving DecidableEq, Repr

inductive Packet where
  | connect (proto : Nat) (bridge clean : Bool) (keepalive : Nat) (clientId : Bytes) (will : Option WillS)
      (user pass : Option Bytes) (props : Option Bytes)
  | publish (dup : Bool) (qos : Nat) (retain : Bool) (topic : Bytes) (mid : Option Nat) (props : Option Bytes) (payload : Bytes)
  | ack (ptype : Nat) (mid : Nat)
  | subscribe (mid : Nat) (props : Option Bytes) (filters : List (Bytes × Nat))
  | unsubscribe (mid : Nat) (props : Option Bytes) (filters : List Bytes)
  | pingreq
  | pingresp
  | disconnect (rc : Option Nat) (props : Option Bytes)
  deriving DecidableEq, Repr

def optProps (proto : Nat) (b : Bytes) : Option (Option Bytes × Bytes) :=
  if proto = 5 then (propsBlock b).map fun (p, r) => (some p, r) else some (none, b)

def subFilters : (fuel : Nat) → Bytes → Option (List (Bytes × Nat))
  | _, [] => some []
  | 0, _ => none
  | fuel + 1, b =>
    match lp b with
    | some (t, o :: rest) => (subFilters fuel rest).map ((t, o.toNat) :: ·)
    | _ => none

def unsubFilters : (fuel : Nat) → Bytes → Option (List Bytes)
  | _, [] => some []
  | 0, _ => none
  | fuel + 1, b =>
    match lp b with
    | some (t, rest) => (unsubFilters fuel rest).map (t :: ·)
    | none => none

/-- decode the variable header + payload of one packet whose fixed header said (type, flags) -/
def decodeBody (proto ptype flags : Nat) (b : Bytes) : Option Packet :=
  if ptype = 1 then
    if flags ≠ 0 then none else
    match lp b with
    | some (name, level :: cflags :: r1) =>
      let lv := level.toNat % 128
      let bridge := level.toNat ≥ 128
      let cf := cflags.toNat
      if ¬ ((name = [77, 81, 73, 115, 100, 112] ∧ lv = 3) ∨ (name = [77, 81, 84, 84] ∧ (lv = 4 ∨ lv = 5))) then none
      else if lv ≠ proto then none
      else if cf % 2 = 1 then none
      else
        match u16 r1 with
        | none => none
        | some (ka, r2) =>
          match optProps lv r2 with
          | none => none
          | some (props, r3) =>
            match lp r3 with
            | none => none
            | some (cid, r4) =>
              let hasWill := cf / 4 % 2 = 1
              let wq := cf / 8 % 4
              let wr := cf / 32 % 2 = 1
              if ¬ hasWill ∧ (wq ≠ 0 ∨ wr) then none else
              if wq = 3 then none else
              let willRes : Option (Option WillS × Bytes) :=
                if hasWill then
                  match optProps lv r4 with
                  | none => none
                  | some (wp, r5) =>
                    match lp r5 with
                    | none => none
                    | some (wt, r6) =>
                      match lp r6 with
                      | none => none
                      | some (wpl, r7) => some (some { topic := wt, payload := wpl, qos := wq, retain := wr, props := wp }, r7)
                else some (none, r4)
              match willRes with
              | none => none
              | some (will, r8) =>
                let userRes : Option (Option Bytes × Bytes) :=
                  if cf / 128 % 2 = 1 then (lp r8).map fun (u, r) => (some u, r) else some (none, r8)
                match userRes with
                | none => none
                | some (user, r9) =>
                  let passRes : Option (Option Bytes × Bytes) :=
                    if cf / 64 % 2 = 1 then (lp r9).map fun (p, r) => (some p, r) else some (none, r9)
                  match passRes with
                  | none => none
                  | some (pass, r10) =>
                    if r10 ≠ [] then none
                    else some (.connect lv bridge (cf / 2 % 2 = 1) ka cid will user pass props)
    | _ => none
  else if ptype = 3 then
    let qos := flags / 2 % 4
    let dup := flags / 8 % 2 = 1
    if qos = 3 then none else
    if qos = 0 ∧ dup then none else
    match lp b with
    | none => none
    | some (topic, r1) =>
      let midRes : Option (Option Nat × Bytes) :=
        if qos > 0 then (u16 r1).map fun (m, r) => (some m, r) else some (none, r1)
      match midRes with
      | none => none
      | some (mid, r2) =>
        if mid = some 0 then none else
        match optProps proto r2 with
        | none => none
        | some (props, payload) => some (.publish dup qos (flags % 2 = 1) topic mid props payload)
  else if ptype = 4 ∨ ptype = 5 ∨ ptype = 6 ∨ ptype = 7 then
    if flags ≠ (if ptype = 6 then 2 else 0) then none else
    match u16 b with
    | some (mid, []) => if mid = 0 then none else some (.ack ptype mid)
    | _ => none
  else if ptype = 8 then
    if flags ≠ 2 then none else
    match u16 b with
    | none => none
    | some (mid, r1) =>
      if mid = 0 then none else
      match optProps proto r1 with
      | none => none
      | some (props, r2) =>
        match subFilters r2.length r2 with
        | some (f :: fs) => some (.subscribe mid props (f :: fs))
        | _ => none
  else if ptype = 10 then
    if flags ≠ 2 then none else
    match u16 b with
    | none => none
    | some (mid, r1) =>
      if mid = 0 then none else
      match optProps proto r1 with
      | none => none
      | some (props, r2) =>
        match unsubFilters r2.length r2 with
        | some (f :: fs) => some (.unsubscribe mid props (f :: fs))
        | _ => none
  else if ptype = 12 then (if flags = 0 ∧ b = [] then some .pingreq else none)
  else if ptype = 13 then (if flags = 0 ∧ b = [] then some .pingresp else none)
  else if ptype = 14 then
    if flags ≠ 0 then none else
    if proto = 5 then
      match b with
      | [] => some (.disconnect none none)
      | rc :: rest =>
        match rest with
        | [] => some (.disconnect (some rc.toNat) none)
        | _ => match propsBlock rest with
          | some (p, []) => some (.disconnect (some rc.toNat) (some p))
          | _ => none
    else (if b = [] then some (.disconnect none none) else none)
  else none

/-- decode one control packet from the front of a byte stream: (packet, remaining stream) -/
def decode (proto : Nat) (stream : Bytes) : Option (Packet × Bytes) :=
  match stream with
  | h :: r0 =>
    match vbiDecode r0 with
    | none => none
    | some (rl, r1) =>
      if rl ≤ r1.length then
        (decodeBody proto (h.toNat / 16) (h.toNat % 16) (r1.take rl)).map fun p => (p, r1.drop rl)
      else none
  | [] => none

end Paho.Spec.Wire
