/-
Specification side for MQTT 5.0 properties and reason codes, typed in by hand from the
standard (section 2.2.2.2, table 2-4; section 2.4, table 2-6). Shares nothing with the
generated tables.
-/
import Paho.Model.Props
namespace Paho.Spec

/-- wire types of table 2-4 -/
inductive PType where
  | byte | two | four | varint | bin | str | pair
  deriving DecidableEq, Repr

/-- packet type numbers -/
def CONNECT := 1
def CONNACK := 2
def PUBLISH := 3
def PUBACK := 4
def PUBREC := 5
def PUBREL := 6
def PUBCOMP := 7
def SUBSCRIBE := 8
def SUBACK := 9
def UNSUBSCRIBE := 10
def UNSUBACK := 11
def PINGREQ := 12
def PINGRESP := 13
def DISCONNECT := 14
def AUTH := 15
/-- "Will Properties" are not a packet type; the code uses the pseudo type 99 for them -/
def WILL := 99

/-- table 2-4: identifier, type, where it may appear -/
def propTable : List (Nat × PType × List Nat) := [
  (1,  .byte,   [PUBLISH, WILL]),                       -- Payload Format Indicator
  (2,  .four,   [PUBLISH, WILL]),                       -- Message Expiry Interval
  (3,  .str,    [PUBLISH, WILL]),                       -- Content Type
  (8,  .str,    [PUBLISH, WILL]),                       -- Response Topic
  (9,  .bin,    [PUBLISH, WILL]),                       -- Correlation Data
  (11, .varint, [PUBLISH, SUBSCRIBE]),                  -- Subscription Identifier
  (17, .four,   [CONNECT, CONNACK, DISCONNECT]),        -- Session Expiry Interval
  (18, .str,    [CONNACK]),                             -- Assigned Client Identifier
  (19, .two,    [CONNACK]),                             -- Server Keep Alive
  (21, .str,    [CONNECT, CONNACK, AUTH]),              -- Authentication Method
  (22, .bin,    [CONNECT, CONNACK, AUTH]),              -- Authentication Data
  (23, .byte,   [CONNECT]),                             -- Request Problem Information
  (24, .four,   [WILL]),                                -- Will Delay Interval
  (25, .byte,   [CONNECT]),                             -- Request Response Information
  (26, .str,    [CONNACK]),                             -- Response Information
  (28, .str,    [CONNACK, DISCONNECT]),                 -- Server Reference
  (31, .str,    [CONNACK, PUBACK, PUBREC, PUBREL, PUBCOMP, SUBACK, UNSUBACK, DISCONNECT, AUTH]),  -- Reason String
  (33, .two,    [CONNECT, CONNACK]),                    -- Receive Maximum
  (34, .two,    [CONNECT, CONNACK]),                    -- Topic Alias Maximum
  (35, .two,    [PUBLISH]),                             -- Topic Alias
  (36, .byte,   [CONNACK]),                             -- Maximum QoS
  (37, .byte,   [CONNACK]),                             -- Retain Available
  (38, .pair,   [CONNECT, CONNACK, PUBLISH, PUBACK, PUBREC, PUBREL, PUBCOMP, SUBSCRIBE, SUBACK,
                 UNSUBSCRIBE, UNSUBACK, DISCONNECT, AUTH, WILL]),                                 -- User Property
  (39, .four,   [CONNECT, CONNACK]),                    -- Maximum Packet Size
  (40, .byte,   [CONNACK]),                             -- Wildcard Subscription Available
  (41, .byte,   [CONNACK]),                             -- Subscription Identifier Available
  (42, .byte,   [CONNACK])]                             -- Shared Subscription Available

/-- properties that may appear more than once in a packet -/
def repeatable : List Nat := [11, 38]

/-- the code's type names for the wire types -/
def PType.codeName : PType → String
  | .byte => "Byte" | .two => "Two Byte Integer" | .four => "Four Byte Integer"
  | .varint => "Variable Byte Integer" | .bin => "Binary Data" | .str => "UTF-8 Encoded String"
  | .pair => "UTF-8 String Pair"

/-- table 2-6: reason code value ↦ packets it may appear in -/
def reasonTable : List (Nat × List Nat) := [
  (0,   [CONNACK, PUBACK, PUBREC, PUBREL, PUBCOMP, UNSUBACK, AUTH, DISCONNECT, SUBACK]),
  (1,   [SUBACK]), (2, [SUBACK]), (4, [DISCONNECT]), (16, [PUBACK, PUBREC]), (17, [UNSUBACK]),
  (24,  [AUTH]), (25, [AUTH]),
  (128, [CONNACK, PUBACK, PUBREC, SUBACK, UNSUBACK, DISCONNECT]),
  (129, [CONNACK, DISCONNECT]), (130, [CONNACK, DISCONNECT]),
  (131, [CONNACK, PUBACK, PUBREC, SUBACK, UNSUBACK, DISCONNECT]),
  (132, [CONNACK]), (133, [CONNACK]), (134, [CONNACK]),
  (135, [CONNACK, PUBACK, PUBREC, SUBACK, UNSUBACK, DISCONNECT]),
  (136, [CONNACK]), (137, [CONNACK, DISCONNECT]), (138, [CONNACK]), (139, [DISCONNECT]),
  (140, [CONNACK, DISCONNECT]), (141, [DISCONNECT]), (142, [DISCONNECT]),
  (143, [SUBACK, UNSUBACK, DISCONNECT]), (144, [CONNACK, PUBACK, PUBREC, DISCONNECT]),
  (145, [PUBACK, PUBREC, SUBACK, UNSUBACK]), (146, [PUBREL, PUBCOMP]), (147, [DISCONNECT]),
  (148, [DISCONNECT]), (149, [CONNACK, DISCONNECT]), (150, [DISCONNECT]),
  (151, [CONNACK, PUBACK, PUBREC, SUBACK, DISCONNECT]), (152, [DISCONNECT]),
  (153, [CONNACK, PUBACK, PUBREC, DISCONNECT]), (154, [CONNACK, DISCONNECT]),
  (155, [CONNACK, DISCONNECT]), (156, [CONNACK, DISCONNECT]), (157, [CONNACK, DISCONNECT]),
  (158, [SUBACK, DISCONNECT]), (159, [CONNACK, DISCONNECT]), (160, [DISCONNECT]),
  (161, [SUBACK, DISCONNECT]), (162, [SUBACK, DISCONNECT])]

/-- is (packet type, value) a reason code the specification defines? -/
def reasonDefined (pt v : Nat) : Bool :=
  match reasonTable.lookup v with
  | some pts => pts.contains pt
  | none => false

/-- spec: Variable Byte Integer encoding (1.5.5): 7 bits per byte, least significant group first,
continuation bit on all but the last byte; defined for 0 … 268 435 455 -/
def vbi (n : Nat) : List UInt8 :=
  if n < 128 then [UInt8.ofNat n]
  else if n < 16384 then [UInt8.ofNat (n % 128 + 128), UInt8.ofNat (n / 128)]
  else if n < 2097152 then [UInt8.ofNat (n % 128 + 128), UInt8.ofNat (n / 128 % 128 + 128), UInt8.ofNat (n / 16384)]
  else [UInt8.ofNat (n % 128 + 128), UInt8.ofNat (n / 128 % 128 + 128), UInt8.ofNat (n / 16384 % 128 + 128),
        UInt8.ofNat (n / 2097152)]

def u16be (n : Nat) : List UInt8 := [UInt8.ofNat (n / 256), UInt8.ofNat (n % 256)]
def u32be (n : Nat) : List UInt8 :=
  [UInt8.ofNat (n / 16777216), UInt8.ofNat (n / 65536 % 256), UInt8.ofNat (n / 256 % 256), UInt8.ofNat (n % 256)]

/-- spec encoding of one property (identifier as VBI, then the value by wire type); `none` when the
value does not fit the wire type -/
def encodeProp (id : Nat) (ty : PType) (v : PVal) : Option (List UInt8) :=
  match ty, v with
  | .byte, .int n => if 0 ≤ n ∧ n ≤ 255 then some (vbi id ++ [UInt8.ofNat n.toNat]) else none
  | .two, .int n => if 0 ≤ n ∧ n ≤ 65535 then some (vbi id ++ u16be n.toNat) else none
  | .four, .int n => if 0 ≤ n ∧ n ≤ 4294967295 then some (vbi id ++ u32be n.toNat) else none
  | .varint, .int n => if 0 ≤ n ∧ n ≤ 268435455 then some (vbi id ++ vbi n.toNat) else none
  | .bin, .bin b => if b.length ≤ 65535 then some (vbi id ++ u16be b.length ++ b) else none
  | .str, .bin b => if b.length ≤ 65535 then some (vbi id ++ u16be b.length ++ b) else none
  | .pair, .pair k w =>
    if k.length ≤ 65535 ∧ w.length ≤ 65535 then some (vbi id ++ u16be k.length ++ k ++ u16be w.length ++ w) else none
  | _, _ => none

end Paho.Spec
