/-
Byte-level primitives of the code: `_pack_remaining_length`, `VariableByteIntegers`,
`struct.pack("!H"/"!L")`, `_pack_str16`, `writeUTF/readUTF`, `writeBytes/readBytes`.
-/
import Paho.Gen.BytesConsts
import Paho.Model.Validate
namespace Paho

/-- `_pack_remaining_length`: the unchecked loop (`% 128`, `// 128`, `|= 0x80`). -/
def remLenEnc (n : Nat) : Bytes :=
  if h : n / Gen.rlBase > 0 ∧ Gen.rlBase > 1 then
    b8 ((n % Gen.rlBase) ||| Gen.rlFlag) :: remLenEnc (n / Gen.rlBase)
  else [b8 (n % Gen.rlBase)]
termination_by n
decreasing_by
  have h1 := h.1
  have h2 := h.2
  have hn : 0 < n := by
    rcases Nat.eq_zero_or_pos n with h0 | h0
    · rw [h0, Nat.zero_div] at h1; exact absurd h1 (Nat.lt_irrefl 0)
    · exact h0
  exact Nat.div_lt_self hn h2

/-- `_pack_remaining_length` with its guard: `ValueError` for lengths MQTT cannot express -/
def remLenEncChecked (n : Nat) : Except Exc Bytes :=
  if Gen.rlGuardCmp.evalNat n Gen.rlGuardMax then .error .valueError else .ok (remLenEnc n)

/-- `VariableByteIntegers.encode`: range-checked (`ValueError`). -/
def vbiEnc (n : Int) : Except Exc Bytes :=
  if Gen.vbiLo ≤ n ∧ n ≤ Gen.vbiHi then .ok (remLenEnc n.toNat) else .error .valueError

/-- `VariableByteIntegers.decode(buffer)`: no length bound, no minimality check;
`IndexError` (modelled as `.other`) when the buffer ends inside the integer.
Returns (value, bytes used). -/
def vbiDecAux : Bytes → (mult value used : Nat) → Except Exc (Nat × Nat)
  | [], _, _, _ => .error .other
  | d :: rest, mult, value, used =>
    let value' := value + (d.toNat &&& 127) * mult
    if d.toNat &&& 128 = 0 then .ok (value', used + 1)
    else vbiDecAux rest (mult * 128) value' (used + 1)

def vbiDec (b : Bytes) : Except Exc (Nat × Nat) := vbiDecAux b 1 0 0

/-- `struct.pack("!H", n)` -/
def packU16 (n : Int) : Except Exc Bytes :=
  if 0 ≤ n ∧ n ≤ 65535 then .ok [b8 (n.toNat / 256), b8 (n.toNat % 256)] else .error .structError

/-- `struct.pack("!L", n)` -/
def packU32 (n : Int) : Except Exc Bytes :=
  if 0 ≤ n ∧ n ≤ 4294967295 then
    let k := n.toNat
    .ok [b8 (k / 16777216), b8 (k / 65536 % 256), b8 (k / 256 % 256), b8 (k % 256)]
  else .error .structError

/-- `_pack_str16` / `writeUTF` / `writeBytes` on already-encoded bytes -/
def str16 (b : Bytes) : Except Exc Bytes := do
  let l ← packU16 b.length
  pure (l ++ b)

def rdU16 : Bytes → Option Nat
  | a :: b :: _ => some (a.toNat * 256 + b.toNat)
  | _ => none

def rdU32 : Bytes → Option Nat
  | a :: b :: c :: d :: _ => some (((a.toNat * 256 + b.toNat) * 256 + c.toNat) * 256 + d.toNat)
  | _ => none

/-! ### UTF-8 as CPython's strict decoder sees it (RFC 3629: no overlongs, no surrogates, ≤ U+10FFFF) -/

/-- decode one code point; returns (code point, rest) -/
def utf8Next : Bytes → Option (Nat × Bytes)
  | [] => none
  | b0 :: rest =>
    let x := b0.toNat
    if x < 0x80 then some (x, rest)
    else if x < 0xC2 then none
    else if x < 0xE0 then
      match rest with
      | b1 :: r => if b1.toNat / 64 = 2 then some ((x % 32) * 64 + b1.toNat % 64, r) else none
      | _ => none
    else if x < 0xF0 then
      match rest with
      | b1 :: b2 :: r =>
        let y := b1.toNat
        if y / 64 = 2 ∧ b2.toNat / 64 = 2 ∧ (x ≠ 0xE0 ∨ y ≥ 0xA0) ∧ (x ≠ 0xED ∨ y < 0xA0) then
          some (((x % 16) * 64 + y % 64) * 64 + b2.toNat % 64, r)
        else none
      | _ => none
    else if x < 0xF5 then
      match rest with
      | b1 :: b2 :: b3 :: r =>
        let y := b1.toNat
        if y / 64 = 2 ∧ b2.toNat / 64 = 2 ∧ b3.toNat / 64 = 2 ∧ (x ≠ 0xF0 ∨ y ≥ 0x90) ∧ (x ≠ 0xF4 ∨ y < 0x90) then
          some ((((x % 8) * 64 + y % 64) * 64 + b2.toNat % 64) * 64 + b3.toNat % 64, r)
        else none
      | _ => none
    else none

/-- all code points, or `none` if `bytes.decode('utf-8')` raises -/
def utf8Decode : (fuel : Nat) → Bytes → Option (List Nat)
  | _, [] => some []
  | 0, _ => none
  | fuel + 1, b =>
    match utf8Next b with
    | none => none
    | some (cp, rest) => (utf8Decode fuel rest).map (cp :: ·)

def utf8Valid (b : Bytes) : Bool := (utf8Decode b.length b).isSome

/-- `readUTF`'s extra MQTT check on decoded code points: D800–DFFF (unreachable after a
strict decode), U+0000, U+FEFF → MalformedPacket -/
def mqttCharsOk (cps : List Nat) : Bool :=
  cps.all fun c => !(c ≥ 0xD800 ∧ c ≤ 0xDFFF) && c ≠ 0 && c ≠ 0xFEFF

end Paho
