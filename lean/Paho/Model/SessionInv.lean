/-
Decidable (Bool) versions of the session invariants. They are evaluated by the driver
on every state of every T2 history (`pm_session session-inv`), which validates the
invariants on the executions the correspondence explores before/independently of their
proofs, and they are the predicates the property theorems speak about.
-/
import Paho.Model.Session
namespace Paho
namespace S

/-- C10: connected ⇒ an open socket whose CONNACK was accepted -/
def invConnected (s : S) : Bool :=
  s.cstate != .connected || (s.sock.isSome && s.ackd)

/-- C10: with an open socket, DISCONNECTING ⇔ disconnect() was called on it; never DISCONNECTED/NEW -/
def invDisconnecting (s : S) : Bool :=
  s.sock.isNone ||
    ((decide (s.cstate = .disconnecting) == s.discCalled) && s.cstate != .disconnected)

/-- C16: no lost write wake-up at op boundaries -/
def invWakeup (s : S) : Bool :=
  !(s.sock.isSome && s.wantWrite) || s.regWrite

/-- C16: a write registration exists only for an open socket -/
def invRegSock (s : S) : Bool := !s.regWrite || s.sock.isSome

/-- C14: live messages have pairwise distinct packet ids -/
def invMidNodup (s : S) : Bool :=
  let mids := s.out.map (·.mid)
  mids.eraseDups.length == mids.length

def sortedLt : List Nat → Bool
  | a :: b :: rest => a < b && sortedLt (b :: rest)
  | _ => true

/-- C13: `_out_messages` is ordered by instance id (= publish() order) -/
def invOutSorted (s : S) : Bool := sortedLt (s.out.map (·.info))

/-- every stored message's info index exists and lastMid stays in range (C14) -/
def invMidRange (s : S) : Bool :=
  s.lastMid ≤ 65535 && s.out.all (fun m => 1 ≤ m.mid && m.mid ≤ 65535 && m.info < s.infos.length && (m.qos == 1 || m.qos == 2))

/-- C06: only the head of the queue can be partly written, and never completely -/
def invQueueShape (s : S) : Bool :=
  s.outq.all (fun p => p.pos < p.bytes.length) && (s.outq.drop 1).all (fun p => p.pos == 0)

/-- the in-flight counter never exceeds the counted messages by anything, and is ≥ 0, as long as
the broker conforms (checked dynamically only; the theorem carries the conformance hypothesis) -/
def invInflightCount (s : S) : Bool :=
  s.inflight == ((s.out.filter fun m => m.state == .waitPuback || m.state == .waitPubrec || m.state == .waitPubcomp).length : Int)

/-- a broker acknowledgement is *conforming* in state `s` when, if it names a live message, it is a
legal answer to what the client has handed to the current connection for that message -/
def conformingRx (s : S) : RxPkt → Bool
  | .puback mid => s.out.all fun m => m.mid != mid || (m.qos == 1 && m.state == .waitPuback)
  | .pubrec mid => s.out.all fun m => m.mid != mid || (m.qos == 2 && (m.state == .waitPubrec || m.state == .waitPubcomp))
  | .pubcomp mid => s.out.all fun m => m.mid != mid || (m.qos == 2 && m.state == .waitPubcomp)
  | _ => true

/-- C12: on an established connection no accepted message waits while a window slot is free -/
def invNoIdleSlot (s : S) : Bool :=
  s.cfg.maxInflight == 0 || s.sock.isNone || s.cstate != .connected ||
    !(s.out.any fun m => m.state == .queued) || decide (s.inflight ≥ s.cfg.maxInflight)

/-- C12 (what the code guarantees today): messages wait in the queue only behind a full window,
whatever the connection state -/
def invQueuedBehindFull (s : S) : Bool :=
  !(s.out.any fun m => m.state == .queued) || (s.cfg.maxInflight > 0 && decide (s.inflight ≥ s.cfg.maxInflight))

def allInvs : List (String × (S → Bool)) :=
  [("connected", invConnected), ("disconnecting", invDisconnecting), ("wakeup", invWakeup),
   ("regsock", invRegSock), ("midnodup", invMidNodup), ("outsorted", invOutSorted),
   ("midrange", invMidRange), ("queueshape", invQueueShape)]

def failing (s : S) : List String := (allInvs.filter fun (_, f) => !f s).map (·.1)

end S

/-- per-step event facts (C10): on_disconnect calls = connections ended for a non-replacement reason -/
def stepDiscOk (evs : List Ev) : Bool :=
  let nd := (evs.filter fun e => match e with | .onDisconnect _ _ => true | _ => false).length
  let nc := (evs.filter fun e => match e with | .sclose _ false => true | _ => false).length
  nd == nc && nc ≤ 1

/-- tx bytes / queued bytes of connection c in an event list -/
def txOf (c : Nat) : List Ev → Bytes
  | [] => []
  | .tx c' b :: rest => if c' = c then b ++ txOf c rest else txOf c rest
  | _ :: rest => txOf c rest

def queuedOf (c : Nat) : List Ev → Bytes
  | [] => []
  | .queued c' b :: rest => if c' = c then b ++ queuedOf c rest else queuedOf c rest
  | _ :: rest => queuedOf c rest

/-- C06: what reached the transport plus what is still pending is exactly what was queued -/
def invStream (s : S) : Bool :=
  match s.sock with
  | none => true
  | some c => txOf c s.log ++ (s.outq.map fun p => p.bytes.drop p.pos).flatten == queuedOf c s.log

/-- conformance of one op in a state (only broker acknowledgements can be non-conforming) -/
def opConforming (s : S) : Op → Bool
  | .rx (.pkt p) _ => s.conformingRx p
  | _ => true

/-- a history all of whose broker acknowledgements are conforming at the time they are delivered -/
def confRun (s : S) : List Op → Bool
  | [] => true
  | op :: ops => opConforming s op && confRun (s.step op) ops

/-- C16: automaton over the socket-callback events: (open socket, write registration outstanding, sockets seen) -/
structure SockTrace where
  openSock : Option Nat := none
  reg : Bool := false
  seen : List Nat := []
  ok : Bool := true

def SockTrace.step (t : SockTrace) : Ev → SockTrace
  | .skOpen c =>
    { t with openSock := some c, reg := false, seen := c :: t.seen,
             ok := t.ok && t.openSock.isNone && !t.seen.contains c }
  | .skClose c =>
    { t with openSock := none, ok := t.ok && t.openSock == some c && !t.reg }
  | .skRegW c =>
    { t with reg := true, ok := t.ok && t.openSock == some c && !t.reg }
  | .skUnregW c =>
    { t with reg := false, ok := t.ok && t.openSock == some c && t.reg }
  | _ => t

/-- C16: on_socket_open/close strictly alternate with the same socket, each socket opened once;
register/unregister_write strictly alternate, only between the open and the close of that socket,
and no registration is outstanding when the socket is closed -/
def sockTraceOk (log : List Ev) : Bool := (log.foldl SockTrace.step {}).ok

end Paho
