/-
Model of `properties.py::Properties` (setattr validation, pack, unpack),
`reasoncodes.py::ReasonCode` and `subscribeoptions.py::SubscribeOptions`,
data-driven over the tables extracted from the source (`Paho.Gen.Tables`).
-/
import Paho.Gen.Tables
import Paho.Model.Bytes
namespace Paho

/-- a property value as the Python object holds it (strings as their UTF-8 bytes) -/
inductive PVal where
  | int (n : Int)
  | bin (b : Bytes)
  | pair (k v : Bytes)
  deriving DecidableEq, Repr

/-- `Properties` object: packet type + attributes keyed by property id
(a repeatable property holds a list, others a one-element list) -/
structure Props where
  ptype : Nat
  attrs : List (Nat × List PVal)
  deriving DecidableEq, Repr

namespace Props

def empty (pt : Nat) : Props := { ptype := pt, attrs := [] }

def idOfName (name : String) : Option Nat := Gen.propNames.lookup name

def nameOfId (i : Nat) : Option String :=
  (Gen.propNames.find? (·.2 = i)).map (·.1)

def row (i : Nat) : Option (Nat × List Nat) := Gen.propRows.lookup i

def allowsMultiple (i : Nat) : Bool := Gen.propMultiIds.contains i

def getAttr (p : Props) (i : Nat) : Option (List PVal) := p.attrs.lookup i

def putAttr (p : Props) (i : Nat) (vs : List PVal) : Props :=
  { p with attrs := (p.attrs.filter (·.1 ≠ i)) ++ [(i, vs)] }

/-- `del props.<name>`: AttributeError (`none`) unless the property is set -/
def delAttr (p : Props) (name : String) : Option Props :=
  match idOfName name with
  | none => none
  | some i => if (p.getAttr i).isSome then some { p with attrs := p.attrs.filter (fun kv => kv.1 != i) } else none

/-- `Properties.clear()` -/
def clear (p : Props) : Props := { p with attrs := [] }

/-- "Check for forbidden values" of `__setattr__` (scalar, integer values) -/
def valueForbidden (name : String) (v : PVal) : Bool :=
  match v with
  | .int n =>
    Gen.propRangeRules.any (fun (names, lo, hi) => names.contains name && (n < lo || n > hi))
    || Gen.propEnumRules.any (fun (names, vals) => names.contains name && !vals.contains n)
  | _ => false

/-- "does not apply to packet type": the message is built with `PacketTypes.Names[self.packetType]`,
a 16-entry tuple, so for the pseudo type WILLMESSAGE (99) the formatting itself raises IndexError -/
def notAllowedExc {α : Type} (ptype : Nat) : Except Exc α :=
  if ptype < 16 then .error .mqttException else .error .indexError

/-- `setattr(props, name, value)` with a scalar value -/
def setAttr (p : Props) (name : String) (v : PVal) : Except Exc Props :=
  match idOfName name with
  | none => .error .mqttException
  | some i =>
    match row i with
    | none => .error .keyError
    | some (_, pkts) =>
      if !pkts.contains p.ptype then notAllowedExc p.ptype
      else if valueForbidden name v then .error .mqttException
      else if allowsMultiple i then
        .ok (putAttr p i ((getAttr p i).getD [] ++ [v]))
      else .ok (putAttr p i [v])

/-- `setattr(props, name, [v1, v2, …])` (list form; only meaningful for repeatable
properties; the range rules are skipped by the code for list values) -/
def setAttrList (p : Props) (name : String) (vs : List PVal) : Except Exc Props :=
  match idOfName name with
  | none => .error .mqttException
  | some i =>
    match row i with
    | none => .error .keyError
    | some (_, pkts) =>
      if !pkts.contains p.ptype then notAllowedExc p.ptype
      else if Gen.propRulesOnLists && vs.any (valueForbidden name) then .error .mqttException
      else if allowsMultiple i then .ok (putAttr p i ((getAttr p i).getD [] ++ vs))
      else .error .other   -- a list stored in a non-repeatable property: outside the model

def typeName (t : Nat) : Option String := Gen.propTypes[t]?

/-- `writeProperty(identifier, type, value)` -/
def writeProperty (i : Nat) (t : Nat) (v : PVal) : Except Exc Bytes := do
  let idb ← vbiEnc i
  match typeName t, v with
  | some "Byte", .int n => if 0 ≤ n ∧ n ≤ 255 then pure (idb ++ [b8 n.toNat]) else .error .valueError
  | some "Two Byte Integer", .int n => do let b ← packU16 n; pure (idb ++ b)
  | some "Four Byte Integer", .int n => do let b ← packU32 n; pure (idb ++ b)
  | some "Variable Byte Integer", .int n => do let b ← vbiEnc n; pure (idb ++ b)
  | some "Binary Data", .bin b => do let x ← str16 b; pure (idb ++ x)
  | some "UTF-8 Encoded String", .bin b => do let x ← str16 b; pure (idb ++ x)
  | some "UTF-8 String Pair", .pair k w => do let x ← str16 k; let y ← str16 w; pure (idb ++ x ++ y)
  | _, _ => .error .typeError

def writeAll (i t : Nat) : List PVal → Except Exc Bytes
  | [] => pure []
  | v :: vs => do let a ← writeProperty i t v; let b ← writeAll i t vs; pure (a ++ b)

/-- body of `pack()`: iterate `names` in table order -/
def packBody (p : Props) : List (String × Nat) → Except Exc Bytes
  | [] => pure []
  | (_, i) :: rest =>
    match getAttr p i, row i with
    | some vs, some (t, _) => do
      let a ← writeAll i t vs
      let b ← packBody p rest
      pure (a ++ b)
    | some _, none => .error .keyError
    | none, _ => packBody p rest

def pack (p : Props) : Except Exc Bytes := do
  let body ← packBody p Gen.propNames
  let l ← vbiEnc body.length
  pure (l ++ body)

/-- `readUTF(buffer, maxlen)` → (bytes of the string, bytes consumed) -/
def readUTF (buf : Bytes) (maxlen : Int) : Except Exc (Bytes × Nat) :=
  if maxlen ≥ 2 then
    match rdU16 buf with
    | none => .error .structError
    | some len =>
      if (len : Int) > maxlen - 2 then .error .malformedPacket
      else
        let s := (buf.drop 2).take len
        match utf8Decode s.length s with
        | none => .error .unicodeError
        | some cps => if mqttCharsOk cps then .ok (s, len + 2) else .error .malformedPacket
  else .error .malformedPacket

/-- `readProperty(buffer, type, propslen)` → (value, bytes consumed) -/
def readProperty (buf : Bytes) (t : Nat) (left : Int) : Except Exc (PVal × Nat) :=
  match typeName t with
  | some "Byte" => match buf with | b :: _ => .ok (.int b.toNat, 1) | [] => .error .indexError
  | some "Two Byte Integer" => match rdU16 buf with | some n => .ok (.int n, 2) | none => .error .structError
  | some "Four Byte Integer" => match rdU32 buf with | some n => .ok (.int n, 4) | none => .error .structError
  | some "Variable Byte Integer" =>
    match vbiDec buf with
    | .ok (v, n) => .ok (.int v, n)
    | .error _ => .error .indexError
  | some "Binary Data" =>
    match rdU16 buf with
    | some len => .ok (.bin ((buf.drop 2).take len), len + 2)
    | none => .error .structError
  | some "UTF-8 Encoded String" => do
    let (s, n) ← readUTF buf left
    pure (.bin s, n)
  | some "UTF-8 String Pair" => do
    let (k, n) ← readUTF buf left
    let (w, m) ← readUTF (buf.drop n) (left - n)
    pure (.pair k w, n + m)
  | _ => .error .other

/-- the `while propslenleft > 0` loop of `unpack` (fuel = an upper bound on iterations:
each iteration consumes at least one byte of `buf` or raises) -/
def unpackLoop : (fuel : Nat) → Props → Bytes → Int → Except Exc Props
  | 0, p, _, left => if left > 0 then .error .other else .ok p
  | fuel + 1, p, buf, left =>
    if left > 0 then
      match vbiDec buf with
      | .error _ => .error .indexError
      | .ok (ident, n) =>
        let buf := buf.drop n
        let left := left - n
        match row ident with
        | none => .error .keyError
        | some (t, _) =>
          match readProperty buf t left with
          | .error e => .error e
          | .ok (v, vlen) =>
            let buf := buf.drop vlen
            let left := left - vlen
            match nameOfId ident with
            | none => .error .other
            | some name =>
              if !allowsMultiple ident && (getAttr p ident).isSome then .error .mqttException
              else
                match setAttr p name v with
                | .error e => .error e
                | .ok p' => unpackLoop fuel p' buf left
    else .ok p

/-- `Properties(pt).unpack(buffer)` → (object, bytes consumed = propslen + VBIlen) -/
def unpack (pt : Nat) (buf : Bytes) : Except Exc (Props × Nat) :=
  match vbiDec buf with
  | .error _ => .error .indexError
  | .ok (plen, n) =>
    match unpackLoop (buf.length + 1) (empty pt) (buf.drop n) plen with
    | .error e => .error e
    | .ok p => .ok (p, plen + n)

/-- values in `names` order: what a reader of the object sees (`json()`-like view) -/
def view (p : Props) : List (Nat × List PVal) :=
  Gen.propNames.filterMap fun (_, i) => (getAttr p i).map (i, ·)

end Props

/-! ### ReasonCode -/
namespace Reason

def namesFor (pt v : Nat) : Option (List String) :=
  (Gen.reasonRows.lookup v).map fun names => (names.filter (·.2.contains pt)).map (·.1)

/-- `__getName__(packetType, identifier)` -/
def getName (pt v : Nat) : Except Exc String :=
  match namesFor pt v with
  | none => .error .keyError
  | some [n] => .ok n
  | some _ => .error .valueError

/-- `getId(name)` for an object of packet type `pt` -/
def getId (pt : Nat) (name : String) : Except Exc Nat :=
  match Gen.reasonRows.find? (fun (_, names) => names.any (fun (n, pk) => n = name && pk.contains pt)) with
  | some (code, _) => .ok code
  | none => .error .keyError

/-- `ReasonCode(pt, identifier=v)` -/
def mkById (pt v : Nat) : Except Exc Nat := do
  let _ ← getName pt v
  pure v

/-- `ReasonCode(pt, aName=name)` -/
def mkByName (pt : Nat) (name : String) : Except Exc Nat :=
  getId pt (if pt = 14 ∧ name = "Success" then "Normal disconnection" else name)

/-- `ReasonCode(pt).unpack(buffer)` on a one-byte buffer -/
def unpack (pt : Nat) (b : Nat) : Except Exc Nat := do
  let n ← getName pt b
  getId pt n

end Reason

/-! ### SubscribeOptions -/
structure SubOpts where
  qos : Nat
  noLocal : Bool
  retainAsPublished : Bool
  retainHandling : Nat
  deriving DecidableEq, Repr

namespace SubOpts

def valid (o : SubOpts) : Bool := o.retainHandling ≤ 2 && o.qos ≤ 2

/-- `pack()` (AssertionError on invalid fields) -/
def pack (o : SubOpts) : Except Exc UInt8 :=
  if o.valid then
    .ok (b8 ((o.retainHandling <<< 4) ||| ((if o.retainAsPublished then 1 else 0) <<< 3)
      ||| ((if o.noLocal then 1 else 0) <<< 2) ||| o.qos))
  else .error .assertionError

/-- `unpack(buffer)` of one byte (AssertionError on QoS 3 / retain handling 3; bits 6-7 ignored by the code) -/
def unpack (b : UInt8) : Except Exc SubOpts :=
  let x := b.toNat
  let o : SubOpts := { retainHandling := (x >>> 4) &&& 3, retainAsPublished := (x >>> 3) &&& 1 = 1,
                       noLocal := (x >>> 2) &&& 1 = 1, qos := x &&& 3 }
  if o.valid then .ok o else .error .assertionError

end SubOpts
end Paho
