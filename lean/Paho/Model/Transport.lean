/-
The fake non-blocking transport both the packet reader (`Paho.Model.Reader`) and the WebSocket layer
(`Paho.Model.Ws`) read from: a queue of `RecvItem`s, as the harness presents it.
-/
import Paho.Model.Basic
namespace Paho

/-- what successive `recv()` calls will find -/
inductive RecvItem where
  | data (b : Bytes)      -- bytes available now (a TCP segment / what the kernel buffered)
  | eagain                -- would block once
  | eof                   -- orderly shutdown by the peer (sticky)
  | err                   -- OSError (sticky)
  deriving DecidableEq, Repr

inductive RecvRes where
  | bytes (b : Bytes) | block | closed | error
  deriving DecidableEq, Repr

/-- `sock.recv(n)` on the fake transport (n ≥ 1) -/
def recvN (n : Nat) : List RecvItem → RecvRes × List RecvItem
  | [] => (.block, [])
  | .eagain :: rest => (.block, rest)
  | .eof :: rest => (.closed, .eof :: rest)
  | .err :: rest => (.error, .err :: rest)
  | .data b :: rest =>
    if b.length ≤ n then (.bytes b, rest)      -- (an empty chunk is never queued by the harness)
    else (.bytes (b.take n), .data (b.drop n) :: rest)

end Paho
