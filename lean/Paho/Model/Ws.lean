/-
Model of the WebSocket framing layer: `class _WebsocketWrapper` of client.py
(`_create_frame`, `_buffered_read`, `_recv_impl`, `_send_impl`). The HTTP upgrade handshake is not modelled.

The code is modelled AS IT IS, including:
* `_buffered_read` does at most ONE `socket.recv(wanted_bytes)`; a short read raises BlockingIOError although
  more bytes may be queued, the bytes read stay in `_readbuffer` and the whole header is re-parsed from the
  buffer by the next `_recv_impl` (`_readbuffer_head = 0` at the start of each call);
* every frame that is not BINARY/CONTINUATION with a non-empty payload ends the call with BlockingIOError,
  also when it was consumed completely (PING, PONG, CLOSE, TEXT, reserved opcodes, empty data frames);
* FIN and RSV bits are ignored, masked server frames are accepted and unmasked, non-minimal length encodings
  are accepted;
* the PONG / CLOSE reply carries `payload` as the LAST call saw it: only `[chunk_startindex, readindex)` of it
  has been unmasked (matters for masked control frames only, which a server must not send);
* `_send_impl` ignores its argument while `_sendbuffer` is non-empty and returns the size remembered from the
  call that created the frame; an exception of the raw `socket.send` propagates with the (possibly just created)
  frame left in `_sendbuffer`.

The raw socket is the queue of `RecvItem`s of Paho.Model.Reader (`recvN`): `eof` makes `recv` return b''
(`_buffered_read` raises ConnectionAbortedError), `err` is a ConnectionResetError (the fake transport raises that);
both are `ConnectionError`s, caught by `_recv_impl` (returns b'' and sets `connected = False`).
Core Lean only.
-/
import Paho.Model.Transport
namespace Paho.Ws
open Paho

/-! ### byte helpers -/

/-- `struct.unpack("!H" / "!Q", value)` -/
def beNat (b : Bytes) : Nat := b.foldl (fun acc x => acc * 256 + x.toNat) 0

/-- `struct.pack("!H" / "!Q", n)`: `k` bytes, big-endian -/
def beBytes : (k : Nat) → Nat → Bytes
  | 0, _ => []
  | k + 1, n => beBytes k (n / 256) ++ [b8 (n % 256)]

/-- `for index in range(lo, hi): payload[index] ^= mask_key[index % 4]` -/
def xorRange (key : Bytes) (lo hi : Nat) (payload : Bytes) : Bytes :=
  payload.mapIdx fun i b => if lo ≤ i ∧ i < hi then b ^^^ key.getD (i % 4) 0 else b

/-! ### `_create_frame` -/

/-- `_create_frame(opcode, data, do_masking)`; `maskKey` is what `os.urandom(4)` returned (drawn in every call,
used only when masking). The `ValueError` for `len(data) > 2^63` is not modelled. -/
def createFrame (opcode : Nat) (data : Bytes) (maskKey : Bytes) (doMasking : Nat) : Bytes :=
  let length := data.length
  let h0 := b8 (128 ||| opcode)
  let header :=
    if length < 126 then [h0, b8 ((doMasking <<< 7) ||| length)]
    else if length < 65536 then [h0, b8 ((doMasking <<< 7) ||| 126)] ++ beBytes 2 length
    else [h0, b8 ((doMasking <<< 7) ||| 127)] ++ beBytes 8 length
  if doMasking = 1 then header ++ (maskKey ++ xorRange maskKey 0 length data)
  else header ++ data

/-! ### receive side -/

/-- `_readbuffer`, `_payload_head`, `connected` (`_readbuffer_head` is local to one `_recv_impl` call) -/
structure RecvSt where
  readbuffer : Bytes := []
  payloadHead : Nat := 0
  connected : Bool := true
  deriving DecidableEq, Repr

/-- what one `_recv_impl` call works on: `_readbuffer`, `_readbuffer_head`, the raw socket -/
structure Cur where
  buf : Bytes
  head : Nat
  q : List RecvItem
  deriving DecidableEq, Repr

/-- normal return / BlockingIOError / ConnectionError -/
inductive Step (α : Type) where
  | ok (a : α) (c : Cur)
  | block (c : Cur)
  | closed (c : Cur)

def Step.bind {α β : Type} (s : Step α) (f : α → Cur → Step β) : Step β :=
  match s with
  | .ok a c => f a c
  | .block c => .block c
  | .closed c => .closed c

/-- `_buffered_read(length)` -/
def bufferedRead (length : Nat) (c : Cur) : Step Bytes :=
  let wanted := length - (c.buf.length - c.head)
  if wanted > 0 then
    match recvN wanted c.q with
    | (.block, q) => .block { c with q := q }
    | (.closed, q) => .closed { c with q := q }          -- `if not data: raise ConnectionAbortedError`
    | (.error, q) => .closed { c with q := q }           -- ConnectionResetError from the socket
    | (.bytes d, q) =>
      if d.isEmpty then .closed { c with q := q }
      else
        let c := { c with buf := c.buf ++ d, q := q }
        if d.length < wanted then .block c
        else .ok ((c.buf.drop c.head).take length) { c with head := c.head + length }
  else .ok ((c.buf.drop c.head).take length) { c with head := c.head + length }

/-- the header fields `_recv_impl` extracts -/
structure Hdr where
  opcode : Nat
  plen : Nat
  key : Option Bytes
  deriving DecidableEq, Repr

/-- `if lengthbits == 0x7e: … elif lengthbits == 0x7f: …` -/
def readLen (lengthbits : Nat) (c : Cur) : Step Nat :=
  if lengthbits = 0x7e then (bufferedRead 2 c).bind fun v c => .ok (beNat v) c
  else if lengthbits = 0x7f then (bufferedRead 8 c).bind fun v c => .ok (beNat v) c
  else .ok lengthbits c

/-- `if maskbit: mask_key = self._buffered_read(4)` -/
def readKey (maskbit : Bool) (c : Cur) : Step (Option Bytes) :=
  if maskbit then (bufferedRead 4 c).bind fun k c => .ok (some k) c
  else .ok none c

/-- header1, header2, extended length, mask key -/
def readHeader (c : Cur) : Step Hdr :=
  (bufferedRead 1 c).bind fun h1 c =>
  (bufferedRead 1 c).bind fun h2 c =>
  let opcode := (h1.headD 0).toNat &&& 0x0f
  let maskbit := ((h2.headD 0).toNat &&& 0x80) == 0x80
  let lengthbits := (h2.headD 0).toNat &&& 0x7f
  (readLen lengthbits c).bind fun plen c =>
  (readKey maskbit c).bind fun key c =>
  .ok { opcode := opcode, plen := plen, key := key } c

inductive RecvRes where
  | data (b : Bytes)     -- bytes returned to the caller
  | wouldBlock           -- BlockingIOError
  | closed               -- b'' with `connected = False`
  deriving DecidableEq, Repr

/-- the payload step: (payload as the reply would carry it, result, new `_payload_head`) -/
def readPayload (h : Hdr) (start readindex : Nat) (c : Cur) : Step (Bytes × Bytes × Nat) :=
  if readindex > 0 then
    (bufferedRead readindex c).bind fun p c =>
      let p := match h.key with
        | some k => xorRange k start readindex p
        | none => p
      .ok (p, (p.drop start).take (readindex - start), readindex) c
  else .ok ([], [], start) c

/-- the replies sent on the raw socket when a frame has been consumed completely -/
def replies (opcode : Nat) (payload : Bytes) : List Bytes :=
  (if opcode = 8 then [createFrame 8 payload [] 0] else []) ++
  (if opcode = 9 then [createFrame 10 payload [] 0] else [])

/-- `_recv_impl(length)`: new state, rest of the socket queue, outcome, frames sent on the raw socket -/
def recvImpl (st : RecvSt) (q : List RecvItem) (length : Nat) : RecvSt × List RecvItem × RecvRes × List Bytes :=
  let start := st.payloadHead
  let endIdx := st.payloadHead + length
  match readHeader { buf := st.readbuffer, head := 0, q := q } with
  | .block c => ({ st with readbuffer := c.buf }, c.q, .wouldBlock, [])
  | .closed c => ({ st with readbuffer := c.buf, connected := false }, c.q, .closed, [])
  | .ok h c =>
    let readindex := if h.plen < endIdx then h.plen else endIdx
    match readPayload h start readindex c with
    | .block c => ({ st with readbuffer := c.buf }, c.q, .wouldBlock, [])
    | .closed c => ({ st with readbuffer := c.buf, connected := false }, c.q, .closed, [])
    | .ok (payload, result, ph) c =>
      let res := if (h.opcode = 2 ∨ h.opcode = 0) ∧ h.plen > 0 then RecvRes.data result else RecvRes.wouldBlock
      if readindex = h.plen then
        ({ st with readbuffer := [], payloadHead := 0 }, c.q, res, replies h.opcode payload)
      else
        ({ st with readbuffer := c.buf, payloadHead := ph }, c.q, res, [])

/-! ### send side -/

/-- `_sendbuffer`, `_requested_size` -/
structure SendSt where
  sendbuffer : Bytes := []
  requestedSize : Nat := 0
  deriving DecidableEq, Repr

/-- what the raw `self._socket.send(self._sendbuffer)` does: takes `k` bytes (at most the buffer), or raises
BlockingIOError (full non-blocking socket), or raises another OSError (EPIPE: the fake transport raises BrokenPipeError) -/
inductive SockSend where
  | accept (k : Nat)
  | wouldBlock
  | error
  deriving DecidableEq, Repr

/-- how `_send_impl` ends: `return n`, or the socket's exception propagates (`blocking`: it is a BlockingIOError) -/
inductive SendRes where
  | ret (n : Nat)
  | raised (blocking : Bool)
  deriving DecidableEq, Repr

/-- `_send_impl(data)`. Returns the new state, the bytes that went to the raw socket and the outcome.
When `socket.send` raises, the exception leaves `_send_impl` as it is: nothing is caught, so `_sendbuffer` and
`_requested_size` keep the values they have at that point — in particular, when the buffer was empty on entry the new
frame HAS been created and stored before the failing send, and the retry continues with that frame (and its mask key). -/
def sendImpl (st : SendSt) (data : Bytes) (maskKey : Bytes) (out : SockSend) : SendSt × Bytes × SendRes :=
  let st : SendSt :=
    if st.sendbuffer.length = 0 then
      { sendbuffer := st.sendbuffer ++ createFrame 2 data maskKey 1, requestedSize := data.length }
    else st
  match out with
  | .wouldBlock => (st, [], .raised true)
  | .error => (st, [], .raised false)
  | .accept accept =>
    let n := min accept st.sendbuffer.length
    let st' : SendSt := { st with sendbuffer := st.sendbuffer.drop n }
    (st', st.sendbuffer.take n, .ret (if st'.sendbuffer.length = 0 then st'.requestedSize else 0))

end Paho.Ws
