/-
Model of `Client._mid_generate` (the critical section under `_mid_generate_mutex`),
instantiated with the literals and comparator extracted from the source.
-/
import Paho.Gen.MidConsts
namespace Paho

/-- new value of `_last_mid` (which is also the value returned). -/
def midNext (last : Nat) : Nat :=
  let l := last + Gen.midIncr
  if Gen.midWrapCmp.evalNat l Gen.midWrap then Gen.midReset else l

/-- the sequence of ids returned by `n` consecutive allocations starting from `_last_mid = last`. -/
def midSeq : Nat → Nat → List Nat
  | _, 0 => []
  | last, n + 1 => midNext last :: midSeq (midNext last) n

end Paho
