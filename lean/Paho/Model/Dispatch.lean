/-
Model of `Client._handle_on_message` (per-topic callback dispatch) and of
`message_callback_add` / `message_callback_remove`.
Callbacks are identified by numbers; `onMessage : Option Nat` is the general `on_message` callback.
-/
import Paho.Model.Trie
import Paho.Model.Bytes
namespace Paho

structure Dispatch where
  filtered : Node Nat := Node.empty       -- `_on_message_filtered` (MQTTMatcher)
  onMessage : Option Nat := none

namespace Dispatch

/-- `message_callback_add(sub, callback)` -/
def add (d : Dispatch) (sub : Bytes) (cb : Nat) : Dispatch :=
  { d with filtered := d.filtered.insert (splitTopic sub) cb }

/-- `message_callback_remove(sub)` (KeyError is swallowed) -/
def remove (d : Dispatch) (sub : Bytes) : Dispatch :=
  match d.filtered.delete (splitTopic sub) with
  | some t => { d with filtered := t }
  | none => d

/-- the callbacks `_handle_on_message` invokes for a message with raw topic bytes `topic`, in order.
The list is computed (under `_callback_mutex`) before the first callback runs. -/
def invoked (d : Dispatch) (topic : Bytes) : List Nat :=
  if utf8Valid topic then
    let cbs := d.filtered.iterMatch topic
    if cbs.isEmpty then d.onMessage.toList else cbs
  else
    -- `message.topic` raises UnicodeDecodeError: no per-topic callback, on_message only
    d.onMessage.toList

end Dispatch
end Paho
