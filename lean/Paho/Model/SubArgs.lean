/-
Model of the argument normalisation of `subscribe()` and `unsubscribe()` (client.py), in source order, up to and
including the subscription-filter check: the calling conventions `subscribe("t", qos)`, `subscribe("t", options=o)`,
`subscribe(("t", qos))`, `subscribe(("t", o))`, `subscribe([("t", qos), ...])`, `subscribe([("t", o), ...])`
and `unsubscribe("t")`, `unsubscribe(["t", ...])`.

Strings are their UTF-8 byte lists. `ω` is the type of `SubscribeOptions` objects (opaque here: the
normalisation only tests `isinstance(x, SubscribeOptions)`). The literals and comparison operators come from the
source (`Paho.Gen.SubConsts`, regenerated on every run).
-/
import Paho.Gen.SubConsts
import Paho.Model.Validate
namespace Paho

/-- second component of a `(topic, x)` tuple: an `int` or a `SubscribeOptions` instance -/
inductive Second (ω : Type) where
  | int (q : Int)
  | opts (o : ω)
  deriving Repr

/-- dynamic shape of the `topic` argument of `subscribe()` -/
inductive TopicForm (ω : Type) where
  | str (t : Bytes)
  | tuple (t : Bytes) (x : Second ω)
  | list (l : List (Bytes × Second ω))
  | none                                    -- `None`, or any type other than str / tuple / list
  deriving Repr

/-- the `options=` argument: absent, a `SubscribeOptions` instance, or some other object -/
inductive OptArg (ω : Type) where
  | none
  | opts (o : ω)
  | other
  deriving Repr

/-- normalised second component of `topic_qos_list`: MQTT 3 always a QoS; MQTT 5 `qos q` stands for the
freshly built `SubscribeOptions(qos=q)` -/
inductive Entry (ω : Type) where
  | qos (q : Nat)
  | opts (o : ω)
  deriving Repr

/-- the options byte `_send_subscribe` writes for a normalised entry when a `SubscribeOptions` object is represented
by its packed byte (`ω := Nat`): the QoS itself (MQTT 3; `SubscribeOptions(qos=q).pack()` for MQTT 5), or that byte -/
def entryByte : Entry Nat → Nat
  | .qos q => q
  | .opts o => o

namespace Sub

/-- `qos < 0 or qos > 2` (string form) -/
def qosBadStr (q : Int) : Bool :=
  Gen.subQosStrLoCmp.evalInt q Gen.subQosStrLo || Gen.subQosStrHiCmp.evalInt q Gen.subQosStrHi

/-- `o < 0 or o > 2` (MQTT 5 list form, second component not a SubscribeOptions) -/
def qosBadL5 (q : Int) : Bool :=
  Gen.subQosL5LoCmp.evalInt q Gen.subQosL5Lo || Gen.subQosL5HiCmp.evalInt q Gen.subQosL5Hi

/-- `q < 0 or q > 2` (MQTT 3 list form) -/
def qosBadL3 (q : Int) : Bool :=
  Gen.subQosL3LoCmp.evalInt q Gen.subQosL3Lo || Gen.subQosL3HiCmp.evalInt q Gen.subQosL3Hi

/-- the `isinstance(topic, (bytes, str))` branch -/
def strBranch {ω : Type} (proto : Nat) (t : Bytes) (qos : Int) (options : OptArg ω) :
    Except Exc (List (Bytes × Entry ω)) :=
  if qosBadStr qos then .error .valueError
  else if proto = 5 then
    match options with
    | .none => .ok [(t, .qos qos.toNat)]
    | .opts o => if qos ≠ 0 then .error .valueError else .ok [(t, .opts o)]
    | .other => .error .valueError        -- `qos != 0` -> ValueError, else the isinstance test -> ValueError
  else if Gen.subStrEmptyCmp.evalNat t.length Gen.subStrEmptyLen then .error .valueError
  else .ok [(t, .qos qos.toNat)]

/-- the MQTT 5 loop over a list argument -/
def listV5 {ω : Type} : List (Bytes × Second ω) → Except Exc (List (Bytes × Entry ω))
  | [] => .ok []
  | (t, .opts o) :: r =>
    match listV5 r with
    | .ok r' => .ok ((t, .opts o) :: r')
    | .error e => .error e
  | (t, .int q) :: r =>
    if qosBadL5 q then .error .valueError
    else match listV5 r with
      | .ok r' => .ok ((t, .qos q.toNat) :: r')
      | .error e => .error e

/-- the MQTT 3 loop over a list argument -/
def listV3 {ω : Type} : List (Bytes × Second ω) → Except Exc (List (Bytes × Entry ω))
  | [] => .ok []
  | (_, .opts _) :: _ => .error .valueError
  | (t, .int q) :: r =>
    if qosBadL3 q then .error .valueError
    else if Gen.subL3EmptyCmp.evalNat t.length Gen.subL3EmptyLen then .error .valueError
    else match listV3 r with
      | .ok r' => .ok ((t, .qos q.toNat) :: r')
      | .error e => .error e

/-- everything before the filter check: builds `topic_qos_list` or raises -/
def collect {ω : Type} (proto : Nat) (topic : TopicForm ω) (qos : Int) (options : OptArg ω) :
    Except Exc (List (Bytes × Entry ω)) :=
  match topic with
  | .tuple t x =>
    if proto = 5 then
      match x with
      | .opts o => strBranch proto t qos (.opts o)       -- `topic, options = topic`
      | .int _ => .error .valueError                      -- not a SubscribeOptions instance
    else
      match x with
      | .int q => strBranch proto t q options             -- `topic, qos = topic`
      | .opts _ => .error .typeError                      -- `qos < 0` on a SubscribeOptions object
  | .str t => strBranch proto t qos options
  | .list l =>
    if Gen.subEmptyListCmp.evalNat l.length Gen.subEmptyListLen then .error .valueError
    else if proto = 5 then listV5 l else listV3 l
  | .none => .error .valueError

/-- `subscribe()` up to `if self._sock is None`: the list handed to `_send_subscribe`, or the exception -/
def normalize {ω : Type} (proto : Nat) (topic : TopicForm ω) (qos : Int) (options : OptArg ω) :
    Except Exc (List (Bytes × Entry ω)) :=
  match collect proto topic qos options with
  | .error e => .error e
  | .ok l => if l.any (fun e => !filterCheck e.1) then .error .valueError else .ok l

end Sub

/-- dynamic shape of the `topic` argument of `unsubscribe()` -/
inductive UnsubForm where
  | none
  | str (t : Bytes)
  | list (l : List Bytes)
  | other
  deriving Repr

/-- `unsubscribe()` up to `if self._sock is None`: the list handed to `_send_unsubscribe`, or the exception -/
def unsubNormalize : UnsubForm → Except Exc (List Bytes)
  | .none => .error .valueError
  | .str t => if Gen.unsubStrEmptyCmp.evalNat t.length Gen.unsubStrEmptyLen then .error .valueError else .ok [t]
  | .list l =>
    if Gen.unsubEmptyListCmp.evalNat l.length Gen.unsubEmptyListLen then .error .valueError
    else if l.any (fun t => Gen.unsubElemEmptyCmp.evalNat t.length Gen.unsubElemEmptyLen) then .error .valueError
    else .ok l
  | .other => .error .valueError

end Paho
