/-
Model of the packet encoders of client.py: `_send_connect`, `_send_publish`,
`_send_subscribe`, `_send_unsubscribe`, `_send_disconnect`, `_send_command_with_mid`,
`_send_simple_command`. Inputs are post-normalisation values (strings already
UTF-8 encoded). Output: the bytes appended to `_out_packet`, or the exception raised.
-/
import Paho.Model.Props
namespace Paho

def packProps (proto : Nat) (p : Option Props) : Except Exc Bytes :=
  if proto = 5 then
    match p with
    | none => .ok [0]
    | some q => q.pack
  else .ok []

structure Will where
  topic : Bytes
  payload : Bytes
  qos : Nat
  retain : Bool
  props : Option Props
  deriving Repr

structure ConnectArgs where
  proto : Nat
  bridge : Bool
  cleanFlag : Bool
  keepalive : Int
  clientId : Bytes
  will : Option Will
  username : Option Bytes
  password : Option Bytes
  props : Option Props
  deriving Repr

def boolBit (b : Bool) : Nat := if b then 1 else 0

/-- `_send_connect` -/
def encConnect (a : ConnectArgs) : Except Exc Bytes := do
  let protoName : Bytes := if a.proto ≥ 4 then [77, 81, 84, 84] else [77, 81, 73, 115, 100, 112]
  let flags0 : Nat := if a.cleanFlag then 0x02 else 0
  let flags1 : Nat := match a.will with
    | some w => flags0 ||| (0x04 ||| ((w.qos &&& 0x03) <<< 3) ||| ((boolBit w.retain &&& 0x01) <<< 5))
    | none => flags0
  let flags2 : Nat := match a.username with
    | some _ => (flags1 ||| 0x80) ||| (match a.password with | some _ => 0x40 | none => 0)
    | none => flags1
  let cprops ← packProps a.proto a.props
  let wprops ← match a.will with
    | some w => packProps a.proto w.props
    | none => pure []
  let rl : Nat := 2 + protoName.length + 1 + 1 + 2 + 2 + a.clientId.length
    + (match a.will with | some w => 2 + w.topic.length + 2 + w.payload.length | none => 0)
    + (match a.username with
        | some u => 2 + u.length + (match a.password with | some p => 2 + p.length | none => 0)
        | none => 0)
    + cprops.length + wprops.length
  let protoVer : Nat := if a.bridge then a.proto ||| 0x80 else a.proto
  let rlb ← remLenEncChecked rl
  let ka ← packU16 a.keepalive
  let hdr := [b8 0x10] ++ rlb
    ++ [b8 (protoName.length / 256), b8 (protoName.length % 256)] ++ protoName ++ [b8 protoVer, b8 flags2] ++ ka
  let cid ← str16 a.clientId
  let willPart ← match a.will with
    | some w => do
      let t ← str16 w.topic
      let p ← str16 w.payload
      pure (wprops ++ t ++ p)
    | none => pure []
  let userPart ← match a.username with
    | some u => do
      let ub ← str16 u
      let pb ← match a.password with
        | some p => str16 p
        | none => pure []
      pure (ub ++ pb)
    | none => pure []
  pure (hdr ++ cprops ++ cid ++ willPart ++ userPart)

/-- `_send_publish` (after the `_sock is None` test) -/
def encPublish (proto : Nat) (mid : Nat) (topic payload : Bytes) (qos : Nat) (retain dup : Bool)
    (props : Option Props) : Except Exc Bytes := do
  let command : Nat := 0x30 ||| ((boolBit dup &&& 0x1) <<< 3) ||| (qos <<< 1) ||| boolBit retain
  let pp ← packProps proto props
  let rl := 2 + topic.length + payload.length + (if qos > 0 then 2 else 0) + pp.length
  let rlb ← remLenEncChecked rl
  let t ← str16 topic
  let m ← if qos > 0 then packU16 mid else pure []
  pure ([b8 command] ++ rlb ++ t ++ m ++ pp ++ payload)

/-- `_send_command_with_mid(command, mid, dup)`: `struct.pack('!BBH', command, 2, mid)` -/
def encCmdMid (command : Nat) (mid : Int) (dup : Bool) : Except Exc Bytes := do
  let c := if dup then command ||| 0x8 else command
  let m ← packU16 mid
  pure ([b8 c, 2] ++ m)

def encPuback (mid : Int) := encCmdMid 0x40 mid false
def encPubrec (mid : Int) := encCmdMid 0x50 mid false
def encPubrel (mid : Int) := encCmdMid (0x60 ||| 2) mid false
def encPubcomp (mid : Int) := encCmdMid 0x70 mid false

/-- `_send_simple_command` -/
def encSimple (command : Nat) : Bytes := [b8 command, 0]
def encPingreq : Bytes := encSimple 0xC0
def encPingresp : Bytes := encSimple 0xD0

/-- `_send_disconnect(reasoncode, properties)`; the reason code is given by value -/
def encDisconnect (proto : Nat) (rc : Option Nat) (props : Option Props) : Except Exc Bytes := do
  if proto = 5 then
    match rc, props with
    | none, none => do let rlb ← remLenEncChecked 0; pure ([b8 0xE0] ++ rlb)
    | _, _ =>
      let r := rc.getD 0
      let pp ← match props with
        | some p => p.pack
        | none => pure []
      let rlb ← remLenEncChecked (1 + pp.length)
      pure ([b8 0xE0] ++ rlb ++ [b8 r] ++ pp)
  else do let rlb ← remLenEncChecked 0; pure ([b8 0xE0] ++ rlb)

/-- one SUBSCRIBE entry: filter + options byte (v5: `SubscribeOptions.pack()`, v3: the QoS) -/
def encSubEntries : List (Bytes × Nat) → Except Exc Bytes
  | [] => pure []
  | (t, o) :: rest => do
    let tb ← str16 t
    let r ← encSubEntries rest
    if o > 255 then .error .valueError else pure (tb ++ [b8 o] ++ r)

/-- `_send_subscribe(dup, topics, properties)` with the mid already allocated -/
def encSubscribe (proto : Nat) (mid : Nat) (topics : List (Bytes × Nat)) (props : Option Props) : Except Exc Bytes := do
  let pp ← packProps proto props
  let rl := 2 + pp.length + (topics.map (fun t => 2 + t.1.length + 1)).sum
  let rlb ← remLenEncChecked rl
  let m ← packU16 mid
  let body ← encSubEntries topics
  pure ([b8 (0x80 ||| 0x2)] ++ rlb ++ m ++ pp ++ body)

def encUnsubEntries : List Bytes → Except Exc Bytes
  | [] => pure []
  | t :: rest => do
    let tb ← str16 t
    let r ← encUnsubEntries rest
    pure (tb ++ r)

/-- `_send_unsubscribe` -/
def encUnsubscribe (proto : Nat) (mid : Nat) (topics : List Bytes) (props : Option Props) : Except Exc Bytes := do
  let pp ← packProps proto props
  let rl := 2 + pp.length + (topics.map (fun t => 2 + t.length)).sum
  let rlb ← remLenEncChecked rl
  let m ← packU16 mid
  let body ← encUnsubEntries topics
  pure ([b8 (0xA0 ||| 0x2)] ++ rlb ++ m ++ pp ++ body)

end Paho
