/-
`bytes.split(sep)` as used by the matcher (topic levels) and by the argument validation (filter levels).
Kept apart from both so that neither depends on the other's extracted constants.
-/
namespace Paho

abbrev Level := List UInt8

/-- `bytes.split(sep)` / `str.split(sep)` with a one-element separator:
always returns at least one level. -/
def splitOn (sep : UInt8) : List UInt8 → List Level
  | [] => [[]]
  | c :: cs =>
    if c = sep then [] :: splitOn sep cs
    else match splitOn sep cs with
      | [] => [[c]]          -- unreachable, splitOn is never empty
      | l :: ls => (c :: l) :: ls

end Paho
