/-
Model of the one-shot helpers' callback logic: `publish.py` (`_do_publish`, `_on_connect`, `_on_publish`)
and `subscribe.py` (`_on_connect`, `_on_message_simple`, `_on_message_callback`).
The network side (connection, acknowledgements) is the client's job (C01–C06); here it is abstracted to the
callback events a conforming, responsive broker causes.
-/
import Paho.Model.Bytes
namespace Paho.Helpers

structure Msg where
  topic : Bytes
  payload : Bytes
  qos : Nat
  retain : Bool
  deriving DecidableEq, Repr

/-- `publish.multiple`: `client._userdata` (a deque), what has been handed to `client.publish()` so far, and whether
`disconnect()` was called -/
structure PubSt where
  queue : List Msg
  published : List Msg := []
  disconnected : Bool := false
  deriving DecidableEq, Repr

/-- `_do_publish`: popleft + publish -/
def doPublish (s : PubSt) : PubSt :=
  match s.queue with
  | [] => s      -- (popleft on an empty deque would raise IndexError; guarded by the callers)
  | m :: rest => { s with queue := rest, published := s.published ++ [m] }

/-- `_on_connect(reason_code)` -/
def onConnect (s : PubSt) (rc : Nat) : Except Unit PubSt :=
  if rc = 0 then (if s.queue.length > 0 then .ok (doPublish s) else .ok s)
  else .error ()        -- raises MQTTException

/-- `_on_publish`: fires once per completed message -/
def onPublish (s : PubSt) : PubSt :=
  if s.queue.length = 0 then { s with disconnected := true } else doPublish s

/-- a conforming responsive broker: CONNACK accepted, then every published message completes (PUBACK / PUBREC+PUBCOMP /
QoS 0 written) before anything else happens: one `on_publish` per message handed to `publish()` -/
def runMultiple : (fuel : Nat) → PubSt → PubSt
  | 0, s => s
  | fuel + 1, s => if s.disconnected then s else runMultiple fuel (onPublish s)

def multiple (msgs : List Msg) : Option PubSt :=
  match onConnect { queue := msgs } 0 with
  | .ok s => some (runMultiple (msgs.length + 1) s)
  | .error _ => none

/-! ### subscribe.simple / subscribe.callback -/

structure InMsg where
  topic : Bytes
  payload : Bytes
  qos : Nat
  retain : Bool
  deriving DecidableEq, Repr

/-- `userdata` of `subscribe.simple`: `messages` is `None` (msg_count = 1) or a list -/
structure SubSt where
  retained : Bool
  msgCount : Nat
  single : Bool                    -- messages started as None
  messages : List InMsg := []      -- for `single`: holds at most the one message
  result : Option InMsg := none    -- `userdata['messages'] = message` in the msg_count == 1 form
  disconnected : Bool := false
  deriving DecidableEq, Repr

/-- `_on_message_simple` -/
def onMessageSimple (s : SubSt) (m : InMsg) : SubSt :=
  if s.msgCount = 0 then s
  else if m.retain ∧ !s.retained then s
  else
    let s := { s with msgCount := s.msgCount - 1 }
    if s.single ∧ s.result.isNone ∧ s.msgCount = 0 then
      { s with result := some m, disconnected := true }
    else
      let s := { s with messages := s.messages ++ [m] }
      if s.msgCount = 0 then { s with disconnected := true } else s

def simpleInit (msgCount : Nat) (retained : Bool) : SubSt :=
  { retained := retained, msgCount := msgCount, single := msgCount = 1 }

/-- all arrivals (messages delivered after disconnect() was called but before the connection is gone are still
passed to the callback, which ignores them) -/
def simple (msgCount : Nat) (retained : Bool) (arrivals : List InMsg) : SubSt :=
  arrivals.foldl onMessageSimple (simpleInit msgCount retained)

/-- the messages `simple` is specified to return -/
def keep (retained : Bool) (m : InMsg) : Bool := retained || !m.retain

end Paho.Helpers
