/-
Abstract, time-explicit model of `loop_forever()` / `_reconnect_wait()` / `should_exit()`:
the automatic-reconnection automaton over a script of per-attempt outcomes.
Time in milliseconds; delays in seconds as in the code (`reconnect_delay_set(min, max)`).
Keep-alive is off in this model (keepalive = 0): it is C08's subject.
-/
import Paho.Gen.Backoff
namespace Paho.LF

/-- where the application calls `disconnect()` during an attempt -/
structure DiscAt where
  inConnectFail : Bool := false
  inOnConnect : Bool := false
  inOnDisconnect : Bool := false
  /-- disconnect() is called from another thread while loop_forever() sleeps in the back-off wait that follows -/
  inWait : Bool := false
  /-- MQTT 5, accepted connections only: the connection is ended by a DISCONNECT packet from the server carrying this
  reason code (instead of by the peer closing the stream) -/
  srvDisc : Option Nat := none
  deriving DecidableEq, Repr

/-- scripted outcome of one connection attempt (times relative to the socket being opened) -/
inductive Outcome where
  | refuse (d : DiscAt)                                   -- the socket factory raises OSError
  | eof (t : Nat) (d : DiscAt)                            -- TCP accepted, closed by the peer after t ms, no CONNACK
  | connackRefused (rc : Nat) (t : Nat) (d : DiscAt)      -- CONNACK with rc ≠ 0 after t ms
  | accepted (t : Nat) (life : Nat) (d : DiscAt)          -- CONNACK rc = 0 after t ms; connection lost `life` ms later
  | downgrade (t : Nat)                                   -- MQTT 3.1.1 only: CONNACK rc = 1 after t ms → immediate retry as MQTT 3.1
  | preDisc                                               -- the application calls disconnect() inside on_pre_connect of this attempt
  deriving DecidableEq, Repr

inductive Obs where
  | attempt (at_ : Nat) (ok : Bool)
  | onConnectFail (at_ : Nat)
  | onConnect (rc : Nat) (at_ : Nat)
  | onDisconnect (rc : Nat) (at_ : Nat)
  | userDisconnect (at_ : Nat)      -- the application called disconnect() (inside a callback, or during a wait)
  | ret (rc : Int)
  | raised          -- the first attempt failed and retry_first_connection is off: OSError leaves loop_forever()
  | scriptEnd       -- the script is exhausted (the harness stops the run here)
  deriving DecidableEq, Repr

structure Cfg where
  minDelay : Nat := 1
  maxDelay : Nat := 120
  rof : Bool := true            -- reconnect_on_failure
  retryFirst : Bool := true     -- retry_first_connection
  proto : Nat := 4
  deriving Repr

structure St where
  now : Nat := 0
  delay : Option Nat := none    -- `_reconnect_delay`
  disconnected : Bool := false  -- state ∈ {DISCONNECTING, DISCONNECTED} (the application called disconnect())
  proto : Nat := 4
  log : List Obs := []
  deriving Repr

def St.emit (s : St) (o : Obs) : St := { s with log := s.log ++ [o] }

/-- `_reconnect_wait()`: next delay (initial `None` → min; else `min(delay * 2, max)`), then sleep it in
1-second slices unless the application has disconnected -/
def delayNext (c : Cfg) (d : Option Nat) : Nat :=
  match d with
  | none => c.minDelay
  | some x => Gen.backoffMinMax (x * Gen.backoffFactor) c.maxDelay

def reconnectWait (c : Cfg) (s : St) (inWait : Bool := false) : St :=
  let d := delayNext c s.delay
  let s := { s with delay := some d }
  if s.disconnected then s
  else if inWait then
    -- disconnect() from another thread during the wait: noticed when the current 1-second slice is over
    let s := { s with now := s.now + (min d 1) * 1000 }
    ({ s with disconnected := true }).emit (.userDisconnect s.now)
  else { s with now := s.now + d * 1000 }

/-- the `disconnect()` flags of a scripted outcome -/
def Outcome.disc : Outcome → DiscAt
  | .refuse d => d
  | .eof _ d => d
  | .connackRefused _ _ d => d
  | .accepted _ _ d => d
  | .downgrade _ => {}
  | .preDisc => {}

/-- phase 2 of `loop_forever` from the point where an attempt is about to be made (or, with `conn = some o`, where a
connection with scripted outcome `o` has just been opened at time `s.now`) -/
def connLife (c : Cfg) (s : St) (o : Outcome) : St × Int × Bool :=
  -- returns (state at the end of the connection, rc of the last _loop(), connection was a downgrade-replacement)
  match o with
  | .refuse _ => (s, 7, false)      -- not a connection
  | .eof t d =>
    let s := { s with now := s.now + t }
    let s := s.emit (.onDisconnect 7 s.now)
    let s := if d.inOnDisconnect then ({ s with disconnected := true }).emit (.userDisconnect s.now) else s
    (s, 7, false)
  | .connackRefused rc t d =>
    let s := { s with now := s.now + t }
    -- MQTT 5: result 1 is shown as reason code 132 (Unsupported protocol version)
    let s := s.emit (.onConnect (if s.proto = 5 ∧ rc = 1 then 132 else rc) s.now)
    let s := if d.inOnConnect then ({ s with disconnected := true }).emit (.userDisconnect s.now) else s
    -- _handle_connack returns CONN_REFUSED (1..5) / PROTOCOL; _loop_rc_handle closes and reports
    let code : Nat := if rc > 0 ∧ rc < 6 then 5 else 2
    let shown : Nat := if s.disconnected then 0 else code
    let s := s.emit (.onDisconnect shown s.now)
    let s := if d.inOnDisconnect then ({ s with disconnected := true }).emit (.userDisconnect s.now) else s
    (s, (if shown = 0 then 0 else code), false)
  | .accepted t life d =>
    let s := { s with now := s.now + t, delay := none }
    let s := s.emit (.onConnect 0 s.now)
    -- how the connection ends if the client does nothing: EOF (on_disconnect(7), _loop() returns CONN_LOST), or a server
    -- DISCONNECT (on_disconnect(reason), loop_read() finds the socket gone and returns NO_CONN)
    let (endShown, endRc) : Nat × Int :=
      match d.srvDisc with
      | some rc => if s.proto = 5 then (rc, 4) else (7, 7)
      | none => (7, 7)
    if d.inOnConnect then
      let s := ({ s with disconnected := true }).emit (.userDisconnect s.now)
      if s.proto = 5 ∧ d.srvDisc.isSome ∧ life = 0 then
        -- the server's DISCONNECT is already waiting: _loop() reads before it writes, so it is handled before the
        -- client's own queued DISCONNECT leaves; the user's disconnect() stands
        let s := s.emit (.onDisconnect endShown s.now)
        let s := if d.inOnDisconnect then s.emit (.userDisconnect s.now) else s
        (s, endRc, false)
      else
        -- DISCONNECT is queued inside the callback and written by the next _loop() iteration (no time passes)
        let s := s.emit (.onDisconnect 0 s.now)
        let s := if d.inOnDisconnect then s.emit (.userDisconnect s.now) else s
        (s, 7, false)
    else
      let s := { s with now := s.now + life }
      let s := s.emit (.onDisconnect endShown s.now)
      let s := if d.inOnDisconnect then ({ s with disconnected := true }).emit (.userDisconnect s.now) else s
      (s, endRc, false)
  | .downgrade t => ({ s with now := s.now + t }, 0, true)
  | .preDisc => (s, 7, false)       -- not a connection

/-- the whole `loop_forever()` over a script; `first = true` while the state is CONNECT_ASYNC (phase 1) -/
def run (c : Cfg) : (fuel : Nat) → (script : List Outcome) → (first : Bool) → St → St
  | 0, _, _, s => s.emit .scriptEnd
  | _, [], _, s => s.emit .scriptEnd
  | fuel + 1, o :: rest, first, s =>
    match o with
    | .refuse d =>
      let s := s.emit (.attempt s.now false)
      let s := s.emit (.onConnectFail s.now)
      let s := if d.inConnectFail then ({ s with disconnected := true }).emit (.userDisconnect s.now) else s
      if first ∧ !c.retryFirst then s.emit .raised
      else
        -- reconnect() has left MQTT_CS_CONNECT_ASYNC (state CONNECTING): the first loop ends, and the next
        -- _loop() finds no socket and returns CONN_LOST; then the usual exit test / back-off / retry
        if s.disconnected ∨ !c.rof then s.emit (.ret 7)
        else
          let s := reconnectWait c s d.inWait
          if s.disconnected then s.emit (.ret 7) else run c fuel rest false s
    | .downgrade t =>
      if s.proto = 4 ∧ c.rof then
        let s := s.emit (.attempt s.now true)
        -- in-handler reconnect(): no wait, delay register untouched
        let s := { s with now := s.now + t, proto := 3 }
        match rest with
        | .preDisc :: _ =>
          -- disconnect() inside on_pre_connect of the in-handler reconnect(): it returns MQTT_ERR_NO_CONN, which
          -- _handle_connack / loop_read() / _loop() hand back; the exit test ends loop_forever() with that code
          let s := ({ s with disconnected := true }).emit (.userDisconnect s.now)
          s.emit (.ret 4)
        | _ =>
          -- (a socket failure of this retry is reported like any failed attempt: the next item is handled as usual)
          run c fuel rest false s
      else if s.proto = 4 then
        -- MQTT 3.1.1 with reconnect_on_failure off: _handle_connack returns MQTT_ERR_PROTOCOL before any callback
        let s := s.emit (.attempt s.now true)
        let s := { s with now := s.now + t }
        let s := s.emit (.onDisconnect 2 s.now)
        s.emit (.ret 2)
      else
        -- not MQTT 3.1.1: an ordinary refused CONNACK (rc = 1)
        run c fuel (.connackRefused 1 t {} :: rest) first s
    | .preDisc =>
      -- disconnect() inside on_pre_connect: reconnect() returns MQTT_ERR_NO_CONN before it opens a socket (F37 repair);
      -- the next _loop() finds no socket, returns CONN_LOST, and the exit test ends loop_forever()
      let s := ({ s with disconnected := true }).emit (.userDisconnect s.now)
      s.emit (.ret 7)
    | o =>
      let s := s.emit (.attempt s.now true)
      let (s, rc, _) := connLife c s o
      if s.disconnected ∨ !c.rof then s.emit (.ret (if s.disconnected ∧ rc = 0 then 7 else rc))
      else
        let s := reconnectWait c s o.disc.inWait
        if s.disconnected then s.emit (.ret rc) else run c fuel rest false s

/-- enough fuel: every step consumes a script item or turns a `downgrade` into a `connackRefused` -/
def runScript (c : Cfg) (script : List Outcome) : St := run c (2 * script.length + 1) script true { proto := c.proto }

end Paho.LF
