/-
Prelude for the functions translated from Python by py/py2lean.py (Paho.Gen.Fn): the few Python operations the
translator maps to a helper rather than to a Lean operator. Each helper is total and NEVER returns a silently wrong
value: outside the domain in which it agrees with Python it fails with `.other` ("not modelled").
-/
import Paho.Model.Validate
namespace Paho.Py

/-- how one iteration of a translated `while True:` loop ends -/
inductive Ctl (σ ρ : Type) where
  | cont (s : σ)      -- fell off the end of the body: next iteration
  | brk (s : σ)       -- `break`
  | ret (r : ρ)       -- `return r`

/-- `bytes([x])` / `bytearray.append(x)`: ValueError unless 0 <= x < 256 -/
def byteOf (x : Int) : Except Exc UInt8 :=
  if 0 ≤ x ∧ x < 256 then .ok (UInt8.ofNat x.toNat) else .error .valueError

/-- `a | b` on non-negative ints -/
def bor (a b : Int) : Except Exc Int :=
  if 0 ≤ a ∧ 0 ≤ b then .ok ((a.toNat ||| b.toNat : Nat) : Int) else .error .other

/-- `a & b` on non-negative ints -/
def band (a b : Int) : Except Exc Int :=
  if 0 ≤ a ∧ 0 ≤ b then .ok ((a.toNat &&& b.toNat : Nat) : Int) else .error .other

/-- `a << k` on a non-negative int -/
def shl (a : Int) (k : Nat) : Except Exc Int :=
  if 0 ≤ a then .ok (a * 2 ^ k) else .error .other

/-- `a >> k` on a non-negative int -/
def shr (a : Int) (k : Nat) : Except Exc Int :=
  if 0 ≤ a then .ok (a / 2 ^ k) else .error .other

/-- `buffer[0]` of a bytes object: IndexError when empty -/
def first : List UInt8 → Except Exc Int
  | [] => .error .indexError
  | b :: _ => .ok (b.toNat : Int)

/-- an int-or-None attribute used as a number: TypeError when it is None -/
def optGet : Option Int → Except Exc Int
  | some v => .ok v
  | none => .error .typeError

/-- an object reference compared with `is` (a socket): an identifier, 0 = None -/
abbrev Ref := Int

/-- a user-callback attribute: installed or None -/
abbrev Fn := Bool

/-- what a translated method does to the client, one step at a time: a call of another method (by name, with its integer /
boolean arguments) or the assignment of an integer (enum member, timestamp) to an attribute -/
inductive MEff where
  | call (name : String) (args : List Int)
  | setInt (attr : String) (v : Int)
  deriving DecidableEq, Repr

end Paho.Py
