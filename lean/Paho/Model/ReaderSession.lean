/-
`loop_read()` at byte level: the resumable reader (`Paho.Model.Reader`) feeding the session
handlers (`Paho.Model.Session`). The socket's inbound side is a queue of `RecvItem`s.
-/
import Paho.Model.Reader
import Paho.Model.Session
namespace Paho

/-- session state + `_in_packet` + what the transport will deliver -/
structure SR where
  s : S
  r : RState := {}
  q : List RecvItem := []
  deriving Repr

/-- the session-level view of a decoded packet -/
def Parsed.toRx : Parsed → S.RxPkt
  | .connack sp result _ _ => .connack sp result
  | .publish dup qos retain topic mid _ payload => .publish { mid := mid, qos := qos, dup := dup, retain := retain, topic := topic, payload := payload }
  | .ack 4 mid _ _ => .puback mid
  | .ack 5 mid _ _ => .pubrec mid
  | .ack 6 mid _ _ => .pubrel mid
  | .ack 7 mid _ _ => .pubcomp mid
  | .ack _ _ _ _ => .badcmd
  | .suback mid codes _ => .suback mid (codes.headD 0)
  | .unsuback mid _ _ => .unsuback mid
  | .pingreq => .pingreq
  | .pingresp => .pingresp
  | .disconnect reason _ => .disconnect reason

namespace SR

/-- a new socket starts with an empty `_in_packet` and nothing to read -/
def syncConn (old : S) (x : SR) : SR :=
  if x.s.nconn ≠ old.nconn then { x with r := {}, q := [] } else x

/-- body of the `for _ in range(max_packets)` loop of `loop_read` -/
def loopReadIter : (fuel : Nat) → SR → (reconnectOk : Bool) → SR × S.HRes
  | 0, x, _ =>
    -- packet budget used up: NO_CONN if the last packet handled closed the connection
    (match x.s.sock with
     | none => (x, .rc rcNoConn)
     | some _ => (x, .rc rcSuccess))
  | fuel + 1, x, ok =>
    match x.s.sock with
    | none => (x, .rc rcNoConn)
    | some _ =>
      let (r, q, out) := packetRead x.r x.q
      let x := { x with r := r, q := q }
      match out with
      | .again => (x, .rc rcSuccess)
      | .againBusy => ({ x with s := { x.s with lastIn := x.s.now } }, .rc rcSuccess)
      | .connLost =>
        let (s, rc) := x.s.loopRcHandle rcConnLost
        ({ x with s := s }, .rc rc)
      | .protocol =>
        let (s, rc) := x.s.loopRcHandle rcProtocol
        ({ x with s := s }, .rc rc)
      | .complete cmd body =>
        let old := x.s
        -- `_packet_handle()`; `_in_packet` is reset in the `finally`
        match parseBody x.s.proto cmd body with
        | .raised e => ({ x with r := {} }, .raised (match e with
            | .keyError => "KeyError" | .valueError => "ValueError" | .structError => "struct.error"
            | .indexError => "IndexError" | .mqttException => "MQTTException" | .malformedPacket => "MalformedPacket"
            | .unicodeError => "UnicodeDecodeError" | .typeError => "TypeError" | .assertionError => "AssertionError"
            | .runtimeError => "RuntimeError" | .other => "other"))
        | .rc c =>
          let s := { x.s with lastIn := x.s.now }
          let (s, rc) := s.loopRcHandle c
          ({ x with s := s, r := {} }, .rc rc)
        | .ok p =>
          match x.s.packetHandle p.toRx ok with
          | (s, .raised n) => (syncConn old { x with s := s, r := {} }, .raised n)
          | (s, .rc rc) =>
            let s := { s with lastIn := s.now }
            let x := syncConn old { x with s := s, r := {} }
            if rc > 0 then
              let (s, rc) := x.s.loopRcHandle rc
              ({ x with s := s }, .rc rc)
            else if rc = rcAgain then (x, .rc rcSuccess)
            else loopReadIter fuel x ok

/-- `loop_read()` -/
def loopRead (x : SR) (ok : Bool := true) : SR × S.HRes :=
  match x.s.sock with
  | none => (x, .rc rcNoConn)
  | some _ =>
    let maxPackets := max 1 (x.s.out.length + x.s.inm.length)
    loopReadIter maxPackets x ok

end SR
end Paho
