/-
The MQTT packet reader over the WebSocket transport: `Client._packet_read` when `self._sock` is the
`_WebsocketWrapper` (transport="websockets"). `_sock_recv(n)` is `self._sock.recv(n)` = `_recv_impl(n)`:
* bytes            -> the reader consumes them;
* BlockingIOError  -> `_packet_read` returns MQTT_ERR_AGAIN (also when the wrapper only consumed a control frame);
* b'' (the wrapper caught a ConnectionError and set `connected = False`) -> `len(...) == 0` -> MQTT_ERR_CONN_LOST.

`packetReadOn recv` is `packetRead` (Paho.Model.Reader) with the socket abstracted to any transport
`recv : Nat → τ → RecvRes × τ`; `packetRead = packetReadOn recvN` is proved in
PahoProofs/Properties/C05WsReader.lean (`packetReadOn_recvN`). `drainOn` is the pump `drain` of C05 over such a
transport. Core Lean only.
-/
import Paho.Model.Reader
import Paho.Model.Ws
namespace Paho

section generic
variable {τ : Type} (recv : Nat → τ → RecvRes × τ)

/-- phase 3 over an abstract transport (same text as `readBody`) -/
def readBodyOn : (count : Nat) → RState → τ → RState × τ × ReadOut
  | 0, r, t => (r, t, .again)
  | count + 1, r, t =>
    if r.toProcess = 0 then (r, t, .complete r.command r.packet)
    else
      match recv r.toProcess t with
      | (.block, t) => (r, t, .again)
      | (.closed, t) | (.error, t) => (r, t, .connLost)
      | (.bytes d, t) =>
        if d.isEmpty then (r, t, .connLost)
        else
          let r := { r with toProcess := r.toProcess - d.length, packet := r.packet ++ d }
          if count = 0 then (r, t, .againBusy)
          else readBodyOn count r t

/-- phase 2 over an abstract transport (same text as `readRemLen`) -/
def readRemLenOn : (fuel : Nat) → RState → τ → RState × τ × Option ReadOut
  | 0, r, t => (r, t, some .protocol)
  | fuel + 1, r, t =>
    match recv 1 t with
    | (.block, t) => (r, t, some .again)
    | (.closed, t) | (.error, t) => (r, t, some .connLost)
    | (.bytes d, t) =>
      match d with
      | [] => (r, t, some .connLost)
      | byte :: _ =>
        let r := { r with remCount := r.remCount + 1 }
        if Gen.rlMaxBytesCmp.evalNat r.remCount Gen.rlMaxBytes then (r, t, some .protocol)
        else
          let r := { r with remLen := r.remLen + (byte.toNat &&& 127) * r.remMult, remMult := r.remMult * 128 }
          if byte.toNat &&& 128 = 0 then
            ({ r with haveRemaining := true, toProcess := r.remLen }, t, none)
          else readRemLenOn fuel r t

/-- `_packet_read()` over an abstract transport (same text as `packetRead`) -/
def packetReadOn (r : RState) (t : τ) : RState × τ × ReadOut :=
  let p1 : RState × τ × Option ReadOut :=
    if r.command = 0 then
      match recv 1 t with
      | (.block, t) => (r, t, some .again)
      | (.closed, t) | (.error, t) => (r, t, some .connLost)
      | (.bytes d, t) =>
        match d with
        | [] => (r, t, some .connLost)
        | c :: _ =>
          if c.toNat = 0 then (r, t, some .protocol) else ({ r with command := c.toNat }, t, none)
    else (r, t, none)
  match p1 with
  | (r, t, some out) => (r, t, out)
  | (r, t, none) =>
    let p2 : RState × τ × Option ReadOut :=
      if !r.haveRemaining then readRemLenOn recv 6 r t else (r, t, none)
    match p2 with
    | (r, t, some out) => (r, t, out)
    | (r, t, none) => readBodyOn recv Gen.readLoopMax r t

/-- how a sequence of `_packet_read()` calls ends (`DrainEnd` of C05) -/
inductive PumpEnd where
  | idle | connLost | protocol
  deriving DecidableEq, Repr

/-- the pump of C05 (`drain`) over an abstract transport; `idle t`: nothing can come out of the transport any more.
Returns the packets handed to `_packet_handle`, the reader state, the transport state and how it ended. -/
def drainOn (idle : τ → Bool) : (fuel : Nat) → RState → τ → List (Nat × Bytes) →
    List (Nat × Bytes) × RState × τ × PumpEnd
  | 0, r, t, acc => (acc, r, t, .idle)
  | fuel + 1, r, t, acc =>
    if idle t = true ∧ ¬ (r.haveRemaining ∧ r.toProcess = 0) then (acc, r, t, .idle)
    else
      match packetReadOn recv r t with
      | (r, t, .again) => if idle t then (acc, r, t, .idle) else drainOn idle fuel r t acc
      | (r, t, .againBusy) => drainOn idle fuel r t acc
      | (r, t, .connLost) => (acc, r, t, .connLost)
      | (r, t, .protocol) => (acc, r, t, .protocol)
      | (_, t, .complete cmd body) => drainOn idle fuel {} t (acc ++ [(cmd, body)])

end generic

/-! ### the WebSocket transport -/

/-- the wrapper, its raw socket, and everything the wrapper wrote to the raw socket (PONG / CLOSE replies) -/
structure WsT where
  st : Ws.RecvSt := {}
  q : List RecvItem := []
  sent : List Bytes := []
  deriving DecidableEq, Repr

/-- `self._sock.recv(n)` with `self._sock` the `_WebsocketWrapper`, as `_sock_recv` / `_packet_read` see it -/
def wsRecv (n : Nat) (t : WsT) : RecvRes × WsT :=
  match Ws.recvImpl t.st t.q n with
  | (st, q, res, s) =>
    let t' : WsT := { st := st, q := q, sent := t.sent ++ s }
    match res with
    | .data b => (.bytes b, t')          -- (b'' only for n = 0; the reader then reports CONN_LOST, as the code does)
    | .wouldBlock => (.block, t')
    | .closed => (.closed, t')           -- b'' with `connected = False`

/-- raw socket empty and nothing buffered in the wrapper -/
def wsIdle (t : WsT) : Bool := t.q.isEmpty && t.st.readbuffer.isEmpty

def packetReadWs (r : RState) (t : WsT) : RState × WsT × ReadOut := packetReadOn wsRecv r t

def drainWs (fuel : Nat) (r : RState) (t : WsT) (acc : List (Nat × Bytes)) :
    List (Nat × Bytes) × RState × WsT × PumpEnd := drainOn wsRecv wsIdle fuel r t acc

end Paho
