/-
Composition of the two layers of the outgoing path over WebSockets (C06): the client's packet queue and
`_packet_write()` (client.py) on top of `_WebsocketWrapper._send_impl` (Paho.Model.Ws.sendImpl).

`_packet_queue` appends `{packet, pos = 0, to_process = len(packet)}` to `_out_packet`; `_packet_write()` loops:
popleft, `write_length = sock.send(packet[pos:])`; BlockingIOError -> appendleft, return AGAIN; other OSError ->
appendleft, return CONN_LOST; `write_length > 0` -> `to_process -= n; pos += n`, done when `to_process == 0` else
appendleft and go round again; `write_length == 0` -> appendleft, break (F8 repair). The callbacks and the DISCONNECT
special case do not touch the bytes and are left to the session model.

Ghost fields (`enq`, `done`, `frames`) record the history the theorems speak about; they influence nothing.
-/
import Paho.Model.Ws
namespace Paho.WsW
open Paho Paho.Ws

/-- an entry of `_out_packet` -/
structure Pkt where
  bytes : Bytes
  pos : Nat
  toProcess : Int
  deriving DecidableEq, Repr

structure St where
  queue : List Pkt := []
  ws : SendSt := {}
  wire : Bytes := []          -- what the raw socket accepted, in order
  nkeys : Nat := 0            -- number of `os.urandom(4)` draws so far (the harness makes the i-th draw `keyOf i`)
  enq : List Bytes := []      -- ghost: packets appended, oldest first
  done : List Bytes := []     -- ghost: packets popped for good (completely written), oldest first
  frames : List Bytes := []   -- ghost: the frames the wrapper created, oldest first
  deriving Repr

/-- how `_packet_write()` returns (`stuck`: the model's fuel ran out - never, see `wsw_never_stuck`) -/
inductive WRes where
  | success | again | connLost | stuck
  deriving DecidableEq, Repr

/-- the deterministic `os.urandom(4)` of the harness -/
def keyOf (i : Nat) : Bytes := [b8 (17 * i + 1), b8 (29 * i + 2), b8 (101 * i + 3), b8 (7 * i + 4)]

/-- `_packet_queue` (the append) -/
def enqueue (s : St) (p : Bytes) : St :=
  { s with queue := s.queue ++ [{ bytes := p, pos := 0, toProcess := p.length }], enq := s.enq ++ [p] }

/-- one iteration of the `while True` of `_packet_write()`; `some r`: the call returns `r`, `none`: next iteration -/
def iter (s : St) (out : SockSend) : St × Option WRes :=
  match s.queue with
  | [] => (s, some .success)
  | p :: rest =>
    let data := p.bytes.drop p.pos
    let fresh := s.ws.sendbuffer.length = 0
    let key := keyOf s.nkeys
    let r := sendImpl s.ws data key out
    let s1 : St := { s with ws := r.1, wire := s.wire ++ r.2.1,
                            nkeys := if fresh then s.nkeys + 1 else s.nkeys,
                            frames := if fresh then s.frames ++ [createFrame 2 data key 1] else s.frames }
    match r.2.2 with
    | .raised true => (s1, some .again)
    | .raised false => (s1, some .connLost)
    | .ret n =>
      if n > 0 then
        let p' : Pkt := { p with toProcess := p.toProcess - n, pos := p.pos + n }
        if p'.toProcess = 0 then ({ s1 with queue := rest, done := s1.done ++ [p.bytes] }, none)
        else ({ s1 with queue := p' :: rest }, none)
      else (s1, some .success)

/-- what the raw socket does once the script is used up: it takes everything -/
def acceptAll : SockSend := .accept (2 ^ 64)

/-- `_packet_write()`: `outs` scripts the raw socket for the first iterations -/
def packetWrite : Nat → St → List SockSend → St × WRes
  | 0, s, _ => (s, .stuck)
  | fuel + 1, s, outs =>
    match iter s (outs.headD acceptAll) with
    | (s', some r) => (s', r)
    | (s', none) => packetWrite fuel s' outs.tail

inductive Op where
  | enq (p : Bytes)
  | write (outs : List SockSend)
  deriving Repr

def fuelFor (s : St) (outs : List SockSend) : Nat := outs.length + s.queue.length + 2

def step (s : St) : Op → St × Option WRes
  | .enq p => (enqueue s p, none)
  | .write outs => let r := packetWrite (fuelFor s outs) s outs; (r.1, some r.2)

def run (s : St) (ops : List Op) : St := ops.foldl (fun s op => (step s op).1) s

end Paho.WsW
