/-
Executable model of the client's session layer (client.py), single-threaded, manual
network loop (`loop_read` / `loop_write` / `loop_misc` called by the application),
under a scripted transport. One Lean function per Python method, following the
statement order of the source; observable events are appended to the monotone log
`S.log`.

Time is in milliseconds. Packets put on the wire are the real encodings
(`Paho.Model.Codec`), so byte counts under partial writes are the real ones.
-/
import Paho.Gen.Keepalive
import Paho.Model.Codec
import Paho.Model.Mid
namespace Paho

inductive ConnState where
  | new | connectAsync | connecting | connected | connectionLost | disconnecting | disconnected
  deriving DecidableEq, Repr

inductive MS where
  | invalid | publish | waitPuback | waitPubrec | resendPubrel | waitPubrel | resendPubcomp
  | waitPubcomp | sendPubrec | queued
  deriving DecidableEq, Repr

/-- MQTTErrorCode values used by the model -/
abbrev RC := Int
def rcAgain : RC := -1
def rcSuccess : RC := 0
def rcProtocol : RC := 2
def rcNoConn : RC := 4
def rcConnRefused : RC := 5
def rcConnLost : RC := 7
def rcQueueSize : RC := 15
def rcKeepalive : RC := 16

structure OutMsg where
  mid : Nat
  qos : Nat
  state : MS
  dup : Bool
  retain : Bool
  topic : Bytes
  payload : Bytes
  info : Nat            -- index of its MQTTMessageInfo (= ghost instance id)
  deriving DecidableEq, Repr

structure InMsg where
  mid : Nat
  qos : Nat
  dup : Bool
  retain : Bool
  topic : Bytes
  payload : Bytes
  deriving DecidableEq, Repr

structure OutPkt where
  command : Nat
  mid : Nat
  qos : Nat
  pos : Nat
  bytes : Bytes
  info : Option Nat
  deriving DecidableEq, Repr

structure Info where
  rc : RC
  published : Bool
  deriving DecidableEq, Repr

inductive SendDir where
  | accept (k : Nat) | block | error
  deriving DecidableEq, Repr

/-- observable events -/
inductive Ev where
  | tx (conn : Nat) (bytes : Bytes)
  | sopen (conn : Nat)                        -- a transport socket was created
  | sclose (conn : Nat) (replaced : Bool)     -- the transport socket is really closed; `replaced`: by connect()/reconnect()
  | queued (conn : Nat) (bytes : Bytes)       -- ghost: a packet was appended to `_out_packet` while `conn` was open
  | qPublish (conn : Nat) (uid : Nat) (mid : Nat) (qos : Nat) (dup : Bool)   -- ghost: PUBLISH of message instance `uid` handed to `conn`
  | qPubrel (conn : Nat) (uid : Nat) (mid : Nat)                              -- ghost: PUBREL of instance `uid` handed to `conn`
  | completed (uid : Nat) (mid : Nat)         -- ghost: the final acknowledgement of instance `uid` was processed (with on_publish)
  | skOpen (conn : Nat) | skClose (conn : Nat) | skRegW (conn : Nat) | skUnregW (conn : Nat)
  | onPreConnect
  | onConnect (rc : Nat) (sp : Bool)
  | onConnectFail
  | onDisconnect (rc : Nat) (fromBroker : Bool)
  | onPublish (mid : Nat)
  | onMessage (m : InMsg)
  | onSubscribe (mid : Nat) (code : Nat)
  | onUnsubscribe (mid : Nat)
  | infoDone (idx : Nat) (rc : RC)            -- MQTTMessageInfo marked as published
  | ret (rc : RC) (mid : Option Nat)
  | exc (name : String)
  | deadlock (lock : String)
  | fuelOut
  deriving DecidableEq, Repr

structure Cfg where
  clean : Nat := 1          -- v3: clean_session (0/1); v5: clean_start (0, 1, 3 = first only)
  maxInflight : Nat := 20
  maxQueued : Nat := 0
  manualAck : Bool := false
  rof : Bool := true        -- reconnect_on_failure
  ext : Bool := false       -- external event loop: the four socket callbacks installed
  keepalive : Nat := 60     -- seconds
  suppress : Bool := false  -- suppress_exceptions
  clientId : Bytes := [99, 105, 100]   -- "cid"
  deriving Repr

structure S where
  cfg : Cfg
  proto : Nat
  hostSet : Bool
  cstate : ConnState
  sock : Option Nat
  nconn : Nat
  lastMid : Nat
  out : List OutMsg
  inm : List InMsg
  inflight : Int
  outq : List OutPkt
  regWrite : Bool
  firstConnect : Bool
  inCb : Bool
  pingT : Nat
  lastIn : Nat
  lastOut : Nat
  now : Nat
  reconnectDelay : Option Nat
  sendScript : List SendDir
  infos : List Info
  raiseOnMessage : Nat
  ackd : Bool           -- ghost: a CONNACK accepted the connection held in `sock`
  discCalled : Bool     -- ghost: disconnect() was called on the connection held in `sock`
  log : List Ev
  deriving Repr

def S.init (cfg : Cfg) (proto : Nat) (t0 : Nat) : S :=
  { cfg := cfg, proto := proto, hostSet := false, cstate := .new, sock := none, nconn := 0,
    lastMid := Gen.midInit, out := [], inm := [], inflight := 0, outq := [], regWrite := false,
    firstConnect := true, inCb := false, pingT := 0, lastIn := t0, lastOut := t0, now := t0,
    reconnectDelay := none, sendScript := [], infos := [], raiseOnMessage := 0, ackd := false,
    discCalled := false, log := [] }

namespace S

def emit (s : S) (e : Ev) : S := { s with log := s.log ++ [e] }

def wantWrite (s : S) : Bool := !s.outq.isEmpty

def isConnected (s : S) : Bool := s.cstate = .connected

def setInfo (s : S) (i : Nat) (f : Info → Info) : S :=
  { s with infos := s.infos.modify i f }

def disconnectingOrDone (s : S) : Bool := s.cstate = .disconnecting || s.cstate = .disconnected

/-- `_call_socket_register_write` -/
def callSocketRegisterWrite (s : S) : S :=
  match s.sock with
  | none => s
  | some c =>
    if s.regWrite then s
    else
      let s := { s with regWrite := true }
      if s.cfg.ext then s.emit (.skRegW c) else s

/-- `_call_socket_unregister_write(sock)` with the socket given explicitly or the current one -/
def callSocketUnregisterWrite (s : S) (sock : Option Nat) : S :=
  match (sock.or s.sock) with
  | none => s
  | some c =>
    if !s.regWrite then s
    else
      let s := { s with regWrite := false }
      if s.cfg.ext then s.emit (.skUnregW c) else s

/-- `_sock_close`; `replaced` (ghost) records that the caller is connect()/reconnect() replacing the connection -/
def sockClose (s : S) (replaced : Bool := false) : S :=
  match s.sock with
  | none => s
  | some c =>
    let s := { s with sock := none, ackd := false, discCalled := false }
    let s := s.callSocketUnregisterWrite (some c)
    -- _call_socket_close: `with self._in_callback_mutex` (blocking) around the callback
    let s := if s.cfg.ext then (if s.inCb then s.emit (.deadlock "_in_callback_mutex") else s.emit (.skClose c)) else s
    s.emit (.sclose c replaced)

/-- `_do_on_disconnect` (callback API v1: the client-generated result code is passed as is) -/
def doOnDisconnect (s : S) (rc : RC) (fromBroker : Bool) : S :=
  s.emit (.onDisconnect rc.toNat fromBroker)

/-- `_loop_rc_handle(rc)` -/
def loopRcHandle (s : S) (rc : RC) : S × RC :=
  if rc ≠ 0 then
    if s.sock.isNone then (s, rc)      -- already closed and reported while the packet was handled
    else
    let s := s.sockClose
    if s.disconnectingOrDone then
      let s := { s with cstate := .disconnected }
      (s.doOnDisconnect rcSuccess false, rcSuccess)
    else
      let s := { s with cstate := .connectionLost }
      (s.doOnDisconnect rc false, rc)
  else (s, rc)

/-- outcome of one `send()` on the scripted transport: (directive consumed, result) -/
def nextSend (s : S) (len : Nat) : S × SendDir :=
  match s.sendScript with
  | [] => (s, .accept len)
  | d :: rest => ({ s with sendScript := rest }, d)

/-- `_packet_write` -/
def packetWrite : (fuel : Nat) → S → S × RC
  | 0, s => (s.emit .fuelOut, rcSuccess)
  | fuel + 1, s =>
    match s.outq with
    | [] => (s, rcSuccess)
    | pkt :: rest =>
      let s := { s with outq := rest }
      let data := pkt.bytes.drop pkt.pos
      let (s, d) := s.nextSend data.length
      match d with
      | .block =>
        -- _sock_send: BlockingIOError -> _call_socket_register_write(); re-queue; MQTT_ERR_AGAIN
        let s := s.callSocketRegisterWrite
        ({ s with outq := pkt :: s.outq }, rcAgain)
      | .error =>
        ({ s with outq := pkt :: s.outq }, rcConnLost)
      | .accept k =>
        let k := min k data.length
        if k > 0 then
          let s : S := match s.sock with
            | some c => s.emit (.tx c (data.take k))
            | none => s
          let pkt := { pkt with pos := pkt.pos + k }
          if pkt.pos = pkt.bytes.length then
            let s : S :=
              if pkt.command &&& 0xF0 = 0x30 ∧ pkt.qos = 0 then
                let s := s.emit (.onPublish pkt.mid)
                match pkt.info with
                | some i => (s.setInfo i (fun x => { x with published := true })).emit (.infoDone i ((s.infos[i]?.map (·.rc)).getD 0))
                | none => s.emit (.exc "AttributeError")
              else s
            if pkt.command &&& 0xF0 = 0xE0 then
              let s : S := { s with lastOut := s.now }
              let s : S := s.sockClose
              let s := if s.cstate = .disconnecting then { s with cstate := .disconnected } else s
              let s := s.doOnDisconnect rcSuccess false
              (s, rcSuccess)
            else packetWrite fuel s
          else
            packetWrite fuel { s with outq := pkt :: s.outq }
        else
          ({ s with outq := pkt :: s.outq, lastOut := s.now }, rcSuccess)

def writeFuel (s : S) : Nat := 2 * (s.outq.length + s.sendScript.length) + 8

/-- `loop_write` -/
def loopWrite (s : S) : S × RC :=
  match s.sock with
  | none => (s, rcNoConn)
  | some _ =>
    let (s, rc) := s.packetWrite s.writeFuel
    let (s, rc) :=
      if rc = rcAgain then (s, rcSuccess)
      else if rc > 0 then s.loopRcHandle rc
      else (s, rcSuccess)
    -- finally:
    let s := if s.wantWrite then s.callSocketRegisterWrite else s.callSocketUnregisterWrite none
    (s, rc)

/-- `_packet_queue`; `direct = false` models a caller holding `_in_callback_mutex` -/
def packetQueue (s : S) (pkt : OutPkt) (direct : Bool := true) : S × RC :=
  let s := { s with outq := s.outq ++ [pkt] }
  let s := match s.sock with
    | some c => s.emit (.queued c pkt.bytes)
    | none => s
  if !s.cfg.ext ∧ direct ∧ !s.inCb then s.loopWrite
  else (s.callSocketRegisterWrite, rcSuccess)

def mkPkt (command mid qos : Nat) (bytes : Bytes) (info : Option Nat := none) : OutPkt :=
  { command := command, mid := mid, qos := qos, pos := 0, bytes := bytes, info := info }

/-- `_send_publish` -/
def sendPublish (s : S) (mid : Nat) (topic payload : Bytes) (qos : Nat) (retain dup : Bool)
    (info : Option Nat) (direct : Bool := true) (uid : Option Nat := none) : S × RC :=
  match s.sock with
  | none => (s, rcNoConn)
  | some c =>
    match encPublish s.proto mid topic payload qos retain dup none with
    | .error _ => (s.emit (.exc "encode"), rcSuccess)
    | .ok bytes =>
      let s := match uid with
        | some u => s.emit (.qPublish c u mid qos dup)
        | none => s
      s.packetQueue (mkPkt 0x30 mid qos bytes info) direct

def sendCmdMid (s : S) (command : Nat) (mid : Nat) (direct : Bool := true) : S × RC :=
  match encCmdMid command mid false with
  | .error _ => (s.emit (.exc "struct.error"), rcSuccess)
  | .ok bytes => s.packetQueue (mkPkt command mid 1 bytes) direct

def sendPuback (s : S) (mid : Nat) := s.sendCmdMid 0x40 mid
def sendPubrec (s : S) (mid : Nat) := s.sendCmdMid 0x50 mid
def sendPubrel (s : S) (mid : Nat) (direct : Bool := true) : S × RC :=
  let s := match s.sock, s.out.find? (·.mid = mid) with
    | some c, some m => s.emit (.qPubrel c m.info mid)
    | _, _ => s
  s.sendCmdMid 0x62 mid direct
def sendPubcomp (s : S) (mid : Nat) := s.sendCmdMid 0x70 mid

def sendSimple (s : S) (command : Nat) : S × RC :=
  s.packetQueue (mkPkt command 0 0 (encSimple command))

/-- `_check_clean_session` -/
def checkCleanSession (s : S) : Bool :=
  if s.proto = 5 then
    if s.cfg.clean = 3 then s.firstConnect else s.cfg.clean = 1
  else s.cfg.clean = 1

/-- the CONNECT clean flag as computed by `_send_connect` -/
def connectCleanFlag (s : S) : Bool :=
  if s.proto = 5 then
    s.cfg.clean = 1 || (s.cfg.clean = 3 && s.firstConnect)
  else s.cfg.clean = 1

/-- `_send_connect` -/
def sendConnect (s : S) : S × RC :=
  let a : ConnectArgs :=
    { proto := s.proto
      bridge := false
      cleanFlag := s.connectCleanFlag
      keepalive := (s.cfg.keepalive : Int)
      clientId := s.cfg.clientId
      will := none
      username := none
      password := none
      props := none }
  match encConnect a with
  | .error _ => (s.emit (.exc "encode"), rcSuccess)
  | .ok bytes => s.packetQueue (mkPkt 0x10 0 0 bytes)

/-- one message of `_messages_reconnect_reset_out` -/
def resetOutMsg (clean : Bool) (m : OutMsg) : OutMsg :=
  if m.qos = 0 then { m with state := .publish }
  else if m.qos = 1 then
    { m with dup := if m.state = .waitPuback then true else m.dup, state := .publish }
  else if m.qos = 2 then
    if clean then
      { m with dup := if m.state ≠ .publish ∧ m.state ≠ .queued then true else m.dup, state := .publish }
    else if m.state = .waitPubcomp ∨ m.state = .resendPubrel then { m with state := .resendPubrel }
    else { m with dup := if m.state = .waitPubrec then true else m.dup, state := .publish }
  else m

/-- `_messages_reconnect_reset_out`: the in-flight counter is zeroed and (the increments
being commented out in the source) stays zero, so the window test always succeeds -/
def messagesReconnectResetOut (s : S) : S :=
  { s with inflight := 0, out := s.out.map (resetOutMsg s.checkCleanSession) }

/-- `_messages_reconnect_reset_in` -/
def messagesReconnectResetIn (s : S) : S :=
  if s.checkCleanSession then { s with inm := [] }
  else { s with inm := s.inm.filter (·.qos = 2) }

/-- QoS 0 PUBLISH packets still queued are marked lost (`reconnect()`) -/
def failQueuedQos0 (s : S) : List OutPkt → S
  | [] => s
  | p :: rest =>
    let s :=
      if p.command &&& 0xF0 = 0x30 ∧ p.qos = 0 then
        match p.info with
        | some i => (s.setInfo i (fun _ => { rc := rcConnLost, published := true })).emit (.infoDone i rcConnLost)
        | none => s
      else s
    failQueuedQos0 s rest

/-- result of a packet handler: a return code, or an exception leaving `loop_read()` -/
inductive HRes where
  | rc (r : RC)
  | raised (name : String)
  deriving DecidableEq, Repr

/-- `reconnect()`; `sockOk = false`: the socket factory raises (connection refused) -/
def reconnect (s : S) (sockOk : Bool) : S × HRes :=
  if !s.hostSet then (s, .raised "ValueError")
  else
    let s := { s with pingT := 0, cstate := .connecting }
    let s := s.sockClose true
    let s := s.failQueuedQos0 s.outq
    let s := { s with outq := [], lastIn := s.now, lastOut := s.now }
    let s := s.messagesReconnectResetOut.messagesReconnectResetIn
    let s := s.emit .onPreConnect
    if !sockOk then (s, .raised "ConnectionRefusedError")
    else
      let c := s.nconn + 1
      let s := { s with sock := some c, nconn := c, regWrite := false, sendScript := [] }
      let s := s.emit (.sopen c)
      let s := if s.cfg.ext then (if s.inCb then s.emit (.deadlock "_in_callback_mutex") else s.emit (.skOpen c)) else s
      let (s, rc) := s.sendConnect
      (s, .rc rc)

/-- `connect_async()` -/
def connectAsync (s : S) : S :=
  let s := s.sockClose true
  { s with cstate := .connectAsync, hostSet := true }

/-- `connect()` -/
def connect (s : S) (sockOk : Bool) : S × HRes :=
  let s := if s.proto = 5 then { s with firstConnect := true } else s
  s.connectAsync.reconnect sockOk

/-- `_update_inflight` -/
def updateInflight (s : S) : (fuel : Nat) → (idx : Nat) → S × RC
  | 0, _ => (s, rcSuccess)
  | fuel + 1, idx =>
    match s.out[idx]? with
    | none => (s, rcSuccess)
    | some m =>
      if s.sock.isNone then (s, rcNoConn)      -- nothing can be sent: leave the waiting messages queued
      else
      if s.inflight < s.cfg.maxInflight then
        if m.qos > 0 ∧ m.state = .queued then
          let m' := { m with state := if m.qos = 1 then .waitPuback else if m.qos = 2 then .waitPubrec else m.state }
          let s := { s with inflight := s.inflight + 1, out := s.out.set idx m' }
          let (s, rc) := s.sendPublish m.mid m.topic m.payload m.qos m.retain m.dup none true (some m.info)
          if rc ≠ rcSuccess then (s, rc) else updateInflight s fuel (idx + 1)
        else updateInflight s fuel (idx + 1)
      else (s, rcSuccess)

/-- `_do_on_publish(mid)` -/
def doOnPublish (s : S) (mid : Nat) : S × RC :=
  let s := s.emit (.onPublish mid)
  match s.out.find? (·.mid = mid) with
  | none => (s.emit (.exc "KeyError"), rcSuccess)
  | some m =>
    let s := s.emit (.completed m.info mid)
    let s := { s with out := s.out.filter (·.mid ≠ mid) }
    -- msg.info.rc = MQTT_ERR_SUCCESS; msg.info._set_as_published()
    let s := (s.setInfo m.info (fun _ => { rc := rcSuccess, published := true })).emit (.infoDone m.info rcSuccess)
    if m.qos > 0 then
      let s : S := { s with inflight := s.inflight - 1 }
      if s.cfg.maxInflight > 0 then
        let (s, rc) := s.updateInflight (s.out.length + 1) 0
        if rc ≠ rcSuccess then (s, rc) else (s, rcSuccess)
      else (s, rcSuccess)
    else (s, rcSuccess)

/-- `_handle_pubackcomp` (PUBACK and PUBCOMP are treated alike by the code) -/
def handlePubackcomp (s : S) (mid : Nat) : S × RC :=
  if s.out.any (·.mid = mid) then s.doOnPublish mid else (s, rcSuccess)

/-- `_handle_pubrec` -/
def handlePubrec (s : S) (mid : Nat) : S × RC :=
  if s.out.any (·.mid = mid) then
    let s := { s with out := s.out.map (fun (m : OutMsg) => if m.mid = mid then { m with state := .waitPubcomp } else m) }
    s.sendPubrel mid
  else (s, rcSuccess)

/-- `_handle_on_message`: returns `true` when the callback's exception propagates -/
def handleOnMessage (s : S) (m : InMsg) : S × Bool :=
  let s := s.emit (.onMessage m)
  if s.raiseOnMessage > 0 then
    let s := { s with raiseOnMessage := s.raiseOnMessage - 1 }
    (s, !s.cfg.suppress)
  else (s, false)

/-- `_handle_publish` -/
def handlePublish (s : S) (m : InMsg) : S × HRes :=
  -- the packet carries no packet identifier for QoS 0: `message.mid` stays 0
  let m := if m.qos = 0 then { m with mid := 0 } else m
  if s.proto ≠ 5 ∧ m.topic.isEmpty then (s, .rc rcProtocol)
  else if m.qos = 0 then
    let (s, raised) := s.handleOnMessage m
    if raised then (s, .raised "RuntimeError") else (s, .rc rcSuccess)
  else if m.qos = 1 then
    let (s, raised) := s.handleOnMessage m
    if raised then (s, .raised "RuntimeError")
    else if s.cfg.manualAck then (s, .rc rcSuccess)
    else let (s, rc) := s.sendPuback m.mid; (s, .rc rc)
  else if m.qos = 2 then
    let (s, rc) := s.sendPubrec m.mid
    -- self._in_messages[message.mid] = message  (dict assignment: replace in place or append)
    let inm := if s.inm.any (·.mid = m.mid) then s.inm.map (fun (x : InMsg) => if x.mid = m.mid then m else x)
               else s.inm ++ [m]
    ({ s with inm := inm }, .rc rc)
  else (s, .rc rcProtocol)

/-- `_handle_pubrel` -/
def handlePubrel (s : S) (mid : Nat) : S × HRes :=
  let (s, raised) :=
    match s.inm.find? (·.mid = mid) with
    | some m =>
      let s := { s with inm := s.inm.filter (·.mid ≠ mid) }
      s.handleOnMessage m
    | none => (s, false)
  if raised then (s, .raised "RuntimeError")
  else if s.cfg.manualAck then (s, .rc rcSuccess)
  else let (s, rc) := s.sendPubcomp mid; (s, .rc rc)

/-- retransmission loop of `_handle_connack` over `_out_messages` (by index) -/
def connackResend (s : S) : (fuel : Nat) → (idx : Nat) → (rc : RC) → S × RC
  | 0, _, rc => (s, rc)
  | fuel + 1, idx, rc =>
    match s.out[idx]? with
    | none => (s, rc)
    | some m =>
      if s.sock.isNone then (s, rcNoConn)      -- the connection was lost while retransmitting
      else
      if m.state = .queued then
        let (s, _) := s.loopWrite
        (s, rcSuccess)
      else
        let (s, rc, stop) :=
          if m.qos = 1 ∧ m.state = .publish then
            let s := { s with inflight := s.inflight + 1, out := s.out.set idx { m with state := .waitPuback } }
            let (s, r) := s.sendPublish m.mid m.topic m.payload m.qos m.retain m.dup none false (some m.info)
            (s, r, r ≠ rcSuccess)
          else if m.qos = 2 ∧ m.state = .publish then
            let s := { s with inflight := s.inflight + 1, out := s.out.set idx { m with state := .waitPubrec } }
            let (s, r) := s.sendPublish m.mid m.topic m.payload m.qos m.retain m.dup none false (some m.info)
            (s, r, r ≠ rcSuccess)
          else if m.qos = 2 ∧ m.state = .resendPubrel then
            let s := { s with inflight := s.inflight + 1, out := s.out.set idx { m with state := .waitPubcomp } }
            let (s, r) := s.sendPubrel m.mid false
            (s, r, r ≠ rcSuccess)
          else (s, rc, false)
        if stop then (s, rc)
        else
          let (s, _) := s.loopWrite
          connackResend s fuel (idx + 1) rc

/-- v3 CONNACK result → reason code value shown to the callback is the raw result (API v1);
v5: `ReasonCode(CONNACK, identifier=result)` may raise -/
def handleConnack (s : S) (sp : Bool) (result : Nat) (reconnectOk : Bool) : S × HRes :=
  let pre : Option HRes :=
    if s.proto = 5 ∧ result ≠ 1 then
      match Reason.mkById 2 result with
      | .error .keyError => some (.raised "KeyError")
      | .error _ => some (.raised "ValueError")
      | .ok _ => none
    else none
  match pre with
  | some r => (s, r)
  | none =>
    if s.proto = 4 ∧ result = 1 then
      if !s.cfg.rof then (s, .rc rcProtocol)
      else
        let s := { s with proto := 3 }
        -- `_reconnect_in_handler`: a failed socket open is reported, not raised
        match s.reconnect reconnectOk with
        | (s, .raised "ConnectionRefusedError") => (s.emit .onConnectFail, .rc rcConnLost)
        | r => r
    else
      -- (only a successful CONNACK ends the "first connect" of MQTT_CLEAN_START_FIRST_ONLY)
      let s := if result = 0 then { s with cstate := (if s.cstate = .disconnecting then .disconnecting else .connected), reconnectDelay := none, ackd := true, firstConnect := false } else s
      let shown := if s.proto = 5 ∧ result = 1 then 132 else result
      let s := s.emit (.onConnect shown sp)
      if result = 0 then
        let (s, rc) := s.connackResend (s.out.length + 1) 0 rcSuccess
        (s, .rc rc)
      else if result > 0 ∧ result < 6 then (s, .rc rcConnRefused)
      else (s, .rc rcProtocol)

/-- `_handle_disconnect` (MQTT 5 only) -/
def handleDisconnect (s : S) (reason : Option Nat) : S × HRes :=
  let bad : Option HRes := match reason with
    | some r => (match Reason.unpack 14 r with
        | .error .keyError => some (.raised "KeyError")
        | .error _ => some (.raised "ValueError")
        | .ok _ => none)
    | none => none
  match bad with
  | some r => (s, r)
  | none =>
    let s := s.sockClose
    let s := if s.disconnectingOrDone then { s with cstate := .disconnected } else { s with cstate := .connectionLost }
    let s := s.emit (.onDisconnect (reason.getD 0) true)
    (s, .rc rcSuccess)

/-- broker packets as delivered whole to `_packet_handle` -/
inductive RxPkt where
  | connack (sp : Bool) (rc : Nat)
  | publish (m : InMsg)
  | puback (mid : Nat) | pubrec (mid : Nat) | pubrel (mid : Nat) | pubcomp (mid : Nat)
  | suback (mid : Nat) (code : Nat) | unsuback (mid : Nat)
  | pingreq | pingresp
  | disconnect (reason : Option Nat)
  | badcmd                -- unknown / not allowed packet type
  | malformed             -- wrong remaining length for the packet type
  deriving DecidableEq, Repr

/-- `_packet_handle` -/
def packetHandle (s : S) (p : RxPkt) (reconnectOk : Bool) : S × HRes :=
  match p with
  | .pingreq => let (s, rc) := s.sendSimple 0xD0; (s, .rc rc)
  | .pingresp => ({ s with pingT := 0 }, .rc rcSuccess)
  | .puback mid | .pubcomp mid => let (s, rc) := s.handlePubackcomp mid; (s, .rc rc)
  | .publish m => s.handlePublish m
  | .pubrec mid => let (s, rc) := s.handlePubrec mid; (s, .rc rc)
  | .pubrel mid => s.handlePubrel mid
  | .connack sp rc => s.handleConnack sp rc reconnectOk
  | .suback mid code => (s.emit (.onSubscribe mid code), .rc rcSuccess)
  | .unsuback mid => (s.emit (.onUnsubscribe mid), .rc rcSuccess)
  | .disconnect r => if s.proto = 5 then s.handleDisconnect r else (s, .rc rcProtocol)
  | .badcmd => (s, .rc rcProtocol)
  | .malformed => (s, .rc rcProtocol)

/-- what `recv()` yields for one `loop_read()` call: at most one whole packet is available -/
inductive RxItem where
  | pkt (p : RxPkt) | eof | err | none
  deriving DecidableEq, Repr

/-- `loop_read()` with the given transport content -/
def loopRead (s : S) (item : RxItem) (reconnectOk : Bool := true) : S × HRes :=
  match s.sock with
  | none => (s, .rc rcNoConn)
  | some _ =>
    match item with
    | .none => (s, .rc rcSuccess)
    | .eof | .err =>
      let (s, rc) := s.loopRcHandle rcConnLost
      (s, .rc rc)
    | .pkt p =>
      match s.packetHandle p reconnectOk with
      | (s, .raised n) => (s, .raised n)       -- _in_packet is reset (finally); _last_msg_in is not updated
      | (s, .rc rc) =>
        let s := { s with lastIn := s.now }
        if rc > 0 then
          let (s, rc) := s.loopRcHandle rc
          (s, .rc rc)
        else if rc = rcAgain then (s, .rc rcSuccess)
        else
          -- next iteration of the for loop, or its end: socket gone (the packet closed the connection) -> NO_CONN,
          -- else recv would block / the packet budget is used up -> SUCCESS
          (match s.sock with
           | none => (s, .rc rcNoConn)
           | some _ => (s, .rc rcSuccess))

/-- `_check_keepalive` -/
def checkKeepalive (s : S) : S :=
  let k := s.cfg.keepalive * 1000
  if s.cfg.keepalive = 0 then s
  else
    match s.sock with
    | none => s
    | some _ =>
      if Gen.kaOutCmp.evalNat (s.now - s.lastOut) k || Gen.kaInCmp.evalNat (s.now - s.lastIn) k then
        if s.cstate = .connected ∧ s.pingT = 0 then
          let (s, rc) := s.sendSimple 0xC0
          let s := if rc = rcSuccess then { s with pingT := s.now } else s
          { s with lastOut := s.now, lastIn := s.now }
        else
          let s := s.sockClose
          if s.disconnectingOrDone then
            ({ s with cstate := .disconnected }).doOnDisconnect rcSuccess false
          else
            ({ s with cstate := .connectionLost }).doOnDisconnect rcKeepalive false
      else s

/-- `loop_misc()` -/
def loopMisc (s : S) : S × RC :=
  match s.sock with
  | none => (s, rcNoConn)
  | some _ =>
    let s := s.checkKeepalive
    match s.sock with
    | none => (s, rcConnLost)
    | some _ =>
      if s.pingT > 0 ∧ Gen.kaPingCmp.evalNat (s.now - s.pingT) (s.cfg.keepalive * 1000) then
        let s := s.sockClose
        let (s, rc) :=
          if s.disconnectingOrDone then ({ s with cstate := .disconnected }, rcSuccess)
          else ({ s with cstate := .connectionLost }, rcKeepalive)
        (s.doOnDisconnect rc false, rcConnLost)
      else (s, rcSuccess)

/-- `publish(topic, payload, qos, retain)` with already-encoded topic and payload -/
def publish (s : S) (qos : Nat) (topic payload : Bytes) (retain : Bool) : S :=
  match publishCheckFull s.proto topic qos .bytes payload.length (if s.proto = 5 then 1 else 0) with
  | some .typeError => s.emit (.exc "TypeError")
  | some _ => s.emit (.exc "ValueError")
  | none =>
      let mid := midNext s.lastMid
      let s := { s with lastMid := mid }
      let infoIdx := s.infos.length
      let s := { s with infos := s.infos ++ [({ rc := rcSuccess, published := false } : Info)] }
      if qos = 0 then
        let (s, rc) := s.sendPublish mid topic payload 0 retain false (some infoIdx) true (some infoIdx)
        (s.setInfo infoIdx (fun x => { x with rc := rc })).emit (.ret rc (some mid))
      else
        if s.cfg.maxQueued > 0 ∧ s.out.length ≥ s.cfg.maxQueued then
          (s.setInfo infoIdx (fun x => { x with rc := rcQueueSize })).emit (.ret rcQueueSize (some mid))
        else if s.out.any (·.mid = mid) then
          (s.setInfo infoIdx (fun x => { x with rc := rcQueueSize })).emit (.ret rcQueueSize (some mid))
        else
          let m : OutMsg := { mid := mid, qos := qos, state := .invalid, dup := false, retain := retain,
                              topic := topic, payload := payload, info := infoIdx }
          if s.cfg.maxInflight = 0 ∨ s.inflight < s.cfg.maxInflight then
            let m := { m with state := if qos = 1 then .waitPuback else .waitPubrec }
            let s := { s with out := s.out ++ [m], inflight := s.inflight + 1 }
            let (s, rc) := s.sendPublish mid topic payload qos retain false (some infoIdx) true (some infoIdx)
            let s :=
              if rc = rcNoConn then
                { s with inflight := s.inflight - 1,
                         out := s.out.map (fun (x : OutMsg) => if x.mid = mid then { x with state := .publish } else x) }
              else s
            (s.setInfo infoIdx (fun x => { x with rc := rc })).emit (.ret rc (some mid))
          else
            let s := { s with out := s.out ++ [{ m with state := .queued }] }
            (s.setInfo infoIdx (fun x => { x with rc := rcSuccess })).emit (.ret rcSuccess (some mid))

/-- `subscribe(topic, qos)` (single filter) -/
def subscribe (s : S) (topic : Bytes) (qos : Nat) : S :=
  if qos > 2 then s.emit (.exc "ValueError")
  else if s.proto ≠ 5 ∧ topic.isEmpty then s.emit (.exc "ValueError")
  else if !filterCheck topic then s.emit (.exc "ValueError")
  else
    match s.sock with
    | none => s.emit (.ret rcNoConn none)
    | some _ =>
      let mid := midNext s.lastMid
      let s := { s with lastMid := mid }
      -- v5: SubscribeOptions(qos=qos).pack() = qos
      match encSubscribe s.proto mid [(topic, qos)] none with
      | .error _ => s.emit (.exc "encode")
      | .ok bytes =>
        let (s, rc) := s.packetQueue (mkPkt 0x82 mid 1 bytes)
        s.emit (.ret rc (some mid))

/-- `unsubscribe(topic)` -/
def unsubscribe (s : S) (topic : Bytes) : S :=
  if topic.isEmpty then s.emit (.exc "ValueError")
  else
    match s.sock with
    | none => s.emit (.ret rcNoConn none)
    | some _ =>
      let mid := midNext s.lastMid
      let s := { s with lastMid := mid }
      match encUnsubscribe s.proto mid [topic] none with
      | .error _ => s.emit (.exc "encode")
      | .ok bytes =>
        let (s, rc) := s.packetQueue (mkPkt 0xA2 mid 1 bytes)
        s.emit (.ret rc (some mid))

/-- `disconnect()` -/
def disconnect (s : S) : S :=
  match s.sock with
  | none => ({ s with cstate := .disconnected }).emit (.ret rcNoConn none)
  | some _ =>
    let s := { s with cstate := .disconnecting, discCalled := true }
    match encDisconnect s.proto none none with
    | .error _ => s.emit (.exc "encode")
    | .ok bytes =>
      let (s, rc) := s.packetQueue (mkPkt 0xE0 0 0 bytes)
      s.emit (.ret rc none)

/-- `ack(mid, qos)` -/
def ack (s : S) (mid qos : Nat) : S :=
  if s.cfg.manualAck then
    if qos = 1 then let (s, rc) := s.sendPuback mid; s.emit (.ret rc none)
    else if qos = 2 then let (s, rc) := s.sendPubcomp mid; s.emit (.ret rc none)
    else s.emit (.ret rcSuccess none)
  else s.emit (.ret rcSuccess none)

end S

/-- operations of the session line protocol -/
inductive Op where
  | connect (sockOk : Bool)
  | reconnect (sockOk : Bool)
  | connectAsync
  | rx (item : S.RxItem) (reconnectOk : Bool)
  | publish (qos : Nat) (topic payload : Bytes) (retain : Bool)
  | subscribe (topic : Bytes) (qos : Nat)
  | unsubscribe (topic : Bytes)
  | disconnect
  | loopWrite
  | loopMisc
  | tick (ms : Nat)
  | send (script : List SendDir)
  | ack (mid qos : Nat)
  | raiseOnMessage (n : Nat)
  deriving Repr

def hresEv : S.HRes → Ev
  | .rc r => .ret r none
  | .raised n => .exc n

/-- one application-level step -/
def S.step (s : S) : Op → S
  | .connect ok => let (s, r) := s.connect ok; s.emit (hresEv r)
  | .reconnect ok => let (s, r) := s.reconnect ok; s.emit (hresEv r)
  | .connectAsync => s.connectAsync
  | .rx item ok => let (s, r) := s.loopRead item ok; s.emit (hresEv r)
  | .publish q t p r => s.publish q t p r
  | .subscribe t q => s.subscribe t q
  | .unsubscribe t => s.unsubscribe t
  | .disconnect => s.disconnect
  | .loopWrite => let (s, rc) := s.loopWrite; s.emit (.ret rc none)
  | .loopMisc => let (s, rc) := s.loopMisc; s.emit (.ret rc none)
  | .tick ms => { s with now := s.now + ms }
  | .send sc => { s with sendScript := sc }
  | .ack m q => s.ack m q
  | .raiseOnMessage n => { s with raiseOnMessage := n }

/-- run a whole history -/
def S.run (s : S) (ops : List Op) : S := ops.foldl S.step s

end Paho
