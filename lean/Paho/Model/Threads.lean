/-
Concurrency models for C07 (publish() from several threads while the loop_start() thread runs).

Four small transition systems, each over ALL schedules (a schedule is just the list of (thread, action) pairs that are
executed; an action that is not enabled leaves the system unchanged and is reported as `none`):

 * `MidSys`   the packet-id generator: `_mid_generate` under `_mid_generate_mutex`, at load/store granularity;
 * `WakeSys`  the lock-free hand-off between publishers and the writer: `_packet_queue` (append, wake byte),
              `_loop` (want_write, select, drain, loop_write) and `_packet_write` (popleft, send, appendleft);
 * `LockSys`  blocking lock acquisition with the rank discipline extracted from the source (deadlock freedom);
 * `SecSys`   critical sections over a lock-protected variable (the message tables under `_out_message_mutex`).

They are instantiated with the facts extracted from client.py on every run (`Paho.Gen.Threads`): whether the id
generator runs under its mutex, the order of append and wake-up in `_packet_queue`, how `_packet_write` re-queues a
partially written packet, the statement order of `_loop`, the lock-order edges and the guardedness of every access to
the protected attributes. Core Lean only.
-/
import Paho.Model.Mid
import Paho.Gen.Threads
import Paho.Gen.Locks
namespace Paho.Thr

abbrev Tid := Nat

/-- pointwise update of a per-thread table -/
def upd {α : Type} (f : Tid → α) (t : Tid) (v : α) : Tid → α := fun x => if x = t then v else f x

/-! ## 1. `_mid_generate` -/

inductive MPc where
  | idle                 -- outside `_mid_generate`
  | inside               -- past `with self._mid_generate_mutex:`
  | loaded (v : Nat)     -- `self._last_mid` read by `+= 1`
  | stored               -- new value written (increment and wrap-around: `midNext`)
  deriving DecidableEq, Repr

inductive MAct where
  | enter | load | store | leave
  deriving DecidableEq, Repr

structure MidSys where
  last : Nat := 0
  owner : Option Tid := none
  pc : Tid → MPc := fun _ => .idle
  /-- (thread, value returned), newest first -/
  rets : List (Tid × Nat) := []

/-- one action of thread `t`; `none` = not enabled (for `enter`: the thread blocks on the mutex) -/
def MidSys.step (s : MidSys) (t : Tid) : MAct → Option MidSys
  | .enter =>
    match s.pc t with
    | .idle =>
      if Gen.midGenUnderLock then
        if s.owner.isNone then some { s with owner := some t, pc := upd s.pc t .inside } else none
      else some { s with pc := upd s.pc t .inside }
    | _ => none
  | .load =>
    match s.pc t with
    | .inside => some { s with pc := upd s.pc t (.loaded s.last) }
    | _ => none
  | .store =>
    match s.pc t with
    | .loaded v => some { s with last := midNext v, pc := upd s.pc t .stored }
    | _ => none
  | .leave =>
    match s.pc t with
    | .stored =>
      -- `return self._last_mid` reads the attribute again, then the `with` block releases the mutex
      some { s with rets := (t, s.last) :: s.rets, owner := (if Gen.midGenUnderLock then none else s.owner), pc := upd s.pc t .idle }
    | _ => none

/-- run a schedule; actions that are not enabled are skipped (a blocked thread simply does not move) -/
def MidSys.run (s : MidSys) : List (Tid × MAct) → MidSys
  | [] => s
  | (t, a) :: rest => ((s.step t a).getD s).run rest

/-! ## 2. queue / wake-up pipe / writer -/

structure Pkt where
  id : Nat
  len : Nat
  pos : Nat := 0
  deriving DecidableEq, Repr

/-- bytes of a packet still to be written, as (packet id, offset) -/
def Pkt.rest (p : Pkt) : List (Nat × Nat) := (List.range' p.pos (p.len - p.pos)).map fun o => (p.id, o)

/-- a thread inside `_packet_queue` -/
inductive PPc where
  | idle
  | half      -- first of {append, wake-up byte} done, the other still to do
  deriving DecidableEq, Repr

/-- the writer: the network thread inside `_loop`, or (without a network thread) whoever calls loop_write() -/
inductive LPc where
  | top                          -- before `want_write()` (a writer that is not a network thread stays here)
  | armed (w : Bool)             -- wlist decided; calling / blocked in select()
  | woke (pipeR sockW : Bool)    -- select() returned (loop_read, if any, runs here)
  | writing                      -- loop_write() called by `_loop`
  | misc                         -- after the write phase (loop_misc), back to top next
  | dead                         -- loop_forever() returned
  deriving DecidableEq, Repr

inductive WAct where
  | append (id len : Nat)        -- `_out_packet.append(mpkt)`
  | wake                         -- `_sockpairW.send(b"0")`
  | wantw                        -- `wlist = [sock] if want_write() else []`
  | select (sockR writable : Bool)   -- select() returns; environment: inbound data? socket writable?
  | drain                        -- `socklist[1].insert(0, sock)`; `_sockpairR.recv(10000)`
  | startw                       -- `if self._sock in socklist[1]: loop_write()`
  | skipw                        -- socket not in the write set
  | pop                          -- popleft(): packet or IndexError
  | send (n : Nat)               -- `_sock_send` accepted `n` bytes of the packet in hand
  | pushback                     -- appendleft(packet)
  | endw                         -- `_packet_write` returns with packets still queued (EAGAIN, partial frame, error)
  | next                         -- loop_misc done, next iteration
  | abort                        -- `_loop` returns early (loop_read error / connection lost)
  | clear                        -- reconnect(): `_out_packet.clear()`, new connection
  | handover                     -- loop_start(): a new wake-up pipe, and thread `t` becomes the (only) writer
  | stop                         -- loop_forever() returns
  deriving DecidableEq, Repr

structure WakeSys where
  queue : List Pkt := []
  pipe : Nat := 0
  /-- the wake-up pipe exists (created by loop_start()) -/
  hasPipe : Bool := false
  ppc : Tid → PPc := fun _ => .idle
  lpc : LPc := .top
  /-- the packet popleft() returned and `_packet_write` is working on -/
  hand : Option Pkt := none
  /-- the writer: the network thread (it may queue packets itself: acknowledgements, PINGREQ, retransmissions), or,
  before loop_start(), the thread whose `_packet_queue` calls loop_write() directly -/
  loopTid : Tid := 0
  /-- bytes written on the current connection, oldest first -/
  wire : List (Nat × Nat) := []
  /-- ghost: every packet appended since the connection's queue was cleared, in append order -/
  all : List Pkt := []
  /-- ghost: the connection's queue is fresh (never used, or just cleared by reconnect()) and CONNECT (packet id 0 by
  convention) has not been queued yet -/
  fresh : Bool := true
  /-- ghost: packets other than CONNECT queued while `fresh` (another thread got in between `_out_packet.clear()` and
  `_send_connect()`) -/
  raced : Nat := 0
  /-- ghost: number of threads between the two halves of `_packet_queue` -/
  nhalf : Nat := 0
  /-- ghost: select() returned with nothing ready (a timeout was consumed) although the socket was writable, the queue
  was not empty and no thread was about to send the wake-up byte -/
  stalls : Nat := 0

/-- may the writer run `_packet_write` here? (`_loop`'s own loop_write(); a handler's direct loop_write() during
loop_read(); a direct loop_write() from `_packet_queue` when there is no network thread) -/
def LPc.mayWrite : LPc → Bool
  | .writing => true
  | .woke _ _ => true
  | .top => true
  | _ => false

/-- one action of thread `t` -/
def WakeSys.step (s : WakeSys) (t : Tid) : WAct → Option WakeSys
  | .append id len =>
    let app (s : WakeSys) : WakeSys :=
      { s with queue := s.queue ++ [{ id := id, len := len }], all := s.all ++ [{ id := id, len := len }],
               fresh := s.fresh && decide (id ≠ 0), raced := if s.fresh ∧ id ≠ 0 then s.raced + 1 else s.raced }
    if !s.hasPipe then
      -- `if self._sockpairW is not None:` fails: nothing to send, `_packet_queue` goes straight on
      match s.ppc t with
      | .idle => some (app s)
      | .half => none
    else
    match s.ppc t with
    | .idle => if Gen.wakeAfterAppend then some { app s with ppc := upd s.ppc t .half, nhalf := s.nhalf + 1 } else none
    | .half => if Gen.wakeAfterAppend then none else some { app s with ppc := upd s.ppc t .idle, nhalf := s.nhalf - 1 }
  | .wake =>
    if !s.hasPipe then none else
    match s.ppc t with
    | .idle => if Gen.wakeAfterAppend then none else some { s with pipe := s.pipe + 1, ppc := upd s.ppc t .half, nhalf := s.nhalf + 1 }
    | .half => if Gen.wakeAfterAppend then some { s with pipe := s.pipe + 1, ppc := upd s.ppc t .idle, nhalf := s.nhalf - 1 } else none
  | .wantw =>
    -- (`_loop` is entered through loop(), which creates the wake-up pipe first)
    if t = s.loopTid ∧ s.lpc = .top ∧ s.hand.isNone ∧ s.hasPipe then some { s with lpc := .armed (!s.queue.isEmpty) } else none
  | .select sockR writable =>
    if t ≠ s.loopTid then none else
    match s.lpc with
    | .armed w =>
      let pipeR := decide (s.pipe > 0)
      let sockW := w && writable
      let timeout := !sockR && !pipeR && !sockW
      some { s with lpc := .woke pipeR sockW, stalls := if timeout ∧ writable ∧ !s.queue.isEmpty ∧ s.nhalf = 0 then s.stalls + 1 else s.stalls }
    | _ => none
  | .drain =>
    if t ≠ s.loopTid then none else
    match s.lpc with
    | .woke true _ => if Gen.loopOrderOk then some { s with pipe := s.pipe - min s.pipe 10000, lpc := .woke false true } else none
    | _ => none
  | .startw =>
    if t ≠ s.loopTid then none else
    match s.lpc with
    | .woke false true => some { s with lpc := .writing }
    | _ => none
  | .skipw =>
    if t ≠ s.loopTid then none else
    match s.lpc with
    | .woke false false => some { s with lpc := .misc }
    | _ => none
  | .pop =>
    if t ≠ s.loopTid ∨ s.hand.isSome ∨ !s.lpc.mayWrite then none else
    match s.queue with
    | p :: rest => some { s with queue := rest, hand := some p }
    | [] => some { s with lpc := if s.lpc = .writing then .misc else s.lpc }     -- IndexError: `_packet_write` returns
  | .send n =>
    if t ≠ s.loopTid then none else
    match s.hand with
    | some p =>
      if 0 < n ∧ n ≤ p.len - p.pos then
        let p' := { p with pos := p.pos + n }
        some { s with wire := s.wire ++ (p.rest.take n), hand := if p'.pos = p'.len then none else some p' }
      else none
    | none => none
  | .pushback =>
    if t ≠ s.loopTid then none else
    match s.hand with
    | some p => some { s with queue := (if Gen.pushbackFront then p :: s.queue else s.queue ++ [p]), hand := none }
    | none => none
  | .endw =>
    if t = s.loopTid ∧ s.lpc = .writing ∧ s.hand.isNone then some { s with lpc := .misc } else none
  | .next =>
    if t = s.loopTid ∧ s.lpc = .misc then some { s with lpc := .top } else none
  | .abort =>
    if t ≠ s.loopTid ∨ s.hand.isSome then none else
    match s.lpc with
    | .woke _ _ => some { s with lpc := .top }
    | .writing => some { s with lpc := .top }
    | .misc => some { s with lpc := .top }
    | _ => none
  | .clear =>
    -- reconnect() by any thread while the writer has nothing in hand
    if s.hand.isSome then none else some { s with queue := [], all := [], wire := [], fresh := true }
  | .handover =>
    -- loop_start(): only when no writer is active (the previous one is at the top of its loop, or gone)
    if s.hand.isSome then none else
    match s.lpc with
    | .top => some { s with loopTid := t, pipe := 0, hasPipe := true }
    | .misc => some { s with loopTid := t, pipe := 0, hasPipe := true, lpc := .top }
    | .dead => some { s with loopTid := t, pipe := 0, hasPipe := true, lpc := .top }
    | _ => none
  | .stop =>
    if t ≠ s.loopTid ∨ s.hand.isSome then none else
    match s.lpc with
    | .dead => none
    | _ => some { s with lpc := .dead }

def WakeSys.run (s : WakeSys) : List (Tid × WAct) → WakeSys
  | [] => s
  | (t, a) :: rest => ((s.step t a).getD s).run rest

/-- everything the connection's queue ever held, as bytes in append order -/
def WakeSys.allBytes (s : WakeSys) : List (Nat × Nat) := s.all.flatMap fun p => ({ p with pos := 0 } : Pkt).rest

def WakeSys.handBytes (s : WakeSys) : List (Nat × Nat) :=
  match s.hand with
  | some p => p.rest
  | none => []

def WakeSys.queueBytes (s : WakeSys) : List (Nat × Nat) := s.queue.flatMap Pkt.rest

/-! ## 3. lock order -/

def rankOf (l : LockId) : Nat := (Gen.lockRank.lookup l).getD 0

def reentrant (l : LockId) : Bool := (Gen.lockKinds.lookup l).getD false

/-- the extracted order is respected by the extracted ranks: every edge goes strictly up, except re-acquisition of a
reentrant lock -/
def ranksOk : Bool := Gen.lockEdges.all fun (h, l) => decide (rankOf h < rankOf l) || (decide (h = l) && reentrant l)

structure LThread where
  held : List LockId := []       -- newest first
  want : Option LockId := none
  done : Bool := false
  deriving DecidableEq, Repr

inductive LAct where
  | request (l : LockId)
  | tryGrant (l : LockId)        -- successful non-blocking `acquire(False)`: never waits, so no discipline needed
  | grant
  | release
  | finish
  deriving DecidableEq, Repr

structure LockSys where
  n : Nat                         -- threads 0 .. n-1
  thr : Tid → LThread := fun _ => {}

def LockSys.holders (s : LockSys) (l : LockId) (t : Tid) : Bool := (s.thr t).held.contains l

/-- may `t` be granted `l` now? (free, or reentrant and already its own) -/
def LockSys.free (s : LockSys) (l : LockId) (t : Tid) : Bool :=
  (List.range s.n).all fun u => u = t || !s.holders l u

/-- the rank discipline: a lock is requested only above everything held, or again if reentrant -/
def disciplined (held : List LockId) (l : LockId) : Bool :=
  held.all fun h => decide (rankOf h < rankOf l) || (decide (h = l) && reentrant l)

def LockSys.step (s : LockSys) (t : Tid) : LAct → Option LockSys
  | .request l =>
    let th := s.thr t
    if t < s.n ∧ !th.done ∧ th.want.isNone ∧ disciplined th.held l then some { s with thr := upd s.thr t { th with want := some l } } else none
  | .tryGrant l =>
    let th := s.thr t
    if t < s.n ∧ !th.done ∧ th.want.isNone ∧ s.free l t ∧ (reentrant l ∨ !th.held.contains l) then
      some { s with thr := upd s.thr t { th with held := l :: th.held } } else none
  | .grant =>
    let th := s.thr t
    match th.want with
    | some l =>
      if t < s.n ∧ (s.free l t ∧ (reentrant l ∨ !th.held.contains l)) then some { s with thr := upd s.thr t { th with held := l :: th.held, want := none } } else none
    | none => none
  | .release =>
    let th := s.thr t
    match th.held, th.want with
    | _ :: rest, none => if t < s.n then some { s with thr := upd s.thr t { th with held := rest } } else none
    | _, _ => none
  | .finish =>
    let th := s.thr t
    if t < s.n ∧ !th.done ∧ th.want.isNone ∧ th.held.isEmpty then some { s with thr := upd s.thr t { th with done := true } } else none

def LockSys.run (s : LockSys) : List (Tid × LAct) → LockSys
  | [] => s
  | (t, a) :: rest => ((s.step t a).getD s).run rest

/-- a thread that can take a step on its own (everything except a `grant` that is refused) -/
def LockSys.canMove (s : LockSys) (t : Tid) : Bool :=
  let th := s.thr t
  t < s.n && !th.done &&
    match th.want with
    | none => true
    | some l => s.free l t && (reentrant l || !th.held.contains l)

/-! ## 4. critical sections over a protected variable -/

/-- a thread's program: a list of sections; a section is a list of atomic updates of the protected state, all executed
while holding the lock -/
structure SecThread (σ : Type) where
  todo : List (List (σ → σ)) := []     -- sections still to run (head = current or next one)
  inside : Bool := false               -- holds the lock; the head section is partly executed

inductive SAct where
  | acquire | update | release
  deriving DecidableEq, Repr

structure SecSys (σ : Type) where
  shared : σ
  owner : Option Tid := none
  thr : Tid → SecThread σ := fun _ => {}
  /-- ghost: the value of `shared` at the last release (or initially) -/
  committed : σ
  /-- ghost: sections completed so far (with the thread that ran them), in the order of their releases -/
  log : List (Tid × List (σ → σ)) := []
  /-- ghost: the section being executed by the owner, as it was at acquire time -/
  cur : List (σ → σ) := []

def applyAll {σ : Type} (fs : List (σ → σ)) (x : σ) : σ := fs.foldl (fun acc f => f acc) x

def SecSys.step {σ : Type} (s : SecSys σ) (t : Tid) : SAct → Option (SecSys σ)
  | .acquire =>
    let th := s.thr t
    match th.todo with
    | sec :: _ =>
      if s.owner.isNone ∧ !th.inside then some { s with owner := some t, cur := sec, thr := upd s.thr t { th with inside := true } } else none
    | [] => none
  | .update =>
    let th := s.thr t
    match th.todo with
    | (f :: fs) :: rest =>
      if s.owner = some t ∧ th.inside then some { s with shared := f s.shared, thr := upd s.thr t { th with todo := fs :: rest } } else none
    | _ => none
  | .release =>
    let th := s.thr t
    match th.todo with
    | [] :: rest =>
      if s.owner = some t ∧ th.inside then
        some { s with owner := none, committed := s.shared, log := s.log ++ [(t, s.cur)], cur := [],
                      thr := upd s.thr t { todo := rest, inside := false } }
      else none
    | _ => none

def SecSys.run {σ : Type} (s : SecSys σ) : List (Tid × SAct) → SecSys σ
  | [] => s
  | (t, a) :: rest => ((s.step t a).getD s).run rest

/-- every access to the protected attributes that is more than a `len()` snapshot happens under the protecting mutex -/
def accessesGuarded : Bool := Gen.sharedAccesses.all fun (_, _, lenOnly, guarded) => lenOnly || guarded

end Paho.Thr
