/-
Model of the argument validation done by `publish()`, `subscribe()`,
`_raise_for_invalid_topic`, `_filter_wildcard_len_check`, `_encode_payload`.
Strings are their UTF-8 byte lists (lengths in the code are taken after
`.encode('utf-8')`, except the emptiness tests which agree on both).
-/
import Paho.Gen.ValidateConsts
import Paho.Model.Split
namespace Paho

/-- exceptions the validation layer can raise -/
inductive Exc where
  | valueError | typeError | structError | assertionError | mqttException | keyError | other
  | indexError | unicodeError | malformedPacket | runtimeError
  deriving DecidableEq, Repr

/-- `_filter_wildcard_len_check(sub) == MQTT_ERR_SUCCESS` -/
def filterCheck (sub : List UInt8) : Bool :=
  !( Gen.filterEmptyCmp.evalNat sub.length Gen.filterEmptyLen
     || Gen.filterLenCmp.evalNat sub.length Gen.filterLenMax
     || (splitOn Gen.filterSep sub).any (fun p =>
          Gen.filterLvlCmp.evalNat p.length Gen.filterLvlLen
            && (p.contains Gen.filterWild1 || p.contains Gen.filterWild2))
     || hasSub Gen.filterBadPat sub )

/-- `_raise_for_invalid_topic(topic)`: `true` = raises ValueError -/
def topicInvalid (topic : List UInt8) : Bool :=
  topic.contains Gen.topicWild1 || topic.contains Gen.topicWild2
    || Gen.topicLenCmp.evalNat topic.length Gen.topicLenMax

/-- dynamic type of the `payload` argument -/
inductive PayloadTag where
  | str | bytes | bytearray | int | float | none | other
  deriving DecidableEq, Repr

/-- `_encode_payload`: accepted types -/
def payloadTypeOk : PayloadTag → Bool
  | .other => false
  | _ => true

/-- the checks of `publish()` in source order; `plen` is `len(local_payload)`
(only meaningful when the payload type is accepted). `none` = accepted. -/
def publishCheck (proto : Nat) (topic : List UInt8) (qos : Int) (ptag : PayloadTag) (plen : Nat) : Option Exc :=
  if proto ≠ 5 ∧ topic.isEmpty then some .valueError
  else if topicInvalid topic then some .valueError
  else if Gen.pubQosLoCmp.evalInt qos Gen.pubQosLo || Gen.pubQosHiCmp.evalInt qos Gen.pubQosHi then some .valueError
  else if !payloadTypeOk ptag then some .typeError
  else if Gen.pubPayloadCmp.evalNat plen Gen.pubPayloadMax then some .valueError
  else none

/-- remaining length of the PUBLISH packet as `publish()` computes it up front
(`propsLen` = 1 for MQTT 5 without properties, `len(properties.pack())` otherwise, 0 for MQTT 3) -/
def publishRemLen (topicLen plen : Nat) (qos : Int) (propsLen : Nat) : Nat :=
  2 + topicLen + plen + (if qos > 0 then 2 else 0) + propsLen

/-- all checks of `publish()` that precede the allocation of a packet id: the argument
checks followed by the whole-packet size guard -/
def publishCheckFull (proto : Nat) (topic : List UInt8) (qos : Int) (ptag : PayloadTag) (plen propsLen : Nat) : Option Exc :=
  match publishCheck proto topic qos ptag plen with
  | some e => some e
  | none =>
    if Gen.pubRemLenCmp.evalNat (publishRemLen topic.length plen qos propsLen) Gen.pubRemLenMax then some .valueError
    else none

end Paho
