/-
Lock discipline (C18, C07): self-deadlock analysis over the tables extracted from client.py (`Paho.Gen.Locks`).
A thread that blocking-acquires a non-reentrant `threading.Lock` it already owns blocks forever.
-/
import Paho.Gen.Locks
namespace Paho.Locks

def reentrant (l : LockId) : Bool := (Gen.lockKinds.lookup l).getD false

/-- one blocking acquisition reachable from an API method -/
structure Acq where
  lock : LockId
  chain : List LockId      -- locks the API call chain itself already holds at that point
  free : List LockId       -- locks known not to be held by this thread on this path
  guards : List String     -- callbacks that must be installed (or "not-loop-thread") for the path to exist
  deriving DecidableEq, Repr

def acqOf (x : LockId × List LockId × List LockId × List String) : Acq :=
  { lock := x.1, chain := x.2.1, free := x.2.2.1, guards := x.2.2.2 }

def apiAcqs (api : String) : List Acq := ((Gen.apiAcquires.lookup api).getD []).map acqOf

/-- does API acquisition `a`, executed by a thread that already holds `held` (inside a user callback), block forever?
`installed` tells which optional callbacks exist; "not-loop-thread" is false inside a callback run by the loop thread -/
def selfDeadlock (held : List LockId) (installed : String → Bool) (a : Acq) : Bool :=
  !reentrant a.lock && (held.contains a.lock || a.chain.contains a.lock)
    && a.free.all (fun l => !held.contains l) && a.guards.all installed

def apis : List String :=
  ["publish", "subscribe", "unsubscribe", "disconnect", "reconnect", "message_callback_add", "message_callback_remove", "loop_stop"]

/-- every (callback site, possible held set) pair -/
def siteHelds : List (String × List LockId) :=
  (Gen.cbSites.map fun (s, hs) => hs.map fun h => (s, h)).flatten

/-- all deadlocking combinations under a configuration -/
def deadlocks (installed : String → Bool) : List (String × List LockId × String × Acq) :=
  (siteHelds.map fun (site, held) =>
    (apis.map fun api =>
      ((apiAcqs api).filter (selfDeadlock held installed)).map fun a => (site, held, api, a)).flatten).flatten

end Paho.Locks
