/-
Prelude for the callbacks of the one-shot helpers (publish.py / subscribe.py) translated from Python by py/py2lean.py
(Paho.Gen.FnHelpers): the Python values these callbacks handle, as far as the callbacks look at them, and the calls they
make on the client, recorded as a list of effects in call order.
-/
import Paho.Model.Py
namespace Paho.Py

/-- an inbound MQTTMessage as `_on_message_simple` sees it: its `retain` attribute; `tag` stands for everything else (the
callback never looks at it) -/
structure PyInMsg where
  retain : Bool
  tag : Nat
  deriving DecidableEq, Repr

/-- `userdata['messages']` of subscribe.simple: `None`, a single message object, or a list of messages -/
inductive PyMsgs where
  | none
  | one (m : PyInMsg)
  | many (l : List PyInMsg)
  deriving DecidableEq, Repr

def PyMsgs.isNone : PyMsgs → Bool
  | .none => true
  | _ => false

/-- `x.append(m)`: defined for a list only (AttributeError - not modelled as a kind of its own - for None / a message) -/
def PyMsgs.append : PyMsgs → PyInMsg → Except Exc PyMsgs
  | .many l, m => .ok (.many (l ++ [m]))
  | _, _ => .error .other

/-- the `userdata` dictionary of subscribe.simple -/
structure SimpleUD where
  msg_count : Int
  retained : Bool
  messages : PyMsgs
  deriving DecidableEq, Repr

/-- what `isinstance` tells `_do_publish` about an element of `msgs`; `tag` stands for its contents -/
inductive PyForm where
  | dict | seq | other
  deriving DecidableEq, Repr

structure PyPubMsg where
  form : PyForm
  tag : Nat
  deriving DecidableEq, Repr

/-- `userdata['topics']` of subscribe.simple / subscribe.callback: a list of topics or a single value -/
inductive PyTopics where
  | single (t : Nat)
  | list (l : List Nat)
  deriving DecidableEq, Repr

def PyTopics.isList : PyTopics → Bool
  | .list _ => true
  | _ => false

def PyTopics.items : PyTopics → List Nat
  | .list l => l
  | .single _ => []

/-- the `userdata` dictionary read by subscribe._on_connect -/
structure SubUD where
  topics : PyTopics
  qos : Int
  deriving DecidableEq, Repr

/-- calls made on the client, in order -/
inductive HEff where
  | disconnect
  | publishKw (m : PyPubMsg)        -- client.publish(**message)
  | publishArgs (m : PyPubMsg)      -- client.publish(*message)
  | subscribe (topic : PyTopics) (qos : Int)   -- client.subscribe(topic, qos); an element of a list is `.single t`
  deriving DecidableEq, Repr

/-- `deque.popleft()`: IndexError when empty -/
def popleft : List α → Except Exc (α × List α)
  | [] => .error .indexError
  | x :: rest => .ok (x, rest)

end Paho.Py
