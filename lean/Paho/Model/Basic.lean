/-
Basic vocabulary shared by generated files and models. Core Lean only.
-/
namespace Paho

abbrev Bytes := List UInt8

def b8 (n : Nat) : UInt8 := UInt8.ofNat n

/-- comparison operators as extracted from the source (`ast.Compare`). -/
inductive Cmp where
  | lt | le | eq | ne | ge | gt
  deriving DecidableEq, Repr

def Cmp.evalNat : Cmp → Nat → Nat → Bool
  | .lt, a, b => a < b
  | .le, a, b => a ≤ b
  | .eq, a, b => a = b
  | .ne, a, b => a ≠ b
  | .ge, a, b => a ≥ b
  | .gt, a, b => a > b

def Cmp.evalInt : Cmp → Int → Int → Bool
  | .lt, a, b => a < b
  | .le, a, b => a ≤ b
  | .eq, a, b => a = b
  | .ne, a, b => a ≠ b
  | .ge, a, b => a ≥ b
  | .gt, a, b => a > b

/-- `needle in haystack` for `bytes`. -/
def isPrefix : List UInt8 → List UInt8 → Bool
  | [], _ => true
  | _ :: _, [] => false
  | a :: as, b :: bs => a = b && isPrefix as bs

def hasSub (pat : List UInt8) : List UInt8 → Bool
  | [] => pat.isEmpty
  | b :: bs => isPrefix pat (b :: bs) || hasSub pat bs

/-- the client's mutexes (and the pseudo-lock "join the network thread") -/
inductive LockId where
  | inCallback | callback | msgtime | outMessage | inMessage | reconnectDelay | midGenerate | threadJoin
  deriving DecidableEq, Repr

end Paho
