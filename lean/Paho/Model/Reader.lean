/-
Byte-level model of the inbound path: `_packet_read` (the resumable three-phase reader over a
non-blocking socket) and the field extraction done by the `_handle_*` functions (`parseBody`).
The socket is a queue of `RecvItem`s, as the fake transport of the harness presents it.
-/
import Paho.Model.Props
import Paho.Model.Transport
import Paho.Gen.ReaderLimits
namespace Paho

/-- `_in_packet` -/
structure RState where
  command : Nat := 0           -- 0 = no command byte read yet
  haveRemaining : Bool := false
  remCount : Nat := 0          -- number of remaining-length bytes read
  remMult : Nat := 1
  remLen : Nat := 0
  packet : Bytes := []
  toProcess : Nat := 0
  deriving DecidableEq, Repr

/-- outcome of one `_packet_read()` call -/
inductive ReadOut where
  | again                          -- MQTT_ERR_AGAIN (would block)
  | againBusy                      -- MQTT_ERR_AGAIN after 100 body reads in one call (`_last_msg_in` is refreshed)
  | connLost                       -- MQTT_ERR_CONN_LOST
  | protocol                       -- MQTT_ERR_PROTOCOL (more than 4 length bytes)
  | complete (cmd : Nat) (body : Bytes)   -- a whole packet: handed to `_packet_handle`
  deriving DecidableEq, Repr

/-- phase 3: read the body; `count` is the 100-iteration guard -/
def readBody : (count : Nat) → RState → List RecvItem → RState × List RecvItem × ReadOut
  | 0, r, q => (r, q, .again)
  | count + 1, r, q =>
    if r.toProcess = 0 then (r, q, .complete r.command r.packet)
    else
      match recvN r.toProcess q with
      | (.block, q) => (r, q, .again)
      | (.closed, q) | (.error, q) => (r, q, .connLost)
      | (.bytes d, q) =>
        if d.isEmpty then (r, q, .connLost)
        else
          let r := { r with toProcess := r.toProcess - d.length, packet := r.packet ++ d }
          if count = 0 then
            -- `count -= 1; if count == 0: return MQTT_ERR_AGAIN` (even if the packet just became complete)
            (r, q, .againBusy)
          else readBody count r q

/-- phase 2: the remaining-length bytes (`while True` loop; ends by `break`, AGAIN, error, or > 4 bytes) -/
def readRemLen : (fuel : Nat) → RState → List RecvItem → RState × List RecvItem × Option ReadOut
  | 0, r, q => (r, q, some .protocol)
  | fuel + 1, r, q =>
    match recvN 1 q with
    | (.block, q) => (r, q, some .again)
    | (.closed, q) | (.error, q) => (r, q, some .connLost)
    | (.bytes d, q) =>
      match d with
      | [] => (r, q, some .connLost)
      | byte :: _ =>
        let r := { r with remCount := r.remCount + 1 }
        if Gen.rlMaxBytesCmp.evalNat r.remCount Gen.rlMaxBytes then (r, q, some .protocol)
        else
          let r := { r with remLen := r.remLen + (byte.toNat &&& 127) * r.remMult, remMult := r.remMult * 128 }
          if byte.toNat &&& 128 = 0 then
            ({ r with haveRemaining := true, toProcess := r.remLen }, q, none)
          else readRemLen fuel r q

/-- `_packet_read()` up to the point where the packet is complete (the handler call and the reset
of `_in_packet` are done by the caller) -/
def packetRead (r : RState) (q : List RecvItem) : RState × List RecvItem × ReadOut :=
  -- phase 1: command byte
  let p1 : RState × List RecvItem × Option ReadOut :=
    if r.command = 0 then
      match recvN 1 q with
      | (.block, q) => (r, q, some .again)
      | (.closed, q) | (.error, q) => (r, q, some .connLost)
      | (.bytes d, q) =>
        match d with
        | [] => (r, q, some .connLost)
        | c :: _ =>
          -- packet type 0 is reserved, and 0 means "no command read yet": rejected at once
          if c.toNat = 0 then (r, q, some .protocol) else ({ r with command := c.toNat }, q, none)
    else (r, q, none)
  match p1 with
  | (r, q, some out) => (r, q, out)
  | (r, q, none) =>
    let p2 : RState × List RecvItem × Option ReadOut :=
      if !r.haveRemaining then readRemLen 6 r q else (r, q, none)
    match p2 with
    | (r, q, some out) => (r, q, out)
    | (r, q, none) => readBody Gen.readLoopMax r q

/-! ### field extraction of the `_handle_*` functions -/

/-- decoded broker packet with everything the callbacks are given -/
inductive Parsed where
  | connack (sp : Bool) (result : Nat) (reason : Nat) (props : Option Props)
  | publish (dup : Bool) (qos : Nat) (retain : Bool) (topic : Bytes) (mid : Nat) (props : Option Props) (payload : Bytes)
  | ack (ptype : Nat) (mid : Nat) (reason : Nat) (props : Option Props)      -- PUBACK PUBREC PUBREL PUBCOMP
  | suback (mid : Nat) (codes : List Nat) (props : Option Props)
  | unsuback (mid : Nat) (codes : List Nat) (props : Option Props)
  | pingreq | pingresp
  | disconnect (reason : Option Nat) (props : Option Props)
  deriving Repr

inductive ParseRes where
  | ok (p : Parsed)
  | rc (code : Int)            -- the handler returns this error code without calling back
  | raised (e : Exc)           -- an exception leaves loop_read()
  deriving Repr

def excOfReason : Exc → Exc := id

/-- `ReasonCode(pt).unpack(buf)` / `ReasonCode(pt, identifier=c)` errors as raised -/
def reasonUnpack (pt : Nat) (b : Bytes) : Except Exc Nat :=
  match b with
  | [] => .error .indexError
  | c :: _ => Reason.unpack pt c.toNat

def reasonList (pt : Nat) : Bytes → Except Exc (List Nat)
  | [] => .ok []
  | c :: rest => do
    let v ← Reason.mkById pt c.toNat
    let vs ← reasonList pt rest
    pure (v :: vs)

/-- common shape of PUBACK / PUBREC / PUBREL / PUBCOMP (thresholds `> 2`, `> 3`) -/
def parseAck (proto ptype : Nat) (body : Bytes) : ParseRes :=
  let rl := body.length
  if (proto = 5 ∧ rl < 2) ∨ (proto ≠ 5 ∧ rl ≠ 2) then .rc 2
  else
    match rdU16 body with
    | none => .raised .structError
    | some mid =>
      if proto = 5 then
        if rl > 2 then
          match reasonUnpack ptype (body.drop 2) with
          | .error e => .raised e
          | .ok rc =>
            if rl > 3 then
              match Props.unpack ptype (body.drop 3) with
              | .error e => .raised e
              | .ok (p, _) => .ok (.ack ptype mid rc (some p))
            else .ok (.ack ptype mid rc none)
        else .ok (.ack ptype mid 0 none)
      else .ok (.ack ptype mid 0 none)

/-- `_packet_handle` dispatch + per-type parsing; `cmd` is the first byte of the packet -/
def parseBody (proto cmd : Nat) (body : Bytes) : ParseRes :=
  let t := cmd &&& 0xF0
  let rl := body.length
  if t = 0xC0 then (if rl ≠ 0 then .rc 2 else .ok .pingreq)
  else if t = 0xD0 then (if rl ≠ 0 then .rc 2 else .ok .pingresp)
  else if t = 0x40 then parseAck proto 4 body
  else if t = 0x70 then parseAck proto 7 body
  else if t = 0x50 then parseAck proto 5 body
  else if t = 0x60 then parseAck proto 6 body
  else if t = 0x30 then
    -- _handle_publish
    match rdU16 body with
    | none => .raised .structError
    | some slen =>
      let rest := body.drop 2
      if slen > rest.length then .raised .structError
      else
        let topic := rest.take slen
        let rest := rest.drop slen
        if proto ≠ 5 ∧ topic.isEmpty then .rc 2
        else
          let qos := (cmd &&& 0x06) >>> 1
          let midRes : Except Exc (Nat × Bytes) :=
            if qos > 0 then
              match rdU16 rest with
              | some m => .ok (m, rest.drop 2)
              | none => .error .structError
            else .ok (0, rest)
          match midRes with
          | .error e => .raised e
          | .ok (mid, rest) =>
            let propRes : Except Exc (Option Props × Bytes) :=
              if proto = 5 then
                match Props.unpack 3 rest with
                | .ok (p, n) => .ok (some p, rest.drop n)
                | .error e => .error e
              else .ok (none, rest)
            match propRes with
            | .error e => .raised e
            | .ok (props, payload) =>
              if qos = 3 then .rc 2
              else .ok (.publish ((cmd &&& 0x08) >>> 3 ≠ 0) qos (cmd &&& 0x01 ≠ 0) topic mid props payload)
  else if t = 0x20 then
    -- _handle_connack
    if (proto = 5 ∧ rl < 2) ∨ (proto ≠ 5 ∧ rl ≠ 2) then .rc 2
    else
      match body with
      | flags :: result :: rest =>
        let sp := flags.toNat &&& 0x01 ≠ 0
        if proto = 5 then
          if result.toNat = 1 then .ok (.connack sp 1 132 none)
          else
            match Reason.mkById 2 result.toNat with
            | .error e => .raised e
            | .ok rc =>
              match Props.unpack 2 rest with
              | .error e => .raised e
              | .ok (p, _) => .ok (.connack sp result.toNat rc (some p))
        else .ok (.connack sp result.toNat result.toNat none)
      | _ => .raised .structError
  else if t = 0x90 then
    -- _handle_suback
    match rdU16 body with
    | none => .raised .structError
    | some mid =>
      let rest := body.drop 2
      if proto = 5 then
        match Props.unpack 9 rest with
        | .error e => .raised e
        | .ok (p, n) =>
          match reasonList 9 (rest.drop n) with
          | .error e => .raised e
          | .ok codes => .ok (.suback mid codes (some p))
      else
        match reasonList 9 rest with
        | .error e => .raised e
        | .ok codes => .ok (.suback mid codes none)
  else if t = 0xB0 then
    -- _handle_unsuback
    if (proto = 5 ∧ rl < 4) ∨ (proto ≠ 5 ∧ rl ≠ 2) then .rc 2
    else
      match rdU16 body with
      | none => .raised .structError
      | some mid =>
        if proto = 5 then
          let rest := body.drop 2
          match Props.unpack 11 rest with
          | .error e => .raised e
          | .ok (p, n) =>
            match reasonList 11 (rest.drop n) with
            | .error e => .raised e
            | .ok codes => .ok (.unsuback mid codes (some p))
        else .ok (.unsuback mid [] none)
  else if t = 0xE0 ∧ proto = 5 then
    -- _handle_disconnect
    if rl > 0 then
      match reasonUnpack 14 body with
      | .error e => .raised e
      | .ok rc =>
        if rl > 1 then
          match Props.unpack 14 (body.drop 1) with
          | .error e => .raised e
          | .ok (p, _) => .ok (.disconnect (some rc) (some p))
        else .ok (.disconnect (some rc) none)
    else .ok (.disconnect none none)
  else .rc 2

end Paho
