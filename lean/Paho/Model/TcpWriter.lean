/-
The outgoing path over a raw (TCP/TLS) socket, at packet granularity (C06): the client's packet queue and
`_packet_write()` with `sock.send()` accepting any part of what it is given. Same code as Paho.Model.WsWriter models over
the WebSocket wrapper (see there for the transcription of `_packet_write`); here `send(data)` takes `min k len(data)` bytes,
raises BlockingIOError or raises another OSError. The session model (Paho.Model.Session.packetWrite) has the same loop
with callbacks and connection state around it and byte-level theorems; this model adds the packet-level statements
(which packets are complete on the wire when they are reported as sent).
-/
import Paho.Model.Ws
namespace Paho.TcpW
open Paho Paho.Ws

structure Pkt where
  bytes : Bytes
  pos : Nat
  toProcess : Int
  deriving DecidableEq, Repr

structure St where
  queue : List Pkt := []
  wire : Bytes := []          -- what the socket accepted, in order
  enq : List Bytes := []      -- ghost: packets appended, oldest first
  done : List Bytes := []     -- ghost: packets popped for good (reported as sent), oldest first
  deriving Repr

inductive WRes where
  | success | again | connLost | stuck
  deriving DecidableEq, Repr

def enqueue (s : St) (p : Bytes) : St :=
  { s with queue := s.queue ++ [{ bytes := p, pos := 0, toProcess := p.length }], enq := s.enq ++ [p] }

/-- one iteration of the `while True` of `_packet_write()`; `some r`: the call returns `r`, `none`: next iteration -/
def iter (s : St) (out : SockSend) : St × Option WRes :=
  match s.queue with
  | [] => (s, some .success)
  | p :: rest =>
    let data := p.bytes.drop p.pos
    match out with
    | .wouldBlock => (s, some .again)
    | .error => (s, some .connLost)
    | .accept k =>
      let n := min k data.length
      let s1 : St := { s with wire := s.wire ++ data.take n }
      if n > 0 then
        let p' : Pkt := { p with toProcess := p.toProcess - n, pos := p.pos + n }
        if p'.toProcess = 0 then ({ s1 with queue := rest, done := s1.done ++ [p.bytes] }, none)
        else ({ s1 with queue := p' :: rest }, none)
      else (s1, some .success)

/-- unsent bytes of the packet at the head of the queue -/
def headRemaining (s : St) : Nat :=
  match s.queue with
  | [] => 0
  | p :: _ => p.bytes.length - p.pos

/-- `_packet_write()`: `outs` scripts the socket for the first iterations; once the script is used up the socket takes
everything it is given -/
def packetWrite : Nat → St → List SockSend → St × WRes
  | 0, s, _ => (s, .stuck)
  | fuel + 1, s, outs =>
    match iter s (outs.headD (.accept (headRemaining s))) with
    | (s', some r) => (s', r)
    | (s', none) => packetWrite fuel s' outs.tail

inductive Op where
  | enq (p : Bytes)
  | write (outs : List SockSend)
  deriving Repr

/-- every iteration that does not return consumes a script item or (script used up: the socket takes everything)
completes a packet -/
def fuelFor (s : St) (outs : List SockSend) : Nat := outs.length + s.queue.length + 2

def step (s : St) : Op → St × Option WRes
  | .enq p => (enqueue s p, none)
  | .write outs => let r := packetWrite (fuelFor s outs) s outs; (r.1, some r.2)

def run (s : St) (ops : List Op) : St := ops.foldl (fun s op => (step s op).1) s

end Paho.TcpW
