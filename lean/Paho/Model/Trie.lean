/-
Model of `src/paho/mqtt/matcher.py` (class MQTTMatcher) and of
`client.py::topic_matches_sub`.

Strings are modelled as their UTF-8 byte lists; `str.split('/')` on a valid
Python `str` and a split of its UTF-8 bytes on 0x2F agree level by level
('/' is ASCII and never part of a multi-byte sequence), and
`topic.startswith('$')` is "first byte is 0x24".

Child dictionaries are association lists in insertion order (Python `dict`).
-/
import Paho.Gen.Matcher
import Paho.Model.Split

namespace Paho

def splitTopic (s : List UInt8) : List Level := splitOn Gen.chSlash s

def lvlPlus : Level := [Gen.chPlus]
def lvlHash : Level := [Gen.chHash]

/-- `topic.startswith('$')` -/
def startsDollar : List UInt8 → Bool
  | c :: _ => c = Gen.chDollar
  | [] => false

/-- `MQTTMatcher.Node`: `_content` and `_children` (insertion ordered). -/
inductive Node (V : Type) where
  | mk (content : Option V) (children : List (Level × Node V)) : Node V

namespace Node
variable {V : Type}

def content : Node V → Option V
  | mk c _ => c

def children : Node V → List (Level × Node V)
  | mk _ ch => ch

def empty : Node V := mk none []

/-- `node._children[k]` (dict lookup). -/
def lookup (k : Level) : List (Level × Node V) → Option (Node V)
  | [] => none
  | (k', n) :: rest => if k' = k then some n else lookup k rest

/-- replace the child stored under `k` (which exists) keeping its position,
or append `(k, n)` at the end: dict assignment semantics. -/
def setChild (k : Level) (n : Node V) : List (Level × Node V) → List (Level × Node V)
  | [] => [(k, n)]
  | (k', n') :: rest => if k' = k then (k, n) :: rest else (k', n') :: setChild k n rest

def eraseChild (k : Level) : List (Level × Node V) → List (Level × Node V)
  | [] => []
  | (k', n') :: rest => if k' = k then rest else (k', n') :: eraseChild k rest

/-- `__setitem__`: walk/create the path, set the content at the end. -/
def insert (key : List Level) (v : V) : Node V → Node V
  | mk c ch =>
    match key with
    | [] => mk (some v) ch
    | k :: ks =>
      match lookup k ch with
      | some child => mk c (setChild k (insert ks v child) ch)
      | none => mk c (setChild k (insert ks v empty) ch)
termination_by key.length

/-- `__getitem__`: `none` models `KeyError`. -/
def get (key : List Level) : Node V → Option V
  | mk c ch =>
    match key with
    | [] => c
    | k :: ks =>
      match lookup k ch with
      | some child => get ks child
      | none => none
termination_by key.length

/-- is the node removable by the clean-up loop of `__delitem__`
(`if node._children or node._content is not None: break`)? -/
def isDead : Node V → Bool
  | mk c ch => c.isNone && ch.isEmpty

/-- `__delitem__`: `none` models `KeyError` (path not present; the trie is then
unchanged). On success the content at the end of the path is cleared and the
clean-up loop removes, bottom-up, every node of the path that has neither
children nor content, stopping at the first node that has either. -/
def delete (key : List Level) : Node V → Option (Node V)
  | mk c ch =>
    match key with
    | [] => some (mk none ch)
    | k :: ks =>
      match lookup k ch with
      | none => none
      | some child =>
        match delete ks child with
        | none => none
        | some child' =>
          if isDead child' then some (mk c (eraseChild k ch))
          else some (mk c (setChild k child' ch))
termination_by key.length

/-- `iter_match.rec(node, i)`; `lst.drop i` is passed as `rest`, `first` is
`i == 0`, `normal` is `not topic.startswith('$')`. -/
def iterMatchAux (normal : Bool) : (first : Bool) → (rest : List Level) → Node V → List V
  | first, rest, mk c ch =>
    let wildP := if Gen.plusGuarded then normal || !first else true
    let wildH := if Gen.hashGuarded then normal || !first else true
    let here : List V :=
      match rest with
      | [] => c.toList
      | part :: more =>
        (match lookup part ch with
          | some child => iterMatchAux normal false more child
          | none => []) ++
        (if wildP then
          (match lookup lvlPlus ch with
            | some child => iterMatchAux normal false more child
            | none => [])
         else [])
    let hash : List V :=
      if wildH then
        (match lookup lvlHash ch with
          | some child => child.content.toList
          | none => [])
      else []
    here ++ hash
termination_by _ rest _ => rest.length

/-- `iter_match(topic)` -/
def iterMatch (t : Node V) (topic : List UInt8) : List V :=
  iterMatchAux (!startsDollar topic) true (splitTopic topic) t

/-- canonical structural dump used by the correspondence check: pre-order list of
(path, has-content) in child insertion order. -/
def dumpAux (showV : V → String) (pfx : List Level) : Nat → Node V → List (List Level × Option String)
  | 0, _ => []
  | fuel + 1, mk c ch =>
    (pfx, c.map showV) ::
      (ch.map (fun (k, n) => dumpAux showV (pfx ++ [k]) fuel n)).flatten

end Node

/-- `topic_matches_sub(sub, topic)` -/
def topicMatchesSub (sub topic : List UInt8) : Bool :=
  let m : Node Bool := Node.insert (splitTopic sub) true Node.empty
  !(Node.iterMatch m topic).isEmpty

end Paho
