import Paho.Model.Basic
import Paho.Gen.Consts
import Paho.Model.Trie
import Paho.Model.Mid
import Paho.Model.Validate
import Paho.Spec.Topic
