"""T1: AST extractor  /repo/src/paho/mqtt/*.py  ->  lean/Paho/Gen/*.lean

Re-run on every check. Reads the *current working tree*; every anchored literal,
comparison operator and table the Lean model is instantiated with comes from here,
so the theorems are re-checked by the kernel against what the source says now.

An anchor whose pattern is not found is reported in the extraction report and its
definition is omitted from the generated file (dependent proofs then fail to build,
which the runner treats as "proof obligation broken", never by itself a violation).
"""
from __future__ import annotations

import ast
import hashlib
import json
import os
import sys

REPO_SRC = os.environ.get("PAHO_VERIF_REPO_SRC", "/repo/src")
PKG = os.path.join(REPO_SRC, "paho", "mqtt")
HERE = os.path.dirname(os.path.abspath(__file__))
GEN_DIR = os.path.join(os.path.dirname(HERE), "lean", "Paho", "Gen")


class Missing(Exception):
    pass


class Src:
    def __init__(self, name):
        self.name = name
        self.path = os.path.join(PKG, name)
        self.text = open(self.path, encoding="utf-8").read()
        self.tree = ast.parse(self.text)
        self.sha = hashlib.sha256(self.text.encode()).hexdigest()

    def func(self, qual: str) -> ast.FunctionDef:
        parts = qual.split(".")
        body = self.tree.body
        node = None
        for p in parts:
            node = None
            for n in body:
                if isinstance(n, (ast.FunctionDef, ast.ClassDef)) and n.name == p:
                    node = n
                    break
            if node is None:
                raise Missing(f"{self.name}:{qual}")
            body = node.body
        return node

    def func_hash(self, qual: str) -> str:
        f = self.func(qual)
        return hashlib.sha256(ast.dump(f, include_attributes=False).encode()).hexdigest()[:16]


def walk(node, typ):
    return [n for n in ast.walk(node) if isinstance(n, typ)]


def const(node):
    if isinstance(node, ast.Constant):
        return node.value
    if isinstance(node, ast.UnaryOp) and isinstance(node.op, ast.USub) and isinstance(node.operand, ast.Constant):
        return -node.operand.value
    raise Missing("not a constant: " + ast.dump(node))


def is_self_attr(node, attr):
    return (isinstance(node, ast.Attribute) and node.attr == attr
            and isinstance(node.value, ast.Name) and node.value.id == "self")


def unparse(n):
    return ast.unparse(n)


CMP = {ast.Lt: "lt", ast.LtE: "le", ast.Eq: "eq", ast.NotEq: "ne", ast.GtE: "ge", ast.Gt: "gt"}


def cmp_name(op):
    for k, v in CMP.items():
        if isinstance(op, k):
            return v
    raise Missing("comparator " + type(op).__name__)


def find_compares(node, left_pred):
    """all Compare nodes with one comparator whose left satisfies left_pred."""
    out = []
    for c in walk(node, ast.Compare):
        if len(c.ops) == 1 and left_pred(c.left):
            out.append(c)
    return out


def gen_file(file, name):
    """the generated file a definition goes to: constants are split by the model that consumes them, so that an anchor
    that is no longer found only breaks the proofs that depend on it"""
    if file != "Consts":
        return file
    if name.startswith("ch") or name in ("plusGuarded", "hashGuarded", "matcherShapeOk"):
        return "Matcher"
    if name.startswith("mid"):
        return "MidConsts"
    if name.startswith(("topic", "filter", "pub")):
        return "ValidateConsts"
    if name in ("rlMaxBytesCmp", "rlMaxBytes", "readLoopMax", "handlerThresholdsOk"):
        return "ReaderLimits"
    if name.startswith(("rl", "vbi")):
        return "BytesConsts"
    if name.startswith("ka"):
        return "Keepalive"
    if name.startswith("backoff"):
        return "Backoff"
    return file


class Out:
    """collects Lean definitions + report"""

    def __init__(self):
        self.defs: dict[str, list[str]] = {}   # file -> lines
        self.report = {"anchors": {}, "missing": [], "sources": {}, "func_hashes": {}}

    def add(self, file, name, lean_type, lean_val, where):
        file = gen_file(file, name)
        self.defs.setdefault(file, []).append(f"/-- {where} -/\ndef {name} : {lean_type} := {lean_val}")
        self.report["anchors"][name] = {"value": lean_val, "where": where}

    def missing(self, file, name, why):
        file = gen_file(file, name)
        self.defs.setdefault(file, []).append(f"-- MISSING anchor {name}: {why}")
        self.report["missing"].append({"name": name, "why": str(why), "file": file})

    def anchor(self, file, name, lean_type, fn, where):
        try:
            v = fn()
        except Missing as e:
            self.missing(file, name, e)
            return None
        except Exception as e:  # malformed source for this anchor
            self.missing(file, name, f"{type(e).__name__}: {e}")
            return None
        self.add(file, name, lean_type, lean_val(v, lean_type), where)
        return v


def lean_val(v, ty):
    if ty == "Bool":
        return "true" if v else "false"
    if ty == "Cmp":
        return f".{v}"
    if ty == "Int":
        return f"({v})" if v < 0 else str(v)
    if ty in ("Nat", "UInt8"):
        return str(int(v))
    if ty == "String":
        return json.dumps(v)
    if ty.startswith("List"):
        return v
    return str(v)


def one_char(s) -> int:
    if isinstance(s, bytes):
        if len(s) != 1:
            raise Missing(f"expected one byte, got {s!r}")
        return s[0]
    if not isinstance(s, str) or len(s) != 1 or ord(s) > 127:
        raise Missing(f"expected one ASCII char, got {s!r}")
    return ord(s)


def the(vals, what):
    vals = list(vals)
    if not vals:
        raise Missing(f"{what}: not found")
    if any(v != vals[0] for v in vals):
        raise Missing(f"{what}: inconsistent {vals!r}")
    return vals[0]


# ------------------------------------------------------------------ matcher.py
def extract_matcher(out: Out, m: Src):
    F = "Consts"
    cls = "MQTTMatcher"

    def split_sep():
        seps = []
        for fn in ("__setitem__", "__getitem__", "__delitem__", "iter_match"):
            f = m.func(f"{cls}.{fn}")
            calls = [c for c in walk(f, ast.Call)
                     if isinstance(c.func, ast.Attribute) and c.func.attr == "split"]
            if len(calls) != 1 or len(calls[0].args) != 1:
                raise Missing(f"{fn}: expected exactly one .split(sep)")
            seps.append(one_char(const(calls[0].args[0])))
        return the(seps, "split separator")
    out.anchor(F, "chSlash", "UInt8", split_sep, "matcher.py: key.split('/') in __setitem__/__getitem__/__delitem__/iter_match")

    def dollar():
        f = m.func(f"{cls}.iter_match")
        calls = [c for c in walk(f, ast.Call)
                 if isinstance(c.func, ast.Attribute) and c.func.attr == "startswith"]
        if len(calls) != 1:
            raise Missing("startswith")
        # normal = not topic.startswith('$')
        asg = [a for a in walk(f, ast.Assign) if isinstance(a.targets[0], ast.Name) and a.targets[0].id == "normal"]
        if len(asg) != 1 or not (isinstance(asg[0].value, ast.UnaryOp) and isinstance(asg[0].value.op, ast.Not)
                                 and asg[0].value.operand is calls[0]):
            raise Missing("normal = not topic.startswith(..)")
        if unparse(calls[0].func.value) != "topic":
            raise Missing("startswith receiver")
        return one_char(const(calls[0].args[0]))
    out.anchor(F, "chDollar", "UInt8", dollar, "matcher.py iter_match: normal = not topic.startswith('$')")

    def wildcard_guard(ch):
        """`if '<ch>' in node._children and (normal or i > 0):` -> (char, guarded)"""
        def go():
            f = m.func(f"{cls}.iter_match")
            hits = []
            for iff in walk(f, ast.If):
                t = iff.test
                conj = t.values if isinstance(t, ast.BoolOp) and isinstance(t.op, ast.And) else [t]
                first = conj[0]
                if (isinstance(first, ast.Compare) and len(first.ops) == 1 and isinstance(first.ops[0], ast.In)
                        and isinstance(first.left, ast.Constant) and first.left.value == ch
                        and unparse(first.comparators[0]) == "node._children"):
                    guarded = (len(conj) == 2 and unparse(conj[1]) in ("normal or i > 0", "(normal or i > 0)"))
                    if len(conj) > 2 or (len(conj) == 2 and not guarded):
                        raise Missing(f"unrecognised guard on {ch!r}: {unparse(t)}")
                    hits.append(guarded)
            if len(hits) != 1:
                raise Missing(f"wildcard branch {ch!r}: {len(hits)} candidates")
            return hits[0]
        return go
    out.anchor(F, "chPlus", "UInt8", lambda: (wildcard_guard('+')(), one_char('+'))[1], "matcher.py iter_match: '+' in node._children")
    out.anchor(F, "chHash", "UInt8", lambda: (wildcard_guard('#')(), one_char('#'))[1], "matcher.py iter_match: '#' in node._children")
    out.anchor(F, "plusGuarded", "Bool", wildcard_guard('+'), "matcher.py iter_match: '+' branch guarded by (normal or i > 0)")
    out.anchor(F, "hashGuarded", "Bool", wildcard_guard('#'), "matcher.py iter_match: '#' branch guarded by (normal or i > 0)")

    # the trie model (Paho.Model.Trie) follows these five methods statement by statement: their statement structure (kinds and
    # nesting of the statements, docstrings aside) must be the modelled one - an added fast path, counter or early return is not
    # something the anchors above would notice
    SHAPE = {
        "__init__": "0Assign",
        "__setitem__": "0Assign 0For 1Assign 0Assign",
        "__getitem__": "0Try 1Assign 1For 2Assign 1If 2Raise 1Return 1Raise",
        "__delitem__": "0Assign 0Try 1Assign 1For 2Assign 2Expr 1Assign 1For 2If 3Break 2Delete 1Raise",
        "iter_match": "0Assign 0Assign 0FunctionDef 1If 2If 3Expr 2Assign 2If 3For 4Expr 2If 3For 4Expr 1If 2Assign 2If 3Expr 0Return",
    }

    def skeleton(fn):
        acc = []

        def rec(body, d):
            for st in body:
                if isinstance(st, ast.Expr) and isinstance(st.value, ast.Constant) and isinstance(st.value.value, str):
                    continue
                acc.append(f"{d}{type(st).__name__}")
                for fld in ("body", "orelse", "finalbody"):
                    sub = getattr(st, fld, None)
                    if sub:
                        rec(sub, d + 1)
                for h in getattr(st, "handlers", []) or []:
                    rec(h.body, d + 1)
        rec(fn.body, 0)
        return " ".join(acc)

    def shape():
        for fn, want in SHAPE.items():
            got = skeleton(m.func(f"{cls}.{fn}"))
            if got != want:
                raise Missing(f"{fn}: statement structure <{got}> is not the modelled one <{want}>")
        return True
    out.anchor(F, "matcherShapeOk", "Bool", shape, "matcher.py MQTTMatcher: __init__/__setitem__/__getitem__/__delitem__/iter_match have the modelled statement structure")


# ------------------------------------------------------------------ client.py scalars
def extract_client_consts(out: Out, c: Src):
    F = "Consts"

    # _mid_generate
    def midgen():
        f = c.func("Client._mid_generate")
        withs = walk(f, ast.With)
        if len(withs) != 1 or unparse(withs[0].items[0].context_expr) != "self._mid_generate_mutex":
            raise Missing("with self._mid_generate_mutex")
        body = withs[0].body
        if len(body) != 3:
            raise Missing("_mid_generate body shape")
        inc, iff, ret = body
        if not (isinstance(inc, ast.AugAssign) and is_self_attr(inc.target, "_last_mid") and isinstance(inc.op, ast.Add)):
            raise Missing("self._last_mid += k")
        if not (isinstance(iff, ast.If) and isinstance(iff.test, ast.Compare) and is_self_attr(iff.test.left, "_last_mid")
                and len(iff.body) == 1 and not iff.orelse and isinstance(iff.body[0], ast.Assign)
                and is_self_attr(iff.body[0].targets[0], "_last_mid")):
            raise Missing("if self._last_mid == W: self._last_mid = R")
        if not (isinstance(ret, ast.Return) and is_self_attr(ret.value, "_last_mid")):
            raise Missing("return self._last_mid")
        return (const(inc.value), cmp_name(iff.test.ops[0]), const(iff.test.comparators[0]), const(iff.body[0].value))
    mg = None
    try:
        mg = midgen()
    except Missing as e:
        for n in ("midIncr", "midWrapCmp", "midWrap", "midReset"):
            out.missing(F, n, e)
    if mg:
        w = "client.py Client._mid_generate"
        out.add(F, "midIncr", "Nat", lean_val(mg[0], "Nat"), w + ": self._last_mid += 1")
        out.add(F, "midWrapCmp", "Cmp", lean_val(mg[1], "Cmp"), w + ": if self._last_mid == 65536")
        out.add(F, "midWrap", "Nat", lean_val(mg[2], "Nat"), w + ": if self._last_mid == 65536")
        out.add(F, "midReset", "Nat", lean_val(mg[3], "Nat"), w + ": self._last_mid = 1")

    def init_last_mid():
        f = c.func("Client.__init__")
        for a in walk(f, ast.Assign):
            if is_self_attr(a.targets[0], "_last_mid"):
                return const(a.value)
        raise Missing("self._last_mid = 0")
    out.anchor(F, "midInit", "Nat", init_last_mid, "client.py Client.__init__: self._last_mid = 0")

    # _raise_for_invalid_topic
    def topic_rule():
        f = c.func("Client._raise_for_invalid_topic")
        ifs = [n for n in f.body if isinstance(n, ast.If)]
        if len(ifs) != 2:
            raise Missing("two ifs")
        t0 = ifs[0].test
        if not (isinstance(t0, ast.BoolOp) and isinstance(t0.op, ast.Or) and len(t0.values) == 2):
            raise Missing("b'+' in topic or b'#' in topic")
        chars = []
        for v in t0.values:
            if not (isinstance(v, ast.Compare) and isinstance(v.ops[0], ast.In) and unparse(v.comparators[0]) == "topic"):
                raise Missing("x in topic")
            chars.append(one_char(const(v.left)))
        t1 = ifs[1].test
        if not (isinstance(t1, ast.Compare) and unparse(t1.left) == "len(topic)"):
            raise Missing("len(topic) > 65535")
        for i in ifs:
            if not (len(i.body) == 1 and isinstance(i.body[0], ast.Raise) and unparse(i.body[0].exc).startswith("ValueError")):
                raise Missing("raise ValueError")
        return chars, cmp_name(t1.ops[0]), const(t1.comparators[0])
    try:
        chars, tcmp, tmax = topic_rule()
        w = "client.py Client._raise_for_invalid_topic"
        out.add(F, "topicWild1", "UInt8", str(chars[0]), w)
        out.add(F, "topicWild2", "UInt8", str(chars[1]), w)
        out.add(F, "topicLenCmp", "Cmp", f".{tcmp}", w + ": len(topic) > 65535")
        out.add(F, "topicLenMax", "Nat", str(tmax), w)
    except Missing as e:
        for n in ("topicWild1", "topicWild2", "topicLenCmp", "topicLenMax"):
            out.missing(F, n, e)

    # _filter_wildcard_len_check
    def filter_rule():
        f = c.func("Client._filter_wildcard_len_check")
        ifs = [n for n in f.body if isinstance(n, ast.If)]
        if len(ifs) != 1:
            raise Missing("single if")
        t = ifs[0].test
        if not (isinstance(t, ast.BoolOp) and isinstance(t.op, ast.Or) and len(t.values) == 4):
            raise Missing("4-way or")
        a, b, cc, d = t.values
        if not (isinstance(a, ast.Compare) and unparse(a.left) == "len(sub)"):
            raise Missing("len(sub) == 0")
        if not (isinstance(b, ast.Compare) and unparse(b.left) == "len(sub)"):
            raise Missing("len(sub) > 65535")
        # any(b'+' in p or b'#' in p for p in sub.split(b'/') if len(p) > 1)
        if not (isinstance(cc, ast.Call) and unparse(cc.func) == "any" and isinstance(cc.args[0], ast.GeneratorExp)):
            raise Missing("any(...)")
        g = cc.args[0]
        comp = g.generators[0]
        if not (isinstance(comp.iter, ast.Call) and unparse(comp.iter.func) == "sub.split" and len(comp.ifs) == 1):
            raise Missing("for p in sub.split(b'/') if len(p) > 1")
        sep = one_char(const(comp.iter.args[0]))
        lf = comp.ifs[0]
        if not (isinstance(lf, ast.Compare) and unparse(lf.left) == "len(p)"):
            raise Missing("len(p) > 1")
        e = g.elt
        if not (isinstance(e, ast.BoolOp) and isinstance(e.op, ast.Or) and len(e.values) == 2):
            raise Missing("b'+' in p or b'#' in p")
        wc = []
        for v in e.values:
            if not (isinstance(v, ast.Compare) and isinstance(v.ops[0], ast.In) and unparse(v.comparators[0]) == "p"):
                raise Missing("x in p")
            wc.append(one_char(const(v.left)))
        if not (isinstance(d, ast.Compare) and isinstance(d.ops[0], ast.In) and unparse(d.comparators[0]) == "sub"):
            raise Missing("b'#/' in sub")
        pat = const(d.left)
        if not isinstance(pat, bytes):
            raise Missing("bytes pattern")
        ok_then = unparse(ifs[0].body[0]).endswith("MQTT_ERR_INVAL") and unparse(ifs[0].orelse[0]).endswith("MQTT_ERR_SUCCESS")
        if not ok_then:
            raise Missing("INVAL/SUCCESS branches")
        return dict(emptyCmp=cmp_name(a.ops[0]), emptyLen=const(a.comparators[0]),
                    lenCmp=cmp_name(b.ops[0]), lenMax=const(b.comparators[0]), sep=sep,
                    lvlCmp=cmp_name(lf.ops[0]), lvlLen=const(lf.comparators[0]), wc=wc, pat=list(pat))
    try:
        r = filter_rule()
        w = "client.py Client._filter_wildcard_len_check"
        out.add(F, "filterEmptyCmp", "Cmp", f".{r['emptyCmp']}", w + ": len(sub) == 0")
        out.add(F, "filterEmptyLen", "Nat", str(r["emptyLen"]), w)
        out.add(F, "filterLenCmp", "Cmp", f".{r['lenCmp']}", w + ": len(sub) > 65535")
        out.add(F, "filterLenMax", "Nat", str(r["lenMax"]), w)
        out.add(F, "filterSep", "UInt8", str(r["sep"]), w + ": sub.split(b'/')")
        out.add(F, "filterLvlCmp", "Cmp", f".{r['lvlCmp']}", w + ": if len(p) > 1")
        out.add(F, "filterLvlLen", "Nat", str(r["lvlLen"]), w)
        out.add(F, "filterWild1", "UInt8", str(r["wc"][0]), w + ": b'+' in p")
        out.add(F, "filterWild2", "UInt8", str(r["wc"][1]), w + ": b'#' in p")
        out.add(F, "filterBadPat", "List UInt8", "[" + ", ".join(map(str, r["pat"])) + "]", w + ": b'#/' in sub")
    except Missing as e:
        for n in ("filterEmptyCmp", "filterEmptyLen", "filterLenCmp", "filterLenMax", "filterSep", "filterLvlCmp",
                  "filterLvlLen", "filterWild1", "filterWild2", "filterBadPat"):
            out.missing(F, n, e)

    # publish(): qos range, payload bound, empty topic rule
    def publish_rules():
        f = c.func("Client.publish")
        res = {}
        for iff in walk(f, ast.If):
            t = iff.test
            s = unparse(t)
            if isinstance(t, ast.BoolOp) and isinstance(t.op, ast.Or) and len(t.values) == 2 and \
                    all(isinstance(v, ast.Compare) and unparse(v.left) == "qos" for v in t.values):
                res["qosLoCmp"] = cmp_name(t.values[0].ops[0])
                res["qosLo"] = const(t.values[0].comparators[0])
                res["qosHiCmp"] = cmp_name(t.values[1].ops[0])
                res["qosHi"] = const(t.values[1].comparators[0])
            elif isinstance(t, ast.Compare) and unparse(t.left) == "len(local_payload)":
                res["payloadCmp"] = cmp_name(t.ops[0])
                res["payloadMax"] = const(t.comparators[0])
            elif isinstance(t, ast.Compare) and unparse(t.left) == "remaining_length":
                res["remLenCmp"] = cmp_name(t.ops[0])
                res["remLenMax"] = const(t.comparators[0])
            elif s == "self._protocol != MQTTv5":
                inner = [i for i in iff.body if isinstance(i, ast.If)]
                if len(inner) == 1 and unparse(inner[0].test) == "topic is None or len(topic) == 0":
                    res["emptyTopicV3"] = True
        body = unparse(f)
        for frag in ("remaining_length = 2 + len(topic_bytes) + len(local_payload)", "if qos > 0:\n        remaining_length += 2",
                     "remaining_length += 1 if properties is None else len(properties.pack())"):
            if frag not in body:
                raise Missing("publish(): " + frag)
        for k in ("qosLoCmp", "qosLo", "qosHiCmp", "qosHi", "payloadCmp", "payloadMax", "emptyTopicV3", "remLenCmp", "remLenMax"):
            if k not in res:
                raise Missing("publish(): " + k)
        return res
    try:
        r = publish_rules()
        w = "client.py Client.publish"
        out.add(F, "pubQosLoCmp", "Cmp", f".{r['qosLoCmp']}", w + ": qos < 0")
        out.add(F, "pubQosLo", "Int", lean_val(r["qosLo"], "Int"), w)
        out.add(F, "pubQosHiCmp", "Cmp", f".{r['qosHiCmp']}", w + ": qos > 2")
        out.add(F, "pubQosHi", "Int", lean_val(r["qosHi"], "Int"), w)
        out.add(F, "pubPayloadCmp", "Cmp", f".{r['payloadCmp']}", w + ": len(local_payload) > 268435455")
        out.add(F, "pubPayloadMax", "Nat", str(r["payloadMax"]), w)
        out.add(F, "pubRemLenCmp", "Cmp", f".{r['remLenCmp']}", w + ": if remaining_length > 268435455 (whole packet)")
        out.add(F, "pubRemLenMax", "Nat", str(r["remLenMax"]), w)
    except Missing as e:
        for n in ("pubQosLoCmp", "pubQosLo", "pubQosHiCmp", "pubQosHi", "pubPayloadCmp", "pubPayloadMax", "pubRemLenCmp", "pubRemLenMax"):
            out.missing(F, n, e)


def extract_bytes(out: Out, srcs):
    F = "Consts"
    c = srcs.get("client.py")
    pr = srcs.get("properties.py")

    def remlen():
        f = c.func("Client._pack_remaining_length")
        wh = [n for n in f.body if isinstance(n, ast.While)]
        if len(wh) != 1:
            raise Missing("while True")
        guards = [n for n in f.body if isinstance(n, ast.If) and isinstance(n.test, ast.Compare)
                  and unparse(n.test.left) == "remaining_length" and isinstance(n.body[0], ast.Raise)]
        if len(guards) != 1 or f.body.index(guards[0]) > f.body.index(wh[0]):
            raise Missing("if remaining_length > 268435455: raise ValueError")
        guard = (cmp_name(guards[0].test.ops[0]), const(guards[0].test.comparators[0]))
        body = wh[0].body
        # byte = remaining_length % 128 ; remaining_length = remaining_length // 128
        a0, a1 = body[0], body[1]
        if not (isinstance(a0, ast.Assign) and unparse(a0.targets[0]) == "byte" and isinstance(a0.value, ast.BinOp)
                and isinstance(a0.value.op, ast.Mod) and unparse(a0.value.left) == "remaining_length"):
            raise Missing("byte = remaining_length % 128")
        if not (isinstance(a1, ast.Assign) and unparse(a1.targets[0]) == "remaining_length" and isinstance(a1.value, ast.BinOp)
                and isinstance(a1.value.op, ast.FloorDiv) and unparse(a1.value.left) == "remaining_length"):
            raise Missing("remaining_length = remaining_length // 128")
        base = the([const(a0.value.right), const(a1.value.right)], "base")
        i2 = body[2]
        if not (isinstance(i2, ast.If) and unparse(i2.test) == "remaining_length > 0" and len(i2.body) == 1
                and isinstance(i2.body[0], ast.AugAssign) and isinstance(i2.body[0].op, ast.BitOr)
                and unparse(i2.body[0].target) == "byte"):
            raise Missing("if remaining_length > 0: byte |= 0x80")
        flag = const(i2.body[0].value)
        rest = "\n".join(unparse(b) for b in body[3:])
        if "packet.append(byte)" not in rest or "if remaining_length == 0" not in rest:
            raise Missing("append / termination test")
        return base, flag, guard
    try:
        base, flag, guard = remlen()
        out.add(F, "rlGuardCmp", "Cmp", f".{guard[0]}", "client.py Client._pack_remaining_length: if remaining_length > 268435455: raise ValueError")
        out.add(F, "rlGuardMax", "Nat", str(guard[1]), "client.py Client._pack_remaining_length")
        out.add(F, "rlBase", "Nat", str(base), "client.py Client._pack_remaining_length: % 128, // 128")
        out.add(F, "rlFlag", "Nat", str(flag), "client.py Client._pack_remaining_length: byte |= 0x80")
    except Missing as e:
        out.missing(F, "rlBase", e)
        out.missing(F, "rlFlag", e)
        out.missing(F, "rlGuardCmp", e)
        out.missing(F, "rlGuardMax", e)

    def vbi():
        f = pr.func("VariableByteIntegers.encode")
        iff = [n for n in f.body if isinstance(n, ast.If)][0]
        t = iff.test
        # not 0 <= x <= 268435455
        if not (isinstance(t, ast.UnaryOp) and isinstance(t.op, ast.Not) and isinstance(t.operand, ast.Compare)
                and len(t.operand.ops) == 2 and all(isinstance(o, ast.LtE) for o in t.operand.ops)
                and unparse(t.operand.comparators[0]) == "x"):
            raise Missing("if not 0 <= x <= 268435455")
        lo, hi = const(t.operand.left), const(t.operand.comparators[1])
        body = "\n".join(unparse(b) for b in f.body)
        for frag in ("digit = x % 128", "x //= 128", "digit |= 128", "if x > 0", "if x == 0"):
            if frag not in body:
                raise Missing("VBI encode loop: " + frag)
        d = pr.func("VariableByteIntegers.decode")
        dbody = "\n".join(unparse(b) for b in d.body)
        for frag in ("value += (digit & 127) * multiplier", "if digit & 128 == 0", "multiplier *= 128", "bytes += 1"):
            if frag not in dbody:
                raise Missing("VBI decode loop: " + frag)
        return lo, hi
    try:
        lo, hi = vbi()
        out.add(F, "vbiLo", "Int", lean_val(lo, "Int"), "properties.py VariableByteIntegers.encode: if not 0 <= x <= 268435455 (same %128 //128 |0x80 loop as _pack_remaining_length; decode loop shape checked)")
        out.add(F, "vbiHi", "Int", lean_val(hi, "Int"), "properties.py VariableByteIntegers.encode")
    except Missing as e:
        out.missing(F, "vbiLo", e)
        out.missing(F, "vbiHi", e)


def extract_tables(out: Out, srcs):
    """property table, reason-code table (evaluated from the source's own table-building
    statements by instantiating the classes of the working tree) + allowsMultiple ids and
    the __setattr__ range rules (AST)."""
    F = "Tables"
    import importlib
    try:
        props_mod = importlib.import_module("paho.mqtt.properties")
        rc_mod = importlib.import_module("paho.mqtt.reasoncodes")
        pt_mod = importlib.import_module("paho.mqtt.packettypes")
        if not os.path.realpath(props_mod.__file__).startswith(os.path.realpath(REPO_SRC)):
            raise Missing("paho imported from " + props_mod.__file__)
        p = props_mod.Properties(pt_mod.PacketTypes.CONNECT)
        names = list(p.names.items())
        rows = [(i, t, list(pk)) for i, (t, pk) in p.properties.items()]
        types = list(p.types)
        out.add(F, "propTypes", "List String", "[" + ", ".join(json.dumps(t) for t in types) + "]", "properties.py Properties.__init__: self.types")
        out.add(F, "propNames", "List (String × Nat)", "[" + ", ".join(f"({json.dumps(n.replace(' ', ''))}, {i})" for n, i in names) + "]",
                "properties.py Properties.__init__: self.names (dict order = pack order), spaces removed")
        out.add(F, "propRows", "List (Nat × Nat × List Nat)", "[" + ",\n  ".join(f"({i}, {t}, {pk})" for i, t, pk in rows) + "]",
                "properties.py Properties.__init__: self.properties  (id, type index, packet types)")
        r = rc_mod.ReasonCode(pt_mod.PacketTypes.PUBACK)
        rrows = []
        for val, d in r.names.items():
            rrows.append(f"({val}, [" + ", ".join(f"({json.dumps(n)}, {list(pk)})" for n, pk in d.items()) + "])")
        out.add(F, "reasonRows", "List (Nat × List (String × List Nat))", "[" + ",\n  ".join(rrows) + "]",
                "reasoncodes.py ReasonCode.__init__: self.names")
    except Exception as e:  # noqa: BLE001
        for n in ("propTypes", "propNames", "propRows", "reasonRows"):
            out.missing(F, n, f"{type(e).__name__}: {e}")
    pr = srcs.get("properties.py")

    def multi():
        f = pr.func("Properties.allowsMultiple")
        ret = [n for n in f.body if isinstance(n, ast.Return)][0]
        c = ret.value
        if not (isinstance(c, ast.Compare) and isinstance(c.ops[0], ast.In) and unparse(c.left) == "self.getIdentFromName(compressedName)"):
            raise Missing("return self.getIdentFromName(compressedName) in [11, 38]")
        return "[" + ", ".join(str(const(e)) for e in c.comparators[0].elts) + "]"
    out.anchor(F, "propMultiIds", "List Nat", multi, "properties.py Properties.allowsMultiple")

    def setattr_rules():
        f = pr.func("Properties.__setattr__")
        # either   if not isinstance(value, list): <chain on value>        (scalars only)
        # or       for v in (value if isinstance(value, list) else [value]): <chain on v>   (every element)
        chain, var, lists = None, None, None
        for iff in walk(f, ast.If):
            if unparse(iff.test) == "not isinstance(value, list)" and chain is None and isinstance(iff.body[0], ast.If):
                chain, var, lists = iff.body[0], "value", False
        for fo in walk(f, ast.For):
            if unparse(fo.iter) == "value if isinstance(value, list) else [value]" and isinstance(fo.target, ast.Name) \
                    and len(fo.body) == 1 and isinstance(fo.body[0], ast.If):
                if chain is not None:
                    raise Missing("two validation chains")
                chain, var, lists = fo.body[0], fo.target.id, True
        if chain is None:
            raise Missing("forbidden-value chain in __setattr__")
        ranges, enums = [], []
        node = chain
        while node is not None:
            t = node.test
            if not (isinstance(t, ast.BoolOp) and isinstance(t.op, ast.And) and len(t.values) == 2):
                raise Missing("name in [...] and (...)")
            nm, cond = t.values
            if not (isinstance(nm, ast.Compare) and isinstance(nm.ops[0], ast.In) and unparse(nm.left) == "name"):
                raise Missing("name in [...]")
            nl = [const(e) for e in nm.comparators[0].elts]
            if isinstance(cond, ast.BoolOp) and isinstance(cond.op, ast.Or):
                a, b = cond.values
                if not (unparse(a.left) == var and isinstance(a.ops[0], ast.Lt) and unparse(b.left) == var and isinstance(b.ops[0], ast.Gt)):
                    raise Missing("value < lo or value > hi")
                ranges.append((nl, const(a.comparators[0]), const(b.comparators[0])))
            elif isinstance(cond, ast.BoolOp) and isinstance(cond.op, ast.And):
                vals = []
                for v in cond.values:
                    if not (unparse(v.left) == var and isinstance(v.ops[0], ast.NotEq)):
                        raise Missing("value != a and value != b")
                    vals.append(const(v.comparators[0]))
                enums.append((nl, vals))
            else:
                raise Missing("unrecognised rule " + unparse(cond))
            if not (len(node.body) == 1 and isinstance(node.body[0], ast.Raise)):
                raise Missing("raise MQTTException")
            node = node.orelse[0] if node.orelse and isinstance(node.orelse[0], ast.If) else None
        return ranges, enums, lists
    try:
        ranges, enums, lists = setattr_rules()
        out.add(F, "propRulesOnLists", "Bool", "true" if lists else "false",
                "properties.py Properties.__setattr__: forbidden-value rules applied to each element of a list value")
        out.add(F, "propRangeRules", "List (List String × Int × Int)",
                "[" + ", ".join(f"([{', '.join(json.dumps(n) for n in nl)}], {lean_val(lo, 'Int')}, {lean_val(hi, 'Int')})" for nl, lo, hi in ranges) + "]",
                "properties.py Properties.__setattr__: range rules (scalar values only)")
        out.add(F, "propEnumRules", "List (List String × List Int)",
                "[" + ", ".join(f"([{', '.join(json.dumps(n) for n in nl)}], [{', '.join(lean_val(v, 'Int') for v in vs)}])" for nl, vs in enums) + "]",
                "properties.py Properties.__setattr__: value != 0 and value != 1")
    except Missing as e:
        out.missing(F, "propRangeRules", e)
        out.missing(F, "propEnumRules", e)
        out.missing(F, "propRulesOnLists", e)


def extract_keepalive(out: Out, srcs):
    F = "Consts"
    c = srcs.get("client.py")

    def ck():
        f = c.func("Client._check_keepalive")
        hits = []
        for cmpn in walk(f, ast.Compare):
            l = unparse(cmpn.left)
            if l in ("now - last_msg_out", "now - last_msg_in") and unparse(cmpn.comparators[0]) == "self._keepalive":
                hits.append((l, cmp_name(cmpn.ops[0])))
        d = dict(hits)
        if len(hits) != 2 or len(d) != 2:
            raise Missing("now - last_msg_out >= self._keepalive or now - last_msg_in >= self._keepalive")
        body = unparse(f)
        for frag in ("if self._keepalive == 0:", "self._state == _ConnectionState.MQTT_CS_CONNECTED and self._ping_t == 0"):
            if frag not in body:
                raise Missing(frag)
        return d["now - last_msg_out"], d["now - last_msg_in"]

    def lm():
        f = c.func("Client.loop_misc")
        for cmpn in walk(f, ast.Compare):
            if unparse(cmpn.left) == "now - self._ping_t" and unparse(cmpn.comparators[0]) == "self._keepalive":
                if "self._ping_t > 0 and now - self._ping_t" not in unparse(f):
                    raise Missing("self._ping_t > 0 and ...")
                return cmp_name(cmpn.ops[0])
        raise Missing("now - self._ping_t >= self._keepalive")
    try:
        a, b = ck()
        out.add(F, "kaOutCmp", "Cmp", f".{a}", "client.py Client._check_keepalive: now - last_msg_out >= self._keepalive")
        out.add(F, "kaInCmp", "Cmp", f".{b}", "client.py Client._check_keepalive: now - last_msg_in >= self._keepalive")
    except Missing as e:
        out.missing(F, "kaOutCmp", e)
        out.missing(F, "kaInCmp", e)
    out.anchor(F, "kaPingCmp", "Cmp", lm, "client.py Client.loop_misc: self._ping_t > 0 and now - self._ping_t >= self._keepalive")


def extract_reader(out: Out, srcs):
    F = "Consts"
    c = srcs.get("client.py")

    def rl():
        f = c.func("Client._packet_read")
        hits = [n for n in walk(f, ast.Compare) if unparse(n.left) == "len(self._in_packet['remaining_count'])"]
        if len(hits) != 1:
            raise Missing("if len(self._in_packet['remaining_count']) > 4")
        body = unparse(f)
        for frag in ("(byte_value & 127) * self._in_packet['remaining_mult']", "self._in_packet['remaining_mult'] * 128",
                     "if byte_value & 128 == 0:", "count = 100", "count -= 1", "if count == 0:"):
            if frag not in body:
                raise Missing("_packet_read: " + frag)
        cnt = [a for a in walk(f, ast.Assign) if unparse(a.targets[0]) == "count"]
        return cmp_name(hits[0].ops[0]), const(hits[0].comparators[0]), const(cnt[0].value)
    try:
        a, b, n = rl()
        out.add(F, "rlMaxBytesCmp", "Cmp", f".{a}", "client.py Client._packet_read: if len(remaining_count) > 4: return MQTT_ERR_PROTOCOL")
        out.add(F, "rlMaxBytes", "Nat", str(b), "client.py Client._packet_read")
        out.add(F, "readLoopMax", "Nat", str(n), "client.py Client._packet_read: count = 100 (body-read iterations per call)")
    except Missing as e:
        for nme in ("rlMaxBytesCmp", "rlMaxBytes", "readLoopMax"):
            out.missing(F, nme, e)

    def thresholds():
        """length thresholds of the ack handlers and of _handle_disconnect / _handle_unsuback"""
        res = {}
        for fn in ("_handle_pubrel", "_handle_pubrec", "_handle_pubackcomp"):
            f = c.func("Client." + fn)
            body = unparse(f)
            for frag in ("if self._in_packet['remaining_length'] < 2:", "elif self._in_packet['remaining_length'] != 2:",
                         "if self._in_packet['remaining_length'] > 2:", "if self._in_packet['remaining_length'] > 3:"):
                if frag not in body:
                    raise Missing(f"{fn}: {frag}")
        d = unparse(c.func("Client._handle_disconnect"))
        for frag in ("if self._in_packet['remaining_length'] > 0:", "if self._in_packet['remaining_length'] > 1:"):
            if frag not in d:
                raise Missing("_handle_disconnect: " + frag)
        u = unparse(c.func("Client._handle_unsuback"))
        for frag in ("if self._in_packet['remaining_length'] < 4:", "elif self._in_packet['remaining_length'] != 2:"):
            if frag not in u:
                raise Missing("_handle_unsuback: " + frag)
        k = unparse(c.func("Client._handle_connack"))
        for frag in ("if self._in_packet['remaining_length'] < 2:", "elif self._in_packet['remaining_length'] != 2:", "if result == 1:"):
            if frag not in k:
                raise Missing("_handle_connack: " + frag)
        return True
    out.anchor(F, "handlerThresholdsOk", "Bool", thresholds,
               "client.py: remaining-length tests of _handle_pubrel/_handle_pubrec/_handle_pubackcomp (<2, !=2, >2, >3), _handle_disconnect (>0, >1), _handle_unsuback (<4, !=2), _handle_connack (<2, !=2) are the ones Paho.Model.Reader.parseBody encodes")


def extract_backoff(out: Out, srcs):
    F = "Consts"
    c = srcs.get("client.py")

    def bw():
        f = c.func("Client._reconnect_wait")
        iff = None
        for n in walk(f, ast.If):
            if unparse(n.test) == "self._reconnect_delay is None":
                iff = n
        if iff is None:
            raise Missing("if self._reconnect_delay is None")
        if unparse(iff.body[0]) != "self._reconnect_delay = self._reconnect_min_delay":
            raise Missing("self._reconnect_delay = self._reconnect_min_delay")
        a = iff.orelse[0]
        if not (isinstance(a, ast.Assign) and unparse(a.targets[0]) == "self._reconnect_delay" and isinstance(a.value, ast.Call)
                and unparse(a.value.func) in ("min", "max") and len(a.value.args) == 2):
            raise Missing("self._reconnect_delay = min(self._reconnect_delay * 2, self._reconnect_max_delay)")
        fn = unparse(a.value.func)
        m = a.value.args[0]
        if not (isinstance(m, ast.BinOp) and isinstance(m.op, ast.Mult) and unparse(m.left) == "self._reconnect_delay"
                and unparse(a.value.args[1]) == "self._reconnect_max_delay"):
            raise Missing("min(self._reconnect_delay * 2, self._reconnect_max_delay)")
        body = unparse(f)
        for frag in ("target_time = now + self._reconnect_delay", "time.sleep(min(remaining, 1))", "remaining > 0"):
            if frag not in body:
                raise Missing("_reconnect_wait: " + frag)
        k = unparse(c.func("Client._handle_connack"))
        if "if self._state != _ConnectionState.MQTT_CS_DISCONNECTING:" not in k or "self._reconnect_delay = None" not in k:
            raise Missing("_handle_connack: reset of _reconnect_delay on an accepted CONNACK")
        init = unparse(c.func("Client.__init__"))
        if "self._reconnect_delay: int | None = None" not in init:
            raise Missing("__init__: self._reconnect_delay = None")
        return fn, const(m.right)
    try:
        fn, factor = bw()
        out.add(F, "backoffFactor", "Nat", str(factor), "client.py Client._reconnect_wait: self._reconnect_delay * 2")
        out.add(F, "backoffMinMax", "Nat → Nat → Nat", "Nat.min" if fn == "min" else "Nat.max",
                "client.py Client._reconnect_wait: min(delay * 2, self._reconnect_max_delay)")
    except Missing as e:
        out.missing(F, "backoffFactor", e)
        out.missing(F, "backoffMinMax", e)


def extract_locks(out: Out, srcs):
    F = "Locks"
    import locks as L
    try:
        r = L.analyse(os.path.join(PKG, "client.py"))
    except Exception as e:  # noqa: BLE001
        for n in ("lockKinds", "cbSites", "apiAcquires"):
            out.missing(F, n, f"{type(e).__name__}: {e}")
        return
    lid = {"_in_callback_mutex": "inCallback", "_callback_mutex": "callback", "_msgtime_mutex": "msgtime",
           "_out_message_mutex": "outMessage", "_in_message_mutex": "inMessage", "_reconnect_delay_mutex": "reconnectDelay",
           "_mid_generate_mutex": "midGenerate", "<thread-join>": "threadJoin"}
    if set(r["kinds"]) != set(L.LOCKS):
        out.missing(F, "lockKinds", f"locks found in __init__: {sorted(r['kinds'])}")
    else:
        out.add(F, "lockKinds", "List (LockId × Bool)", "[" + ", ".join(f"(.{lid[k]}, {'true' if v == 'reentrant' else 'false'})" for k, v in r["kinds"].items()) + "]",
                "client.py Client.__init__: threading.Lock() / threading.RLock() per mutex (true = reentrant)")

    def ls(xs):
        return "[" + ", ".join("." + lid[x] for x in xs) + "]"
    rows = []
    for site, hs in r["sites"].items():
        rows.append(f"({json.dumps(site)}, [" + ", ".join(ls(h) for h in hs) + "])")
    out.add(F, "cbSites", "List (String × List (List LockId))", "[" + ",\n  ".join(rows) + "]",
            "client.py: every user-callback call site (callback@method) with the sets of locks that may be held there "
            "(lexical `with self._x:` nesting + propagation through the intra-class call graph from the public entry points)")
    rows = []
    for api, acq in r["acquires"].items():
        items = ", ".join(f"(.{lid[a[0]]}, {ls(a[1])}, {ls(a[2])}, [{', '.join(json.dumps(g) for g in a[3])}])" for a in acq)
        rows.append(f"({json.dumps(api)}, [{items}])")
    out.add(F, "apiAcquires", "List (String × List (LockId × List LockId × List LockId × List String))", "[" + ",\n  ".join(rows) + "]",
            "client.py: blocking acquisitions reachable from each public API method: (lock, locks already held by the call chain, "
            "locks known free on this path (code under a successful try-acquire), callbacks that must be installed for the path)")
    out.report["locks"] = {"sites": r["sites"], "kinds": r["kinds"]}


def extract_threads(out: Out, srcs):
    """C07: facts the concurrency models (Paho.Model.Threads) are instantiated with"""
    F = "Threads"
    import locks as L
    lid = {"_in_callback_mutex": "inCallback", "_callback_mutex": "callback", "_msgtime_mutex": "msgtime",
           "_out_message_mutex": "outMessage", "_in_message_mutex": "inMessage", "_reconnect_delay_mutex": "reconnectDelay",
           "_mid_generate_mutex": "midGenerate", "<thread-join>": "threadJoin"}
    path = os.path.join(PKG, "client.py")
    names = ("midGenUnderLock", "midGenShapeOk", "wakeAfterAppend", "directWriteOnlyWithoutThread", "pushbackFront",
             "dequeMutatorsOk", "loopOrderOk", "threadClearedAtExit")
    docs = {
        "midGenUnderLock": "client.py Client._mid_generate: the whole body is `with self._mid_generate_mutex:`",
        "midGenShapeOk": "client.py Client._mid_generate: `self._last_mid += 1; if self._last_mid == W: self._last_mid = R; return self._last_mid`",
        "wakeAfterAppend": "client.py Client._packet_queue: `self._out_packet.append(mpkt)` comes before the `_sockpairW.send()` wake-up byte",
        "directWriteOnlyWithoutThread": "client.py Client._packet_queue: the only direct loop_write() is under `if self._thread is None and ...`, after the wake-up",
        "pushbackFront": "client.py Client._packet_write: one popleft(); every re-queue is appendleft()",
        "dequeMutatorsOk": "client.py: _out_packet is mutated only by _packet_queue.append, _packet_write.popleft/appendleft, reconnect.clear",
        "loopOrderOk": "client.py Client._loop: wlist from want_write() and rlist with the wake pipe before select(); pipe readable => socket forced into the write set and pipe drained, before `if self._sock in socklist[1]: loop_write()`",
        "threadClearedAtExit": "client.py Client._thread_main: self._thread = None only in the finally after loop_forever() returned",
    }
    try:
        sh = L.thread_shapes(path)
        for n in names:
            out.add(F, n, "Bool", "true" if sh[n] else "false", docs[n])
    except Exception as e:  # noqa: BLE001
        for n in names:
            out.missing(F, n, f"{type(e).__name__}: {e}")
    try:
        edges = L.lock_edges(path)
        ranks = L.lock_ranks(edges)
        out.add(F, "lockEdges", "List (LockId × LockId)", "[" + ", ".join(f"(.{lid[h]}, .{lid[l]})" for (h, l) in sorted(edges)) + "]",
                "client.py: (held, acquired) for every blocking acquisition reachable from the public entry points "
                "(lexical `with` nesting + call graph); (threadJoin, l) for every lock the network thread can take")
        if ranks is None:
            ranks = {k: 0 for k in lid}
        out.add(F, "lockRank", "List (LockId × Nat)", "[" + ", ".join(f"(.{lid[k]}, {ranks[k]})" for k in lid) + "]",
                "a layering of lockEdges computed by the extractor (all 0 if the relation is cyclic); CHECKED in Lean, not trusted")
        out.report["lock_edges"] = {f"{h}->{l}": ms for (h, l), ms in edges.items()}
    except Exception as e:  # noqa: BLE001
        out.missing(F, "lockEdges", f"{type(e).__name__}: {e}")
        out.missing(F, "lockRank", f"{type(e).__name__}: {e}")
    try:
        acc = L.shared_accesses(path)
        rows = [f"({json.dumps(m)}, {json.dumps(a)}, {'true' if ln else 'false'}, {'true' if g else 'false'})" for (m, _line, a, ln, g) in acc]
        out.add(F, "sharedAccesses", "List (String × String × Bool × Bool)", "[" + ",\n  ".join(rows) + "]",
                "client.py: every access to _out_messages/_inflight_messages/_in_messages/_last_mid outside __init__: "
                "(method, attribute, is it only `len(...)`, is the protecting mutex held lexically or in every calling context)")
    except Exception as e:  # noqa: BLE001
        out.missing(F, "sharedAccesses", f"{type(e).__name__}: {e}")


# ------------------------------------------------------------------ subscribe() / unsubscribe() argument normalisation
def extract_sub(out: Out, srcs):
    F = "SubConsts"
    c = srcs.get("client.py")
    if c is None:
        return

    def raises_value_error(node):
        return (len(node.body) == 1 and isinstance(node.body[0], ast.Raise)
                and unparse(node.body[0].exc).startswith("ValueError"))

    def range_checks(fn):
        """every `if ... v < a or v > b ...: raise ValueError` of the function, in source order"""
        res = []
        for i in walk(fn, ast.If):
            t = i.test
            if not (isinstance(t, ast.BoolOp) and isinstance(t.op, ast.Or)):
                continue
            lo = [v for v in t.values if isinstance(v, ast.Compare) and isinstance(v.ops[0], (ast.Lt, ast.LtE))]
            hi = [v for v in t.values if isinstance(v, ast.Compare) and isinstance(v.ops[0], (ast.Gt, ast.GtE))]
            if len(lo) == 1 and len(hi) == 1 and unparse(lo[0].left) == unparse(hi[0].left) and raises_value_error(i):
                others = [unparse(v) for v in t.values if v is not lo[0] and v is not hi[0]]
                res.append((i.lineno, unparse(lo[0].left), cmp_name(lo[0].ops[0]), const(lo[0].comparators[0]),
                            cmp_name(hi[0].ops[0]), const(hi[0].comparators[0]), others))
        res.sort()
        return res

    def len_checks(fn, var):
        """every `len(var) == k` comparison inside a test whose `if` raises ValueError, in source order"""
        res = []
        for i in walk(fn, ast.If):
            if not raises_value_error(i):
                continue
            for cmpn in walk(i.test, ast.Compare):
                if unparse(cmpn.left) == f"len({var})":
                    res.append((cmpn.lineno, cmp_name(cmpn.ops[0]), const(cmpn.comparators[0]), unparse(i.test)))
        res.sort()
        return res

    try:
        f = c.func("Client.subscribe")
        rc = range_checks(f)
        if [r[1] for r in rc] != ["qos", "o", "q"]:
            raise Missing(f"subscribe(): expected range checks on qos, o, q in that order, found {[r[1] for r in rc]}")
        if rc[0][6] or rc[1][6] or rc[2][6] != ["isinstance(q, SubscribeOptions)"]:
            raise Missing(f"subscribe(): unexpected extra disjuncts in the QoS checks: {[r[6] for r in rc]}")
        for tag, r in zip(("Str", "L5", "L3"), rc):
            w = f"client.py Client.subscribe line {r[0]}: {r[1]} < {r[3]} or {r[1]} > {r[5]}"
            out.add(F, f"subQos{tag}LoCmp", "Cmp", f".{r[2]}", w)
            out.add(F, f"subQos{tag}Lo", "Int", lean_val(r[3], "Int"), w)
            out.add(F, f"subQos{tag}HiCmp", "Cmp", f".{r[4]}", w)
            out.add(F, f"subQos{tag}Hi", "Int", lean_val(r[5], "Int"), w)
        lt = len_checks(f, "topic")
        if len(lt) != 2 or "topic is None" not in lt[0][3]:
            raise Missing(f"subscribe(): expected `topic is None or len(topic) == 0` and `len(topic) == 0` (list), found {[x[3] for x in lt]}")
        out.add(F, "subStrEmptyCmp", "Cmp", f".{lt[0][1]}", f"client.py Client.subscribe line {lt[0][0]}: {lt[0][3]}")
        out.add(F, "subStrEmptyLen", "Nat", str(lt[0][2]), "client.py Client.subscribe")
        out.add(F, "subEmptyListCmp", "Cmp", f".{lt[1][1]}", f"client.py Client.subscribe line {lt[1][0]}: {lt[1][3]} (Empty topic list)")
        out.add(F, "subEmptyListLen", "Nat", str(lt[1][2]), "client.py Client.subscribe")
        l3 = len_checks(f, "t")
        if len(l3) != 1 or "t is None" not in l3[0][3]:
            raise Missing(f"subscribe(): expected `t is None or len(t) == 0 or ...` in the MQTT 3 list loop, found {[x[3] for x in l3]}")
        out.add(F, "subL3EmptyCmp", "Cmp", f".{l3[0][1]}", f"client.py Client.subscribe line {l3[0][0]}: {l3[0][3]}")
        out.add(F, "subL3EmptyLen", "Nat", str(l3[0][2]), "client.py Client.subscribe")
        # the filter check is applied to every element of topic_qos_list, and before the socket test
        anyc = [n for n in walk(f, ast.If) if "self._filter_wildcard_len_check(topic) != MQTT_ERR_SUCCESS for topic, _ in topic_qos_list" in unparse(n.test)
                and unparse(n.test).startswith("any(") and raises_value_error(n)]
        socks = [n for n in walk(f, ast.If) if unparse(n.test) == "self._sock is None"]
        if len(anyc) != 1 or len(socks) != 1 or not anyc[0].lineno < socks[0].lineno:
            raise Missing("subscribe(): `if any(filter check fails for every element): raise ValueError` before `if self._sock is None`")
        out.add(F, "subFilterCheckAll", "Bool", "true", f"client.py Client.subscribe line {anyc[0].lineno}: {unparse(anyc[0].test)[:90]}")
    except Missing as e:
        out.missing(F, "subscribe-normalisation", e)

    try:
        f = c.func("Client.unsubscribe")
        lt = len_checks(f, "topic")
        if len(lt) != 2:
            raise Missing(f"unsubscribe(): expected `len(topic) == 0` for the string and for the list form, found {[x[3] for x in lt]}")
        out.add(F, "unsubStrEmptyCmp", "Cmp", f".{lt[0][1]}", f"client.py Client.unsubscribe line {lt[0][0]}: {lt[0][3]}")
        out.add(F, "unsubStrEmptyLen", "Nat", str(lt[0][2]), "client.py Client.unsubscribe")
        out.add(F, "unsubEmptyListCmp", "Cmp", f".{lt[1][1]}", f"client.py Client.unsubscribe line {lt[1][0]}: {lt[1][3]} (Empty topic list)")
        out.add(F, "unsubEmptyListLen", "Nat", str(lt[1][2]), "client.py Client.unsubscribe")
        le = len_checks(f, "t")
        if len(le) != 1:
            raise Missing(f"unsubscribe(): expected `len(t) == 0 or ...` in the list loop, found {[x[3] for x in le]}")
        out.add(F, "unsubElemEmptyCmp", "Cmp", f".{le[0][1]}", f"client.py Client.unsubscribe line {le[0][0]}: {le[0][3]}")
        out.add(F, "unsubElemEmptyLen", "Nat", str(le[0][2]), "client.py Client.unsubscribe")
    except Missing as e:
        out.missing(F, "unsubscribe-normalisation", e)


EXTRACTORS = [extract_bytes, extract_tables, extract_keepalive, extract_reader, extract_backoff, extract_locks, extract_threads, extract_sub]


def register(fn):
    EXTRACTORS.append(fn)
    return fn


def extract_session_order(out: Out, srcs):
    """statement-order facts of the session layer that the hand-written model follows and that no translated function covers"""
    c = srcs.get("client.py")
    if c is None:
        return
    F = "SessionOrder"

    def do_on_publish_order():
        f = c.func("Client._do_on_publish")
        pos = {}
        for n in walk(f, ast.Call):
            if isinstance(n.func, ast.Name) and n.func.id == "on_publish":
                pos.setdefault("callback", []).append(n.lineno)
            if isinstance(n.func, ast.Attribute) and n.func.attr == "pop" and unparse(n.func.value) == "self._out_messages":
                pos.setdefault("pop", []).append(n.lineno)
            if isinstance(n.func, ast.Attribute) and n.func.attr == "_set_as_published":
                pos.setdefault("published", []).append(n.lineno)
            if isinstance(n.func, ast.Attribute) and n.func.attr == "_update_inflight" and unparse(n.func.value) == "self":
                pos.setdefault("refill", []).append(n.lineno)
        for n in walk(f, ast.AugAssign):
            if unparse(n.target) == "self._inflight_messages" and isinstance(n.op, ast.Sub):
                pos.setdefault("slot", []).append(n.lineno)
        for k in ("callback", "pop", "published", "slot", "refill"):
            if k not in pos:
                raise Missing(f"_do_on_publish: no {k} statement")
        if not (max(pos["callback"]) < min(pos["pop"]) <= max(pos["pop"]) < min(pos["published"]) <= max(pos["published"])
                < min(pos["slot"]) <= max(pos["slot"]) < min(pos["refill"])) or len(pos["pop"]) != 1 or len(pos["slot"]) != 1:
            raise Missing(f"_do_on_publish: order of callback / pop / published / slot / refill is {pos}")
        return True
    out.anchor(F, "doOnPublishOrderOk", "Bool", do_on_publish_order,
               "client.py Client._do_on_publish: the user's on_publish runs BEFORE the message is removed, its info marked published and its "
               "window slot freed (in that order); _update_inflight() refills the window after that")


def extract_session_order2(out: Out, srcs):
    c = srcs.get("client.py")
    if c is None:
        return
    F = "SessionOrder"

    def pubrec_order():
        """in the block that handles a PUBREC for a stored message: msg.state = mqtt_ms_wait_for_pubcomp is a plain statement of the
        block (not under a test of what _send_pubrel() returns) and precedes the only call of self._send_pubrel(mid)"""
        f = c.func("Client._handle_pubrec")
        blocks = [n for n in walk(f, ast.If) if unparse(n.test) == "mid in self._out_messages"]
        if len(blocks) != 1:
            raise Missing("_handle_pubrec: `if mid in self._out_messages:` block")
        body = blocks[0].body
        assign = [i for i, st in enumerate(body) if isinstance(st, ast.Assign) and unparse(st.targets[0]) == "msg.state"
                  and unparse(st.value) == "mqtt_ms_wait_for_pubcomp"]
        sends = [(i, n) for i, st in enumerate(body) for n in walk(st, ast.Call)
                 if isinstance(n.func, ast.Attribute) and n.func.attr == "_send_pubrel"]
        all_sends = [n for n in walk(f, ast.Call) if isinstance(n.func, ast.Attribute) and n.func.attr == "_send_pubrel"]
        if len(assign) != 1 or len(sends) != 1 or len(all_sends) != 1 or not assign[0] < sends[0][0]:
            raise Missing(f"_handle_pubrec: state assignment {assign} / _send_pubrel call {[i for i, _ in sends]} in the block")
        if any(unparse(st.targets[0]) == "msg.state" for st in walk(f, ast.Assign) if st is not body[assign[0]]):
            raise Missing("_handle_pubrec: msg.state assigned elsewhere")
        return True
    out.anchor(F, "handlePubrecOrderOk", "Bool", pubrec_order,
               "client.py Client._handle_pubrec: for a stored message the state becomes wait_for_pubcomp unconditionally, BEFORE PUBREL is "
               "handed to _send_pubrel() (whose failure must not make the client forget the PUBREC)")


def extract_session_order3(out: Out, srcs):
    c = srcs.get("client.py")
    if c is None:
        return
    F = "SessionOrder"

    def pubrel_shape():
        """_handle_pubrel: the stored message is removed (pop) under `if mid in self._in_messages`, delivered afterwards when one was
        removed, and the tail is exactly `if self._manual_ack: return SUCCESS else: return self._send_pubcomp(mid)` - the PUBCOMP
        depends on manual_ack only, never on whether the id was known"""
        f = c.func("Client._handle_pubrel")
        top = [st for st in f.body if not (isinstance(st, ast.Expr) and isinstance(st.value, ast.Constant))]
        pops = [n for n in walk(f, ast.Call) if isinstance(n.func, ast.Attribute) and n.func.attr == "pop" and unparse(n.func.value) == "self._in_messages"]
        delivers = [n for n in walk(f, ast.Call) if isinstance(n.func, ast.Attribute) and n.func.attr == "_handle_on_message"]
        comps = [n for n in walk(f, ast.Call) if isinstance(n.func, ast.Attribute) and n.func.attr == "_send_pubcomp"]
        if len(pops) != 1 or len(delivers) != 1 or len(comps) != 1 or not pops[0].lineno < delivers[0].lineno < comps[0].lineno:
            raise Missing("_handle_pubrel: pop / deliver / PUBCOMP order")
        last = top[-1]
        if not (isinstance(last, ast.If) and unparse(last.test) == "self._manual_ack" and len(last.body) == 1 and isinstance(last.body[0], ast.Return)
                and len(last.orelse) == 1 and isinstance(last.orelse[0], ast.Return) and unparse(last.orelse[0].value) == "self._send_pubcomp(mid)"):
            raise Missing(f"_handle_pubrel: tail is not `if self._manual_ack: return ... else: return self._send_pubcomp(mid)`: {unparse(last)[:80]}")
        deliver_if = [st for st in top if isinstance(st, ast.If) and unparse(st.test) == "message is not None"]
        if len(deliver_if) != 1 or deliver_if[0].orelse or len(deliver_if[0].body) != 1:
            raise Missing("_handle_pubrel: `if message is not None: self._handle_on_message(message)`")
        return True
    out.anchor(F, "handlePubrelShapeOk", "Bool", pubrel_shape,
               "client.py Client._handle_pubrel: pop under `mid in _in_messages`, then delivery of what was removed, then PUBCOMP unless manual_ack "
               "(the PUBCOMP does not depend on whether the id was known)")


def extract_session_order4(out: Out, srcs):
    c = srcs.get("client.py")
    if c is None:
        return
    F = "SessionOrder"

    def publish_dispatch_shape():
        """the QoS dispatch at the end of _handle_publish: QoS 0 delivers; QoS 1 delivers FIRST and then acknowledges unless manual_ack;
        QoS 2 answers PUBREC and stores the message WITHOUT delivering it; anything else is a protocol error"""
        f = c.func("Client._handle_publish")
        chain = [st for st in f.body if isinstance(st, ast.If) and unparse(st.test) == "message.qos == 0"]
        if len(chain) != 1:
            raise Missing("_handle_publish: `if message.qos == 0:` chain")
        q0 = chain[0]
        if not (len(q0.orelse) == 1 and isinstance(q0.orelse[0], ast.If) and unparse(q0.orelse[0].test) == "message.qos == 1"):
            raise Missing("_handle_publish: elif message.qos == 1")
        q1 = q0.orelse[0]
        if not (len(q1.orelse) == 1 and isinstance(q1.orelse[0], ast.If) and unparse(q1.orelse[0].test) == "message.qos == 2"):
            raise Missing("_handle_publish: elif message.qos == 2")
        q2 = q1.orelse[0]
        src0 = [unparse(x) for x in q0.body]
        src1 = [unparse(x) for x in q1.body]
        if src0 != ["self._handle_on_message(message)", "return MQTTErrorCode.MQTT_ERR_SUCCESS"]:
            raise Missing(f"_handle_publish QoS 0 branch: {src0}")
        if not (len(q1.body) == 2 and src1[0] == "self._handle_on_message(message)" and isinstance(q1.body[1], ast.If)
                and unparse(q1.body[1].test) == "self._manual_ack" and [unparse(x) for x in q1.body[1].body] == ["return MQTTErrorCode.MQTT_ERR_SUCCESS"]
                and [unparse(x) for x in q1.body[1].orelse] == ["return self._send_puback(message.mid)"]):
            raise Missing(f"_handle_publish QoS 1 branch: {src1}")
        calls2 = [unparse(n.func) for st in q2.body for n in walk(st, ast.Call)]
        if "self._handle_on_message" in calls2 or calls2.count("self._send_pubrec") != 1:
            raise Missing(f"_handle_publish QoS 2 branch calls {calls2}")
        stores = [st for st in walk(q2, ast.Assign) if unparse(st.targets[0]) == "self._in_messages[message.mid]"]
        if len(stores) != 1:
            raise Missing("_handle_publish QoS 2 branch: self._in_messages[message.mid] = message")
        if [unparse(x) for x in q2.orelse] != ["return MQTTErrorCode.MQTT_ERR_PROTOCOL"]:
            raise Missing("_handle_publish: else branch")
        return True
    out.anchor(F, "handlePublishShapeOk", "Bool", publish_dispatch_shape,
               "client.py Client._handle_publish: QoS 0 delivers; QoS 1 delivers first, then PUBACK unless manual_ack; QoS 2 answers PUBREC and "
               "stores the message without delivering it")


def extract_session_order5(out: Out, srcs):
    c = srcs.get("client.py")
    if c is None:
        return
    F = "SessionOrder"

    def publish_store_shape():
        """publish(), QoS 1/2: under _out_message_mutex, in this order - refusal when max_queued messages are outstanding, refusal when
        the fresh id is still in use, the message is STORED, then the window test: inside the window the slot is taken and the state
        set before _send_publish() is called (still under the lock), MQTT_ERR_NO_CONN gives the slot back and leaves the message in
        state publish; outside the window the message is queued"""
        f = c.func("Client.publish")
        withs = [n for n in walk(f, ast.With) if unparse(n.items[0].context_expr) == "self._out_message_mutex"]
        if len(withs) != 1:
            raise Missing("publish: one `with self._out_message_mutex:` block")
        body = withs[0].body
        if len(body) != 4 or not all(isinstance(body[i], ast.If) for i in (0, 1, 3)) or not isinstance(body[2], ast.Assign):
            raise Missing(f"publish: locked block has the statements {[type(x).__name__ for x in body]}")
        if unparse(body[0].test) != "self._max_queued_messages > 0 and len(self._out_messages) >= self._max_queued_messages":
            raise Missing("publish: queue-size test " + unparse(body[0].test))
        if unparse(body[1].test) != "local_mid in self._out_messages":
            raise Missing("publish: id-in-use test " + unparse(body[1].test))
        for b in (body[0], body[1]):
            if [unparse(x) for x in b.body] != ["message.info.rc = MQTTErrorCode.MQTT_ERR_QUEUE_SIZE", "return message.info"] or b.orelse:
                raise Missing("publish: refusal branch " + unparse(b)[:80])
        if unparse(body[2]) != "self._out_messages[message.mid] = message":
            raise Missing("publish: store statement " + unparse(body[2]))
        w = body[3]
        if unparse(w.test) != "self._max_inflight_messages == 0 or self._inflight_messages < self._max_inflight_messages":
            raise Missing("publish: window test " + unparse(w.test))
        srcw = [unparse(x) for x in w.body]
        if not (srcw[0] == "self._inflight_messages += 1" and isinstance(w.body[1], ast.If) and "self._send_publish(" in srcw[2] and srcw[2].startswith("rc = ")
                and isinstance(w.body[3], ast.If) and unparse(w.body[3].test) == "rc == MQTTErrorCode.MQTT_ERR_NO_CONN"
                and [unparse(x) for x in w.body[3].body] == ["self._inflight_messages -= 1", "message.state = mqtt_ms_publish"]
                and srcw[4:] == ["message.info.rc = rc", "return message.info"]):
            raise Missing(f"publish: window branch {srcw}")
        if [unparse(x) for x in w.orelse] != ["message.state = mqtt_ms_queued", "message.info.rc = MQTTErrorCode.MQTT_ERR_SUCCESS", "return message.info"]:
            raise Missing("publish: queued branch")
        return True
    out.anchor(F, "publishStoreShapeOk", "Bool", publish_store_shape,
               "client.py Client.publish (QoS 1/2): under _out_message_mutex - queue-size refusal, id-in-use refusal, the message is stored, "
               "window test; slot and state before _send_publish() (under the lock), NO_CONN gives the slot back (state publish); else queued")


EXTRACTORS.append(extract_session_order5)
EXTRACTORS.append(extract_session_order)
EXTRACTORS.append(extract_session_order2)
EXTRACTORS.append(extract_session_order3)
EXTRACTORS.append(extract_session_order4)


def run(write=True):
    out = Out()
    srcs = {}
    for n in ("client.py", "matcher.py", "properties.py", "reasoncodes.py", "subscribeoptions.py",
              "packettypes.py", "enums.py", "publish.py", "subscribe.py"):
        try:
            srcs[n] = Src(n)
            out.report["sources"][n] = srcs[n].sha
        except (OSError, SyntaxError) as e:
            out.report["missing"].append({"name": n, "why": f"cannot parse: {e}"})
    if "matcher.py" in srcs:
        extract_matcher(out, srcs["matcher.py"])
    if "client.py" in srcs:
        extract_client_consts(out, srcs["client.py"])
    for fn in EXTRACTORS:
        fn(out, srcs)
    files = {}
    import py2lean
    fn_texts = py2lean.run(out)
    for fname, defs in out.defs.items():
        text = ("-- GENERATED by /verif/py/extract.py from the working tree of /repo. Do not edit.\n"
                "import Paho.Model.Basic\n"
                "namespace Paho.Gen\nopen Paho\n\n" + "\n\n".join(defs) + "\n\nend Paho.Gen\n")
        files[fname] = text
    files.update(fn_texts)
    changed = []
    if write:
        os.makedirs(GEN_DIR, exist_ok=True)
        for fname, text in files.items():
            p = os.path.join(GEN_DIR, fname + ".lean")
            old = open(p).read() if os.path.exists(p) else None
            if old != text:
                with open(p + ".tmp", "w") as f:
                    f.write(text)
                os.replace(p + ".tmp", p)
                changed.append(fname)
    out.report["changed_files"] = changed
    out.report["files"] = {k: hashlib.sha256(v.encode()).hexdigest()[:16] for k, v in files.items()}
    return out.report


if __name__ == "__main__":
    rep = run(write="--dry" not in sys.argv)
    json.dump(rep, sys.stdout, indent=1)
    print()
    sys.exit(1 if rep["missing"] else 0)
