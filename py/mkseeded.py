"""seeded/*/meta.json (+ seeded/matrix.json) -> seeded/README.md: which checks catch which seeded source change."""
from __future__ import annotations

import glob
import json
import os

VERIF = os.path.dirname(os.path.dirname(os.path.abspath(__file__)))
SEEDED = os.path.join(VERIF, "seeded")


def main():
    matrix = {}
    mp = os.path.join(SEEDED, "matrix.json")
    if os.path.exists(mp):
        matrix = json.load(open(mp))
    sweep = {}
    sp = os.path.join(SEEDED, "sweep.json")
    if os.path.exists(sp):
        sweep = json.load(open(sp))
    rows = []
    for d in sorted(glob.glob(os.path.join(SEEDED, "C*")) + sorted(glob.glob(os.path.join(SEEDED, "X*")), key=lambda x: int(os.path.basename(x)[1:]))):
        if not os.path.isdir(d):
            continue
        name = os.path.basename(d)
        meta = json.load(open(os.path.join(d, "meta.json")))
        v = meta.get("verified_by_us", {})
        target = str(meta.get("property", name[:3])).split()[0].strip(",;")
        chk = dict(matrix.get(name, {}))
        chk.update(v.get("checks", {}))
        # the latest re-run of every kept change against its target check with the current machinery (py/seed_sweep.py)
        sw = sweep.get(name)
        if sw and sw.get("rc") is not None:
            chk[sw["property"]] = {"rc": sw["rc"], "kind": sw.get("kind"), "clause": sw.get("clause"),
                                   "broken": chk.get(sw["property"], {}).get("broken", [])}
        caught = sorted(p for p, c in chk.items() if c.get("rc") == 1)
        concrete = sorted(p for p, c in chk.items() if c.get("rc") == 1 and c.get("kind") == "concrete-failing-input")
        t = chk.get(target, {})
        how = "—"
        if t.get("rc") == 1:
            how = (f"concrete failing input, clause `{t.get('clause')}`" if t.get("kind") == "concrete-failing-input"
                   else "proof/correspondence broken, no-failing-input-found (" + ",".join(t.get("broken", [])) + ")")
        elif t:
            how = "**missed**"
        rows.append((name, target, meta.get("summary", "").replace("\n", " ").replace("|", "/")[:260],
                     meta.get("trigger", "").replace("\n", " ").replace("|", "/")[:220],
                     "yes" if (v.get("demo_ok") and v.get("suite_ok") and v.get("patch_matches_worktree")) else "partly",
                     how, ", ".join(concrete), ", ".join(p for p in caught if p not in concrete), meta.get("strengthened", "")))
    out = ["# Seeded source changes", "",
           "Each change was written by an independent sub-agent that saw only the text of one property and a scratch worktree of",
           "the repository (nothing from /verif). We confirmed in that worktree that the patch is exactly the agent's change, that",
           "its demonstration fails on the changed code and passes on the pristine code, and that the repository's own suite",
           "(baseline `stable_pass` set, flaky teardown tests re-run) still passes; then the patch was applied to the repository,",
           "the checks were run and the patch was removed again (`py/seed_eval.py`). `patch.diff`, `demo.py`, `meta.json` per change.", "",
           "| change | property | what was changed | trigger | confirmed | target check | other checks with a concrete failing input | checks that only report a broken obligation | strengthening it needed |",
           "|---|---|---|---|---|---|---|---|---|"]
    for r in rows:
        out.append("| " + " | ".join(r) + " |")
    open(os.path.join(SEEDED, "README.md"), "w").write("\n".join(out) + "\n")
    print(len(rows), "changes")


if __name__ == "__main__":
    main()
