"""Controlled scheduler for REAL threads (C07): only one thread runs at a time; at every traced source line of
paho/mqtt/client.py (and at every blocking operation) the running thread yields to the scheduler, which picks the next
thread from an explicit schedule, a seeded random policy or a PCT-style priority policy. Blocking operations (lock
acquire, select, join) are scheduler-visible; "no thread runnable and not all finished" is reported as a deadlock;
a select() timeout is taken only when nothing else can run, and is counted.
"""
from __future__ import annotations

import sys
import threading

import world as W

TRACED = {
    "publish", "_mid_generate", "_send_publish", "_packet_queue", "loop_write", "_packet_write", "_loop", "loop_read",
    "_packet_read", "_packet_handle", "_handle_pubackcomp", "_handle_pubrec", "_do_on_publish", "_update_inflight",
    "reconnect", "disconnect", "loop_stop", "loop_forever", "_sock_close", "_call_socket_register_write", "_send_connect",
    "_handle_connack", "_send_disconnect", "_send_command_with_mid", "_send_simple_command", "_loop_rc_handle", "loop_misc",
}


class Deadlock(Exception):
    pass


class StepLimit(Exception):
    pass


class TState:
    def __init__(self, name):
        self.name = name
        self.sem = threading.Semaphore(0)
        self.status = "new"          # new | runnable | blocked | done
        self.pred = None
        self.what = ""
        self.can_timeout = False
        self.exc = None
        self.priority = 0
        self.held = False            # policy "hold": parked inside the chosen function until nothing else can run
        self.fn_lines = 0


class Sched:
    def __init__(self, rng, policy="random", switch_p=0.25, schedule=None, max_steps=60000, client_file=None):
        self.rng = rng
        self.policy = policy
        self.switch_p = switch_p
        self.schedule = list(schedule) if schedule is not None else None
        self.t = {}
        self.cur = None
        self.trace = []              # (thread, label)
        self.decisions = []
        self.steps = 0
        self.max_steps = max_steps
        self.timeouts = 0
        self.main_sem = threading.Semaphore(0)
        self.failed = None
        self.client_file = client_file
        self.change_points = set()
        self.events = []             # (event line, real observation) for the Lean replay
        self.observer = None
        self.races = []
        self.client = None
        self.hold = None              # (thread name prefix, function name, line count at which to park)
        self.lazy_loop = False

    # ---------------------------------------------------------------- abstract events (replayed through the Lean models)
    def tid(self, st=None):
        st = st or self.me()
        if st is None:
            return None
        n = st.name
        return 0 if n == "loop" else 1 if n == "ctl" else 2 + int(n[3:])

    def ev(self, *words, as_tid=None):
        """record one shared-memory event of the running thread, with the real state right after it
        (`self.observer(group, tid, words)`, set by the harness)"""
        t = self.tid() if as_tid is None else as_tid
        if t is None:
            return
        me = self.me()
        if me is not None:
            self._check_single(me, "event " + " ".join(str(w) for w in words))
        o = self.observer(words[0], t, words[1:]) if self.observer is not None else "ok"
        self.events.append((f"{words[0]} {t} " + " ".join(str(w) for w in words[1:]), o))

    # ---------------------------------------------------------------- thread management
    def spawn(self, name, fn, daemon=True):
        st = TState(name)
        st.priority = self.rng.random()
        self.t[name] = st
        sched = self

        def run():
            st.sem.acquire()
            sys.settrace(sched._tracer)
            try:
                fn()
            except (Deadlock, StepLimit) as e:
                sched.failed = sched.failed or e
            except BaseException as e:  # noqa: BLE001
                st.exc = e
            finally:
                sys.settrace(None)
                if st.exc is None:
                    sched.ev("lk", "finish")
                st.status = "done"
                sched._handover(st, finishing=True)
        th = threading.Thread(target=run, name=name, daemon=daemon)
        st.thread = th
        st.status = "runnable"
        th.start()
        return st

    def adopt_current(self, name):
        """a thread started by the code under test (the network loop thread) registers itself"""
        st = TState(name)
        st.priority = self.rng.random()
        st.status = "runnable"
        st.thread = threading.current_thread()
        self.t[name] = st
        return st

    def me(self):
        th = threading.current_thread()
        for st in self.t.values():
            if getattr(st, "thread", None) is th:
                return st
        return None

    # ---------------------------------------------------------------- scheduling
    def _runnable(self):
        out = []
        for st in self.t.values():
            if st.status == "runnable":
                out.append(st)
            elif st.status == "blocked" and st.pred is not None:
                try:
                    ok = st.pred()
                except Exception:  # noqa: BLE001
                    ok = True
                if ok:
                    out.append(st)
        return out

    def _pick(self, cur, cands):
        if self.hold is not None:
            free = [c for c in cands if not c.held]
            if free:
                cands = free
            else:
                for c in cands:
                    c.held = False       # everybody else is blocked: the parked thread goes on
        if self.lazy_loop:
            # the network thread runs only when no (unparked) application thread can: it is slow to come round
            others = [c for c in cands if c.name != "loop"]
            if others:
                cands = others
        if self.schedule is not None:
            while self.schedule:
                n = self.schedule.pop(0)
                for st in cands:
                    if st.name == n:
                        return st
            # schedule exhausted: keep running the current thread if possible
            return cur if cur in cands else cands[0]
        if self.policy == "pct":
            if self.steps in self.change_points and cur in cands:
                cur.priority = -self.rng.random()
            return max(cands, key=lambda s: s.priority)
        if cur in cands and self.rng.random() >= self.switch_p:
            return cur
        return self.rng.choice(cands)

    def _handover(self, st, finishing=False):
        """choose who runs next and transfer control; returns when `st` is scheduled again (never, if finishing)"""
        while True:
            cands = self._runnable()
            if not cands:
                blocked = [x for x in self.t.values() if x.status == "blocked"]
                if not blocked:
                    self.main_sem.release()      # everything done
                    return
                tmo = [x for x in blocked if x.can_timeout]
                if tmo:
                    nxt = tmo[0]
                    nxt.timed_out = True
                    self.timeouts += 1
                    nxt.status = "runnable"
                    cands = [nxt]
                else:
                    self.failed = self.failed or Deadlock("deadlock: " + ", ".join(f"{x.name} waits for {x.what}" for x in blocked))
                    for x in self.t.values():
                        if x.status == "blocked":
                            x.status = "runnable"
                            x.aborted = True
                            x.sem.release()
                    self.main_sem.release()
                    return
            nxt = self._pick(st if not finishing else None, cands)
            self.decisions.append(nxt.name)
            if nxt is st and not finishing:
                st.status = "runnable"
                return
            nxt.status = "runnable"
            nxt.sem.release()
            if finishing:
                return
            st.sem.acquire()
            if getattr(st, "aborted", False):
                raise Deadlock("aborted")
            return

    def _check_single(self, st, where):
        """only one registered thread runs at a time: the thread executing must be the one scheduled last"""
        if self.decisions and st.name != self.decisions[-1] and self.failed is None:
            self.races.append(f"{where}: {st.name} runs while {self.decisions[-1]} was scheduled")

    def yield_point(self, label):
        st = self.me()
        if st is None:
            return
        self._check_single(st, "yield " + label)
        self.steps += 1
        if self.steps > self.max_steps:
            self.failed = self.failed or StepLimit(f"more than {self.max_steps} scheduling steps")
            raise StepLimit()
        self.trace.append((st.name, label))
        self._handover(st)

    def block_until(self, pred, what, can_timeout=False):
        """returns True if pred became true, False if the (select) timeout was taken"""
        st = self.me()
        if st is None:
            return True
        while not pred():
            st.status = "blocked"
            st.pred = pred
            st.what = what
            st.can_timeout = can_timeout
            st.timed_out = False
            self._handover(st)
            st.pred = None
            if getattr(st, "timed_out", False):
                st.timed_out = False
                st.status = "runnable"
                return False
        st.status = "runnable"
        return True

    # ---------------------------------------------------------------- tracing
    def _tracer(self, frame, event, arg):
        if event != "call":
            return None
        co = frame.f_code
        if co.co_filename == self.client_file and co.co_name in TRACED:
            # only the client under test: a finaliser of an old Client run by the garbage collector inside some
            # thread must not become a scheduling point in the middle of a shim
            if self.client is None or frame.f_locals.get("self") is self.client:
                return self._local
        return None

    def _local(self, frame, event, arg):
        if event == "line":
            if self.hold is not None and frame.f_code.co_name == self.hold[1]:
                st = self.me()
                if st is not None and st.name.startswith(self.hold[0]):
                    st.fn_lines += 1
                    if self.hold[2] == 0:
                        # inside the chosen function this thread advances one line at a time, and only when every
                        # other thread is blocked (the network thread in select())
                        st.held = True
                    elif st.fn_lines == self.hold[2]:
                        # parked once, at the k-th line of this invocation, until every other thread is blocked: the
                        # window between two particular lines is held open while the network thread runs to select()
                        st.held = True
            self.yield_point(f"{frame.f_code.co_name}:{frame.f_lineno}")
        elif event == "return" and self.hold is not None and frame.f_code.co_name == self.hold[1]:
            st = self.me()
            if st is not None:
                st.fn_lines = 0
                st.held = False
        return self._local

    # ---------------------------------------------------------------- run
    def run(self, first):
        self.t[first].sem.release()
        self.decisions.append(first)
        ok = self.main_sem.acquire(timeout=120)
        if not ok:
            self.failed = self.failed or Deadlock("scheduler watchdog: run did not finish in 120 s of real time")
        return self.failed


# ---------------------------------------------------------------------- shims that talk to the scheduler
class SLock(W.DLock):
    SCHED = None

    def acquire(self, blocking=True, timeout=-1):
        s = SLock.SCHED
        me = threading.get_ident()
        if s is not None and blocking:
            if self.owner == me:
                raise W.SelfDeadlock(self.name)
            s.ev("lk", "request", self.name)
            s.block_until(lambda: not self._l.locked(), f"lock {self.name}")
        ok = super().acquire(blocking, timeout)
        if s is not None and ok:
            if blocking:
                s.ev("lk", "grant")
            else:
                s.ev("lk", "try", self.name)
            if self.name == "_mid_generate_mutex":
                s.ev("mid", "enter")
        return ok

    def release(self):
        s = SLock.SCHED
        if s is not None:
            if self.name == "_mid_generate_mutex":
                s.ev("mid", "leave")
            s.ev("lk", "release", self.name)
        return super().release()


class SRLock(W.DRLock):
    def acquire(self, blocking=True, timeout=-1):
        s = SLock.SCHED
        me = threading.get_ident()
        if s is not None and blocking:
            s.ev("lk", "request", self.name)
            s.block_until(lambda: self.owner in (None, me), f"rlock {self.name}")
        ok = super().acquire(blocking, timeout)
        if s is not None and ok:
            if blocking:
                s.ev("lk", "grant")
            else:
                s.ev("lk", "try", self.name)
        return ok

    def release(self):
        s = SLock.SCHED
        if s is not None:
            s.ev("lk", "release", self.name)
        return super().release()


class SThread(threading.Thread):
    """threading.Thread as seen by client.py: start() registers with the scheduler (in the starter's turn),
    join() is scheduler-visible"""

    def __init__(self, *a, **kw):
        super().__init__(*a, **kw)
        self._sdone = False
        self._st = None

    def start(self):
        s = SLock.SCHED
        if s is not None:
            st = TState("loop")
            st.priority = s.rng.random()
            st.status = "runnable"
            st.thread = self
            s.t["loop"] = st
            self._st = st
            # loop_start(): the wake-up pipe exists, `_thread` is set: from here on the new thread is the only writer
            s.ev("wk", "handover", as_tid=0)
        super().start()

    def run(self):
        s = SLock.SCHED
        st = self._st
        if s is None or st is None:
            return super().run()
        st.sem.acquire()
        sys.settrace(s._tracer)
        try:
            # a joiner waits for this thread as for a lock it holds from start to end
            s.ev("lk", "try", "thread-join")
            super().run()
        except (Deadlock, StepLimit) as e:
            s.failed = s.failed or e
        except BaseException as e:  # noqa: BLE001
            st.exc = e
        finally:
            sys.settrace(None)
            if st.exc is None and s.failed is None:
                s.ev("wk", "exit")
                s.ev("lk", "release", "thread-join")
                s.ev("lk", "finish")
            self._sdone = True
            st.status = "done"
            s._handover(st, finishing=True)

    def join(self, timeout=None):
        s = SLock.SCHED
        if s is None or s.me() is None:
            return super().join(timeout)
        s.ev("lk", "request", "thread-join")
        s.block_until(lambda: self._sdone, "join loop thread")
        s.ev("lk", "grant")
        s.ev("lk", "release", "thread-join")
