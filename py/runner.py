"""bin/check entry point: decide one property.

  runner.py Cxx --tier quick|thorough [--replay FILE]

Pipeline (DESIGN.md section 3.2): T1 extract -> lake build of the property's proof
module + model driver -> axiom audit + forbidden-token scan -> T2 differential runs
(model vs real code) -> independent property monitors on the real observations ->
verdict. A broken proof / extraction / correspondence is never by itself a violation:
it triggers the failing-input search (monitors over a larger budget + registered
witness corpus); a VIOLATION line always carries a replay file.
"""
from __future__ import annotations

import argparse
import glob
import hashlib
import json
import multiprocessing as mp
import os
import random
import re
import subprocess
import sys
import time
import traceback

HERE = os.path.dirname(os.path.abspath(__file__))
sys.path.insert(0, HERE)

from common import EXE_ROOT, LEAN_DIR, NPROC, STREAM_EXE, VERIF, build_lock, ddmin, import_closure, run_model  # noqa: E402

REGISTRY = json.load(open(os.path.join(VERIF, "registry.json")))
ALLOWED_AXIOMS = {"propext", "Classical.choice", "Quot.sound"}
FORBIDDEN = re.compile(r"\b(sorry|admit|native_decide|bv_decide|implemented_by|unsafe)\b|^\s*axiom\s|maxHeartbeats\s+0\b")


def load_streams():
    import importlib
    streams = {}
    for modname in REGISTRY["stream_modules"]:
        mod = importlib.import_module(modname)
        for s in mod.STREAMS:
            streams[s.name] = s
    return streams


# ----------------------------------------------------------------------------- build + audit
def strip_lean_comments(text: str) -> str:
    text = re.sub(r"/-.*?-/", lambda m: "\n" * m.group(0).count("\n"), text, flags=re.S)
    text = re.sub(r"--.*", "", text)
    return text


def scan_forbidden():
    bad = []
    for p in glob.glob(os.path.join(LEAN_DIR, "**", "*.lean"), recursive=True):
        if "/.lake/" in p:
            continue
        for i, line in enumerate(strip_lean_comments(open(p).read()).split("\n"), 1):
            if FORBIDDEN.search(line):
                bad.append(f"{os.path.relpath(p, LEAN_DIR)}:{i}: {line.strip()[:100]}")
    return bad


def lake_build(targets, timeout=3000):
    with build_lock():
        p = subprocess.run(["lake", "build"] + targets, cwd=LEAN_DIR, capture_output=True, text=True, timeout=timeout)
    return p.returncode == 0, (p.stdout + p.stderr)


def audit(prop, module, theorems):
    """returns {theorem: [axioms] | None(missing)}"""
    names = ", ".join("`" + t for t in theorems)
    src = f"""import Lean
import {module}
open Lean Elab Command in
run_cmd do
  let env ← getEnv
  for n in ([{names}] : List Name) do
    if env.contains n then
      let ax ← Lean.collectAxioms n
      logInfo m!"AUDIT {{n}} := {{ax.toList}}"
    else
      logInfo m!"AUDIT-MISSING {{n}}"
"""
    path = os.path.join(LEAN_DIR, f".audit_{prop}.lean")
    with open(path, "w") as f:
        f.write(src)
    try:
        p = subprocess.run(["lake", "env", "lean", path], cwd=LEAN_DIR, capture_output=True, text=True, timeout=900)
    finally:
        os.unlink(path)
    out = p.stdout + p.stderr
    res = {}
    if p.returncode != 0 and "AUDIT" not in out:
        raise RuntimeError("audit script failed: " + out[-800:])
    for m in re.finditer(r"AUDIT (\S+) := \[(.*?)\]", out, flags=re.S):
        res[m.group(1)] = [a.strip() for a in m.group(2).replace("\n", " ").split(",") if a.strip()]
    for m in re.finditer(r"AUDIT-MISSING (\S+)", out):
        res[m.group(1)] = None
    return res, out


# ----------------------------------------------------------------------------- T2 shards
def _shard(args):
    prop, stream_name, seed, ncases, tier, corpus = args
    streams = load_streams()
    s = streams[stream_name]
    rng = random.Random(seed)
    res = []
    cases = list(corpus)
    for _ in range(ncases):
        cases.append(s.gen(rng, tier))
    for case in cases:
        try:
            obs = s.real(case)
        except Exception as e:  # noqa: BLE001
            obs = ["harness-exc " + type(e).__name__ + ": " + str(e)[:200] + " @ " + traceback.format_exc().strip().split("\n")[-3][:160]]
        hits = []
        if prop in s.monitors and not (obs and obs[0].startswith("harness-exc")):
            try:
                hits = s.monitors[prop](s, case, obs)
            except Exception as e:  # noqa: BLE001
                hits = [(0, "monitor-exc", f"{type(e).__name__}: {e}")]
        try:
            feats = sorted(s.features(case, obs))
            nontriv = bool(s.nontrivial(case, obs))
        except Exception:  # noqa: BLE001
            feats, nontriv = [], False
        res.append((case, obs, hits, feats, nontriv))
    return res


def run_stream(prop, s, tier, seed, ncases_total, corpus):
    nshards = NPROC
    per = max(1, ncases_total // nshards)
    jobs = [(prop, s.name, seed * 1000 + i, per, tier, corpus if i == 0 else []) for i in range(nshards)]
    with mp.Pool(nshards) as pool:
        parts = pool.map(_shard, jobs)
    results = [r for part in parts for r in part]
    return results


def load_corpus(stream_name):
    cases = []
    for p in sorted(glob.glob(os.path.join(VERIF, "corpus", stream_name, "*.ops"))):
        lines = [l.rstrip("\n") for l in open(p) if l.strip() and not l.startswith("#")]
        if lines:
            cases.append(lines)
    return cases


def known_findings(prop):
    p = os.path.join(VERIF, "known_findings.json")
    if not os.path.exists(p):
        return []
    return [f for f in json.load(open(p))["findings"] if f["property"] == prop and f.get("kind") == "finding"]


def match_finding(findings, clause, detail):
    for f in findings:
        if f["clause"] == clause and re.search(f["signature"], detail):
            return f
    return None


# ----------------------------------------------------------------------------- main
def main():
    ap = argparse.ArgumentParser()
    ap.add_argument("prop")
    ap.add_argument("--tier", default=os.environ.get("VERIF_TIER", "quick"))
    ap.add_argument("--replay")
    a = ap.parse_args()
    prop = a.prop
    tier = a.tier if a.tier in ("quick", "thorough") else "quick"
    seed = int(os.environ.get("VERIF_SEED", "1"))
    t0 = time.time()
    cfg = REGISTRY["properties"][prop]
    streams = load_streams()
    os.makedirs(os.path.join(VERIF, "replays"), exist_ok=True)
    os.makedirs(os.path.join(VERIF, "evidence"), exist_ok=True)

    if a.replay:
        return do_replay(prop, a.replay, streams)

    notes = []
    broken = []          # descriptions of broken proof obligations / correspondences

    # 1. T1 extraction.  An anchor that is no longer found counts against this property only if the generated file it
    # belongs to is imported (transitively) by the property's theorems or by the model drivers of its streams.
    import extract
    rep = extract.run(write=True)
    exes = sorted({STREAM_EXE[sn] for sn in cfg["streams"] if sn in STREAM_EXE})
    closure = import_closure([cfg["module"]] + [EXE_ROOT[e] for e in exes])
    relevant = [m for m in rep["missing"] if "file" not in m or ("Paho.Gen." + m["file"]) in closure]
    if relevant:
        broken.append({"kind": "extraction", "missing": relevant})
    elif rep["missing"]:
        notes.append("anchors not found, outside this property's import closure: " + ", ".join(m["name"] for m in rep["missing"]))

    # 2. build: the property's theorems and the model executables of its streams
    ok_build, build_out = lake_build([cfg["module"]] + exes)
    exe_ok = {e: ok_build for e in exes}
    if not ok_build:
        ok_mod, mod_out = lake_build([cfg["module"]])
        for e in exes:
            exe_ok[e], _ = lake_build([e])
            binp = os.path.join(LEAN_DIR, ".lake", "build", "bin", e)
            if not exe_ok[e] and os.path.exists(binp):
                os.remove(binp)          # never run a stale model
        errs = [l for l in build_out.split("\n") if "error" in l][:12]
        broken.append({"kind": "build", "module": cfg["module"], "errors": errs,
                       "executables_not_built": [e for e in exes if not exe_ok[e]]})
        ok_build = ok_mod

    # 3. audit + scan
    theorems = cfg["theorems"]
    aud = {}
    if ok_build:
        aud, aud_out = audit(prop, cfg["module"], [t["name"] for t in theorems])
        for t in theorems:
            ax = aud.get(t["name"])
            if ax is None:
                broken.append({"kind": "theorem-missing", "theorem": t["name"]})
            elif not set(ax) <= ALLOWED_AXIOMS:
                broken.append({"kind": "axioms", "theorem": t["name"], "axioms": ax})
    bad_tokens = scan_forbidden()
    if bad_tokens:
        broken.append({"kind": "forbidden-token", "where": bad_tokens[:10]})
    if tier == "thorough" and ok_build:
        with build_lock():
            p = subprocess.run(["lake", "env", "leanchecker", cfg["module"]], cwd=LEAN_DIR, capture_output=True, text=True, timeout=3000)
        if p.returncode != 0:
            broken.append({"kind": "leanchecker", "out": (p.stdout + p.stderr)[-500:]})
        else:
            notes.append("leanchecker re-checked " + cfg["module"])
    discharged = sum(1 for t in theorems if aud.get(t["name"]) is not None and set(aud[t["name"]]) <= ALLOWED_AXIOMS)

    # 4. T2 + monitors
    findings = known_findings(prop)
    violations = []      # (stream, case, obs, clause, detail)
    known_hit = {}
    disagreements = []
    evals = 0
    distinct = set()
    feat_count = {}
    samples = []
    budget_mult = 1 if not broken else 4       # failing-input search gets a larger budget
    for sname in cfg["streams"]:
        s = streams[sname]
        n = cfg.get("cases", {}).get(tier, 400 if tier == "quick" else 6000) * budget_mult
        results = run_stream(prop, s, tier, seed, n, load_corpus(sname))
        evals += len(results)
        cases = [r[0] for r in results]
        model_obs = None
        if exe_ok.get(STREAM_EXE.get(sname)) and getattr(s, "has_model", True):
            try:
                model_obs = run_model(sname, cases)
            except Exception as e:  # noqa: BLE001
                broken.append({"kind": "model-run", "stream": sname, "error": str(e)[:300]})
        for idx, (case, obs, hits, feats, nontriv) in enumerate(results):
            if obs and obs[0].startswith("harness-exc"):
                broken.append({"kind": "harness", "stream": sname, "error": obs[0], "case": case[:30]})
                continue
            for f in feats:
                feat_count[f] = feat_count.get(f, 0) + 1
            if nontriv:
                distinct.add(hashlib.sha1(("\n".join(case) + "\n" + "\n".join(obs)).encode()).hexdigest())
            if len(samples) < 3 and nontriv:
                samples.append({"stream": sname, "ops": case[:25], "observations": obs[:25]})
            for (i, clause, detail) in hits:
                kf = match_finding(findings, clause, detail)
                if kf:
                    known_hit.setdefault(kf["id"], kf)
                else:
                    violations.append((sname, case, obs, clause, detail, i))
            if hasattr(s, "correspondence"):
                try:
                    for msg in s.correspondence(case, obs):
                        disagreements.append((sname, case, obs, [msg], 0))
                except Exception as e:  # noqa: BLE001
                    broken.append({"kind": "harness", "stream": sname, "error": f"correspondence(): {type(e).__name__}: {e}"})
            if model_obs is not None and idx < len(model_obs):
                mo = model_obs[idx]
                if mo != obs:
                    k = next((j for j in range(min(len(mo), len(obs))) if mo[j] != obs[j]), min(len(mo), len(obs)))
                    disagreements.append((sname, case, obs, mo, k))
    if disagreements:
        sname, case, obs, mo, k = disagreements[0]
        broken.append({"kind": "correspondence", "stream": sname, "count": len(disagreements),
                       "first_op": case[k] if k < len(case) else None,
                       "real": obs[k] if k < len(obs) else None, "model": mo[k] if k < len(mo) else None})

    # 4b. witness histories (shrunk histories of repaired / known defects): always replayed on the real code
    witness_fail = []
    if cfg.get("witnesses"):
        import witness
        for wname in cfg["witnesses"]:
            res = witness.run(wname)
            evals += 1
            if res:
                kf = next((f for f in findings if f.get("witness") == wname), None)
                if kf:
                    known_hit.setdefault(kf["id"], kf)
                else:
                    witness_fail.append((wname, res))

    # 5. verdict
    rc = 0
    out_lines = []
    for kf in known_hit.values():
        out_lines.append(f"KNOWN-FINDING: property={prop} {kf['id']} {kf['what']}")
    # registered findings that have a witness must still reproduce (else correspondence changed)
    replay_path = None
    if witness_fail and not violations:
        wname, res = witness_fail[0]
        replay_path = os.path.join(VERIF, "replays", f"{prop}-{seed}-{int(time.time())}-witness-{wname}.json")
        json.dump({"property": prop, "kind": "concrete-failing-input", "witness": wname, "detail": res,
                   "doc": (getattr(__import__("witness"), wname).__doc__ or "").strip(),
                   "broken_obligations": broken,
                   "how_to_replay": f"PYTHONPATH=py:/repo/src /venv/bin/python py/witness.py {wname}"}, open(replay_path, "w"), indent=1)
        out_lines.append(f"VIOLATION property={prop} replay={replay_path}")
        rc = 1
    elif violations:
        sname, case, obs, clause, detail, i = violations[0]
        s = streams[sname]

        def still(c):
            try:
                o = s.real(c)
                return any(cl == clause for (_, cl, _) in s.monitors[prop](s, c, o))
            except Exception:  # noqa: BLE001
                return False
        keep = getattr(s, "keep_prefix", 0)
        small = ddmin(case, still, keep_prefix=keep)
        sobs = s.real(small)
        shits = s.monitors[prop](s, small, sobs)
        replay_path = os.path.join(VERIF, "replays", f"{prop}-{seed}-{int(time.time())}.json")
        json.dump({"property": prop, "kind": "concrete-failing-input", "stream": sname, "clause": clause,
                   "detail": next((h[2] for h in shits if h[1] == clause), detail), "ops": small, "real_observations": sobs,
                   "broken_obligations": broken, "how_to_replay": f"bin/check {prop} --replay {replay_path}"},
                  open(replay_path, "w"), indent=1)
        out_lines.append(f"VIOLATION property={prop} replay={replay_path}")
        rc = 1
    elif broken and not witness_fail:
        replay_path = os.path.join(VERIF, "replays", f"{prop}-{seed}-{int(time.time())}-unproved.json")
        body = {"property": prop, "kind": "obligation-no-longer-checks", "broken_obligations": broken,
                "theorems": [t["name"] for t in theorems],
                "searched": {"evaluations": evals, "streams": cfg["streams"], "monitor_hits": 0}}
        if disagreements:
            sname, case, obs, mo, k = disagreements[0]
            s = streams[sname]

            if hasattr(s, "correspondence"):
                body["disagreement"] = {"stream": sname, "ops": case, "real": obs, "model": mo}
            else:
                def dis(c):
                    try:
                        o = s.real(c)
                        m = run_model(sname, [c])
                        return m is not None and m[0] != o
                    except Exception:  # noqa: BLE001
                        return False
                small = ddmin(case, dis, keep_prefix=getattr(s, "keep_prefix", 0), max_tests=150)
                body["disagreement"] = {"stream": sname, "ops": small, "real": s.real(small),
                                        "model": (run_model(sname, [small]) or [[]])[0]}
        json.dump(body, open(replay_path, "w"), indent=1)
        out_lines.append(f"VIOLATION property={prop} replay={replay_path} no-failing-input-found")
        rc = 1

    # 6. evidence
    ev = {
        "property_id": prop, "tier": tier, "seed": seed, "level": "proof",
        "coverage": {
            "obligations": len(theorems), "discharged": discharged,
            "checker_cmd": f"cd lean && lake build {cfg['module']} && lake env lean <audit of {len(theorems)} theorems via Lean.collectAxioms>" + (" && lake env leanchecker " + cfg["module"] if tier == "thorough" else ""),
            "trusted_base": REGISTRY["trusted_base"] + cfg.get("trusted_base", []),
            "theorems": [{"name": t["name"], "kind": t.get("kind", "full"), "says": t["says"],
                          "axioms": aud.get(t["name"])} for t in theorems],
            "evaluations": evals, "distinct_nontrivial": len(distinct),
            "rule": cfg.get("rule", "seeded op sequences run on the real code and on the Lean model; a case is non-trivial when its stream's nontrivial() predicate holds; distinct = distinct (ops, observations) pairs"),
            "samples": samples or [{"note": "no non-trivial sample"}],
            "distribution": dict(sorted(feat_count.items())),
            "disagreements_checked": evals if all(exe_ok.values()) else 0,
            "model_vs_real_disagreements": len(disagreements),
            "extraction": {"anchors": len(rep["anchors"]), "missing": rep["missing"], "sources": rep["sources"]},
            "known_findings_hit": sorted(known_hit),
            "witness_histories_replayed": cfg.get("witnesses", []),
            "notes": notes,
        },
        "assumptions": cfg.get("assumptions", []),
        "wall_s": round(time.time() - t0, 2),
        "violations": len(violations) + len(witness_fail) + (1 if (broken and not violations and not witness_fail) else 0),
    }
    json.dump(ev, open(os.path.join(VERIF, "evidence", f"{prop}.json"), "w"), indent=1)
    for l in out_lines:
        print(l)
    print(f"[{prop}] tier={tier} seed={seed} theorems={discharged}/{len(theorems)} evals={evals} "
          f"nontrivial={len(distinct)} disagreements={len(disagreements)} monitor_hits={len(violations)} "
          f"known={len(known_hit)} broken={len(broken)} wall={ev['wall_s']}s")
    if broken and rc:
        print(json.dumps(broken, indent=1)[:3000])
    return rc


def do_replay(prop, path, streams):
    body = json.load(open(path))
    if "ops" in body:
        sname, ops = body["stream"], body["ops"]
    elif "disagreement" in body:
        sname, ops = body["disagreement"]["stream"], body["disagreement"]["ops"]
    else:
        print(json.dumps(body, indent=1))
        return 1
    s = streams[sname]
    obs = s.real(ops)
    mo = None
    try:
        mo = run_model(sname, [ops])
    except Exception as e:  # noqa: BLE001
        print("model run failed:", e)
    for i, line in enumerate(ops):
        print(f"{i:3d} op    {line[:200]}")
        print(f"    real  {obs[i][:300] if i < len(obs) else None}")
        if mo:
            print(f"    model {mo[0][i][:300] if i < len(mo[0]) else None}")
    hits = s.monitors[prop](s, ops, obs) if prop in s.monitors else []
    for h in hits:
        print("MONITOR", h)
    if hits:
        print(f"VIOLATION property={prop} replay={path}")
        return 1
    return 0


if __name__ == "__main__":
    try:
        sys.exit(main())
    except subprocess.TimeoutExpired as e:
        print("infrastructure timeout:", e)
        sys.exit(2)
