"""Which lines of src/paho/mqtt does the real side of the T2 streams execute?  (a generator-quality measurement: lines of
modelled functions that no stream reaches are where the correspondence is blind)

  PYTHONPATH=py:/repo/src /venv/bin/python py/t2cov.py [cases per stream] [tier]
prints, per source file, the functions with lines never executed, and writes evidence/t2_coverage.json."""
from __future__ import annotations

import ast
import json
import os
import random
import sys

import coverage

VERIF = os.path.dirname(os.path.dirname(os.path.abspath(__file__)))
REPO = os.environ.get("PAHO_VERIF_REPO", "/repo")
PKG = os.path.join(REPO, "src", "paho", "mqtt")


def main():
    n = int(sys.argv[1]) if len(sys.argv) > 1 else 60
    tier = sys.argv[2] if len(sys.argv) > 2 else "quick"
    cov = coverage.Coverage(include=[os.path.join(PKG, "*.py")], branch=False, data_file=None)
    cov.start()
    import runner
    streams = runner.load_streams()
    per_stream = {}
    for name, s in sorted(streams.items()):
        rng = random.Random(12345)
        k = 0
        for _ in range(n if name not in ("threads",) else max(4, n // 10)):
            try:
                case = s.gen(rng, tier)
                s.real(case)
                k += 1
            except Exception as e:  # noqa: BLE001
                per_stream.setdefault("errors", []).append(f"{name}: {type(e).__name__}: {e}"[:200])
        per_stream[name] = k
    import witness
    for w in witness.ALL:
        witness.run(w)
    cov.stop()
    out = {"cases": per_stream, "files": {}}
    for fn in sorted(os.listdir(PKG)):
        if not fn.endswith(".py"):
            continue
        path = os.path.join(PKG, fn)
        try:
            _, stmts, _, missing, _ = cov.analysis2(path)
        except coverage.CoverageException:
            continue
        miss = set(missing)
        tree = ast.parse(open(path).read())
        funcs = []

        def walk(body, prefix):
            for node in body:
                if isinstance(node, ast.ClassDef):
                    walk(node.body, prefix + node.name + ".")
                elif isinstance(node, (ast.FunctionDef, ast.AsyncFunctionDef)):
                    lines = [l for l in stmts if node.lineno <= l <= node.end_lineno]
                    m = [l for l in lines if l in miss]
                    if lines:
                        funcs.append((prefix + node.name, len(lines), m))
        walk(tree.body, "")
        out["files"][fn] = {"statements": len(stmts), "missed": len(miss),
                            "functions": {f: {"statements": t, "missed_lines": m} for f, t, m in funcs if m}}
        print(f"== {fn}: {len(stmts) - len(miss)}/{len(stmts)} statements executed")
        for f, t, m in funcs:
            if m and len(m) < t:
                print(f"   {f}: {len(m)}/{t} not executed: {m[:14]}")
        never = [f for f, t, m in funcs if len(m) == t]
        if never:
            print("   never entered: " + ", ".join(never)[:900])
    os.makedirs(os.path.join(VERIF, "evidence"), exist_ok=True)
    json.dump(out, open(os.path.join(VERIF, "evidence", "t2_coverage.json"), "w"), indent=1)


if __name__ == "__main__":
    main()
