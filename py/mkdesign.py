"""refresh the generated parts of DESIGN.md (between the BEGIN/END markers) from registry.json, known_findings.json and
seeded/: the per-property section and the seeded-change table"""
from __future__ import annotations

import json
import os
import re

VERIF = os.path.dirname(os.path.dirname(os.path.abspath(__file__)))


def per_property():
    r = json.load(open(os.path.join(VERIF, "registry.json")))
    k = json.load(open(os.path.join(VERIF, "known_findings.json")))
    props = {json.loads(l)["id"]: json.loads(l) for l in open(os.path.join(VERIF, "properties.jsonl"))}
    out = []
    for pid in sorted(r["properties"]):
        p = r["properties"][pid]
        out.append(f"### {pid} — {props[pid]['title']}\n")
        out.append(f"*Module* `{p['module']}`; *T2 streams* {', '.join('`' + s + '`' for s in p['streams'])}; "
                   f"*cases* quick {p['cases']['quick']} / thorough {p['cases']['thorough']}; "
                   f"*witness histories* {', '.join(p.get('witnesses', [])) or '—'}.\n")
        if p.get("partial"):
            out.append(f"**Partial.** {p['partial']}\n")
        out.append("Theorems (each audited for axioms on every run):\n")
        for t in p["theorems"]:
            kind = " *(witness of a false/full statement)*" if t.get("kind") == "witness" else (" *(partial)*" if t.get("kind") == "partial" else "")
            out.append(f"- `{t['name']}`{kind}: {t['says']}")
        if p.get("assumptions"):
            out.append("\nModel assumptions / what ties it to the code:\n")
            for a in p["assumptions"]:
                out.append(f"- {a}")
        fs = [f for f in k["findings"] if f["property"] == pid]
        if fs:
            out.append("\nDefects found for this property:\n")
            for f in fs:
                if f["kind"] == "fixed":
                    out.append(f"- **{f['id']}** (repaired, /repo commit `{f['commit']}`): {f['what'].split(f['commit'], 1)[1].strip()}")
                else:
                    out.append(f"- **{f['id']}** (KNOWN FINDING, not repaired): {f['what']}")
        out.append("")
    return "\n".join(out)


def seeded():
    p = os.path.join(VERIF, "seeded", "README.md")
    if not os.path.exists(p):
        return "(no seeded changes recorded yet)"
    lines = open(p).read().split("\n")
    i = next(j for j, l in enumerate(lines) if l.startswith("| change"))
    return "\n".join(lines[i:]).strip()


def main():
    path = os.path.join(VERIF, "DESIGN.md")
    s = open(path).read()
    for name, fn in (("per-property", per_property), ("seeded-table", seeded)):
        b, e = f"<!-- BEGIN {name} -->", f"<!-- END {name} -->"
        if b in s and e in s:
            s = s[:s.index(b) + len(b)] + "\n" + fn() + "\n" + s[s.index(e):]
    open(path, "w").write(s)


if __name__ == "__main__":
    main()
