"""T2 for the WebSocket framing layer: real `_WebsocketWrapper` vs the Lean model (driver `ws`) + RFC monitors.

  PAHO_VERIF_REPO_SRC=<src> PYTHONPATH=py:<src> python py/run_ws.py [--cases N] [--seeds 1,2,3] [--streams ws,wsbad]
"""
from __future__ import annotations

import argparse
import json
import multiprocessing as mp
import os
import random
import sys
import time

HERE = os.path.dirname(os.path.abspath(__file__))
sys.path.insert(0, HERE)

from common import NPROC, ddmin, run_model  # noqa: E402
from streams import ws as wsmod  # noqa: E402
from streams import wsreader as wsrmod  # noqa: E402

STREAMS = {s.name: s for s in wsmod.STREAMS + wsrmod.STREAMS}


def shard(args):
    sname, seed, n = args
    s = STREAMS[sname]
    rng = random.Random(seed)
    out = []
    for _ in range(n):
        case = s.gen(rng, "quick")
        obs = s.real(case)
        hits = []
        for prop, mon in s.monitors.items():
            hits += [(prop,) + h for h in mon(s, case, obs)]
        out.append((case, obs, hits, sorted(s.features(case, obs)), s.nontrivial(case, obs)))
    return out


def main():
    ap = argparse.ArgumentParser()
    ap.add_argument("--cases", type=int, default=400)
    ap.add_argument("--seeds", default="1,2,3")
    ap.add_argument("--streams", default="ws,wsbad")
    ap.add_argument("--out", default="")
    a = ap.parse_args()
    summary = []
    for sname in a.streams.split(","):
        s = STREAMS[sname]
        for seed in [int(x) for x in a.seeds.split(",")]:
            t0 = time.time()
            per = max(1, a.cases // NPROC)
            with mp.Pool(NPROC) as pool:
                parts = pool.map(shard, [(sname, seed * 1000 + i, per) for i in range(NPROC)])
            res = [r for p in parts for r in p]
            cases = [r[0] for r in res]
            mobs = run_model(sname, cases, timeout=3000)
            dis = []
            for i, (case, obs, hits, feats, nt) in enumerate(res):
                if mobs[i] != obs:
                    k = next((j for j in range(min(len(obs), len(mobs[i]))) if obs[j] != mobs[i][j]), min(len(obs), len(mobs[i])))
                    dis.append((i, k))
            feat = {}
            for r in res:
                for f in r[3]:
                    feat[f] = feat.get(f, 0) + 1
            hits = {}
            first = {}
            for i, r in enumerate(res):
                for h in r[2]:
                    key = h[0] + ":" + h[2]
                    hits[key] = hits.get(key, 0) + 1
                    first.setdefault(key, (i, h))
            rec = {"stream": sname, "seed": seed, "cases": len(res), "ops": sum(len(c) for c in cases),
                   "nontrivial": sum(1 for r in res if r[4]), "disagreements": len(dis), "monitor_hits": hits,
                   "features": feat, "secs": round(time.time() - t0, 1)}
            summary.append(rec)
            print(json.dumps(rec))
            for (i, k) in dis[:3]:
                case, obs = res[i][0], res[i][1]
                print("  DISAGREE case", i, "op", k, ":", case[k][:200] if k < len(case) else None)
                print("     real :", obs[k][:200] if k < len(obs) else None)
                print("     model:", mobs[i][k][:200] if k < len(mobs[i]) else None)

                def still(c):
                    o = s.real(c)
                    m = run_model(sname, [c])[0]
                    return o != m
                small = ddmin(case, still)
                print("     shrunk:", small[:40])
                print("     real :", s.real(small)[-3:])
                print("     model:", run_model(sname, [small])[0][-3:])
            for key, (i, h) in first.items():
                case = res[i][0]
                prop, clause = h[0], h[2]

                def stillm(c):
                    o = s.real(c)
                    return any(x[1] == clause for x in s.monitors[prop](s, c, o))
                small = ddmin(case, stillm)
                so = s.real(small)
                sh = [x for x in s.monitors[prop](s, small, so) if x[1] == clause]
                print("  MONITOR", key, "x", hits[key], ":", h[3][:300])
                print("     shrunk ops:", [x[:120] for x in small[:30]])
                print("     real obs  :", [x[:120] for x in so[:30]])
                print("     detail    :", sh[0][2][:300] if sh else None)
    if a.out:
        json.dump(summary, open(a.out, "w"), indent=1)


if __name__ == "__main__":
    main()
