"""regenerate MANIFEST.json from registry.json (single source of truth for claimed checks)."""
import json, os
HERE = os.path.dirname(os.path.abspath(__file__))
V = os.path.dirname(HERE)
reg = json.load(open(os.path.join(V, "registry.json")))
props = [json.loads(l) for l in open(os.path.join(V, "properties.jsonl"))]
checks = []
na = []
for p in props:
    pid = p["id"]
    cfg = reg["properties"].get(pid)
    if not cfg or cfg.get("disabled"):
        na.append({"property_id": pid, "reason": (cfg or {}).get("disabled", "check not built yet (work in progress; DESIGN.md section 11)")})
        continue
    kinds = [t.get("kind", "full") for t in cfg["theorems"]]
    partial = cfg.get("partial")
    checks.append({
        "property_id": pid,
        "quick_cmd": f"bin/check {pid} --tier quick",
        "thorough_cmd": f"bin/check {pid} --tier thorough",
        "evidence_file": f"evidence/{pid}.json",
        "replay_cmd_template": f"bin/check {pid} --replay {{path}}",
        "engine": f"lean4:{cfg['module']} + T1 extract + T2 streams {','.join(cfg['streams'])}",
        "technique": cfg.get("technique", "Lean 4 kernel-checked theorems over a model instantiated from the source (T1) and tied to the code by a differential correspondence (T2)"),
        "level_claimed": {
            "category": "proof",
            "text": cfg.get("level_text", f"{len(cfg['theorems'])} Lean 4 theorems ({kinds.count('full')} at full strength, {len(kinds) - kinds.count('full')} partial/witness) about the executable model of the anchored code, for all inputs/histories they quantify over; the model is regenerated from /repo (constants, comparators, tables) and run against the real code on seeded op sequences on every run; independent property monitors on the real code provide the failing-input search." + (" PARTIAL: " + partial if partial else "")),
            "design_ref": f"DESIGN.md section 5 ({pid})"},
        "level_note": "Trusted: Lean kernel; axioms propext/Classical.choice/Quot.sound (audited per theorem); py/extract.py and py/py2lean.py (T1); the fake world + drivers; the hand-written Spec side. " + "; ".join(cfg.get("assumptions", [])),
    })
m = {
    "version": 1,
    "setup_cmd": "bin/setup",
    "hooks": {"guard": "PAHO_MQTT_VERIF", "enable": "not needed: no source hooks; clock, sockets, select and threading are substituted in the harness process by assignment into the paho.mqtt.client module namespace",
              "baseline_off_cmd": "cd /repo && /venv/bin/python -m pytest -ra -q -p no:cacheprovider --timeout=900 --continue-on-collection-errors",
              "source_commits": [], "add_only": True},
    "engines": [{"name": "lean4-model+proofs", "path": "lean/", "serves_properties": [c["property_id"] for c in checks], "kind_free_text": "Lean 4 model (Paho/), proofs (PahoProofs/), compiled line-protocol drivers (lean_exe pm_<stream>, one per model driver)"},
                {"name": "python-harness", "path": "py/", "serves_properties": [c["property_id"] for c in checks], "kind_free_text": "T1 extractor, fake world, T2 drivers, property monitors, runner"}],
    "checks": checks,
    "notes": "Machine-checked proof in Lean 4 with a checked tie to /repo (T1 extraction + T2 differential). A broken proof/extraction/correspondence triggers a failing-input search on the real code; see DESIGN.md. Genuine defects repaired by fix: commits in /repo and open findings are listed in known_findings.json.",
    "not_applicable": na,
}
json.dump(m, open(os.path.join(V, "MANIFEST.json"), "w"), indent=1)
print("checks:", [c["property_id"] for c in checks], "not claimed:", [n["property_id"] for n in na])
