"""Fake world for driving the *unmodified* paho client in-process.

Everything is installed by assignment into the `paho.mqtt.client` module
namespace of the harness process (time_func, time, select, socket,
_socketpair_compat) - no change to /repo.

Time is virtual: integer milliseconds held in VClock, presented as float
seconds (all values used are exact in binary floating point up to 2**53 ms).
"""
from __future__ import annotations

import base64
import collections
import errno
import hashlib
import os
import socket as _real_socket
import sys
import types

REPO_SRC = os.environ.get("PAHO_VERIF_REPO_SRC", "/repo/src")
if REPO_SRC not in sys.path:
    sys.path.insert(0, REPO_SRC)

import paho.mqtt.client as pc  # noqa: E402

assert os.path.realpath(pc.__file__).startswith(os.path.realpath(REPO_SRC)), pc.__file__


import threading as _real_threading


class SelfDeadlock(BaseException):
    """a thread blocking-acquired a non-reentrant lock it already owns (would hang forever)."""


class DLock:
    """threading.Lock replacement that turns a self-deadlock into an exception and records ownership."""

    def __init__(self):
        self._l = _real_threading.Lock()
        self.owner = None
        self.name = "?"

    def acquire(self, blocking=True, timeout=-1):
        me = _real_threading.get_ident()
        if blocking and self.owner == me:
            raise SelfDeadlock(self.name)
        ok = self._l.acquire(blocking, timeout) if blocking else self._l.acquire(False)
        if ok:
            self.owner = me
        return ok

    def release(self):
        self.owner = None
        self._l.release()

    def locked(self):
        return self._l.locked()

    def held_by_me(self):
        return self.owner == _real_threading.get_ident()

    def __enter__(self):
        self.acquire()
        return self

    def __exit__(self, *a):
        self.release()


class DRLock:
    def __init__(self):
        self._l = _real_threading.RLock()
        self.count = 0
        self.owner = None
        self.name = "?"

    def acquire(self, blocking=True, timeout=-1):
        ok = self._l.acquire(blocking, timeout) if blocking else self._l.acquire(False)
        if ok:
            self.count += 1
            self.owner = _real_threading.get_ident()
        return ok

    def release(self):
        self.count -= 1
        if self.count == 0:
            self.owner = None
        self._l.release()

    def held_by_me(self):
        return self.owner == _real_threading.get_ident() and self.count > 0

    def __enter__(self):
        self.acquire()
        return self

    def __exit__(self, *a):
        self.release()


def name_locks(client):
    for k, v in vars(client).items():
        if isinstance(v, (DLock, DRLock)):
            v.name = k


def held_locks(client):
    return sorted(k for k, v in vars(client).items() if isinstance(v, (DLock, DRLock)) and v.held_by_me())


class VClock:
    def __init__(self):
        self.ms = 1_000_000  # start away from 0: the client uses 0 as "no ping outstanding"

    def now(self) -> float:
        return self.ms / 1000.0

    def advance_ms(self, ms: int) -> None:
        assert ms >= 0
        self.ms += int(ms)


class FakeSocket:
    """Scriptable non-blocking stream socket.

    inbound queue items: ('data', bytearray) | ('eagain',) | ('eof',) | ('err',)
    outbound script items: ('accept', k) | ('block',) | ('error',) ; empty => accept all
    """

    _next_fileno = 1000

    def __init__(self, world: "World", conn: int, websocket: bool = False):
        self.world = world
        self.conn = conn
        self.inq: collections.deque = collections.deque()
        self.outscript: collections.deque = collections.deque()
        self.wire = bytearray()          # every accepted byte (after ws handshake: raw frames)
        self.closed = False
        self.blocking = True
        FakeSocket._next_fileno += 1
        self._fileno = FakeSocket._next_fileno
        self.ws_handshake = websocket    # still in HTTP upgrade phase
        self._hs_in = bytearray()
        self.hs_request = b""
        self.send_calls = 0
        self.recv_calls = 0

    # -- scripting (harness side) --
    def feed(self, data: bytes) -> None:
        if data:
            self.inq.append(("data", bytearray(data)))

    def feed_eagain(self) -> None:
        self.inq.append(("eagain",))

    def feed_eof(self) -> None:
        self.inq.append(("eof",))

    def feed_err(self) -> None:
        self.inq.append(("err",))

    def readable(self) -> bool:
        return len(self.inq) > 0 and self.inq[0][0] != "eagain" or (len(self.inq) > 0)

    def writable(self) -> bool:
        return not (self.outscript and self.outscript[0][0] == "block")

    # -- socket API (client side) --
    def recv(self, n: int) -> bytes:
        self.recv_calls += 1
        if self.closed:
            raise OSError(errno.EBADF, "closed")
        if self.ws_handshake:
            if not self._hs_in:
                return b""
            b = bytes(self._hs_in[:n])
            del self._hs_in[:n]
            if not self._hs_in:
                self.ws_handshake = False
            return b
        if not self.inq:
            raise BlockingIOError(errno.EAGAIN, "would block")
        item = self.inq[0]
        if item[0] == "eagain":
            self.inq.popleft()
            raise BlockingIOError(errno.EAGAIN, "would block")
        if item[0] == "eof":
            return b""
        if item[0] == "err":
            raise ConnectionResetError(errno.ECONNRESET, "reset")
        buf = item[1]
        out = bytes(buf[:n])
        del buf[:n]
        if not buf:
            self.inq.popleft()
        return out

    def send(self, data) -> int:
        self.send_calls += 1
        if self.closed:
            raise OSError(errno.EBADF, "closed")
        data = bytes(data)
        if self.ws_handshake and not self.hs_request:
            self.hs_request = data
            self._hs_in += self.world.ws_response(data)
            return len(data)
        if self.outscript:
            item = self.outscript.popleft()
            if item[0] == "block":
                raise BlockingIOError(errno.EAGAIN, "would block")
            if item[0] == "error":
                raise BrokenPipeError(errno.EPIPE, "broken pipe")
            k = min(max(int(item[1]), 0), len(data))
        else:
            k = len(data)
        self.wire += data[:k]
        self.world.on_tx(self, data[:k])
        return k

    def close(self) -> None:
        if not self.closed:
            self.closed = True
            self.world.log.append(("sockclose", self.conn))
            if self.world.close_hook:
                self.world.close_hook(self.conn)

    def setblocking(self, flag) -> None:
        self.blocking = bool(flag)

    def settimeout(self, t) -> None:
        pass

    def fileno(self) -> int:
        return -1 if self.closed else self._fileno

    def setsockopt(self, *a) -> None:
        pass

    def getsockopt(self, *a):
        return 0

    def connect(self, addr) -> None:
        pass

    def __repr__(self):
        return f"<FakeSocket #{self.conn}>"


EVHOOK = None      # set by the thread scheduler harness: called with the name of a wake-pipe / select event


class FakePipeEnd:
    def __init__(self, pipe, writer: bool):
        self.pipe = pipe
        self.writer = writer
        self.closed = False

    def send(self, data) -> int:
        self.pipe.count += len(data)
        self.pipe.total += len(data)
        if EVHOOK is not None:
            EVHOOK("wake")
        return len(data)

    def recv(self, n: int) -> bytes:
        if self.pipe.count == 0:
            raise BlockingIOError(errno.EAGAIN, "would block")
        k = min(n, self.pipe.count)
        self.pipe.count -= k
        if EVHOOK is not None:
            EVHOOK("recv")
        return b"0" * k

    def close(self) -> None:
        self.closed = True

    def fileno(self) -> int:
        return -1 if self.closed else 999

    def setblocking(self, flag) -> None:
        pass


class FakePipe:
    def __init__(self):
        self.count = 0
        self.total = 0
        self.r = FakePipeEnd(self, False)
        self.w = FakePipeEnd(self, True)


class World:
    """One fake world; install() points the paho.mqtt.client module at it."""

    def __init__(self):
        self.clock = VClock()
        self.socks: list[FakeSocket] = []
        self.attempt_script: collections.deque = collections.deque()  # 'ok' | 'refuse' | 'timeout'
        self.attempt_times: list[int] = []
        self.log: list = []
        self.websocket = False
        self.pipes: list[FakePipe] = []
        self.select_hook = None    # called when select would block: may feed data / stop
        self.sleep_hook = None
        self.tx_hook = None
        self.close_hook = None
        self.open_hook = None
        self.sched = None
        self.select_calls = 0
        self.max_select = 100000

    # ---- installation ----
    def install(self) -> None:
        w = self
        pc.time_func = self.clock.now

        ftime = types.SimpleNamespace()
        ftime.monotonic = self.clock.now
        ftime.time = self.clock.now
        ftime.sleep = self._sleep
        pc.time = ftime

        fsel = types.SimpleNamespace()
        fsel.select = self._select
        fsel.error = OSError
        pc.select = fsel

        fsock = types.SimpleNamespace()
        for name in dir(_real_socket):
            if not name.startswith("__"):
                try:
                    setattr(fsock, name, getattr(_real_socket, name))
                except Exception:
                    pass
        fsock.create_connection = self._create_connection
        fsock.socket = self._socket_ctor
        pc.socket = fsock
        pc._socketpair_compat = self._socketpair

        fthr = types.SimpleNamespace()
        for name in dir(_real_threading):
            if not name.startswith("__"):
                setattr(fthr, name, getattr(_real_threading, name))
        fthr.Lock = DLock
        fthr.RLock = DRLock
        pc.threading = fthr

    @staticmethod
    def uninstall() -> None:
        import select as _sel
        import time as _time
        pc.time = _time
        pc.time_func = _time.monotonic
        pc.select = _sel
        pc.socket = _real_socket
        pc.threading = _real_threading

    # ---- fakes ----
    def _sleep(self, secs) -> None:
        self.clock.advance_ms(int(round(secs * 1000)))
        if self.sleep_hook:
            self.sleep_hook(secs)
        if self.sched is not None:
            self.sched.yield_point("sleep")

    def _new_socket(self) -> FakeSocket:
        self.attempt_times.append(self.clock.ms)
        outcome = self.attempt_script.popleft() if self.attempt_script else "ok"
        self.log.append(("attempt", len(self.attempt_times), outcome, self.clock.ms))
        if outcome == "refuse":
            raise ConnectionRefusedError(errno.ECONNREFUSED, "refused")
        if outcome == "timeout":
            raise TimeoutError("timed out")
        s = FakeSocket(self, len(self.socks) + 1, websocket=self.websocket)
        self.socks.append(s)
        self.log.append(("sockopen", s.conn))
        if self.open_hook:
            self.open_hook(s.conn)
        return s

    def _create_connection(self, addr, timeout=None, source_address=None, **kw):
        return self._new_socket()

    def _socket_ctor(self, family=None, type=None, proto=0, *a, **kw):
        return self._new_socket()

    def _socketpair(self):
        p = FakePipe()
        self.pipes.append(p)
        return (p.r, p.w)

    def _select(self, rlist, wlist, xlist, timeout=None):
        self.select_calls += 1
        if self.select_calls > self.max_select:
            raise KeyboardInterrupt("fake world: select budget exhausted")
        for s in list(rlist) + list(wlist):
            if s is None:
                raise TypeError("argument must be an int, or have a fileno() method")
            if s.fileno() < 0:
                raise ValueError("file descriptor cannot be a negative integer (-1)")
        if self.sched is not None and self.sched.me() is not None:
            def ready():
                return any(self._readable(s) for s in rlist) or any(self._writable(s) for s in wlist)
            if not self.sched.block_until(ready, "select", can_timeout=True):
                if timeout:
                    self.clock.advance_ms(int(round(timeout * 1000)))
                if EVHOOK is not None:
                    EVHOOK("select", 0, int(all(self._writable(s) for s in rlist[:1])))
                return ([], [], [])
            if EVHOOK is not None:
                EVHOOK("select", int(bool(rlist) and self._readable(rlist[0])), int(all(self._writable(s) for s in rlist[:1])))
        for _ in range(2):
            r = [s for s in rlist if self._readable(s)]
            wr = [s for s in wlist if self._writable(s)]
            if r or wr:
                return (r, wr, [])
            if self.select_hook is not None and _ == 0:
                if self.select_hook(timeout):
                    continue
            break
        if timeout:
            self.clock.advance_ms(int(round(timeout * 1000)))
        return ([], [], [])

    @staticmethod
    def _readable(s) -> bool:
        if isinstance(s, FakePipeEnd):
            return s.pipe.count > 0
        if isinstance(s, FakeSocket):
            return len(s.inq) > 0
        inner = getattr(s, "_socket", None)   # _WebsocketWrapper
        if isinstance(inner, FakeSocket):
            return len(inner.inq) > 0
        return False

    @staticmethod
    def _writable(s) -> bool:
        inner = getattr(s, "_socket", s)
        if isinstance(inner, FakeSocket):
            return inner.writable()
        return True

    def on_tx(self, sock: FakeSocket, data: bytes) -> None:
        self.log.append(("tx", sock.conn, bytes(data), self.clock.ms))
        if self.tx_hook:
            self.tx_hook(sock, data)

    @staticmethod
    def ws_response(request: bytes) -> bytes:
        key = None
        for line in request.split(b"\r\n"):
            if line.lower().startswith(b"sec-websocket-key:"):
                key = line.split(b":", 1)[1].strip()
        guid = b"258EAFA5-E914-47DA-95CA-C5AB0DC85B11"
        acc = base64.b64encode(hashlib.sha1((key or b"") + guid).digest())
        return (b"HTTP/1.1 101 Switching Protocols\r\n"
                b"Upgrade: websocket\r\n"
                b"Connection: Upgrade\r\n"
                b"Sec-WebSocket-Accept: " + acc + b"\r\n"
                b"\r\n")

    # ---- conveniences ----
    def cur(self) -> FakeSocket | None:
        return self.socks[-1] if self.socks else None


def raw(sock):
    """the FakeSocket under a client socket (plain or websocket-wrapped)."""
    if sock is None:
        return None
    return getattr(sock, "_socket", sock)
