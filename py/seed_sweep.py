"""Re-run the target check of every kept seeded change (seeded/<name>/patch.diff) with the current machinery.

  seed_sweep.py [name ...]      (PAHO_VERIF_REPO must point to a scratch clone of the repository, never /repo itself)
Prints one line per change and writes seeded/sweep.json: {name: {property, rc, kind, clause}}.
"""
from __future__ import annotations

import json
import os
import subprocess
import sys

VERIF = os.path.dirname(os.path.dirname(os.path.abspath(__file__)))
REPO = os.environ["PAHO_VERIF_REPO"]
assert os.path.realpath(REPO) != "/repo", "use a scratch clone"


def main():
    names = sys.argv[1:] or sorted(d for d in os.listdir(os.path.join(VERIF, "seeded")) if os.path.isdir(os.path.join(VERIF, "seeded", d)))
    outp = os.path.join(VERIF, "seeded", "sweep.json")
    res = json.load(open(outp)) if os.path.exists(outp) else {}
    for n in names:
        d = os.path.join(VERIF, "seeded", n)
        meta = json.load(open(os.path.join(d, "meta.json")))
        prop = str(meta.get("property", n[:3])).split()[0].strip(",;")
        subprocess.run(["git", "-C", REPO, "reset", "-q", "--hard"], check=True)
        a = subprocess.run(["git", "-C", REPO, "apply", os.path.join(d, "patch.diff")], capture_output=True, text=True)
        if a.returncode != 0:
            # written against an earlier commit of the repository (before later `fix:` commits touched the same lines)
            a = subprocess.run(["git", "-C", REPO, "apply", "-3", os.path.join(d, "patch.diff")], capture_output=True, text=True)
            if a.returncode != 0 or subprocess.run(["git", "-C", REPO, "diff", "--name-only", "--diff-filter=U"], capture_output=True, text=True).stdout.strip():
                a.returncode = 1
                subprocess.run(["git", "-C", REPO, "reset", "-q", "--hard"], check=True)
        if a.returncode != 0:
            res[n] = {"property": prop, "rc": None, "kind": "patch-does-not-apply", "clause": a.stderr[:200]}
            print(n, prop, "patch does not apply")
            continue
        try:
            r = subprocess.run([os.path.join(VERIF, "bin", "check"), prop, "--tier", "quick"], capture_output=True, text=True, timeout=3600)
            lines = [l for l in r.stdout.split("\n") if l.startswith("VIOLATION")]
            e = {"property": prop, "rc": r.returncode, "kind": None, "clause": None}
            if lines:
                path = lines[0].split("replay=")[1].split()[0]
                try:
                    dd = json.load(open(path))
                    e["kind"] = dd.get("kind")
                    e["clause"] = dd.get("clause") or dd.get("witness")
                except Exception as ex:  # noqa: BLE001
                    e["clause"] = f"replay unreadable: {ex}"
            res[n] = e
            print(n, prop, "rc", r.returncode, e["kind"], e["clause"], flush=True)
        finally:
            subprocess.run(["git", "-C", REPO, "reset", "-q", "--hard"], check=True)
        json.dump(res, open(outp, "w"), indent=1)


if __name__ == "__main__":
    main()
