"""T1 for C18 / C07: static lock analysis of client.py.

From the AST of class Client:
  * lock kinds (threading.Lock / RLock) from __init__;
  * for every method: the locks it blocking-acquires (`with self._x:`), the locks it try-acquires
    (`self._x.acquire(False)`), and its calls to other methods of the class, each with the locks lexically held at
    that point, the "known free" locks (code under a successful try-acquire of L runs only when this thread does not
    hold L) and the guard callbacks (code under `if on_xxx:` runs only when that callback is installed);
  * user-callback call sites with the same context;
and by propagation through the intra-class call graph from the public entry points:
  * heldAt(site): locks that may be held when the user callback runs;
  * acquires(api): blocking acquisitions reachable from each public API method, with their path conditions.
The result is emitted as Lean data (Gen/Locks.lean) and as JSON for the dynamic cross-check.
"""
from __future__ import annotations

import ast
import os

REPO_SRC = os.environ.get("PAHO_VERIF_REPO_SRC", "/repo/src")

LOCKS = ["_in_callback_mutex", "_callback_mutex", "_msgtime_mutex", "_out_message_mutex", "_in_message_mutex",
         "_reconnect_delay_mutex", "_mid_generate_mutex"]
APIS = ["publish", "subscribe", "unsubscribe", "disconnect", "reconnect", "message_callback_add", "message_callback_remove", "loop_stop"]
CALLBACKS = ["on_log", "on_pre_connect", "on_connect", "on_connect_fail", "on_subscribe", "on_message", "on_publish",
             "on_unsubscribe", "on_disconnect", "on_socket_open", "on_socket_close", "on_socket_register_write",
             "on_socket_unregister_write"]
ENTRY = ["loop", "loop_read", "loop_write", "loop_misc", "loop_forever", "connect", "reconnect", "disconnect", "publish",
         "subscribe", "unsubscribe", "ack", "connect_async", "loop_start", "loop_stop", "_thread_main"]


class Ctx:
    __slots__ = ("held", "free", "guards")

    def __init__(self, held=(), free=(), guards=()):
        self.held = tuple(held)
        self.free = tuple(free)
        self.guards = tuple(guards)

    def with_held(self, l):
        return Ctx(self.held + (l,), self.free, self.guards)

    def with_free(self, l):
        return Ctx(self.held, self.free + (l,), self.guards)

    def with_guard(self, g):
        return Ctx(self.held, self.free, self.guards + (g,))


def self_attr(node):
    if isinstance(node, ast.Attribute) and isinstance(node.value, ast.Name) and node.value.id == "self":
        return node.attr
    return None


class MethodFacts:
    def __init__(self, name):
        self.name = name
        self.acquires = []     # (lock, mode 'blocking'|'try', Ctx)
        self.calls = []        # (callee, Ctx)
        self.sites = []        # (callback, Ctx, lineno)


def analyse_method(fn: ast.FunctionDef, methods: set) -> MethodFacts:
    mf = MethodFacts(fn.name)
    # local variables bound to callbacks: `on_connect = self.on_connect`
    cbvars = {}
    for a in ast.walk(fn):
        if isinstance(a, ast.Assign) and len(a.targets) == 1 and isinstance(a.targets[0], ast.Name):
            at = self_attr(a.value)
            if at in CALLBACKS:
                cbvars[a.targets[0].id] = at
    if fn.name == "_handle_on_message":
        cbvars["callback"] = "on_message"      # per-topic callbacks

    def visit_expr(e, ctx):
        for n in ast.walk(e):
            if isinstance(n, ast.Call):
                at = self_attr(n.func)
                if at in methods:
                    mf.calls.append((at, ctx))
                elif at in CALLBACKS:
                    mf.sites.append((at, ctx, n.lineno))
                elif isinstance(n.func, ast.Name) and n.func.id in cbvars:
                    mf.sites.append((cbvars[n.func.id], ctx, n.lineno))
                elif isinstance(n.func, ast.Attribute) and n.func.attr == "join" and self_attr(n.func.value) == "_thread":
                    mf.acquires.append(("<thread-join>", "blocking", ctx))
                elif isinstance(n.func, ast.Attribute) and n.func.attr == "acquire":
                    l = self_attr(n.func.value)
                    if l in LOCKS:
                        nonblock = bool(n.args) and isinstance(n.args[0], ast.Constant) and n.args[0].value is False
                        mf.acquires.append((l, "try" if nonblock else "blocking", ctx))

    def try_acquire_lock(test):
        """`if self._x.acquire(False):` -> '_x'"""
        if isinstance(test, ast.Call) and isinstance(test.func, ast.Attribute) and test.func.attr == "acquire":
            l = self_attr(test.func.value)
            if l in LOCKS and test.args and isinstance(test.args[0], ast.Constant) and test.args[0].value is False:
                return l
        return None

    def guard_of(test):
        """`if on_connect:` / `if self.on_log is not None:` -> callback name;
        `if threading.current_thread() != self._thread:` -> 'not-loop-thread'"""
        try:
            if ast.unparse(test) == "threading.current_thread() != self._thread":
                return "not-loop-thread"
        except Exception:  # noqa: BLE001
            pass
        if isinstance(test, ast.Name) and test.id in cbvars:
            return cbvars[test.id]
        if isinstance(test, ast.Compare) and len(test.ops) == 1 and isinstance(test.ops[0], ast.IsNot) and \
                isinstance(test.comparators[0], ast.Constant) and test.comparators[0].value is None:
            at = self_attr(test.left)
            if at in CALLBACKS:
                return at
        return None

    def visit_stmts(stmts, ctx):
        for st in stmts:
            if isinstance(st, ast.With):
                inner = ctx
                for item in st.items:
                    l = self_attr(item.context_expr)
                    if l in LOCKS:
                        mf.acquires.append((l, "blocking", inner))
                        inner = inner.with_held(l)
                    else:
                        visit_expr(item.context_expr, inner)
                visit_stmts(st.body, inner)
            elif isinstance(st, ast.If):
                visit_expr(st.test, ctx)
                tl = try_acquire_lock(st.test)
                g = guard_of(st.test)
                body_ctx = ctx
                if tl:
                    body_ctx = ctx.with_free(tl)
                if g:
                    body_ctx = body_ctx.with_guard(g)
                visit_stmts(st.body, body_ctx)
                visit_stmts(st.orelse, ctx)
            elif isinstance(st, (ast.For, ast.While)):
                visit_expr(st.iter if isinstance(st, ast.For) else st.test, ctx)
                visit_stmts(st.body, ctx)
                visit_stmts(st.orelse, ctx)
            elif isinstance(st, ast.Try):
                visit_stmts(st.body, ctx)
                for h in st.handlers:
                    visit_stmts(h.body, ctx)
                visit_stmts(st.orelse, ctx)
                visit_stmts(st.finalbody, ctx)
            elif isinstance(st, (ast.FunctionDef, ast.ClassDef)):
                continue
            else:
                visit_expr(st, ctx)
    visit_stmts(fn.body, Ctx())
    return mf


def analyse(path=None):
    path = path or os.path.join(REPO_SRC, "paho", "mqtt", "client.py")
    tree = ast.parse(open(path, encoding="utf-8").read())
    cls = next(n for n in tree.body if isinstance(n, ast.ClassDef) and n.name == "Client")
    fns = {n.name: n for n in cls.body if isinstance(n, ast.FunctionDef)}
    # property getters named like callbacks are not methods to follow
    methods = {k for k in fns if k not in CALLBACKS}
    kinds = {}
    for a in ast.walk(fns["__init__"]):
        if isinstance(a, ast.Assign) and len(a.targets) == 1:
            l = self_attr(a.targets[0])
            if l in LOCKS and isinstance(a.value, ast.Call) and isinstance(a.value.func, ast.Attribute):
                kinds[l] = "reentrant" if a.value.func.attr == "RLock" else "plain"
    facts = {k: analyse_method(fns[k], methods) for k in methods}

    # ---- propagate: contexts at method entry (may-held, must-free, guards), from the entry points
    entry_ctx = {k: set() for k in methods}
    work = []
    for e in ENTRY:
        if e in methods:
            entry_ctx[e].add(((), (), ()))
            work.append(e)
    while work:
        m = work.pop()
        for (held0, free0, g0) in list(entry_ctx[m]):
            for callee, c in facts[m].calls:
                # a lock acquired blocking cancels a "known free" fact
                held = tuple(sorted(set(held0) | set(c.held)))
                free = tuple(sorted((set(free0) | set(c.free)) - set(c.held)))
                guards = tuple(sorted(set(g0) | set(c.guards)))
                key = (held, free, guards)
                if key not in entry_ctx[callee]:
                    if len(entry_ctx[callee]) < 400:
                        entry_ctx[callee].add(key)
                        work.append(callee)
    # ---- callback sites: set of possible held-lock sets
    sites = {}
    for m, mf in facts.items():
        for cb, c, lineno in mf.sites:
            for (held0, free0, g0) in entry_ctx[m] or {((), (), ())}:
                held = tuple(sorted(set(held0) | set(c.held)))
                if set(held) & (set(free0) | set(c.free)):
                    continue       # infeasible: a lock known free cannot be held
                sites.setdefault((cb, m), set()).add(held)
    # ---- per API: reachable blocking acquisitions with path conditions
    def reach(api):
        seen = set()
        out = set()
        stack = [(api, (), (), ())]     # method, held-by-this-call-chain, free, guards
        while stack:
            m, held0, free0, g0 = stack.pop()
            if (m, held0, free0, g0) in seen:
                continue
            seen.add((m, held0, free0, g0))
            mf = facts[m]
            for l, mode, c in mf.acquires:
                if mode != "blocking":
                    continue
                held = set(held0) | set(c.held)
                free = (set(free0) | set(c.free)) - held
                guards = set(g0) | set(c.guards)
                out.add((l, tuple(sorted(held)), tuple(sorted(free)), tuple(sorted(guards))))
            for callee, c in mf.calls:
                held = tuple(sorted(set(held0) | set(c.held)))
                free = tuple(sorted((set(free0) | set(c.free)) - set(c.held)))
                guards = tuple(sorted(set(g0) | set(c.guards)))
                if len(seen) < 5000:
                    stack.append((callee, held, free, guards))
        return out
    acquires = {api: reach(api) for api in APIS if api in methods}
    return {"kinds": kinds, "sites": {f"{cb}@{m}": sorted(map(list, hs)) for (cb, m), hs in sorted(sites.items())},
            "acquires": {api: sorted([list(x[:1]) + [list(x[1]), list(x[2]), list(x[3])] for x in acq]) for api, acq in acquires.items()},
            "facts": {m: {"acquires": [(l, mo, list(c.held), list(c.free), list(c.guards)) for l, mo, c in mf.acquires],
                          "calls": sorted({cal for cal, _ in mf.calls})} for m, mf in facts.items() if mf.acquires or mf.sites}}


if __name__ == "__main__":
    import json
    r = analyse()
    print(json.dumps({k: r[k] for k in ("kinds", "sites")}, indent=1))
    for api, acq in r["acquires"].items():
        print(api)
        for a in acq:
            print("   ", a)
