"""T1 for C18 / C07: static lock analysis of client.py.

From the AST of class Client:
  * lock kinds (threading.Lock / RLock) from __init__;
  * for every method: the locks it blocking-acquires (`with self._x:`), the locks it try-acquires
    (`self._x.acquire(False)`), and its calls to other methods of the class, each with the locks lexically held at
    that point, the "known free" locks (code under a successful try-acquire of L runs only when this thread does not
    hold L) and the guard callbacks (code under `if on_xxx:` runs only when that callback is installed);
  * user-callback call sites with the same context;
and by propagation through the intra-class call graph from the public entry points:
  * heldAt(site): locks that may be held when the user callback runs;
  * acquires(api): blocking acquisitions reachable from each public API method, with their path conditions.
The result is emitted as Lean data (Gen/Locks.lean) and as JSON for the dynamic cross-check.
"""
from __future__ import annotations

import ast
import os

REPO_SRC = os.environ.get("PAHO_VERIF_REPO_SRC", "/repo/src")

LOCKS = ["_in_callback_mutex", "_callback_mutex", "_msgtime_mutex", "_out_message_mutex", "_in_message_mutex",
         "_reconnect_delay_mutex", "_mid_generate_mutex"]
APIS = ["publish", "subscribe", "unsubscribe", "disconnect", "reconnect", "message_callback_add", "message_callback_remove", "loop_stop"]
CALLBACKS = ["on_log", "on_pre_connect", "on_connect", "on_connect_fail", "on_subscribe", "on_message", "on_publish",
             "on_unsubscribe", "on_disconnect", "on_socket_open", "on_socket_close", "on_socket_register_write",
             "on_socket_unregister_write"]
ENTRY = ["loop", "loop_read", "loop_write", "loop_misc", "loop_forever", "connect", "reconnect", "disconnect", "publish",
         "subscribe", "unsubscribe", "ack", "connect_async", "loop_start", "loop_stop", "_thread_main"]


class Ctx:
    __slots__ = ("held", "free", "guards")

    def __init__(self, held=(), free=(), guards=()):
        self.held = tuple(held)
        self.free = tuple(free)
        self.guards = tuple(guards)

    def with_held(self, l):
        return Ctx(self.held + (l,), self.free, self.guards)

    def with_free(self, l):
        return Ctx(self.held, self.free + (l,), self.guards)

    def with_guard(self, g):
        return Ctx(self.held, self.free, self.guards + (g,))


def self_attr(node):
    if isinstance(node, ast.Attribute) and isinstance(node.value, ast.Name) and node.value.id == "self":
        return node.attr
    return None


class MethodFacts:
    def __init__(self, name):
        self.name = name
        self.acquires = []     # (lock, mode 'blocking'|'try', Ctx)
        self.calls = []        # (callee, Ctx)
        self.sites = []        # (callback, Ctx, lineno)


def analyse_method(fn: ast.FunctionDef, methods: set) -> MethodFacts:
    mf = MethodFacts(fn.name)
    # local variables bound to callbacks: `on_connect = self.on_connect`
    cbvars = {}
    for a in ast.walk(fn):
        if isinstance(a, ast.Assign) and len(a.targets) == 1 and isinstance(a.targets[0], ast.Name):
            at = self_attr(a.value)
            if at in CALLBACKS:
                cbvars[a.targets[0].id] = at
    if fn.name == "_handle_on_message":
        cbvars["callback"] = "on_message"      # per-topic callbacks
    # local variables bound to the network thread: `thread = self._thread`
    thvars = set()
    for a in ast.walk(fn):
        if isinstance(a, ast.Assign) and len(a.targets) == 1 and isinstance(a.targets[0], ast.Name) and self_attr(a.value) == "_thread":
            thvars.add(a.targets[0].id)

    def is_thread(e):
        return self_attr(e) == "_thread" or (isinstance(e, ast.Name) and e.id in thvars)

    def visit_expr(e, ctx):
        for n in ast.walk(e):
            if isinstance(n, ast.Call):
                at = self_attr(n.func)
                if at in methods:
                    mf.calls.append((at, ctx))
                elif at in CALLBACKS:
                    mf.sites.append((at, ctx, n.lineno))
                elif isinstance(n.func, ast.Name) and n.func.id in cbvars:
                    mf.sites.append((cbvars[n.func.id], ctx, n.lineno))
                elif isinstance(n.func, ast.Attribute) and n.func.attr == "join" and is_thread(n.func.value):
                    mf.acquires.append(("<thread-join>", "blocking", ctx))
                elif isinstance(n.func, ast.Attribute) and n.func.attr == "acquire":
                    l = self_attr(n.func.value)
                    if l in LOCKS:
                        nonblock = bool(n.args) and isinstance(n.args[0], ast.Constant) and n.args[0].value is False
                        mf.acquires.append((l, "try" if nonblock else "blocking", ctx))

    def try_acquire_lock(test):
        """`if self._x.acquire(False):` -> '_x'"""
        if isinstance(test, ast.Call) and isinstance(test.func, ast.Attribute) and test.func.attr == "acquire":
            l = self_attr(test.func.value)
            if l in LOCKS and test.args and isinstance(test.args[0], ast.Constant) and test.args[0].value is False:
                return l
        return None

    def guard_of(test):
        """`if on_connect:` / `if self.on_log is not None:` -> callback name;
        `if threading.current_thread() != self._thread:` -> 'not-loop-thread'"""
        if isinstance(test, ast.Compare) and len(test.ops) == 1 and isinstance(test.ops[0], ast.NotEq) and \
                ast.unparse(test.left) == "threading.current_thread()" and is_thread(test.comparators[0]):
            return "not-loop-thread"
        if isinstance(test, ast.Name) and test.id in cbvars:
            return cbvars[test.id]
        if isinstance(test, ast.Compare) and len(test.ops) == 1 and isinstance(test.ops[0], ast.IsNot) and \
                isinstance(test.comparators[0], ast.Constant) and test.comparators[0].value is None:
            at = self_attr(test.left)
            if at in CALLBACKS:
                return at
        return None

    def visit_stmts(stmts, ctx):
        for st in stmts:
            if isinstance(st, ast.With):
                inner = ctx
                for item in st.items:
                    l = self_attr(item.context_expr)
                    if l in LOCKS:
                        mf.acquires.append((l, "blocking", inner))
                        inner = inner.with_held(l)
                    else:
                        visit_expr(item.context_expr, inner)
                visit_stmts(st.body, inner)
            elif isinstance(st, ast.If):
                visit_expr(st.test, ctx)
                tl = try_acquire_lock(st.test)
                g = guard_of(st.test)
                body_ctx = ctx
                if tl:
                    body_ctx = ctx.with_free(tl)
                if g:
                    body_ctx = body_ctx.with_guard(g)
                visit_stmts(st.body, body_ctx)
                visit_stmts(st.orelse, ctx)
            elif isinstance(st, (ast.For, ast.While)):
                visit_expr(st.iter if isinstance(st, ast.For) else st.test, ctx)
                visit_stmts(st.body, ctx)
                visit_stmts(st.orelse, ctx)
            elif isinstance(st, ast.Try):
                visit_stmts(st.body, ctx)
                for h in st.handlers:
                    visit_stmts(h.body, ctx)
                visit_stmts(st.orelse, ctx)
                visit_stmts(st.finalbody, ctx)
            elif isinstance(st, (ast.FunctionDef, ast.ClassDef)):
                continue
            else:
                visit_expr(st, ctx)
    visit_stmts(fn.body, Ctx())
    return mf


def analyse(path=None):
    path = path or os.path.join(REPO_SRC, "paho", "mqtt", "client.py")
    tree = ast.parse(open(path, encoding="utf-8").read())
    cls = next(n for n in tree.body if isinstance(n, ast.ClassDef) and n.name == "Client")
    fns = {n.name: n for n in cls.body if isinstance(n, ast.FunctionDef)}
    # property getters named like callbacks are not methods to follow
    methods = {k for k in fns if k not in CALLBACKS}
    kinds = {}
    for a in ast.walk(fns["__init__"]):
        if isinstance(a, ast.Assign) and len(a.targets) == 1:
            l = self_attr(a.targets[0])
            if l in LOCKS and isinstance(a.value, ast.Call) and isinstance(a.value.func, ast.Attribute):
                kinds[l] = "reentrant" if a.value.func.attr == "RLock" else "plain"
    facts = {k: analyse_method(fns[k], methods) for k in methods}

    # ---- propagate: contexts at method entry (may-held, must-free, guards), from the entry points
    entry_ctx = {k: set() for k in methods}
    work = []
    for e in ENTRY:
        if e in methods:
            entry_ctx[e].add(((), (), ()))
            work.append(e)
    while work:
        m = work.pop()
        for (held0, free0, g0) in list(entry_ctx[m]):
            for callee, c in facts[m].calls:
                # a lock acquired blocking cancels a "known free" fact
                held = tuple(sorted(set(held0) | set(c.held)))
                free = tuple(sorted((set(free0) | set(c.free)) - set(c.held)))
                guards = tuple(sorted(set(g0) | set(c.guards)))
                key = (held, free, guards)
                if key not in entry_ctx[callee]:
                    if len(entry_ctx[callee]) < 400:
                        entry_ctx[callee].add(key)
                        work.append(callee)
    # ---- callback sites: set of possible held-lock sets
    sites = {}
    for m, mf in facts.items():
        for cb, c, lineno in mf.sites:
            for (held0, free0, g0) in entry_ctx[m] or {((), (), ())}:
                held = tuple(sorted(set(held0) | set(c.held)))
                if set(held) & (set(free0) | set(c.free)):
                    continue       # infeasible: a lock known free cannot be held
                sites.setdefault((cb, m), set()).add(held)
    # ---- per API: reachable blocking acquisitions with path conditions
    def reach(api):
        seen = set()
        out = set()
        stack = [(api, (), (), ())]     # method, held-by-this-call-chain, free, guards
        while stack:
            m, held0, free0, g0 = stack.pop()
            if (m, held0, free0, g0) in seen:
                continue
            seen.add((m, held0, free0, g0))
            mf = facts[m]
            for l, mode, c in mf.acquires:
                if mode != "blocking":
                    continue
                held = set(held0) | set(c.held)
                free = (set(free0) | set(c.free)) - held
                guards = set(g0) | set(c.guards)
                out.add((l, tuple(sorted(held)), tuple(sorted(free)), tuple(sorted(guards))))
            for callee, c in mf.calls:
                held = tuple(sorted(set(held0) | set(c.held)))
                free = tuple(sorted((set(free0) | set(c.free)) - set(c.held)))
                guards = tuple(sorted(set(g0) | set(c.guards)))
                if len(seen) < 5000:
                    stack.append((callee, held, free, guards))
        return out
    acquires = {api: reach(api) for api in APIS if api in methods}
    return {"kinds": kinds, "sites": {f"{cb}@{m}": sorted(map(list, hs)) for (cb, m), hs in sorted(sites.items())},
            "acquires": {api: sorted([list(x[:1]) + [list(x[1]), list(x[2]), list(x[3])] for x in acq]) for api, acq in acquires.items()},
            "facts": {m: {"acquires": [(l, mo, list(c.held), list(c.free), list(c.guards)) for l, mo, c in mf.acquires],
                          "calls": sorted({cal for cal, _ in mf.calls})} for m, mf in facts.items() if mf.acquires or mf.sites}}


if __name__ == "__main__":
    import json
    r = analyse()
    print(json.dumps({k: r[k] for k in ("kinds", "sites")}, indent=1))
    for api, acq in r["acquires"].items():
        print(api)
        for a in acq:
            print("   ", a)


# ---------------------------------------------------------------------- C07: lock order, guarded accesses, shapes
GUARD_OF = {"_out_messages": "_out_message_mutex", "_inflight_messages": "_out_message_mutex",
            "_in_messages": "_in_message_mutex", "_last_mid": "_mid_generate_mutex"}


def _class(path=None):
    path = path or os.path.join(REPO_SRC, "paho", "mqtt", "client.py")
    tree = ast.parse(open(path, encoding="utf-8").read())
    cls = next(n for n in tree.body if isinstance(n, ast.ClassDef) and n.name == "Client")
    fns = {n.name: n for n in cls.body if isinstance(n, ast.FunctionDef)}
    return fns


def _entry_contexts(fns):
    methods = {k for k in fns if k not in CALLBACKS}
    facts = {k: analyse_method(fns[k], methods) for k in methods}
    entry = {k: set() for k in methods}
    work = []
    for e in ENTRY:
        if e in methods:
            entry[e].add(((), (), ()))
            work.append(e)
    while work:
        m = work.pop()
        for (h0, f0, g0) in list(entry[m]):
            for callee, c in facts[m].calls:
                key = (tuple(sorted(set(h0) | set(c.held))), tuple(sorted((set(f0) | set(c.free)) - set(c.held))),
                       tuple(sorted(set(g0) | set(c.guards))))
                if key not in entry[callee] and len(entry[callee]) < 400:
                    entry[callee].add(key)
                    work.append(callee)
    return methods, facts, entry


def lock_edges(path=None):
    """(held, acquired) pairs over every blocking acquisition reachable from the public entry points (user callbacks
    calling back into the API are C18's subject and are not followed), plus (threadJoin, l) for every lock the network
    thread can take: a thread that join()s the network thread waits for everything the network thread waits for."""
    fns = _class(path)
    methods, facts, entry = _entry_contexts(fns)
    edges = {}
    for m, mf in facts.items():
        for l, mode, c in mf.acquires:
            if mode != "blocking":
                continue
            for (h0, f0, g0) in entry[m] or {((), (), ())}:
                held = set(h0) | set(c.held)
                if held & (set(f0) | set(c.free)):
                    continue
                for h in held:
                    edges.setdefault((h, l), set()).add(m)
    # locks reachable from _thread_main
    seen, stack, reach = set(), ["_thread_main"], set()
    while stack:
        m = stack.pop()
        if m in seen or m not in facts:
            continue
        seen.add(m)
        for l, mode, c in facts[m].acquires:
            if mode == "blocking" and l != "<thread-join>":
                reach.add(l)
        for callee, c in facts[m].calls:
            stack.append(callee)
    for l in sorted(reach):
        edges.setdefault(("<thread-join>", l), set()).add("_thread_main")
    return {k: sorted(v) for k, v in edges.items()}


def lock_ranks(edges):
    """longest-path layering of the strict part of the order (self edges are reentrancy, checked separately);
    None if the relation has a cycle"""
    nodes = set(LOCKS) | {"<thread-join>"}
    succ = {n: set() for n in nodes}
    for (h, l) in edges:
        if h != l:
            succ[h].add(l)
    rank = {}
    state = {}

    def depth(n):
        if state.get(n) == 1:
            raise ValueError("cycle")
        if n in rank:
            return rank[n]
        state[n] = 1
        # rank = longest chain of predecessors: compute via successors reversed
        r = 0
        for p in nodes:
            if n in succ[p]:
                r = max(r, depth(p) + 1)
        state[n] = 2
        rank[n] = r
        return r
    try:
        for n in sorted(nodes):
            depth(n)
    except ValueError:
        return None
    return rank


def shared_accesses(path=None):
    """every access to a lock-protected attribute outside __init__: (method, line, attr, is_len_read, guarded).
    guarded = the protecting lock is lexically held, or held in every context in which the method can be entered."""
    fns = _class(path)
    methods, facts, entry = _entry_contexts(fns)
    res = []

    def visit(node, held, fn, parent_len):
        if isinstance(node, ast.With):
            h = list(held)
            for it in node.items:
                a = self_attr(it.context_expr)
                if a in LOCKS:
                    h.append(a)
                else:
                    visit(it.context_expr, held, fn, False)
            for st in node.body:
                visit(st, h, fn, False)
            return
        if isinstance(node, (ast.FunctionDef, ast.ClassDef)) and node is not fn:
            return
        a = self_attr(node) if isinstance(node, ast.Attribute) else None
        if a in GUARD_OF:
            lock = GUARD_OF[a]
            ctxs = entry.get(fn.name) or set()
            must = bool(ctxs) and all(lock in h0 for (h0, _, _) in ctxs)
            res.append((fn.name, node.lineno, a, parent_len, lock in held or must))
        is_len = isinstance(node, ast.Call) and isinstance(node.func, ast.Name) and node.func.id == "len"
        for ch in ast.iter_child_nodes(node):
            visit(ch, held, fn, is_len and ch in getattr(node, "args", []))
    for name, f in fns.items():
        if name == "__init__":
            continue
        for st in f.body:
            visit(st, [], f, False)
    return res


def thread_shapes(path=None):
    """ordering facts the wake-up / queue model (Paho.Model.Threads) is instantiated with"""
    fns = _class(path)
    out = {}
    # _mid_generate: `with mutex: self._last_mid += 1; if self._last_mid == W: self._last_mid = R; return self._last_mid`
    f = fns["_mid_generate"]
    body = [ast.unparse(s) for s in f.body]
    out["midGenUnderLock"] = len(f.body) == 1 and isinstance(f.body[0], ast.With) and \
        self_attr(f.body[0].items[0].context_expr) == "_mid_generate_mutex"
    inner = f.body[0].body if isinstance(f.body[0], ast.With) else f.body
    iu = [ast.unparse(s) for s in inner]
    out["midGenShapeOk"] = len(iu) == 3 and iu[0] == "self._last_mid += 1" and iu[1].startswith("if self._last_mid == ") and \
        "self._last_mid = " in iu[1] and iu[2] == "return self._last_mid"
    # _packet_queue: append, then the wake byte, then the direct write only when there is no network thread
    f = fns["_packet_queue"]
    idx = {}
    for i, s in enumerate(f.body):
        u = ast.unparse(s)
        if u == "self._out_packet.append(mpkt)":
            idx["append"] = i
        elif u.startswith("if self._sockpairW is not None:") and "self._sockpairW.send(sockpair_data)" in u:
            idx["wake"] = i
        elif u.startswith("if self._thread is None and self._on_socket_register_write is None:") and "return self.loop_write()" in u:
            idx["direct"] = i
    out["wakeAfterAppend"] = "append" in idx and "wake" in idx and idx["append"] < idx["wake"]
    out["directWriteOnlyWithoutThread"] = "direct" in idx and "wake" in idx and idx["wake"] < idx["direct"] and \
        sum(1 for n in ast.walk(f) if isinstance(n, ast.Call) and ast.unparse(n.func) == "self.loop_write") == 1
    # _packet_write: the only removal is popleft(); every re-queue is appendleft(); nothing else touches the deque
    f = fns["_packet_write"]
    ops = [n.func.attr for n in ast.walk(f) if isinstance(n, ast.Call) and isinstance(n.func, ast.Attribute) and
           self_attr(n.func.value) == "_out_packet"]
    out["pushbackFront"] = bool(ops) and set(ops) == {"popleft", "appendleft"} and ops.count("popleft") == 1
    # all other deque mutations in the class: append in _packet_queue, clear in reconnect
    muts = []
    for name, g in fns.items():
        for n in ast.walk(g):
            if isinstance(n, ast.Call) and isinstance(n.func, ast.Attribute) and self_attr(n.func.value) == "_out_packet":
                muts.append((name, n.func.attr))
    out["dequeMutators"] = sorted(set(muts))
    out["dequeMutatorsOk"] = sorted(set(muts)) == sorted({("_packet_queue", "append"), ("_packet_write", "popleft"),
                                                          ("_packet_write", "appendleft"), ("reconnect", "clear")})
    # _loop: want_write() decides wlist BEFORE select; pipe readable => socket forced into the write set, pipe drained,
    # and all that BEFORE `if self._sock in socklist[1]: loop_write()`
    f = fns["_loop"]
    pos = {}
    for i, s in enumerate(f.body):
        u = ast.unparse(s)
        if u.startswith("if self.want_write():") and "wlist = [self._sock]" in u:
            pos["wlist"] = i
        elif "select.select(rlist, wlist, [], timeout)" in u:
            pos["select"] = i
        elif u.startswith("if self._sockpairR and self._sockpairR in socklist[0]:") and "socklist[1].insert(0, self._sock)" in u \
                and "self._sockpairR.recv(" in u:
            pos["drain"] = i
        elif u.startswith("if self._sock in socklist[1]:") and "self.loop_write()" in u:
            pos["write"] = i
        elif u.startswith("if self._sockpairR is None:") and "rlist = [self._sock, self._sockpairR]" in u:
            pos["rlist"] = i
    out["loopOrderOk"] = all(k in pos for k in ("wlist", "select", "drain", "write", "rlist")) and \
        pos["wlist"] < pos["select"] and pos["rlist"] < pos["select"] < pos["drain"] < pos["write"]
    # _thread_main clears _thread only after loop_forever() has returned; loop_start sets it before start()
    f = fns["_thread_main"]
    u = ast.unparse(f)
    out["threadClearedAtExit"] = "finally:\n        self._thread = None" in u and "self.loop_forever(" in u
    return out
