"""Shared plumbing: paths, model driver invocation, hex helpers, ddmin."""
from __future__ import annotations

import fcntl
import os
import subprocess

HERE = os.path.dirname(os.path.abspath(__file__))
VERIF = os.path.dirname(HERE)
LEAN_DIR = os.path.join(VERIF, "lean")
MODEL_EXE = os.path.join(LEAN_DIR, ".lake", "build", "bin", "pahomodel")
REPO = os.environ.get("PAHO_VERIF_REPO", "/repo")
REPO_SRC = os.path.join(REPO, "src")
os.environ.setdefault("PAHO_VERIF_REPO_SRC", REPO_SRC)
LOCK = os.path.join(VERIF, ".lock")
NPROC = min(16, os.cpu_count() or 4)


def hx(b) -> str:
    if isinstance(b, str):
        b = b.encode("utf-8")
    return b.hex() if len(b) else "-"


def unhx(s: str) -> bytes:
    return b"" if s == "-" else bytes.fromhex(s)


class build_lock:
    def __enter__(self):
        self.f = open(LOCK, "w")
        fcntl.flock(self.f, fcntl.LOCK_EX)
        return self

    def __exit__(self, *a):
        fcntl.flock(self.f, fcntl.LOCK_UN)
        self.f.close()


def _run_model_chunk(stream, cases, timeout):
    inp = []
    for c in cases:
        inp.extend(c)
        inp.append("---")
    p = subprocess.run([MODEL_EXE, stream], input="\n".join(inp) + "\n", capture_output=True,
                       text=True, timeout=timeout)
    if p.returncode != 0:
        raise RuntimeError(f"pahomodel {stream} failed: {p.stderr[:500]}")
    out, cur = [], []
    for line in p.stdout.split("\n"):
        if line == "---":
            out.append(cur)
            cur = []
        elif line != "" or cur:
            cur.append(line)
    return out


def run_model(stream: str, cases: list[list[str]], timeout=1800) -> list[list[str]] | None:
    """run the compiled Lean model on a batch of cases (one output line per input line), in NPROC parallel chunks."""
    if not os.path.exists(MODEL_EXE):
        return None
    if len(cases) < 64:
        return _run_model_chunk(stream, cases, timeout)
    from concurrent.futures import ThreadPoolExecutor
    k = max(1, (len(cases) + NPROC - 1) // NPROC)
    chunks = [cases[i:i + k] for i in range(0, len(cases), k)]
    with ThreadPoolExecutor(len(chunks)) as ex:
        parts = list(ex.map(lambda ch: _run_model_chunk(stream, ch, timeout), chunks))
    return [o for part in parts for o in part]


def ddmin(items: list, test, keep_prefix: int = 0, max_tests: int = 400) -> list:
    """delta debugging: smallest sublist (keeping the first keep_prefix items) for which test() holds."""
    head, body = items[:keep_prefix], items[keep_prefix:]
    n = 2
    tests = 0
    while len(body) >= 2 and tests < max_tests:
        chunk = max(1, len(body) // n)
        reduced = False
        for i in range(0, len(body), chunk):
            cand = body[:i] + body[i + chunk:]
            tests += 1
            if test(head + cand):
                body = cand
                n = max(n - 1, 2)
                reduced = True
                break
            if tests >= max_tests:
                break
        if not reduced:
            if n >= len(body):
                break
            n = min(len(body), n * 2)
    if len(body) == 1 and tests < max_tests and test(head):
        body = []
    return head + body
