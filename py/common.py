"""Shared plumbing: paths, model driver invocation, hex helpers, ddmin."""
from __future__ import annotations

import fcntl
import os
import subprocess

HERE = os.path.dirname(os.path.abspath(__file__))
VERIF = os.path.dirname(HERE)
LEAN_DIR = os.path.join(VERIF, "lean")
# one compiled model executable per driver, so that a model that no longer builds only takes its own streams with it
STREAM_EXE = {"trie": "pm_trie", "mid": "pm_mid", "validate": "pm_validate", "session": "pm_session",
              "session-inv": "pm_session", "props": "pm_props", "codec": "pm_codec", "decode": "pm_decode",
              "reader": "pm_reader", "loopforever": "pm_lf", "dispatch": "pm_dispatch", "helpers": "pm_helpers",
              "threads": "pm_threads", "ws": "pm_ws", "wsbad": "pm_ws", "wsreader": "pm_wsreader", "wswriter": "pm_wswriter", "tcpwriter": "pm_wswriter"}
EXE_ROOT = {"pm_trie": "Main.Trie", "pm_mid": "Main.Mid", "pm_validate": "Main.Validate", "pm_session": "Main.Session",
            "pm_props": "Main.Props", "pm_codec": "Main.Codec", "pm_decode": "Main.Decode", "pm_reader": "Main.Reader",
            "pm_lf": "Main.LF", "pm_dispatch": "Main.Dispatch", "pm_helpers": "Main.Helpers", "pm_threads": "Main.Threads",
            "pm_ws": "Main.Ws", "pm_wsreader": "Main.WsReader", "pm_wswriter": "Main.WsWriter"}


def model_exe(stream: str) -> str:
    return os.path.join(LEAN_DIR, ".lake", "build", "bin", STREAM_EXE[stream])


def import_closure(modules) -> set:
    """transitive imports (within lean/) of the given Lean modules, read from the sources"""
    import re
    seen, todo = set(), list(modules)
    while todo:
        m = todo.pop()
        if m in seen:
            continue
        p = os.path.join(LEAN_DIR, *m.split(".")) + ".lean"
        if not os.path.exists(p):
            continue
        seen.add(m)
        for line in open(p):
            mm = re.match(r"\s*(?:public\s+)?import\s+([\w.]+)", line)
            if mm:
                todo.append(mm.group(1))
    return seen
REPO = os.environ.get("PAHO_VERIF_REPO", "/repo")
REPO_SRC = os.path.join(REPO, "src")
os.environ.setdefault("PAHO_VERIF_REPO_SRC", REPO_SRC)
LOCK = os.path.join(VERIF, ".lock")
NPROC = min(16, os.cpu_count() or 4)


def hx(b) -> str:
    if isinstance(b, str):
        b = b.encode("utf-8")
    return b.hex() if len(b) else "-"


def unhx(s: str) -> bytes:
    return b"" if s == "-" else bytes.fromhex(s)


class build_lock:
    def __enter__(self):
        self.f = open(LOCK, "w")
        fcntl.flock(self.f, fcntl.LOCK_EX)
        return self

    def __exit__(self, *a):
        fcntl.flock(self.f, fcntl.LOCK_UN)
        self.f.close()


def _run_model_chunk(stream, cases, timeout):
    inp = []
    for c in cases:
        inp.extend(c)
        inp.append("---")
    p = subprocess.run([model_exe(stream), stream], input="\n".join(inp) + "\n", capture_output=True,
                       text=True, timeout=timeout)
    if p.returncode != 0:
        raise RuntimeError(f"{STREAM_EXE[stream]} {stream} failed: {p.stderr[:500]}")
    out, cur = [], []
    for line in p.stdout.split("\n"):
        if line == "---":
            out.append(cur)
            cur = []
        elif line != "" or cur:
            cur.append(line)
    return out


def run_model(stream: str, cases: list[list[str]], timeout=1800) -> list[list[str]] | None:
    """run the compiled Lean model on a batch of cases (one output line per input line), in NPROC parallel chunks."""
    if not os.path.exists(model_exe(stream)):
        return None
    if len(cases) < 64:
        return _run_model_chunk(stream, cases, timeout)
    from concurrent.futures import ThreadPoolExecutor
    k = max(1, (len(cases) + NPROC - 1) // NPROC)
    chunks = [cases[i:i + k] for i in range(0, len(cases), k)]
    with ThreadPoolExecutor(len(chunks)) as ex:
        parts = list(ex.map(lambda ch: _run_model_chunk(stream, ch, timeout), chunks))
    return [o for part in parts for o in part]


def ddmin(items: list, test, keep_prefix: int = 0, max_tests: int = 400) -> list:
    """delta debugging: smallest sublist (keeping the first keep_prefix items) for which test() holds."""
    head, body = items[:keep_prefix], items[keep_prefix:]
    n = 2
    tests = 0
    while len(body) >= 2 and tests < max_tests:
        chunk = max(1, len(body) // n)
        reduced = False
        for i in range(0, len(body), chunk):
            cand = body[:i] + body[i + chunk:]
            tests += 1
            if test(head + cand):
                body = cand
                n = max(n - 1, 2)
                reduced = True
                break
            if tests >= max_tests:
                break
        if not reduced:
            if n >= len(body):
                break
            n = min(len(body), n * 2)
    if len(body) == 1 and tests < max_tests and test(head):
        body = []
    return head + body
