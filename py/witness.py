"""Shrunk witness histories for the defects found while designing (DESIGN.md section 7).

Each function drives the REAL client in the fake world and returns a short string
describing the failure if the defect is present, or None if the code behaves as the
property demands. Used (a) to confirm defects before/after `fix:` commits, (b) by the
checks as regression corpus for fixed defects and as replay of open known findings.

  python py/witness.py            # run all
"""
from __future__ import annotations

import sys

import wire
from harness import connect, mk_client, pump_read
from world import SelfDeadlock, World, pc, raw


def pkts(sock, proto=4):
    p, _ = wire.split_packets(bytes(sock.wire))
    return [wire.dec_client_packet(x, proto) for x in p]


def names(sock, proto=4):
    return [(d["type"], d.get("mid"), d.get("dup")) for d in pkts(sock, proto)]


def F1():
    """C02: QoS 2, PUBREC received, two reconnects without CONNACK -> PUBLISH again."""
    w = World()
    c = mk_client(w, clean=False)
    connect(c, w)
    c.publish("t", b"x", 2)
    w.cur().feed(wire.enc_ack(4, wire.PUBREC, 1))
    pump_read(c)
    c.reconnect()
    c.reconnect()
    w.cur().feed(wire.enc_connack(4, sp=1))
    pump_read(c)
    n = names(w.cur())
    if any(t == "PUBLISH" for t, _, _ in n):
        return f"third connection carries {n}"
    if not any(t == "PUBREL" for t, _, _ in n):
        return f"no PUBREL on third connection: {n}"
    return None


def F2():
    """C09: disconnect() inside on_disconnect after EOF -> loop_forever reconnects anyway."""
    w = World()
    c = mk_client(w)
    c.on_disconnect = lambda cl, ud, flags, rc, props: cl.disconnect()
    connect(c, w)
    w.cur().feed_eof()
    c.loop_read()
    st = c._state
    if st not in (pc._ConnectionState.MQTT_CS_DISCONNECTED, pc._ConnectionState.MQTT_CS_DISCONNECTING):
        return f"state after disconnect() in on_disconnect is {st.name}"
    return None


def F3():
    """C12: N=1, an inbound QoS 2 exchange frees an outgoing slot that was never taken."""
    w = World()
    c = mk_client(w)
    c.max_inflight_messages_set(1)
    connect(c, w)
    s = w.cur()
    s.feed(wire.enc_publish(4, b"a", b"p", qos=2, mid=7))
    pump_read(c)
    s.feed(wire.enc_ack(4, wire.PUBREL, 7))
    pump_read(c)
    for _ in range(3):
        c.publish("t", b"x", 1)
    n = [t for t, _, _ in names(s) if t == "PUBLISH"]
    if len(n) > 1:
        return f"{len(n)} PUBLISH in flight with max_inflight=1"
    return None


def F4():
    """C12: N=1, three QoS 1 publishes, reconnect, CONNACK -> all three re-sent at once."""
    w = World()
    c = mk_client(w, clean=False)
    c.max_inflight_messages_set(1)
    connect(c, w)
    for _ in range(3):
        c.publish("t", b"x", 1)
    c.reconnect()
    w.cur().feed(wire.enc_connack(4, sp=1))
    pump_read(c)
    n = [t for t, _, _ in names(w.cur()) if t == "PUBLISH"]
    if len(n) > 1:
        return f"{len(n)} PUBLISH on the new connection with max_inflight=1"
    return None


def F4b():
    """C12: N=1, one pending message, reconnect, publish before CONNACK, CONNACK -> 2 in flight."""
    w = World()
    c = mk_client(w, clean=False)
    c.max_inflight_messages_set(1)
    connect(c, w)
    c.publish("t", b"x", 1)
    c.reconnect()
    c.publish("t", b"y", 1)
    w.cur().feed(wire.enc_connack(4, sp=1))
    pump_read(c)
    n = [t for t, _, _ in names(w.cur()) if t == "PUBLISH"]
    if len(n) > 1:
        return f"{len(n)} PUBLISH on the new connection with max_inflight=1"
    return None


def F5():
    """C05: v5 server DISCONNECT with reason code only (remaining length 1) -> reason dropped."""
    w = World()
    c = mk_client(w, proto=5)
    got = []
    c.on_disconnect = lambda cl, ud, flags, rc, props: got.append((flags.is_disconnect_packet_from_server, rc.value))
    connect(c, w, proto=5)
    w.cur().feed(wire.enc_disconnect(rc=0x8B))
    pump_read(c)
    if got != [(True, 0x8B)]:
        return f"on_disconnect got {got}, server sent reason 0x8B"
    return None


def F6():
    """C10: keep-alive timeout -> on_disconnect twice."""
    w = World()
    c = mk_client(w)
    got = []
    c.on_disconnect = lambda cl, ud, flags, rc, props: got.append(rc.value)
    connect(c, w, keepalive=10)
    w.clock.advance_ms(10_000)
    c.loop_misc()
    w.clock.advance_ms(10_000)
    rc = c.loop_misc()
    if len(got) != 1:
        return f"on_disconnect called {len(got)} times: {got}"
    if rc == 0 or c.is_connected():
        return f"loop_misc rc={rc} is_connected={c.is_connected()}"
    return None


def F7():
    """C10: server-sent DISCONNECT (v5) -> socket gone but is_connected() stays True."""
    w = World()
    c = mk_client(w, proto=5)
    connect(c, w, proto=5)
    w.cur().feed(wire.enc_disconnect(rc=0x8B, props=[]))
    pump_read(c)
    if c.socket() is None and c.is_connected():
        return "socket() is None but is_connected() is True"
    return None


def F19():
    """C10: protocol error from the broker while connected -> socket closed but is_connected() stays True."""
    w = World()
    c = mk_client(w)
    connect(c, w)
    w.cur().feed(b"\xf0\x00")
    c.loop_read()
    if c.socket() is None and c.is_connected():
        return "socket() is None but is_connected() is True after a protocol error"
    return None


def F20():
    """C10: a write error while answering an inbound packet -> on_disconnect twice."""
    w = World()
    c = mk_client(w)
    got = []
    c.on_disconnect = lambda cl, ud, flags, rc, props: got.append(rc.value)
    connect(c, w)
    s = w.cur()
    s.outscript.append(("error",))
    s.feed(wire.enc_publish(4, b"a", b"p", qos=2, mid=7))
    c.loop_read()
    if len(got) != 1:
        return f"on_disconnect called {len(got)} times for one lost connection: {got}"
    return None


def F21():
    """C02: clean session, a QoS 2 message still waiting in the queue gets DUP=1 on its first transmission."""
    w = World()
    c = mk_client(w)
    c.max_inflight_messages_set(1)
    connect(c, w)
    c.publish("t", b"x", 2)
    c.publish("t", b"y", 2)       # queued behind the window, never handed to a connection
    c.reconnect()
    w.cur().feed(wire.enc_connack(4))
    pump_read(c)
    second = [d for d in pkts(w.cur()) if d["type"] == "PUBLISH" and d["mid"] == 2]
    if second and second[0]["dup"]:
        return "first transmission of the queued QoS 2 message mid=2 carries DUP=1"
    return None


def F22():
    """C10/C09: disconnect() called before the CONNACK is processed (DISCONNECT still queued) ->
    CONNACK flips the state to CONNECTED; after DISCONNECT is written the socket is gone,
    is_connected() stays True and loop_forever() would reconnect."""
    w = World()
    c = mk_client(w)
    for n in ("on_socket_open", "on_socket_close", "on_socket_register_write", "on_socket_unregister_write"):
        setattr(c, n, lambda cl, ud, sock: None)
    c.connect("broker", 1883, 60)
    c.loop_write()
    c.disconnect()                      # external event loop: DISCONNECT is queued, not written yet
    w.cur().feed(wire.enc_connack(4))
    c.loop_read()
    c.loop_write()
    if c.socket() is None and c._state not in (pc._ConnectionState.MQTT_CS_DISCONNECTED,):
        return f"DISCONNECT written and socket closed, but state is {c._state.name} (is_connected={c.is_connected()})"
    return None


def F23():
    """C05/C17: a CONNACK carrying Maximum Packet Size > 268435455 (a legal four-byte value) makes loop_read() raise."""
    w = World()
    c = mk_client(w, proto=5)
    got = []
    c.on_connect = lambda cl, ud, flags, rc, props: got.append(getattr(props, "MaximumPacketSize", None))
    c.connect("broker", 1883, 60)
    w.cur().feed(wire.enc_connack(5, props=[(39, 4294967295)]))
    try:
        c.loop_read()
    except Exception as e:  # noqa: BLE001
        return f"loop_read() raises {type(e).__name__} on CONNACK with Maximum Packet Size 4294967295"
    if got != [4294967295]:
        return f"on_connect saw MaximumPacketSize={got}"
    return None


def F24():
    """C09: first connection attempt fails under loop_forever(retry_first_connection=True) (the loop_start() path):
    the client waits min_delay in the first loop AND 2*min_delay in the second one before retrying (3, 4, 8 ... instead of 1, 2, 4 ...)."""
    from streams.loopforever import run_real
    o = run_real("lf proto=4 min=1 max=120 rof=1 retry=1 script=refuse:-,refuse:-,refuse:-,acc:0:0:d")
    times = [int(e.split("@")[1].split(":")[0]) for e in o.split(";") if e.startswith("attempt@")]
    waits = [b - a for a, b in zip(times, times[1:])]
    if waits[:3] != [1000, 2000, 4000]:
        return f"waits between the first attempts are {waits} ms, expected [1000, 2000, 4000]"
    return None


def F28():
    """C07: disconnect() then loop_stop() from an application thread while the network thread is exiting:
    loop_stop() reads self._thread twice; the network thread clears it in between -> AttributeError."""
    from streams.threads import run_scenario
    for seed in (124, 259, 384):
        o = run_scenario(f"thr seed={seed} policy=random sw=0.1 msgs=0,1,0 N=1 early=1 proto=4 conn=sync drop=0 part=0")
        bad = [e for e in o["errors"] if "AttributeError" in e]
        if bad:
            return f"seed {seed}: {bad[0]}"
    return None


def F13t():
    """C07: the network thread (re)connects while an application thread publishes: publish() sees the new socket
    (`self._sock` is assigned before CONNECT is queued) and its PUBLISH is queued - and written - ahead of CONNECT."""
    from streams.threads import check, run_scenario
    for seed in (7, 8, 9, 11, 12, 13):
        line = f"thr seed={seed} policy=random sw=0.3 msgs=0,1;1 N=20 early=0 proto=4 conn=async drop=0 part=0"
        o = run_scenario(line)
        bad = [d for c, d in check(o, line) if c == "connect-not-first"]
        if bad:
            return f"seed {seed}: {bad[0]}"
    return None


def F30():
    """C07: the network thread reconnects (connection lost under load) and walks `_out_packet` to mark the QoS 0
    packets as lost while an application thread appends to it: RuntimeError 'deque mutated during iteration'
    escapes reconnect() and the network thread dies."""
    from streams.threads import run_scenario
    lines = ["thr seed=58878 policy=random sw=0.6 msgs=2;2,0;2,1,0 N=20 early=1 proto=5 conn=async drop=1 part=0"] + \
        [f"thr seed={sd} policy=random sw=0.6 msgs=2;2,0;2,1,0 N=20 early=0 proto=5 conn=async drop=1 part=0" for sd in (228, 246, 589)]
    for line in lines:
        o = run_scenario(line)
        bad = [e for e in o["errors"] if "deque mutated" in e]
        if bad:
            return f"{line}: {bad[0]}"
    return None


def F31():
    """C06 (WebSocket): a PING arrives while a binary frame is only partly written; the PONG is sent straight to the
    raw socket and lands inside the frame."""
    from streams.ws import STREAMS
    st = STREAMS[0]
    case = ["send 0102030405 a1a2a3a4 3", "feed 8900", "recv 1", "send 0102030405 a1a2a3a4 100"]
    obs = st.real(case)
    hits = [h for h in st.monitors["C06"](st, case, obs) if h[1] == "wire-interleave"]
    return hits[0][2] if hits else None


def F32():
    """C02 / C04: MQTT 5, clean start 'first connect only'. QoS 2 PUBLISH sent and PUBREC received; the application calls
    connect() again (the first-connect flag is re-armed and the stored message is reset as for a clean start); that attempt
    is refused by CONNACK - which used to end the 'first connect' although nothing succeeded; the next reconnect() sends
    clean start = 0, the broker resumes the session that holds the PUBREC state, and the client PUBLISHes the id again."""
    from streams.session import STREAMS
    from streams.session_monitors import mon_C02
    st = STREAMS[0]
    # (external event loop: the CONNECT of the refused attempt is still queued when the CONNACK is fed, so the only
    # CONNECT packets the broker ever sees are the first one, clean start = 1, and the last one, clean start = 0)
    case = ["cfg proto=5 clean=3 N=20 M=0 manual=0 rof=1 ext=1 ka=60 sup=1", "connect refuse", "reconnect ok", "publish 2 78 09b277 0",
            "loop_write", "rx pubrec 1", "connect ok", "rx connack 0 134", "reconnect ok", "rx connack 0 0"]
    obs = st.real(case)
    hits = [h for h in mon_C02(st, case, obs) if h[1] == "publish-after-pubrec"]
    return hits[0][2] if hits else None


def F33():
    """C05: a PUBLISH followed by a server DISCONNECT, delivered whole and byte by byte: the value loop_read() returns for
    the call that handles the DISCONNECT depended on where the packet budget of that call ended (0 or MQTT_ERR_NO_CONN)."""
    from streams.reader import STREAMS
    st = STREAMS[0]
    case = ["cfg proto=5 clean=3 N=0 M=0 manual=1 rof=1 ext=0 ka=60 sup=0", "connect ok", "rxbytes 20060100031600003d0c0003612f6200020309000051308c010001740601000b80800180f44cb18f11c4ea1d5c53c2d35ad8af6d3baddb3ce10ce07c7182137fb64b6cd13e3fc7a6fd7242b8ac6a1e69d47d8e0b0215f00ad6a7d6833ca96065902cb015ff0c7f852b296f78bd5121443233e784decc48f3440bbff8821616945f4dd040b182f33805e78a12102409053e16e47b97d3696c816b449e5e256a828a795ded25", "publish 2 612f62 8d7e6e 0", "rxbytes 3c160004f09f9880000103230001265091cf70f3e0d0a664e0018e"]
    obs = st.real(case)
    hits = [h for h in st.monitors["C05"](st, case, obs) if h[1] == "fragmentation"]
    return hits[0][2][:300] if hits else None


def F34():
    """C07: the network thread is stopped with the socket open while two application threads are still publishing: both
    write directly (`_thread is None`), partial writes interleave and the byte stream is corrupted."""
    from streams.threads import check, run_scenario
    line = "thr seed=354124 policy=hold sw=0.1 msgs=2,0;0;0 N=2 early=1 proto=5 conn=async drop=3 part=9"
    o = run_scenario(line)
    bad = [d for c, d in check(o, line) if c == "wire-corrupt-after-loop-exit"]
    return bad[0][:300] if bad else None


def F35():
    """C12 / C01 / C18: the application publishes from inside on_publish while _handle_connack() walks _out_messages to
    retransmit (its loop_write() completes a queued QoS 0 PUBLISH, whose on_publish publishes a QoS 1 message):
    RuntimeError 'OrderedDict mutated during iteration' leaves loop_read(), the remaining stored messages are not sent."""
    from streams.session import STREAMS
    from streams.session_monitors import mon_C12
    st = [x for x in STREAMS if x.name == "reentry"][0]
    case = ["cfg proto=4 clean=1 N=5 M=0 manual=1 rof=1 ext=1 ka=60 sup=1 cbpub=1 cbn=2 cbw=0", "publish 1 74 - 0", "publish 1 74 - 0", "connect ok", "publish 0 74 d7e2acf50f4a1020df01e7991f7d8ce0f0fe0123456705a761d468427aa6e5f7b05203eb79297fa4 1", "rx connack 0 0"]
    obs = st.real(case)
    if "exc:RuntimeError" in obs[-1]:
        return "RuntimeError (OrderedDict mutated during iteration) escaped loop_read(); stored message 2 was not retransmitted: " + obs[-1][-160:]
    hits = mon_C12(st, case, obs)
    return hits[0][2] if hits else None


def F27():
    """C01: a QoS 1 message accepted while disconnected (MQTT_ERR_NO_CONN) is sent and acknowledged after connecting,
    on_publish fires - but its MQTTMessageInfo keeps raising in is_published()/wait_for_publish()."""
    w = World()
    c = mk_client(w)
    info = c.publish("t", b"x", 1)
    connect(c, w)
    w.cur().feed(wire.enc_ack(4, wire.PUBACK, 1))
    pump_read(c)
    try:
        ok = info.is_published()
    except Exception as e:  # noqa: BLE001
        return f"message acknowledged, but info.is_published() raises {type(e).__name__}: {e}"
    return None if ok else "message acknowledged, but info.is_published() is False"


def F26():
    """C02: a write fails while the retransmission after CONNACK is in progress: the next stored message is marked
    as sent although nothing was handed to the connection; after the next reconnect its FIRST PUBLISH carries DUP=1."""
    w = World()
    c = mk_client(w, clean=False)
    c.publish("t", b"x", 1)
    c.publish("t", b"y", 1)
    c.connect("broker", 1883, 60)
    w.cur().outscript.append(("error",))
    w.cur().feed(wire.enc_connack(4, sp=0))
    pump_read(c)
    c.reconnect()
    w.cur().feed(wire.enc_connack(4, sp=1))
    pump_read(c)
    second = [d for d in pkts(w.cur()) if d["type"] == "PUBLISH" and d["mid"] == 2]
    if second and second[0]["dup"]:
        return "first transmission of message mid=2 carries DUP=1 (it was marked as sent on a connection that was already gone)"
    return None


def F25():
    """C09: the socket cannot be opened during the protocol-downgrade retry made inside the CONNACK handler:
    OSError escapes loop_read() / loop_forever() (the network thread dies) instead of a normal failed attempt."""
    w = World()
    c = mk_client(w, proto=4)
    fails = []
    c.on_connect_fail = lambda cl, ud: fails.append(1)
    c.connect("broker", 1883, 60)
    w.attempt_script.append("refuse")
    w.cur().feed(wire.enc_connack(4, rc=1))
    try:
        rc = c.loop_read()
    except OSError as e:
        return f"{type(e).__name__} escapes loop_read() from the CONNACK handler"
    if not fails or rc == 0:
        return f"loop_read() returned {rc}, on_connect_fail calls: {len(fails)}"
    return None


def F29():
    """C05: a packet whose first byte is 0x00: delivered whole it is a protocol error; with a would-block right after
    that byte the client forgets it (0 = 'no command read yet') and re-frames the stream."""
    outs = []
    for chunks in ([b"\x00\x02\x10\x00"], [b"\x00", None, b"\x02\x10\x00"]):
        w = World()
        c = mk_client(w)
        connect(c, w)
        s = w.cur()
        for ch in chunks:
            if ch is None:
                s.feed_eagain()
            else:
                s.feed(ch)
        rcs = []
        for _ in range(6):
            if c.socket() is None or not raw(c.socket()).inq:
                break
            rcs.append(int(c.loop_read()))
        outs.append((rcs[-1] if rcs else None, c.socket() is None))
    if outs[0] != outs[1]:
        return f"outcome depends on fragmentation: whole -> {outs[0]}, split after the zero byte -> {outs[1]} (last rc, socket closed)"
    return None


def F8():
    """C06: WebSocket, transport accepts 5 bytes of a frame -> packet dropped from the queue."""
    w = World()
    c = mk_client(w, transport="websockets")
    connect(c, w)
    s = w.cur()
    before = len(s.wire)
    s.outscript.append(("accept", 5))
    info = c.publish("t", b"0123456789abcdef", 0)
    if not c.want_write():
        left = len(s.wire) - before
        return f"want_write() is False with the frame partly written ({left} bytes accepted), is_published={info.is_published()}"
    c.loop_write()
    if not info.is_published():
        return "QoS 0 message never reported as published after the rest was flushed"
    return None


def F9():
    """C03: manual loop, QoS 1 inbound, on_message raises once -> packet handled twice."""
    w = World()
    c = mk_client(w)
    calls = []

    def on_message(cl, ud, msg):
        calls.append(msg.mid)
        if len(calls) == 1:
            raise RuntimeError("boom")
    c.on_message = on_message
    connect(c, w)
    s = w.cur()
    s.feed(wire.enc_publish(4, b"a", b"p", qos=1, mid=5))
    try:
        c.loop_read()
    except RuntimeError:
        pass
    s.feed(wire.enc_pingresp())
    try:
        c.loop_read()
    except RuntimeError:
        pass
    acks = [t for t, _, _ in names(s) if t == "PUBACK"]
    if len(calls) != 1 or acks:
        return f"on_message called {len(calls)} times, PUBACKs sent: {len(acks)} (callback raised)"
    return None


def F10(big=True):
    """C04: publish() whose packet exceeds 268435455 -> five-byte remaining length."""
    w = World()
    c = mk_client(w)
    connect(c, w)
    s = w.cur()
    before = len(s.wire)
    s.outscript.extend([("accept", 8)] + [("block",)])
    try:
        c.publish("t", bytearray(268435455), 0)
    except ValueError:
        return None
    head = bytes(s.wire[before:before + 8])
    if len(head) >= 6 and head[1] & 0x80 and head[2] & 0x80 and head[3] & 0x80 and head[4] & 0x80:
        return f"emitted header {head[:6].hex()} (five remaining-length bytes)"
    return f"no exception; header {head.hex()}"


def F11():
    """C17/C05: ReasonCode(CONNACK, 0x99) is rejected although the spec defines it."""
    from paho.mqtt.packettypes import PacketTypes
    from paho.mqtt.reasoncodes import ReasonCode
    try:
        ReasonCode(PacketTypes.CONNACK, identifier=0x99)
    except Exception as e:  # noqa: BLE001
        return f"ReasonCode(CONNACK, 0x99) raises {type(e).__name__}"
    return None


def F12():
    """C04: v5 default clean start: connection dies before CONNACK, reconnect() -> clean start still 1."""
    w = World()
    c = mk_client(w, proto=5)
    c.connect("broker", 1883, 60)
    w.cur().feed_eof()
    c.loop_read()
    c.reconnect()
    d = pkts(w.cur(), 5)[0]
    if d["clean"]:
        return "CONNECT of the automatic reconnection has clean start = 1"
    return None


def F13():
    """C10: publish() from on_socket_open -> PUBLISH written before CONNECT."""
    w = World()
    c = mk_client(w)
    c.on_socket_open = lambda cl, ud, sock: cl.publish("t", b"x", 0)
    c.on_socket_close = lambda cl, ud, sock: None
    c.on_socket_register_write = lambda cl, ud, sock: None
    c.on_socket_unregister_write = lambda cl, ud, sock: None
    c.connect("broker", 1883, 60)
    c.loop_write()
    n = names(w.cur())
    if n and n[0][0] != "CONNECT":
        return f"first packets on the connection: {n[:2]}"
    return None


def F15():
    """C17: list form of a repeatable property skips the range rule."""
    from paho.mqtt.packettypes import PacketTypes
    from paho.mqtt.properties import Properties
    p = Properties(PacketTypes.SUBSCRIBE)
    try:
        p.SubscriptionIdentifier = [0]
        b = p.pack()
    except Exception:  # noqa: BLE001
        return None
    return f"SubscriptionIdentifier=[0] packs {bytes(b).hex()}"


def F16():
    """C18: reconnect() inside on_message of an inbound QoS 2 message -> blocks on _in_message_mutex."""
    w = World()
    c = mk_client(w, clean=False)
    res = []

    def on_message(cl, ud, msg):
        try:
            cl.reconnect()
            res.append("returned")
        except SelfDeadlock as e:
            res.append(f"would block forever on {e}")
    c.on_message = on_message
    connect(c, w)
    s = w.cur()
    s.feed(wire.enc_publish(4, b"a", b"p", qos=2, mid=9))
    pump_read(c)
    s.feed(wire.enc_ack(4, wire.PUBREL, 9))
    try:
        pump_read(c)
    except SelfDeadlock as e:
        res.append(f"would block forever on {e}")
    if res != ["returned"]:
        return f"reconnect() inside on_message(QoS 2): {res}"
    return None


def F17():
    """C18: reconnect() inside on_disconnect with on_socket_open installed -> blocks on _in_callback_mutex."""
    w = World()
    c = mk_client(w)
    res = []

    def on_disc(cl, ud, flags, rc, props):
        try:
            cl.reconnect()
            res.append("returned")
        except SelfDeadlock as e:
            res.append(f"would block forever on {e}")
    c.on_disconnect = on_disc
    c.on_socket_open = lambda cl, ud, sock: None
    connect(c, w)
    w.cur().feed_eof()
    try:
        c.loop_read()
    except SelfDeadlock as e:
        res.append(f"would block forever on {e}")
    if res != ["returned"]:
        return f"reconnect() inside on_disconnect with on_socket_open installed: {res}"
    return None


def F18():
    """C10: reconnect() inside the on_disconnect of a completed disconnect() -> new socket closed at once."""
    w = World()
    c = mk_client(w)
    got = []

    def on_disc(cl, ud, flags, rc, props):
        got.append(rc.value)
        if len(got) == 1:
            cl.reconnect()
    c.on_disconnect = on_disc
    connect(c, w)
    c.disconnect()
    if len(w.socks) == 2 and w.socks[1].closed and not names(w.socks[1]):
        return "connection 2 opened by reconnect() in on_disconnect was closed again, CONNECT never written"
    return None


def F36():
    """C04/C19: unsubscribe([]) is accepted and an UNSUBSCRIBE packet without any topic filter is written
    (a protocol violation, MQTT-3.10.3-2: the broker closes the connection); subscribe([]) raises ValueError."""
    for proto in (4, 5):
        w = World()
        c = mk_client(w, proto=proto)
        connect(c, w, proto=proto)
        n0 = len(w.cur().wire)
        try:
            r = c.unsubscribe([])
        except ValueError:
            continue
        sent = bytes(w.cur().wire[n0:])
        return f"unsubscribe([]) returned {tuple(int(x) if x is not None else None for x in r)} and wrote {sent.hex()} (UNSUBSCRIBE with no topic filter), MQTT {proto}"
    return None


def F37():
    """C09/C10: disconnect() called by the application from on_pre_connect (the callback reconnect() runs just before it opens the
    socket) is ignored: it returns MQTT_ERR_NO_CONN, reconnect() goes on to open a socket and send CONNECT, and the CONNACK
    makes the client connected - under loop_forever() the 'final' disconnect is followed by a connection attempt."""
    w = World()
    c = mk_client(w, proto=4)
    n = [0]

    def pre(cl, ud):
        n[0] += 1
        if n[0] == 2:
            cl.disconnect()
    c.on_pre_connect = pre
    connect(c, w, proto=4)
    w.cur().feed_eof()
    c.loop_read()                     # connection lost
    before = len(w.socks)
    try:
        c.reconnect()                 # what loop_forever() does after the back-off wait
    except Exception as e:  # noqa: BLE001
        return f"reconnect() raised {type(e).__name__}"
    if len(w.socks) > before:
        return (f"disconnect() inside on_pre_connect was followed by a connection attempt (socket {len(w.socks)} opened, "
                f"CONNECT written: {len(w.cur().wire) > 0})")
    return None


def F38():
    """C18/C10: reconnect() called by the application inside on_disconnect, when the connection was lost by a failed write of
    an acknowledgement while loop_read() handled an inbound packet: the error code travelled up to loop_read(), which closed
    the NEW socket and called on_disconnect again - the CONNECT queued by reconnect() was never written."""
    for q in (1, 2):
        w = World()
        c = mk_client(w)
        got = []

        def on_disc(cl, ud, flags, rc, props):
            got.append(rc.value)
            if len(got) == 1:
                cl.reconnect()
        c.on_disconnect = on_disc
        connect(c, w)
        s = w.cur()
        s.outscript.append(("error",))
        s.feed(wire.enc_publish(4, b"a", b"p", qos=q, mid=7))
        c.loop_read()
        for _ in range(3):
            if c._sock is not None and c.want_write():
                c.loop_write()
        if len(w.socks) == 2 and (w.socks[1].closed or not names(w.socks[1])):
            return (f"connection 2 opened by reconnect() inside on_disconnect (QoS {q} acknowledgement could not be written) was closed "
                    f"again by loop_read(), CONNECT never written; on_disconnect called {len(got)} times")
        if len(got) != 1:
            return f"on_disconnect called {len(got)} times"
    return None


def F39():
    """C08: keep-alive timeout detected by loop_misc() (through _check_keepalive) while the application reconnects inside
    on_disconnect: loop_misc() returned MQTT_ERR_SUCCESS for the call that detected the dead peer."""
    w = World()
    c = mk_client(w)
    got = []

    def on_disc(cl, ud, flags, rc, props):
        got.append(rc.value)
        if len(got) == 1:
            cl.reconnect()
    c.on_disconnect = on_disc
    connect(c, w, keepalive=60)
    w.clock.advance_ms(60000)
    c.loop_misc()                 # PINGREQ
    w.clock.advance_ms(60000)
    r = c.loop_misc()             # unanswered for K: timeout, on_disconnect -> reconnect()
    if got and int(r) == 0:
        return f"keep-alive timeout reported through on_disconnect {got} but loop_misc() returned {int(r)}"
    if not got:
        return "scenario did not reach the keep-alive timeout"
    return None


ALL = {"F1": F1, "F2": F2, "F3": F3, "F4": F4, "F4b": F4b, "F5": F5, "F6": F6, "F7": F7, "F8": F8, "F9": F9,
       "F10": F10, "F19": F19, "F20": F20, "F21": F21, "F22": F22, "F23": F23, "F24": F24, "F25": F25, "F26": F26, "F29": F29, "F27": F27, "F28": F28, "F11": F11, "F12": F12, "F13": F13, "F13t": F13t, "F35": F35, "F36": F36, "F37": F37, "F38": F38, "F39": F39, "F34": F34, "F33": F33, "F32": F32, "F31": F31, "F30": F30, "F15": F15, "F16": F16, "F17": F17, "F18": F18}


def run(name):
    try:
        return ALL[name]()
    except SelfDeadlock as e:
        # (instrumented lock: a blocking re-acquisition by its owner - the history would hang on the real locks)
        return f"self-deadlock on {e} while replaying the history"
    except Exception as e:  # noqa: BLE001
        import traceback
        return f"witness crashed: {type(e).__name__}: {e} @ {traceback.format_exc().strip().splitlines()[-3]}"


if __name__ == "__main__":
    sel = sys.argv[1:] or list(ALL)
    for n in sel:
        r = run(n)
        print(f"{n:4s} {'DEFECT: ' + r if r else 'ok'}")
