"""T2 stream `reader` (C05, fragmentation part): broker byte streams delivered to the real client in arbitrary
recv() chunkings (with would-block between any two bytes, EOF/reset at the end) vs the byte-level Lean model
(Paho.Model.Reader + ReaderSession). Monitor: the observable outcome must not depend on the chunking."""
from __future__ import annotations

import wire
from common import hx, unhx
from streams import session as sess
from streams.decode import DecodeStream, rand_props_list
from world import raw


def op_rxbytes(rs, t):
    c, w, ev = rs.c, rs.w, rs.ev
    s = w.cur() if c._sock is not None else None
    if s is None:
        return
    for it in t[1].split(","):
        if it == ".":
            s.feed_eagain()
        elif it == "eof":
            s.feed_eof()
        elif it == "err":
            s.feed_err()
        else:
            s.feed(unhx(it))
    for _ in range(200000):
        so = raw(c._sock)
        if so is None or not so.inq:
            break
        try:
            r = c.loop_read()
            ev.append(f"ret:{int(r)}")
        except Exception as e:  # noqa: BLE001
            n = type(e).__name__
            ev.append("exc:" + ("struct.error" if n == "error" else n))
    for so in w.socks:
        so.inq.clear()


def run_real(case):
    obs = []
    rs = None
    for line in case:
        t = line.split()
        if t[0] == "cfg":
            rs = sess.RealSession(sess.parse_cfg(t[1:]))
            obs.append("ok | " + rs.probe())
            continue
        rs.ev.clear()
        try:
            if t[0] == "rxbytes":
                op_rxbytes(rs, t)
            else:
                rs.op(t)
        except sess.SelfDeadlock as e:
            rs.ev.append(f"deadlock:{e}")
        except Exception as e:  # noqa: BLE001
            rs.ev.append(f"exc:{type(e).__name__}")
        obs.append(";".join(rs.ev) + " | " + rs.probe())
    return obs


def chunk(rng, data: bytes, mode=None):
    """random partition of a byte string into recv() chunks with would-block markers"""
    mode = mode or rng.choice(["whole", "bytes", "random", "random", "headsplit"])
    if not data:
        return []
    if mode == "whole":
        return [hx(data)]
    if mode == "bytes":
        out = []
        for b in data:
            out.append(hx(bytes([b])))
            out.append(".")
        return out[:-1]
    cuts = sorted(set(rng.randrange(1, len(data)) for _ in range(rng.randint(1, min(8, len(data)))))) if len(data) > 1 else []
    if mode == "headsplit" and len(data) > 3:
        cuts = sorted(set(cuts + [1, 2]))
    out = []
    prev = 0
    for cpt in cuts + [len(data)]:
        out.append(hx(data[prev:cpt]))
        if rng.random() < 0.5:
            out.append(".")
        prev = cpt
    if out and out[-1] == ".":
        out.pop()
    return out


def rechunk(rng, items, mode):
    """same bytes and same terminal event, different chunking"""
    data = b"".join(unhx(x) for x in items if x not in (".", "eof", "err"))
    tail = [x for x in items if x in ("eof", "err")]
    return chunk(rng, data, mode) + tail[:1]


class ReaderStream:
    name = "reader"
    props = ["C05", "C01"]
    keep_prefix = 1

    def gen(self, rng, tier):
        proto = rng.choice([4, 4, 5, 5, 3])
        cfg = dict(proto=proto, clean=rng.choice([0, 1]) if proto != 5 else rng.choice([0, 1, 3]), N=rng.choice([0, 1, 2, 20]), M=0,
                   manual=int(rng.random() < 0.15), rof=1, ext=0, ka=60, sup=int(rng.random() < 0.3))
        case = ["cfg " + " ".join(f"{k}={v}" for k, v in cfg.items()), "connect ok"]
        v5 = proto == 5
        P = (lambda pt: rand_props_list(rng, pt)) if v5 else (lambda pt: None)
        stream = wire.enc_connack(proto, sp=rng.randrange(2), rc=0, props=P(wire.CONNACK))
        mids_out = []
        mid = 0
        pending_in2 = []
        for _ in range(rng.randint(2, 10)):
            r = rng.random()
            if r < 0.25:
                # flush what the broker has sent so far, then let the application publish
                if stream:
                    case.append("rxbytes " + ",".join(chunk(rng, stream)))
                    stream = b""
                q = rng.choice([1, 2])
                mid += 1
                mids_out.append((mid, q, "sent"))
                case.append(f"publish {q} {hx(rng.choice([b't', b'a/b']))} {hx(bytes(rng.randrange(256) for _ in range(rng.choice([0, 3, 10]))))} 0")
            elif r < 0.5 and mids_out:
                i = rng.randrange(len(mids_out))
                m, q, ph = mids_out[i]
                form = rng.random()

                def ack(pt):
                    if not v5 or form < 0.4:
                        return wire.enc_ack(proto, pt, m)
                    rcs = [c for c, pts in wire.REASONS.items() if pt in pts]
                    if form < 0.7:
                        return wire.enc_ack(proto, pt, m, rc=rng.choice(rcs))
                    return wire.enc_ack(proto, pt, m, rc=rng.choice(rcs), props=rand_props_list(rng, pt))
                if q == 1:
                    stream += ack(wire.PUBACK)
                    mids_out.pop(i)
                elif ph == "sent":
                    stream += ack(wire.PUBREC)
                    mids_out[i] = (m, q, "rec")
                else:
                    stream += ack(wire.PUBCOMP)
                    mids_out.pop(i)
            elif r < 0.8:
                q = rng.choice([0, 1, 2])
                im = rng.choice([1, 2, 3, 65535])
                topic = rng.choice([b"t", b"a/b", b"t/\xc3\xa9", b"\xf0\x9f\x98\x80"])
                n = rng.choice([0, 1, 10, 120, 130, 300]) if rng.random() < 0.9 else rng.choice([16383, 16390])
                stream += wire.enc_publish(proto, topic, bytes(rng.randrange(256) for _ in range(n)), qos=q, retain=rng.randrange(2),
                                           dup=rng.randrange(2) if q else 0, mid=im, props=P(wire.PUBLISH))
                if q == 2:
                    pending_in2.append(im)
            elif r < 0.9 and pending_in2:
                stream += wire.enc_ack(proto, wire.PUBREL, pending_in2.pop(rng.randrange(len(pending_in2))))
            elif r < 0.95:
                stream += rng.choice([wire.enc_pingresp(), wire.enc_suback(proto, 77, [1], props=P(wire.SUBACK))])
            else:
                # the malformed stream
                stream += rng.choice([b"\xf0\x00", b"\x00\x02\x10\x00", b"\x00", b"\x40\x01\x00", b"\x30\x01\x00", b"\x20\x81\x81\x81\x81\x81\x01", DecodeStream().rand_packet(rng, proto)])
        if len(stream) >= 2 and rng.random() < 0.15:
            # the peer falls silent in the middle of a packet and the connection is ended by something other than a read
            # error - the application replaces it, disconnects, or the keep-alive gives up; a new connection is then
            # established: its CONNACK (and what follows) must be decoded as on any fresh connection
            cut = stream[:rng.randrange(1, len(stream))]
            case.append("rxbytes " + ",".join(chunk(rng, cut)))
            how = rng.choice(["reconnect", "connect", "disconnect", "keepalive"])
            if how == "disconnect":
                case.append("disconnect")
            elif how == "keepalive":
                case += ["tick 60000", "loop_misc", "tick 60000", "loop_misc"]
            case.append("connect ok" if how == "connect" else "reconnect ok")
            nxt = wire.enc_connack(proto, sp=rng.randrange(2), rc=0, props=P(wire.CONNACK))
            if rng.random() < 0.6:
                nxt += wire.enc_publish(proto, b"t", bytes(rng.randrange(256) for _ in range(rng.choice([0, 5, 130]))), qos=rng.choice([0, 1]),
                                        retain=0, dup=0, mid=9, props=P(wire.PUBLISH))
            case.append("rxbytes " + ",".join(chunk(rng, nxt)))
            return case
        if stream or rng.random() < 0.5:
            x = rng.random()
            if x < 0.25 and stream and rng.random() < 0.5:
                # the connection ends in the middle of a packet: inside the remaining-length field or the body
                stream = stream[:rng.randrange(1, len(stream) + 1)]
            items = chunk(rng, stream)
            if x < 0.15:
                items.append("eof")
            elif x < 0.25:
                items.append("err")
            if items:
                case.append("rxbytes " + ",".join(items))
        return case

    def real(self, case):
        return run_real(case)

    @staticmethod
    def canon(obs):
        """what the property calls the observable outcome: callbacks+arguments, bytes sent in reply, non-zero
        return codes and exception types; the number of loop_read() calls that returned 0 is not part of it"""
        out = []
        for o in obs:
            ev, _, probe = o.partition(" | ")
            evs = [e for e in ev.split(";") if e and e != "ret:0"]
            # merge consecutive tx of the same connection (write chunking is not the subject here)
            out.append(";".join(evs) + " | " + probe)
        return out

    def monitor_C05(self, case, obs):
        import random
        hits = []
        # a well-formed CONNACK that is the first thing a fresh connection delivers is handed to on_connect with its values
        fresh = False
        for k, (line, o) in enumerate(zip(case, obs)):
            t = line.split()
            if t[0] in ("connect", "reconnect") and t[1] == "ok":
                fresh = "sopen" in o
            elif t[0] == "rxbytes" and fresh:
                fresh = False
                data = b"".join(unhx(x) for x in t[1].split(",") if x not in (".", "eof", "err"))
                if len(data) >= 4 and data[0] == 0x20 and data[1] < 128 and len(data) >= 2 + data[1]:
                    sp, rc = data[2] & 1, data[3]
                    if rc == 0 and f"on_connect:{rc}:{sp}" not in o.split(" | ")[0].split(";"):
                        hits.append((k, "connack-first", f"the CONNACK (session present {sp}, result 0) that opens a fresh connection was not handed to on_connect: <{o[:160]}>"))
        if hits:
            return hits
        base = self.canon(obs)
        rng = random.Random(hash("\n".join(case)) & 0xFFFFFFFF)
        for mode in ("whole", "bytes", "random"):
            alt = []
            for line in case:
                t = line.split()
                if t[0] == "rxbytes":
                    alt.append("rxbytes " + ",".join(rechunk(rng, t[1].split(","), mode)))
                else:
                    alt.append(line)
            if alt == case:
                continue
            o2 = self.canon(run_real(alt))
            if o2 != base:
                k = next((j for j in range(min(len(base), len(o2))) if base[j] != o2[j]), 0)
                hits.append((k, "fragmentation", f"outcome depends on the recv() chunking ({mode}): <{base[k][:160]}> vs <{o2[k][:160]}> for {case[k][:60]} / {alt[k][:60]}"))
                break
        return hits

    def monitor_C01(self, case, obs):
        """C01 on the byte-level conversations: when the CONNACK that opens a fresh connection accepts it, every QoS 1/2 message
        the client still owns is transmitted again on it - as PUBLISH or PUBREL - in that very loop_read() (window permitting:
        judged only when the window cannot be the reason)"""
        hits = []
        cfg = sess.parse_cfg(case[0].split()[1:])
        N = cfg["N"]
        fresh = False
        prev = ""
        for k, (line, o) in enumerate(zip(case, obs)):
            t = line.split()
            ev, _, probe = o.partition(" | ")
            if t[0] in ("connect", "reconnect") and t[1] == "ok":
                fresh = "sopen" in o
            elif t[0] == "rxbytes" and fresh:
                fresh = False
                data = b"".join(unhx(x) for x in t[1].split(",") if x not in (".", "eof", "err"))
                owned = [x.split(".") for x in prev.split("out=[")[1].split("]")[0].split(",") if x] if "out=[" in prev else []
                if len(data) >= 4 and data[0] == 0x20 and data[1] < 128 and len(data) >= 2 + data[1] and data[3] == 0 and owned \
                        and (N == 0 or len(owned) <= N) and "sclose" not in ev:
                    sent = set()
                    buf = {}
                    for e in ev.split(";"):
                        if e.startswith("tx"):
                            c_, _, h = e[2:].partition(":")
                            buf[c_] = buf.get(c_, b"") + unhx(h)
                    for b in buf.values():
                        try:
                            pk, _ = wire.split_packets(b)
                        except wire.Malformed:
                            continue
                        for p_ in pk:
                            if p_[0] >> 4 in (3, 6):
                                try:
                                    d = wire.dec_client_packet(p_, cfg["proto"])
                                    sent.add(d.get("mid"))
                                except Exception:  # noqa: BLE001
                                    pass
                    missing = [int(m[0]) for m in owned if int(m[0]) not in sent]
                    if missing:
                        hits.append((k, "retransmit-missing", f"the CONNACK accepted the re-established connection but the stored message(s) {missing} were not "
                                     f"transmitted again (client state before: {prev[:120]})"))
            prev = probe
        return hits

    monitors = {"C05": monitor_C05, "C01": monitor_C01}

    def features(self, case, obs):
        f = set()
        for line, o in zip(case, obs):
            t = line.split()
            if t[0] == "rxbytes":
                items = t[1].split(",")
                f.add("chunks>4" if len(items) > 4 else "chunks<=4")
                if "." in items:
                    f.add("eagain")
                if "eof" in items or "err" in items:
                    f.add("terminal")
                for e in o.split(" | ")[0].split(";"):
                    if e.startswith("on_") or e.startswith("exc") or (e.startswith("ret:") and e != "ret:0"):
                        f.add(e.split(":")[0] + (":" + e.split(":")[1] if not e.startswith("on_") else ""))
        return f

    def nontrivial(self, case, obs):
        fs = self.features(case, obs)
        return "on_message" in fs or "on_publish" in fs


STREAMS = [ReaderStream()]
