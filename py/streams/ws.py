"""T2 streams `ws` / `wsbad` (C05, C06: the WebSocket parts): the real `_WebsocketWrapper` (`_recv_impl`, `_buffered_read`,
`_create_frame`, `_send_impl`) over a scripted raw socket vs the Lean model Paho.Model.Ws (driver `ws`).

ops (one observation line each):
  feed <hex> | eagain | eof | err | items <i,i,..>     -> ok                       (i = hex | . | eof | err)
  recv <n>                                             -> data=<hex>|block|closed|exc:<T>  conn=<0|1> sent=<hex,..|->
  send <hex data> <hex8 key> <accept n | b | e>        -> ret=<n>|exc:<T> wire=<hex>   (b: raw send raises
                                                          BlockingIOError, e: BrokenPipeError)
  reset                                                -> ok

The monitors are written from RFC 6455 section 5.2 (via wire.ws_parse / wire.ws_frame), not from the model."""
from __future__ import annotations

import collections
import errno
import os
import struct

import wire
from common import hx, unhx

BIG = (65535, 65536)


# ------------------------------------------------------------------------------------------------ real side
class StubSock:
    """raw non-blocking socket: same recv() semantics as world.FakeSocket"""

    def __init__(self):
        self.inq = collections.deque()
        self.accept = None          # None: take everything (replies); int: what send() takes; "b"/"e": send() raises
        self.sent = []

    def recv(self, n):
        if not self.inq:
            raise BlockingIOError(errno.EAGAIN, "would block")
        item = self.inq[0]
        if item[0] == "eagain":
            self.inq.popleft()
            raise BlockingIOError(errno.EAGAIN, "would block")
        if item[0] == "eof":
            return b""
        if item[0] == "err":
            raise ConnectionResetError(errno.ECONNRESET, "reset")
        buf = item[1]
        out = bytes(buf[:n])
        del buf[:n]
        if not buf:
            self.inq.popleft()
        return out

    def send(self, data):
        if self.accept == "b":
            raise BlockingIOError(errno.EAGAIN, "would block")
        if self.accept == "e":
            raise BrokenPipeError(errno.EPIPE, "broken pipe")
        data = bytes(data)
        k = len(data) if self.accept is None else min(self.accept, len(data))
        self.sent.append(data[:k])
        return k

    def close(self):
        pass

    def feed_item(self, it):
        if it == ".":
            self.inq.append(("eagain",))
        elif it == "eof":
            self.inq.append(("eof",))
        elif it == "err":
            self.inq.append(("err",))
        else:
            b = unhx(it)
            if b:
                self.inq.append(("data", bytearray(b)))


class _OsShim:
    """stands in for the `os` module inside paho.mqtt.client while a wrapper call runs"""

    def __init__(self):
        self.key = b"\0\0\0\0"

    def urandom(self, n):
        return bytes(self.key[:n]).ljust(n, b"\0")

    def __getattr__(self, name):
        return getattr(os, name)


def new_wrapper(pc, sock):
    w = object.__new__(pc._WebsocketWrapper)
    # what __init__ sets (the HTTP upgrade handshake is not run)
    w.connected = True
    w._ssl = False
    w._host = "h"
    w._port = 80
    w._socket = sock
    w._path = "/mqtt"
    w._sendbuffer = bytearray()
    w._readbuffer = bytearray()
    w._requested_size = 0
    w._payload_head = 0
    w._readbuffer_head = 0
    return w


def run_real(case):
    import paho.mqtt.client as pc
    shim = _OsShim()
    saved = pc.os
    pc.os = shim
    try:
        sock = StubSock()
        w = new_wrapper(pc, sock)
        obs = []
        for line in case:
            t = line.split()
            op = t[0]
            if op == "feed":
                sock.feed_item(t[1])
                obs.append("ok")
            elif op in ("eagain", "eof", "err"):
                sock.feed_item("." if op == "eagain" else op)
                obs.append("ok")
            elif op == "items":
                for it in t[1].split(","):
                    sock.feed_item(it)
                obs.append("ok")
            elif op == "recv":
                sock.accept = None
                sock.sent = []
                try:
                    r = w.recv(int(t[1]))
                    o = "closed" if (len(r) == 0 and not w.connected) else "data=" + hx(bytes(r))
                except BlockingIOError:
                    o = "block"
                except Exception as e:  # noqa: BLE001
                    o = "exc:" + type(e).__name__
                obs.append(f"{o} conn={int(bool(w.connected))} sent={','.join(hx(x) for x in sock.sent) if sock.sent else '-'}")
            elif op == "send":
                shim.key = unhx(t[2])
                sock.accept = t[3] if t[3] in ("b", "e") else int(t[3])
                sock.sent = []
                try:
                    r = w.send(unhx(t[1]))
                    o = f"ret={int(r)}"
                except Exception as e:  # noqa: BLE001
                    o = "exc:" + type(e).__name__
                obs.append(f"{o} wire={hx(b''.join(sock.sent))}")
            elif op == "reset":
                sock = StubSock()
                w = new_wrapper(pc, sock)
                obs.append("ok")
            else:
                obs.append("bad-op")
        return obs
    finally:
        pc.os = saved


# ------------------------------------------------------------------------------------------------ generators
def rbytes(rng, n):
    return bytes(rng.getrandbits(8) for _ in range(n)) if n < 4096 else rng.getrandbits(8 * n).to_bytes(n, "big")


def chunk_items(rng, data: bytes, mode=None):
    """random partition into recv() chunks, would-block possible between any two bytes"""
    if not data:
        return []
    mode = mode or rng.choice(["whole", "bytes", "random", "random", "random", "headsplit", "fine"])
    if len(data) > 3000 and mode in ("bytes", "fine"):
        mode = "random"
    if mode == "whole":
        return [hx(data)]
    if mode == "bytes":
        out = []
        for b in data:
            out.append(hx(bytes([b])))
            if rng.random() < 0.5:
                out.append(".")
        return out
    if mode == "fine":
        k = max(1, len(data) // 2)
    else:
        k = rng.randint(1, min(10, len(data)))
    cuts = sorted(set(rng.randrange(1, len(data)) for _ in range(k))) if len(data) > 1 else []
    if mode == "headsplit":
        cuts = sorted(set(cuts + [c for c in (1, 2, 3, 4, 6, 10) if c < len(data)]))
    out, prev = [], 0
    for cpt in cuts + [len(data)]:
        if rng.random() < 0.15:
            out.append(".")
        out.append(hx(data[prev:cpt]))
        if rng.random() < 0.35:
            out.append(".")
        prev = cpt
    return out


LEN_COMMON = [0, 0, 1, 1, 2, 3, 5, 17, 60, 125, 125, 126, 126, 127, 200, 300]


def rand_frame(rng, allow_big):
    """(opcode, fin, payload, mask|None, rsv)"""
    r = rng.random()
    if r < 0.45:
        op = 2
    elif r < 0.60:
        op = 0
    elif r < 0.75:
        op = 9
    elif r < 0.82:
        op = 10
    elif r < 0.89:
        op = 8
    else:
        op = 1
    if op in (8, 9, 10):
        n = rng.choice([0, 0, 1, 2, 4, 5, 20, 125])
    elif allow_big and rng.random() < 0.5:
        n = rng.choice(BIG)
    else:
        n = rng.choice(LEN_COMMON)
    mask = rbytes(rng, 4) if rng.random() < 0.3 else None
    fin = 1 if op in (8, 9, 10) else rng.choice([0, 1, 1])
    return (op, fin, rbytes(rng, n), mask, 0)


def enc(fr):
    op, fin, payload, mask, rsv = fr
    b = bytearray(wire.ws_frame(payload, opcode=op, fin=fin, mask=mask))
    b[0] |= rsv << 4
    return bytes(b)


def gen_send_ops(rng, nmsgs, allow_big):
    ops = []
    for _ in range(nmsgs):
        if allow_big and rng.random() < 0.5:
            n = rng.choice(BIG)
        else:
            n = rng.choice([0, 1, 1, 2, 7, 60, 125, 126, 127, 300])
        data = rbytes(rng, n)
        key = rbytes(rng, 4)
        left = len(wire.ws_frame(data, mask=key))
        first = True
        guard = 0
        # scripted openings, among them: partial accept, would-block, accept all
        x = rng.random()
        trigger = (["part", "b", "all"] if x < 0.10 else ["b", "all"] if x < 0.15 else ["part", "e", "part", "b", "all"] if x < 0.18
                   else ["b", "b", "part", "b"] if x < 0.21 else [])
        if left <= 1:
            trigger = []
        while left > 0:
            guard += 1
            r = rng.random()
            if trigger:
                a = trigger.pop(0)
                if a == "all":
                    a = left
                elif a == "part":
                    a = rng.randint(1, max(1, left - 1))
            elif r < 0.10 and guard < 8:
                a = "b"
            elif r < 0.14 and guard < 8:
                a = "e"
            elif r < 0.28 and guard < 8:
                a = 0
            elif r < 0.6 and guard < 12:
                a = rng.randint(1, max(1, left - 1)) if rng.random() < 0.7 else rng.choice([1, 2, 3, 5, 6, 7, 8])
            elif r < 0.8:
                a = left
            else:
                a = left + rng.choice([1, 10, 100000])
            d, k = data, (key if first or rng.random() < 0.5 else rbytes(rng, 4))
            if not first and rng.random() < 0.08:
                # a caller that does not keep the retry discipline
                d = rbytes(rng, rng.choice([0, 1, n, n + 1, 5]))
            ops.append(f"send {hx(d)} {hx(k)} {a}")
            if a not in ("b", "e"):
                left -= min(a, left)
            first = False
        if rng.random() < 0.05:
            # abandon a frame half way: start one and do not finish it before the next message
            d2 = rbytes(rng, rng.choice([1, 5, 130]))
            ops.append(f"send {hx(d2)} {hx(rbytes(rng, 4))} {rng.choice([0, 1, 3])}")
            # the rest of that frame goes out with the following calls; finish it with the same data
            for _ in range(rng.randint(0, 2)):
                ops.append(f"send {hx(d2)} {hx(rbytes(rng, 4))} {rng.choice([0, 2, 100000])}")
            ops.append(f"send {hx(d2)} {hx(rbytes(rng, 4))} 100000")
    return ops


def interleave_recv(rng, items, frames_n, sizes, maxplen, drain=True):
    """feed the items in groups with recv calls in between; optionally a draining tail"""
    ops = []
    i = 0
    nitems = len(items)
    while i < nitems:
        k = rng.randint(1, max(1, min(8, nitems - i)))
        grp = items[i:i + k]
        i += k
        if len(grp) == 1 and rng.random() < 0.5:
            it = grp[0]
            ops.append("eagain" if it == "." else (it if it in ("eof", "err") else "feed " + it))
        else:
            ops.append("items " + ",".join(grp))
        for _ in range(rng.randint(0, 6)):
            ops.append(f"recv {rng.choice(sizes)}")
    if drain:
        big = max(maxplen, 1) + rng.choice([0, 1, 1000])
        for _ in range(nitems + frames_n + 2):
            ops.append(f"recv {big}")
    else:
        for _ in range(rng.randint(0, 10)):
            ops.append(f"recv {rng.choice(sizes)}")
    return ops


def recv_sizes(rng, has_big):
    if has_big:
        return [rng.choice([4096, 10000, 65535, 65536, 70000, 131072]) for _ in range(3)]
    m = rng.choice(["one", "small", "mixed", "mixed", "large"])
    if m == "one":
        return [1]
    if m == "small":
        return [1, 2, 3]
    if m == "large":
        return [200, 1000, 65536]
    return [1, 1, 2, 3, 5, 10, 50, 125, 126, 127, 128, 300, 4096]


class WsStream:
    name = "ws"
    props = ["C05", "C06"]
    keep_prefix = 0
    malformed = False

    def gen(self, rng, tier):
        kind = rng.random()
        if kind < 0.30:
            return gen_send_ops(rng, rng.randint(1, 5), allow_big=rng.random() < 0.06)
        has_big = rng.random() < 0.04
        frames = []
        for _ in range(rng.randint(1, 2) if has_big else rng.randint(1, 7)):
            frames.append(rand_frame(rng, has_big))
        stream = b"".join(enc(f) for f in frames)
        items = chunk_items(rng, stream)
        x = rng.random()
        tail = ["eof"] if x < 0.12 else (["err"] if x < 0.2 else [])
        maxplen = max(len(f[2]) for f in frames)
        ops = interleave_recv(rng, items + tail, len(frames), recv_sizes(rng, has_big), maxplen, drain=rng.random() < 0.7)
        if tail:
            ops += [f"recv {rng.choice([1, 5])}" for _ in range(2)]
        if kind < 0.40:
            # both directions on one wrapper
            sops = gen_send_ops(rng, rng.randint(1, 2), False)
            out = []
            for o in ops:
                out.append(o)
                if sops and rng.random() < 0.2:
                    out.append(sops.pop(0))
            ops = out + sops
        return ops

    def real(self, case):
        return run_real(case)

    # ------------------------------------------------------------------------- monitors (RFC 6455, no model)
    @staticmethod
    def _split_runs(case, obs):
        """[(ops, obs)] between resets"""
        runs, cur = [], []
        for line, o in zip(case, obs):
            if line.split()[0] == "reset":
                runs.append(cur)
                cur = []
            else:
                cur.append((line, o))
        runs.append(cur)
        return runs

    def monitor_recv(self, case, obs):
        hits = []
        idx = 0
        for run in self._split_runs(case, obs):
            hits += self._monitor_recv_run(run, idx)
            idx += len(run) + 1
        return hits

    @staticmethod
    def _expected_stream(stream: bytes):
        """RFC view of the server byte stream: payload bytes of data frames (opcode 2 / 0), including the part of
        a last, incomplete data frame that has arrived; and the replies owed for the complete control frames"""
        frames, rest = wire.ws_parse(stream, require_client_rules=False)
        data = b"".join(f["payload"] for f in frames if f["opcode"] in (0, 2))
        replies = []
        for f in frames:
            if f["opcode"] == 9:
                replies.append((wire.ws_frame(f["payload"], opcode=10), f))
            elif f["opcode"] == 8:
                replies.append((wire.ws_frame(f["payload"], opcode=8), f))
        # incomplete tail
        if len(rest) >= 2:
            b0, b1 = rest[0], rest[1]
            n = b1 & 0x7F
            p = 2
            ok = True
            if n == 126:
                ok = len(rest) >= 4
                if ok:
                    n = struct.unpack("!H", rest[2:4])[0]
                p = 4
            elif n == 127:
                ok = len(rest) >= 10
                if ok:
                    n = struct.unpack("!Q", rest[2:10])[0]
                p = 10
            key = None
            if ok and b1 & 0x80:
                ok = len(rest) >= p + 4
                key = rest[p:p + 4]
                p += 4
            if ok and (b0 & 0x0F) in (0, 2):
                part = rest[p:]
                if key is not None:
                    part = bytes(c ^ key[i % 4] for i, c in enumerate(part))
                data += part
        return frames, data, replies

    def _monitor_recv_run(self, run, base):
        hits = []
        stream = b""
        terminal = False
        delivered = b""
        sent = []
        last_feed = -1
        nitems = 0
        for j, (line, o) in enumerate(run):
            t = line.split()
            if t[0] in ("feed", "items", "eagain", "eof", "err"):
                its = t[1].split(",") if t[0] in ("feed", "items") else ["." if t[0] == "eagain" else t[0]]
                for it in its:
                    nitems += 1
                    if it in ("eof", "err"):
                        terminal = True
                    elif it != "." and not terminal:
                        stream += unhx(it)
                last_feed = j
            elif t[0] == "recv":
                n = int(t[1])
                res, conn, snt = o.split(" ")
                if res.startswith("data="):
                    d = unhx(res[5:])
                    if len(d) > n:
                        hits.append((base + j, "recv-bound", f"recv({n}) returned {len(d)} bytes"))
                    if len(d) == 0 and n > 0:
                        hits.append((base + j, "recv-empty", f"recv({n}) returned b'' on an open connection (reads as EOF)"))
                    delivered += d
                elif res.startswith("exc:"):
                    hits.append((base + j, "recv-exc", f"recv({n}) raised {res[4:]}"))
                elif res == "closed" and not terminal:
                    hits.append((base + j, "recv-closed", f"recv({n}) reported the connection closed without EOF/reset"))
                if snt != "sent=-":
                    sent += [unhx(x) for x in snt[5:].split(",")]
        frames, exp_data, exp_replies = self._expected_stream(stream)
        if exp_data[:len(delivered)] != delivered:
            k = next((i for i in range(min(len(delivered), len(exp_data))) if delivered[i] != exp_data[i]), min(len(delivered), len(exp_data)))
            hits.append((base, "recv-stream", f"delivered bytes are not a prefix of the data-frame payloads: first difference at offset {k} "
                         f"(delivered {len(delivered)} bytes, expected stream {len(exp_data)} bytes)"))
        # replies: in order, one per complete PING / CLOSE
        if len(sent) > len(exp_replies):
            hits.append((base, "reply-count", f"{len(sent)} reply frames for {len(exp_replies)} complete PING/CLOSE frames"))
        for s, (e, f) in zip(sent, exp_replies):
            if s != e:
                if f["masked"]:
                    # a server must not mask (RFC 6455 5.1): what the client answers to such a frame is outside the
                    # property (a conforming broker); the code's behaviour there is pinned by the Lean witness
                    # ws_recv_masked_ping_reply_wrong and by the model correspondence
                    break
                kind = "unmasked"
                hits.append((base, "reply-payload",
                             f"reply to a {kind} opcode-{f['opcode']} frame with {len(f['payload'])} payload bytes is {hx(s)[:60]}, expected {hx(e)[:60]}"))
                break
        # completeness: after the last feed, enough big recv calls were made to consume every item and frame
        if not terminal and not self.malformed:
            maxp = max([len(f["payload"]) for f in frames] + [1])
            tail = 0
            for line, _ in reversed(run):
                t = line.split()
                if t[0] == "recv" and int(t[1]) >= maxp:
                    tail += 1
                elif t[0] == "send":
                    continue
                else:
                    break
            if tail >= nitems + len(frames) + 1:
                if delivered != exp_data:
                    hits.append((base, "recv-complete", f"transport exhausted and {tail} more recv calls made, but only {len(delivered)} of {len(exp_data)} payload bytes were delivered"))
                if len(sent) != len(exp_replies):
                    hits.append((base, "reply-complete", f"{len(sent)} replies for {len(exp_replies)} PING/CLOSE frames after the transport was exhausted"))
        return hits

    def monitor_send(self, case, obs):
        hits = []
        idx = 0
        for run in self._split_runs(case, obs):
            hits += self._monitor_send_run(run, idx)
            idx += len(run) + 1
        return hits

    @staticmethod
    def _monitor_send_run(run, base):
        """RFC view of what send() put on the raw socket. A call whose raw send raised reports nothing written; the
        caller retries with the same data. Which call's mask key a frame carries is not prescribed: any key (and, for
        callers that break the retry discipline, any data) of the calls made for that frame is accepted."""
        hits = []
        W = b""
        groups = []          # per frame started: {"datas": [...], "keys": [...]} of the calls made for it
        complete_before = 0
        fresh = True         # the next call starts a new frame
        acked = b""          # data of the calls that returned non-zero
        for j, (line, o) in enumerate(run):
            t = line.split()
            if t[0] != "send":
                continue
            data, key = unhx(t[1]), unhx(t[2])
            r, w = o.split(" ")
            if fresh:
                groups.append({"datas": [], "keys": []})
                fresh = False
            g = groups[-1]
            g["datas"].append(data)
            g["keys"].append(key)
            gdata = g["datas"][0]
            disciplined = all(d == gdata for d in g["datas"])
            wbytes = unhx(w[5:])
            if t[3] in ("b", "e"):
                want = "exc:BlockingIOError" if t[3] == "b" else "exc:BrokenPipeError"
                if r != want:
                    hits.append((base + j, "send-exc", f"raw send raised ({t[3]}) but send() gave {r}"))
                if wbytes:
                    hits.append((base + j, "send-exc", "bytes written by a call whose raw send raised"))
                if r.startswith("ret=") and int(r[4:]) != 0:
                    acked += data
                continue
            if r.startswith("exc:"):
                hits.append((base + j, "send-exc", f"send raised {r[4:]}"))
                continue
            ret = int(r[4:])
            W += wbytes
            frames, rest = wire.ws_parse(W)
            done = len(frames) > complete_before and not rest
            if len(frames) > complete_before + 1 or (len(frames) > complete_before and rest):
                hits.append((base + j, "send-framing", "one send call completed a frame and wrote bytes beyond it"))
            complete_before = len(frames)
            fresh = done
            if disciplined:
                if ret not in (0, len(data)):
                    hits.append((base + j, "send-ret", f"send returned {ret} for {len(data)} bytes of data"))
                if done and ret != len(data):
                    hits.append((base + j, "send-ret", f"frame complete but send returned {ret} (len(data)={len(data)})"))
                if not done and ret != 0:
                    hits.append((base + j, "send-ret", f"send returned {ret} although the frame is not completely on the wire"))
                if ret != 0:
                    acked += data
            elif ret != 0:
                acked += gdata
        frames, rest = wire.ws_parse(W)
        for f in frames:
            if not (f["fin"] == 1 and f["opcode"] == 2 and f["masked"] == 1 and f["rsv"] == 0 and f["minimal"]):
                hits.append((base, "send-frame", f"frame on the wire is not a minimal masked FIN binary frame: {f['fin']}/{f['opcode']}/{f['masked']}/{f['rsv']}/{f['minimal']}"))
                break
        # frame i on the wire is the RFC encoding of (a data, a key) of the calls made for frame i; the tail is a prefix of one
        pos = 0
        ok = len(frames) <= len(groups)
        if ok:
            for i, f in enumerate(frames):
                g = groups[i]
                cands = {wire.ws_frame(d, opcode=2, fin=1, mask=k) for d in set(g["datas"]) for k in set(g["keys"])}
                m = next((c for c in cands if W[pos:pos + len(c)] == c), None)
                if m is None:
                    ok = False
                    break
                pos += len(m)
        if ok and W[pos:] != rest:
            ok = False
        if ok and rest:
            if len(frames) >= len(groups):
                ok = False
            else:
                g = groups[len(frames)]
                ok = any(wire.ws_frame(d, opcode=2, fin=1, mask=k)[:len(rest)] == rest for d in set(g["datas"]) for k in set(g["keys"]))
        if not ok:
            hits.append((base, "send-wire", "wire bytes are not complete RFC frames of the sends started (in order) plus a prefix of the next"))
        if len(groups) > len(frames) + 1:
            hits.append((base, "send-wire", "a frame was started before the previous one was complete"))
        if b"".join(f["payload"] for f in frames) != acked:
            hits.append((base, "send-payload", "unmasked payloads on the wire differ from the data of the sends that returned non-zero"))
        return hits

    def monitor_wire(self, case, obs):
        """everything written to the raw socket, in order (frames of send() and the PONG/CLOSE replies written by
        recv()), must be a sequence of complete RFC 6455 frames plus at most an incomplete last one, and the complete
        ones must be exactly: the frames of the sends started and the replies, in the order they were written"""
        hits = []
        idx = 0
        for run in self._split_runs(case, obs):
            W = b""
            pieces = []           # ("s", bytes) from send(), ("r", frame) replies
            for j, (line, o) in enumerate(run):
                t = line.split()
                if t[0] == "send" and " wire=" in o:
                    b = unhx(o.split(" wire=")[1])
                    if b:
                        pieces.append(("s", b, idx + j))
                elif t[0] == "recv" and "sent=-" not in o and " sent=" in o:
                    for x in o.split(" sent=")[1].split(","):
                        pieces.append(("r", unhx(x), idx + j))
            # a reply written while a send frame is incomplete lands inside that frame
            W = b""
            for kind, b, j in pieces:
                if kind == "r":
                    frames, rest = wire.ws_parse(W, require_client_rules=False)
                    if rest:
                        hits.append((j, "wire-interleave", f"reply frame {hx(b)[:40]} written to the raw socket while a data frame is "
                                     f"only partly sent ({len(rest)} bytes of it on the wire): the peer reads it as part of that frame"))
                        break
                W += b
            idx += len(run) + 1
        return hits

    def monitor_c06(self, case, obs):
        return self.monitor_send(case, obs) + self.monitor_wire(case, obs)

    monitors = {"C05": monitor_recv, "C06": monitor_c06}

    def features(self, case, obs):
        f = set()
        for line, o in zip(case, obs):
            t = line.split()
            if t[0] == "recv":
                res = o.split(" ")[0]
                f.add("recv:" + res.split("=")[0])
                if "sent=-" not in o:
                    f.add("reply")
            elif t[0] == "send":
                f.add("send:exc" if o.startswith("exc:") else "send:ret0" if o.startswith("ret=0 ") else "send:ret")
                n = len(unhx(t[1]))
                if n in (125, 126, 65535, 65536):
                    f.add(f"sendlen:{n}")
            elif t[0] in ("eof", "err") or (t[0] == "items" and ("eof" in t[1] or "err" in t[1])):
                f.add("terminal")
        return f

    def nontrivial(self, case, obs):
        fs = self.features(case, obs)
        return "recv:data" in fs or "send:ret" in fs


class WsBadStream(WsStream):
    """malformed server streams: truncated headers / payloads, reserved opcodes, RSV bits, non-minimal lengths,
    oversized control frames, garbage"""
    name = "wsbad"
    malformed = True

    def gen(self, rng, tier):
        parts = []
        for _ in range(rng.randint(1, 5)):
            r = rng.random()
            fr = rand_frame(rng, False)
            if r < 0.25:
                fr = (rng.choice([3, 4, 5, 6, 7, 11, 12, 13, 14, 15]),) + fr[1:]
                parts.append(enc(fr))
            elif r < 0.40:
                parts.append(enc(fr[:4] + (rng.randint(1, 7),)))
            elif r < 0.55:
                # non-minimal length encoding
                op, fin, payload, mask, _ = fr
                payload = payload[:100]
                mb = 0x80 if mask else 0
                h = bytes([(fin << 7) | op]) + (bytes([mb | 126]) + struct.pack("!H", len(payload)) if rng.random() < 0.5
                                                 else bytes([mb | 127]) + struct.pack("!Q", len(payload)))
                body = payload if not mask else bytes(c ^ mask[i % 4] for i, c in enumerate(payload))
                parts.append(h + (mask or b"") + body)
            elif r < 0.65:
                # control frame longer than 125 bytes
                parts.append(enc((rng.choice([8, 9, 10]), 1, rbytes(rng, rng.choice([126, 200])), fr[3], 0)))
            elif r < 0.75:
                parts.append(rbytes(rng, rng.randint(1, 12)))
            else:
                parts.append(enc(fr))
        stream = b"".join(parts)
        if rng.random() < 0.6 and len(stream) > 1:
            stream = stream[:rng.randrange(1, len(stream))]      # truncated somewhere (header or payload)
        # random garbage can announce a huge payload: keep recv sizes small there
        items = chunk_items(rng, stream)
        x = rng.random()
        tail = ["eof"] if x < 0.25 else (["err"] if x < 0.4 else [])
        ops = interleave_recv(rng, items + tail, len(parts), recv_sizes(rng, False), 300, drain=rng.random() < 0.5)
        if tail:
            ops += [f"recv {rng.choice([1, 5])}" for _ in range(2)]
        return ops


STREAMS = [WsStream(), WsBadStream()]
