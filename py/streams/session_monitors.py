"""Independent property oracles over `session` observation streams of the REAL client.

Written from the property texts; they use only: the op lines, the decoded bytes the
client wrote (wire.py), the callback log, return values and public probes
(is_connected / socket / want_write) - plus, where a property speaks about internal
accounting that has no public probe, the read-only probe fields.
They never consult the Lean model.
"""
from __future__ import annotations

import wire
from common import unhx


def parse_obs(o):
    ev, _, probe = o.partition(" | ")
    evs = [e for e in ev.split(";") if e]
    pd = {}
    for w in probe.split(" "):
        k, _, v = w.partition("=")
        pd[k] = v
    return evs, pd


def parse_cfg(line):
    d = dict(proto=4, clean=1, N=20, M=0, manual=0, rof=1, ext=0, ka=60, sup=0)
    for w in line.split()[1:]:
        k, _, v = w.partition("=")
        d[k] = int(v)
    return d


def connect_level(p: bytes) -> int:
    """protocol level byte of a CONNECT packet (so that the strict decoder checks it against itself)"""
    try:
        _, pos = wire.vbi_dec(p, 1)
        n = (p[pos] << 8) | p[pos + 1]
        return p[pos + 2 + n] & 0x7F
    except Exception:  # noqa: BLE001
        return 4


class Trace:
    """walks a case once and exposes, per op: events, probe, packets written (decoded), and a
    broker-conformance verdict for each delivered packet."""

    def __init__(self, case, obs):
        self.case = case
        self.cfg = parse_cfg(case[0])
        self.steps = []
        proto = self.cfg["proto"]
        buf = {}            # conn -> pending undecoded bytes
        for i, (line, o) in enumerate(zip(case, obs)):
            t = line.split()
            evs, pd = parse_obs(o)
            if "proto" in pd:
                proto = int(pd["proto"])
            items = []      # ordered: ('tx', conn, pkt) | ('ev', str)
            for e in evs:
                if e.startswith("tx"):
                    c, _, h = e[2:].partition(":")
                    c = int(c)
                    buf[c] = buf.get(c, b"") + unhx(h)
                    try:
                        pk, rest = wire.split_packets(buf[c])
                    except wire.Malformed as ex:
                        items.append(("malformed", c, str(ex)))
                        buf[c] = b""
                        continue
                    buf[c] = rest
                    for p in pk:
                        try:
                            d = wire.dec_client_packet(p, connect_level(p) if p[0] >> 4 == 1 else proto)
                        except wire.Malformed as ex:
                            items.append(("malformed", c, f"{ex}: {p[:16].hex()}"))
                            continue
                        except Exception as ex:  # noqa: BLE001
                            items.append(("malformed", c, f"{type(ex).__name__}: {p[:16].hex()}"))
                            continue
                        items.append(("tx", c, d))
                else:
                    items.append(("ev", e))
            self.steps.append({"i": i, "t": t, "items": items, "p": pd, "evs": evs})


def mon_C10(stream, case, obs):
    tr = Trace(case, obs)
    hits = []
    accepted = set()         # connections whose CONNACK was accepted
    disc_called = set()      # connections on which disconnect() was called
    first_tx = {}
    connects = {}
    after_disc = set()
    cur = 0
    for st in tr.steps:
        t, p = st["t"], st["p"]
        i = st["i"]
        if t[0] == "cfg":
            continue
        sock_before = cur
        if t[0] == "disconnect" and sock_before:
            disc_called.add(sock_before)
        closed = []
        ndisc = []
        for it in st["items"]:
            if it[0] == "ev":
                e = it[1]
                if e.startswith("sclose"):
                    closed.append(int(e[6:]))
                elif e.startswith("on_disconnect"):
                    ndisc.append(e)
                elif e.startswith("on_connect:"):
                    pass
            elif it[0] == "tx":
                c, d = it[1], it[2]
                if c not in first_tx:
                    first_tx[c] = d["type"]
                    if d["type"] != "CONNECT":
                        hits.append((i, "connect-first", f"first packet on connection {c} is {d['type']}"))
                if d["type"] == "CONNECT":
                    connects[c] = connects.get(c, 0) + 1
                    if connects[c] > 1:
                        hits.append((i, "one-connect", f"second CONNECT on connection {c}"))
                if c in after_disc:
                    hits.append((i, "after-disconnect", f"{d['type']} written after DISCONNECT on connection {c}"))
                if d["type"] == "DISCONNECT":
                    after_disc.add(c)
            elif it[0] == "malformed":
                hits.append((i, "malformed", f"client wrote a malformed packet on {it[1]}: {it[2]}"))
        if t[0] == "rx" and t[1] == "connack" and int(t[3]) == 0 and sock_before and not any(x.startswith("exc") for x in st["evs"]):
            accepted.add(sock_before)
        cur = int(p.get("sock", "0"))
        # (a) is_connected soundness
        if p.get("st") == "connected":
            if cur == 0:
                hits.append((i, "connected-no-socket", "is_connected() is true while the client holds no socket"))
            elif cur not in accepted:
                hits.append((i, "connected-no-connack", f"is_connected() is true on connection {cur} without an accepted CONNACK"))
        # (b) exactly one on_disconnect per ended connection, none for a replacement
        replacing = t[0] in ("connect", "reconnect", "connect_async")
        downgrade = (t[0] == "rx" and t[1] == "connack" and "on_pre_connect" in st["evs"])
        for c in closed:
            if replacing or downgrade:
                if ndisc:
                    hits.append((i, "disconnect-on-replace", f"on_disconnect during {t[0]} replacing connection {c}: {ndisc}"))
            else:
                if len(ndisc) != 1:
                    hits.append((i, "disconnect-count", f"connection {c} ended by '{' '.join(t[:3])}' produced {len(ndisc)} on_disconnect calls: {ndisc}"))
                else:
                    _, rc, fb = ndisc[0].split(":")
                    if fb == "0":
                        want0 = c in disc_called
                        if (int(rc) == 0) != want0:
                            hits.append((i, "disconnect-rc", f"connection {c}: on_disconnect rc={rc}, disconnect() called={want0}"))
        if not closed and ndisc and not (replacing or downgrade):
            hits.append((i, "disconnect-without-close", f"on_disconnect {ndisc} although no connection ended in '{' '.join(t[:3])}'"))
    return hits


def mon_C16(stream, case, obs):
    tr = Trace(case, obs)
    if not tr.cfg["ext"]:
        return []
    hits = []
    open_sock = None
    closed_socks = set()
    reg = False
    for st in tr.steps:
        i, p = st["i"], st["p"]
        for it in st["items"]:
            if it[0] != "ev":
                continue
            e = it[1]
            if e.startswith("open"):
                c = int(e[4:])
                if open_sock is not None:
                    hits.append((i, "open-while-open", f"on_socket_open({c}) while {open_sock} is open"))
                if c in closed_socks:
                    hits.append((i, "reopen", f"socket {c} opened twice"))
                open_sock = c
                reg = False
            elif e.startswith("close"):
                c = int(e[5:])
                if open_sock != c:
                    hits.append((i, "close-mismatch", f"on_socket_close({c}) but open socket is {open_sock}"))
                if reg:
                    hits.append((i, "close-while-registered", f"socket {c} closed with a write registration outstanding"))
                open_sock = None
                closed_socks.add(c)
            elif e.startswith("regw"):
                c = int(e[4:])
                if reg:
                    hits.append((i, "double-register", f"register_write({c}) twice"))
                if open_sock != c:
                    hits.append((i, "register-outside", f"register_write({c}) while open socket is {open_sock}"))
                reg = True
            elif e.startswith("unregw"):
                c = int(e[6:])
                if not reg:
                    hits.append((i, "unregister-without-register", f"unregister_write({c}) without registration"))
                if open_sock != c:
                    hits.append((i, "unregister-outside", f"unregister_write({c}) while open socket is {open_sock}"))
                reg = False
            elif e.startswith("sclose"):
                c = int(e[6:])
                if open_sock == c:
                    hits.append((i, "closed-without-callback", f"socket {c} closed without on_socket_close"))
        if st["t"][0] == "cfg":
            continue
        if p.get("sock", "0") != "0" and p.get("ww") == "1" and not reg:
            hits.append((i, "lost-wakeup", "control returned with an open socket, unsent data and no write registration"))
        if (p.get("sock", "0") != "0") != (open_sock is not None):
            hits.append((i, "socket-vs-callbacks", f"socket()={p.get('sock')} but callbacks say open={open_sock}"))
    return hits


class OutTracker:
    """independent bookkeeping of outgoing QoS 1/2 messages from ops, returns and decoded wire bytes"""

    def __init__(self, cfg):
        self.cfg = cfg
        self.live = {}        # mid -> dict(qos, seq, rec(bool), carried(set conns), handed(set), done)
        self.seq = 0
        self.conforming = True
        self.why = ""

    def persistent(self):
        return self.cfg["clean"] == 0 if self.cfg["proto"] != 5 else self.cfg["clean"] in (0, 3)


def mon_out(stream, case, obs, want):
    """shared walker for C01 / C02 / C12 / C13. `want` selects which clauses are reported."""
    tr = Trace(case, obs)
    cfg = tr.cfg
    N, M = cfg["N"], cfg["M"]
    hits = []
    live = {}          # mid -> record
    seq = 0
    cur = 0
    conforming = True
    on_pub_count = {}
    sent_on = {}       # conn -> list of (kind, mid, seq) in write order
    conn_open_seq = {}  # conn -> seq counter value when it was opened
    first_connect_done = False
    clean_now = True
    persistent_v5 = cfg["proto"] == 5 and cfg["clean"] in (0, 3)
    conn_clean = {}    # conn -> clean flag of the CONNECT written on it
    info_rec = []      # one entry per publish() call, in order: None (QoS 0 / refused) or {"mid", "done"}
    for st in tr.steps:
        i, t, p = st["i"], st["t"], st["p"]
        if t[0] == "cfg":
            continue
        sock_before = cur
        seq_at_start = seq
        # --- broker packet conformance (protocol: an ack answers a packet written on this connection)
        if t[0] == "rx" and t[1] in ("puback", "pubrec", "pubcomp") and conforming:
            m = int(t[2])
            r = live.get(m)
            if r is not None:
                wr = r["wire"].get(sock_before, set())
                ok = ((t[1] == "puback" and r["qos"] == 1 and "PUBLISH" in wr) or
                      (t[1] == "pubrec" and r["qos"] == 2 and "PUBLISH" in wr) or
                      (t[1] == "pubcomp" and r["qos"] == 2 and "PUBREL" in wr))
                if not ok:
                    conforming = False
        if t[0] == "rx" and t[1] == "pubrec" and conforming:
            m = int(t[2])
            if m in live and live[m]["qos"] == 2:
                live[m]["rec"] = True
        final = None
        if t[0] == "rx" and t[1] in ("puback", "pubcomp") and conforming:
            m = int(t[2])
            if m in live:
                final = m
        # --- publish op
        accepted_now = None
        if t[0] == "publish":
            q = int(t[1])
            ret = [e for e in st["evs"] if e.startswith("ret:")]
            if ret:
                _rc0 = int(ret[0].split(":")[1])
                info_rec.append({"mid": int(ret[0].split(":")[2]), "done": False} if q > 0 and _rc0 in (0, 4) else None)
            if ret and q > 0:
                _, rc, mid = ret[0].split(":")
                rc, mid = int(rc), int(mid)
                outstanding = len(live)
                if rc in (0, 4, 7):
                    if "queue" in want and conforming and M > 0 and outstanding >= M:
                        hits.append((i, "queue-bound-accept", f"publish accepted with {outstanding} outstanding, max_queued={M}"))
                    seq += 1
                    live[mid] = {"qos": q, "seq": seq, "rec": False, "wire": {}, "full": set(), "handed": set(),
                                 "first_conn": None, "topic": t[2], "payload": t[3]}
                    on_pub_count[seq] = 0
                    accepted_now = mid
                    if rc != 4 and sock_before:
                        for x in p.get("out", "[]").strip("[]").split(","):
                            if x and x.split(".")[0] == str(mid) and x.split(".")[1] in ("wpa", "wprec"):
                                live[mid]["handed"].add(sock_before)
                elif rc == 15:
                    if "queue" in want and conforming and not (M > 0 and outstanding >= M) and mid not in live:
                        hits.append((i, "queue-bound-refuse", f"publish refused with MQTT_ERR_QUEUE_SIZE at {outstanding} outstanding, max_queued={M}"))
                    if "queue" in want and any(it[0] == "tx" for it in st["items"]):
                        hits.append((i, "refuse-not-atomic", "a refused publish wrote to the transport"))
        # --- events in order
        for it in st["items"]:
            if it[0] == "tx":
                c, d = it[1], it[2]
                if d["type"] == "CONNECT":
                    sent_on.setdefault(c, [])
                    conn_clean[c] = bool(d.get("clean"))
                    if conn_clean[c]:
                        # a clean start discards the broker's half of every exchange: PUBRECs seen before do not count
                        for r_ in live.values():
                            r_["rec"] = False
                conn_open_seq.setdefault(c, seq_at_start)
                if d["type"] in ("PUBLISH", "PUBREL") and d.get("mid") in live and (d["type"] == "PUBREL" or d["qos"] > 0):
                    m = d["mid"]
                    r = live[m]
                    kind = d["type"]
                    if kind == "PUBLISH":
                        # C02: never PUBLISH again after PUBREC (persistent session)
                        # the session continues on this connection iff its CONNECT asked for that (clean flag 0): with
                        # MQTT 5 "clean start on the first connect only" that is known only from the packet itself
                        persistent = not conn_clean.get(c, (cfg["clean"] != 0) if cfg["proto"] != 5 else (cfg["clean"] not in (0, 3)))
                        if "republish" in want and conforming and r["rec"] and persistent:
                            hits.append((i, "publish-after-pubrec", f"PUBLISH mid={m} written on connection {c} after its PUBREC was received"))
                        if "dup" in want and conforming:
                            earlier_full = [x for x in r["full"] if x < c]
                            if earlier_full and not d["dup"]:
                                hits.append((i, "dup-missing", f"PUBLISH mid={m} re-sent on connection {c} with DUP=0 (carried in full on {earlier_full})"))
                            if not (r["handed"] - {c}) and not r["full"] and d["dup"]:
                                hits.append((i, "dup-on-first", f"PUBLISH mid={m} has DUP=1 on connection {c} although it was never handed to a connection before"))
                        r["full"].add(c)
                        r["handed"].add(c)
                    newly = not r["wire"].get(c)
                    r["wire"].setdefault(c, set()).add(kind)
                    sent_on.setdefault(c, []).append((kind, m, r["seq"]))
                    # C12 window: messages with PUBLISH/PUBREL on this connection and not finally acked
                    if "window" in want and N > 0 and newly and conforming:
                        n_in = sum(1 for x in live.values() if x["wire"].get(c))
                        if n_in > N:
                            at_connack = t[0] == "rx" and t[1] == "connack"
                            hits.append((i, "window-at-connack" if at_connack else "window",
                                         f"{n_in} messages in flight on connection {c} with max_inflight={N}"
                                         + (" (retransmission after CONNACK ignores the window)" if at_connack else "")))
                    # C13: no message is overtaken - when a message is first written on a connection, every live message that
                    # was accepted earlier and belongs to the same class (accepted before / after the connection was opened)
                    # has been written on it already
                    if "order" in want and conforming and newly and kind == "PUBLISH":
                        old_cls = r["seq"] <= conn_open_seq.get(c, 0)
                        skipped = [m_ for m_, x in live.items() if x["seq"] < r["seq"] and not x["wire"].get(c)
                                   and (x["seq"] <= conn_open_seq.get(c, 0)) == old_cls]
                        if skipped:
                            hits.append((i, "order-skipped", f"PUBLISH mid={m} first written on connection {c} while the earlier "
                                         f"message(s) {sorted(skipped)} have not been transmitted on it"))
                    # C13 order (judged only while the broker conforms: an acknowledgement for something it was never sent on
                    # this connection - e.g. scripted for a connection the application has meanwhile replaced from inside
                    # on_disconnect - makes the client answer out of turn, which is the broker's doing)
                    if "order" in want and conforming:
                        seqs_new = [s_ for (k_, m_, s_) in sent_on[c] if k_ == "PUBLISH" and s_ > conn_open_seq.get(c, 0)]
                        firsts = []
                        for s_ in seqs_new:
                            if s_ not in firsts:
                                firsts.append(s_)
                        if firsts != sorted(firsts):
                            hits.append((i, "order-new", f"first PUBLISH of messages accepted on connection {c} out of publish() order: {firsts}"))
                        old = []
                        for (k_, m_, s_) in sent_on[c]:
                            if s_ <= conn_open_seq.get(c, 0) and s_ not in old:
                                old.append(s_)
                        if old != sorted(old):
                            hits.append((i, "order-retransmit", f"retransmission on connection {c} out of publish() order: {old}"))
                if d["type"] == "PUBLISH" and d["qos"] == 0 and d["dup"] and "dup" in want:
                    hits.append((i, "dup-qos0", "QoS 0 PUBLISH with DUP=1"))
            elif it[0] == "ev":
                e = it[1]
                if e.startswith("sopen"):
                    # messages accepted earlier in this very step (a publish from inside on_pre_connect) precede the connection
                    conn_open_seq.setdefault(int(e[5:]), seq)
                    continue
                if e.startswith("cbpub:"):
                    # publish() called by the application from inside on_publish (stream `reentry`)
                    _, q_, rc_, mid_ = e.split(":")
                    q_, rc_, mid_ = int(q_), int(rc_), int(mid_)
                    info_rec.append({"mid": mid_, "done": False} if q_ > 0 and rc_ in (0, 4) else None)
                    if q_ > 0 and rc_ in (0, 4, 7):
                        seq += 1
                        live[mid_] = {"qos": q_, "seq": seq, "rec": False, "wire": {}, "full": set(), "handed": set(),
                                      "first_conn": None, "topic": "63622f74", "payload": "6362"}
                        on_pub_count[seq] = 0
                    continue
                if e.startswith("on_publish:"):
                    m = int(e.split(":")[1])
                    if m in live:
                        s_ = live[m]["seq"]
                        on_pub_count[s_] += 1
                        if "once" in want and conforming:
                            if final != m:
                                hits.append((i, "on-publish-early", f"on_publish({m}) without its final acknowledgement ({' '.join(t[:3])})"))
                            if on_pub_count[s_] > 1:
                                hits.append((i, "on-publish-twice", f"on_publish({m}) fired {on_pub_count[s_]} times"))
                        if final == m:
                            done_rec = live.pop(m)      # completed: its window slot is free from here on
                            final_done = True
                            for r_ in info_rec:
                                if r_ and r_["mid"] == m and not r_["done"]:
                                    r_["done"] = True
                                    break
        if final is not None and final in live:
            for r_ in info_rec:
                if r_ and r_["mid"] == final and not r_["done"]:
                    r_["done"] = True
                    break
            r = live[final]
            if "once" in want and conforming and sock_before:
                hits.append((i, "on-publish-missing", f"final ack for mid={final} delivered on connection {sock_before}, on_publish did not fire"))
            del live[final]
        cur = int(p.get("sock", "0"))
        if cur and cur != sock_before:
            conn_open_seq.setdefault(cur, seq_at_start)
        # "handed to a connection": the client regards the message as sent on the current socket
        hc = cur or sock_before
        if hc:
            for x in p.get("out", "[]").strip("[]").split(","):
                if x:
                    m_, st_, _ = x.split(".")
                    if int(m_) in live and st_ in ("wpa", "wprec", "wpcomp"):
                        live[int(m_)]["handed"].add(hc)
        # MQTTMessageInfo of a QoS 1/2 message reports published exactly from its final acknowledgement on
        if "once" in want and conforming and p.get("infos"):
            flags = p["infos"].split(",")
            for k_, r_ in enumerate(info_rec):
                if r_ is None or k_ >= len(flags):
                    continue
                pub_ = flags[k_].endswith("+")
                if pub_ and not r_["done"]:
                    hits.append((i, "info-published-early", f"MQTTMessageInfo of mid={r_['mid']} (publish #{k_ + 1}) reports published before the broker's final acknowledgement"))
                    r_["done"] = True       # report once
                elif r_["done"] and not pub_ and sock_before:
                    hits.append((i, "info-not-published", f"mid={r_['mid']} (publish #{k_ + 1}) was finally acknowledged but its MQTTMessageInfo does not report published"))
                    info_rec[k_] = None
        # ownership: every live message is still held by the client
        if "own" in want and conforming:
            held = {int(x.split(".")[0]) for x in p.get("out", "[]").strip("[]").split(",") if x}
            for m in live:
                if m not in held:
                    hits.append((i, "lost-message", f"accepted message mid={m} is no longer owned by the client before its final acknowledgement"))
        # retransmission on a re-established connection, window permitting
        if "retx" in want and conforming and t[0] == "rx" and t[1] == "connack" and int(t[3]) == 0 and cur and cur == sock_before \
                and not any(x.startswith("exc") or x.startswith("on_disconnect") for x in st["evs"]):
            pending = sorted(live.values(), key=lambda x: x["seq"])
            sent_now = [x for x in pending if x["wire"].get(cur)]
            if N == 0:
                need = len(pending)
            else:
                need = min(N, len(pending))
            # (a message whose PUBLISH sits in the outgoing queue behind a blocked socket is in progress, not missing)
            if len(sent_now) < need and p.get("ww") == "0":
                hits.append((i, "retransmit-missing", f"CONNACK accepted on connection {cur}: {len(sent_now)} of {len(pending)} pending messages (re)transmitted, window={N}"))
        # ... and afterwards: a message accepted before this connection was opened is not left untransmitted on it while
        # the window has room (C01: 'transmitted again as soon as the in-flight window admits it'; C13: 'all messages
        # accepted before a connection was opened are (re)transmitted on it')
        if ("retx" in want or "order" in want) and conforming and p.get("st") == "connected" and cur and cur == sock_before \
                and t[0] not in ("send",) and p.get("ww") == "0" and not (t[0] == "rx" and t[1] == "connack") \
                and not any(x.startswith("exc") for x in st["evs"]):
            inwin = sum(1 for x in live.values() if x["wire"].get(cur))
            old_waiting = [m_ for m_, x in live.items() if not x["wire"].get(cur) and x["seq"] <= conn_open_seq.get(cur, 0)]
            if old_waiting and (N == 0 or inwin < N):
                hits.append((i, "retransmit-stuck", f"message(s) {sorted(old_waiting)} accepted before connection {cur} was opened are not "
                             f"(re)transmitted on it although only {inwin} of {N} window slots are used"))
        # no idle slot on an established connection
        if "idle" in want and conforming and N > 0 and p.get("st") == "connected" and cur:
            inwin = sum(1 for x in live.values() if x["wire"].get(cur))
            waiting = [x for x in live.values() if not x["wire"].get(cur)]
            if waiting and inwin < N and t[0] not in ("send",) and p.get("ww") == "0":
                hits.append((i, "idle-slot", f"{len(waiting)} accepted message(s) waiting while only {inwin} of {N} window slots are used"))
    return hits


def mon_C01(stream, case, obs):
    return mon_out(stream, case, obs, {"once", "own", "retx"})


def mon_C02(stream, case, obs):
    return mon_out(stream, case, obs, {"republish", "dup"})


def mon_C12(stream, case, obs):
    # (release in publish() order is part of C12's statement as well as of C13's)
    return mon_out(stream, case, obs, {"window", "queue", "idle", "order"})


def mon_C13(stream, case, obs):
    return mon_out(stream, case, obs, {"order"})


def mon_C03(stream, case, obs):
    tr = Trace(case, obs)
    cfg = tr.cfg
    hits = []
    stored = set()     # inbound QoS 2 ids received and not yet released (monitor's own view)
    allowed = []       # (kind, mid) acknowledgements the application asked for with ack()
    clean = (cfg["clean"] == 1) if cfg["proto"] != 5 else None
    first_v5 = True
    cur = 0
    for st in tr.steps:
        i, t, p = st["i"], st["t"], st["p"]
        if t[0] == "cfg":
            continue
        sock_before = cur
        evs = st["evs"]
        txs = [(it[1], it[2]) for it in st["items"] if it[0] == "tx"]
        msgs = [e for e in evs if e.startswith("on_message:")]
        raised = any(e.startswith("exc:RuntimeError") for e in evs)
        acks = [d for _, d in txs if d["type"] in ("PUBACK", "PUBCOMP")]
        if cfg["manual"]:
            if t[0] == "ack":
                allowed.append(("PUBACK" if t[2] == "1" else "PUBCOMP", int(t[1])))
            for d in acks:
                key = (d["type"], d["mid"])
                if key in allowed:
                    allowed.remove(key)
                else:
                    hits.append((i, "manual-ack", f"{d['type']} mid={d['mid']} written without a matching ack() call although manual_ack is on"))
        if t[0] == "rx" and t[1] == "publish" and sock_before and p.get("sock") != "0" or (t[0] == "rx" and t[1] == "publish" and sock_before):
            q, mid = int(t[2]), int(t[3])
            if cfg["proto"] != 5 and t[6] == "-":
                pass       # empty topic: protocol error in v3
            elif q == 2:
                if not any(d["type"] == "PUBREC" and d["mid"] == mid for _, d in txs) and p.get("ww") == "0" and p.get("sock") != "0":
                    hits.append((i, "pubrec-missing", f"inbound QoS 2 PUBLISH mid={mid} not answered with PUBREC"))
                if msgs:
                    hits.append((i, "qos2-early", f"on_message at PUBLISH time for QoS 2 mid={mid}"))
                stored.add(mid)
            elif q == 1:
                if len(msgs) != 1:
                    hits.append((i, "qos1-count", f"inbound QoS 1 PUBLISH delivered {len(msgs)} times"))
                # order: PUBACK after the callback, never when the exception propagated
                items = st["items"]
                idx_cb = next((k for k, it in enumerate(items) if it[0] == "ev" and it[1].startswith("on_message:")), None)
                idx_ack = next((k for k, it in enumerate(items) if it[0] == "tx" and it[2]["type"] == "PUBACK"), None)
                if idx_ack is not None and (idx_cb is None or idx_ack < idx_cb):
                    hits.append((i, "puback-before-callback", "PUBACK written before on_message returned"))
                if raised and idx_ack is not None:
                    hits.append((i, "puback-after-raise", "PUBACK written although the callback's exception propagated"))
                if not raised and not cfg["manual"] and idx_ack is None and p.get("sock") != "0" and p.get("ww") == "0":
                    hits.append((i, "puback-missing", f"inbound QoS 1 PUBLISH mid={mid} not acknowledged"))
        elif t[0] == "rx" and t[1] == "pubrel" and sock_before:
            mid = int(t[2])
            n = len([m for m in msgs if m.split(":")[1] == str(mid) and m.split(":")[2] == "2"])
            if mid in stored:
                if n != 1:
                    hits.append((i, "qos2-count", f"PUBREL for stored mid={mid} produced {n} on_message calls"))
                stored.discard(mid)
            elif n:
                hits.append((i, "qos2-duplicate", f"PUBREL for mid={mid} (not pending) produced {n} on_message calls"))
            if not cfg["manual"] and not raised and not any(d["type"] == "PUBCOMP" and d["mid"] == mid for _, d in txs) \
                    and p.get("sock") != "0" and p.get("ww") == "0":
                hits.append((i, "pubcomp-missing", f"PUBREL mid={mid} not answered with PUBCOMP"))
        elif msgs and t[0] not in ("rx",):
            hits.append((i, "spurious-message", f"on_message during '{t[0]}'"))
        # session reset semantics
        if t[0] in ("connect", "reconnect") or (t[0] == "rx" and t[1] == "connack" and p.get("sock") not in ("0", str(sock_before))):
            if cfg["proto"] != 5:
                if cfg["clean"] == 1:
                    stored.clear()
            else:
                cs = cfg["clean"]
                if t[0] == "connect":
                    first_v5 = True
                if cs == 1 or (cs == 3 and first_v5):
                    stored.clear()
        if t[0] == "rx" and t[1] == "connack" and cfg["proto"] == 5 and not any(e.startswith("exc") for e in evs) and sock_before:
            first_v5 = False
        cur = int(p.get("sock", "0"))
        # persistent sessions keep half-received messages, clean ones forget them
        held = {int(x) for x in p.get("in", "[]").strip("[]").split(",") if x}
        if held != stored and not raised:
            hits.append((i, "in-store", f"client holds inbound QoS 2 ids {sorted(held)}, expected {sorted(stored)}"))
            stored = set(held)
    return hits


def mon_C06(stream, case, obs):
    """raw TCP: what the transport accepted is a sequence of whole, strictly decodable packets (plus at most one
    unfinished packet at the end of the stream so far); a QoS 0 publish is reported as sent only after its last
    byte was accepted; want_write() holds while a packet is unfinished."""
    cfg = parse_cfg(case[0])
    hits = []
    buf = {}          # conn -> all bytes accepted
    proto = cfg["proto"]
    q0_mids = {}      # mid -> op index of the publish call (QoS 0)
    done_q0 = set()
    cur = 0
    for i, (line, o) in enumerate(zip(case, obs)):
        t = line.split()
        if t[0] == "cfg":
            continue
        evs, pd = parse_obs(o)
        proto = int(pd.get("proto", proto))
        if t[0] == "publish" and t[1] == "0":
            ret = [e for e in evs if e.startswith("ret:")]
            if ret and ret[0].split(":")[1] == "0":
                q0_mids[int(ret[0].split(":")[2])] = i
        for k, e in enumerate(evs):
            if e.startswith("tx"):
                c, _, h = e[2:].partition(":")
                c = int(c)
                buf[c] = buf.get(c, b"") + unhx(h)
                try:
                    pk, rest = wire.split_packets(buf[c])
                    for p in pk:
                        d = wire.dec_client_packet(p, connect_level(p) if p[0] >> 4 == 1 else proto)
                        if d["type"] == "PUBLISH" and d["qos"] == 0:
                            done_q0.add(("wire", c, len(pk)))
                except wire.Malformed as ex:
                    hits.append((i, "stream-corrupt", f"bytes accepted on connection {c} are not a sequence of well-formed packets: {ex}"))
                    buf[c] = b""
            elif e.startswith("on_publish:"):
                m = int(e.split(":")[1])
                if m in q0_mids:
                    # the completing tx must precede the callback in this step or an earlier one:
                    # count complete QoS 0 PUBLISH packets on all wires so far vs callbacks so far
                    pass
        cur = int(pd.get("sock", "0"))
        if cur and cur in buf:
            try:
                pk, rest = wire.split_packets(buf[cur])
            except wire.Malformed:
                rest = b""
            if rest and pd.get("ww") != "1":
                hits.append((i, "want-write", f"connection {cur} has a partly written packet ({len(rest)} bytes of it accepted) but want_write() is false"))
        # QoS 0 completion: number of infos reported published with rc 0 never exceeds complete QoS 0 PUBLISH packets on the wires
    # global count check at the end of the history
    n_wire_q0 = 0
    for c, b in buf.items():
        try:
            pk, _ = wire.split_packets(b)
        except wire.Malformed:
            continue
        for p in pk:
            if p[0] >> 4 == 3 and ((p[0] >> 1) & 3) == 0:
                n_wire_q0 += 1
    # callbacks that belong to QoS 0 publishes: an id denotes the QoS 0 message from its publish() until its callback, or
    # until a later QoS 1/2 publish is given the same id (ids are reused after the wrap-around)
    n_cb_q0 = 0
    q0_live = set()
    for line, o in zip(case, obs):
        t = line.split()
        evs, _ = parse_obs(o)
        ret = [e for e in evs if e.startswith("ret:")]
        if t[0] == "publish" and ret and len(ret[0].split(":")) > 2:
            rc_, mid_ = ret[0].split(":")[1], int(ret[0].split(":")[2])
            if t[1] == "0" and rc_ == "0":
                q0_live.add(mid_)
            elif t[1] != "0" and rc_ in ("0", "4"):
                q0_live.discard(mid_)
        for e in evs:
            if e.startswith("on_publish:") and int(e.split(":")[1]) in q0_live:
                n_cb_q0 += 1
                q0_live.discard(int(e.split(":")[1]))
    if n_cb_q0 > n_wire_q0:
        hits.append((len(case) - 1, "qos0-early", f"{n_cb_q0} QoS 0 publishes reported as sent, only {n_wire_q0} completely written"))
    return hits


def mon_C08(stream, case, obs):
    """keep-alive, evaluated on the real client's timestamps (virtual clock): pings when idle for K, closes within the
    servicing gap after an unanswered PINGREQ is K old, never closes while PINGREQs are answered; K = 0: neither."""
    tr = Trace(case, obs)
    cfg = tr.cfg
    K = cfg["ka"] * 1000
    hits = []
    now = 0
    last_tx = {}          # conn -> time of last accepted byte
    first_tx = {}         # conn -> time of its first byte (CONNECT)
    ping_at = None        # time the outstanding PINGREQ was written (current connection)
    ping_on_wire = False
    odd_broker = False
    prev_ping = "0"
    established = False
    cur = 0
    disc_called = set()   # connections on which the application has called disconnect()
    for st in tr.steps:
        i, t, p = st["i"], st["t"], st["p"]
        if t[0] == "cfg":
            continue
        if t[0] == "tick":
            now += int(t[1])
        sock_before = cur
        if t[0] == "disconnect" and cur:
            disc_called.add(cur)
        wrote_ping = False
        disc16 = 0
        disc0 = 0
        for it in st["items"]:
            if it[0] == "tx":
                last_tx[it[1]] = now
                first_tx.setdefault(it[1], now)
                if it[2]["type"] == "PINGREQ":
                    wrote_ping = True
                    if K == 0:
                        hits.append((i, "k0-ping", "PINGREQ written although keepalive is 0"))
            elif it[0] == "ev" and it[1].startswith("sopen"):
                # the keep-alive clock of a connection starts when its socket is opened (the application may write the
                # CONNECT much later when it drives the loop itself)
                try:
                    first_tx.setdefault(int(it[1][5:]), now)
                except ValueError:
                    pass
            elif it[0] == "ev" and it[1].startswith("on_disconnect:16"):
                disc16 += 1
                if K == 0:
                    hits.append((i, "k0-timeout", "keep-alive timeout reported although keepalive is 0"))
            elif it[0] == "ev" and it[1].startswith("on_disconnect:0:0") and sock_before in disc_called:
                # the application had called disconnect() on this connection (its DISCONNECT not yet written): the connection
                # the keep-alive gives up on is reported with the result success (C10), not MQTT_ERR_KEEPALIVE
                disc0 += 1
        cur = int(p.get("sock", "0"))
        # what held on the connection this step started with (a step that closes it is judged against that)
        ping_before, est_before = ping_at, established
        if cur != sock_before:
            ping_at = None
            established = False
            ping_on_wire = False
            odd_broker = False
        if wrote_ping:
            ping_on_wire = True
        if t[0] == "rx" and t[1] == "connack" and t[3] == "0" and cur and cur == sock_before and p.get("st") == "connected":
            established = True
        if t[0] == "rx" and t[1] == "pingresp" and sock_before and cur == sock_before:
            if ping_at is None or not ping_on_wire:
                # a PINGRESP for a PINGREQ that has not left the client yet (or for none at all): the broker of this
                # run does not conform; keep-alive behaviour on this connection is not judged any further
                odd_broker = True
            ping_at = None
            ping_on_wire = False
        if K > 0 and t[0] == "loop_misc" and sock_before and not odd_broker:
            ping_at_now, ping_at = ping_at, ping_before
            established_now, established = established, est_before
            idle = now - last_tx.get(sock_before, now)
            if ping_at is not None and now - ping_at >= K:
                # dead peer: must close now, report once, non-zero result
                if cur == sock_before:
                    hits.append((i, "timeout-missed", f"PINGREQ unanswered for {now - ping_at} ms (K={K}) and loop_misc() kept the connection"))
                elif disc16 + disc0 != 1:
                    hits.append((i, "timeout-report", f"keep-alive timeout reported {disc16 + disc0} times through on_disconnect"))
                elif not any(e.startswith("ret:") and e != "ret:0" for e in st["evs"]) or p.get("st") == "connected":
                    hits.append((i, "timeout-result", f"keep-alive timeout: loop_misc result {st['evs']} state {p.get('st')}"))
            elif disc16 and established:
                # (no PINGREQ written on this connection has been unanswered for K)
                hits.append((i, "spurious-timeout", f"connection closed for keep-alive although no PINGREQ was unanswered for K on it (outstanding since {ping_at}, now {now})"))
            elif disc16 and not established and ping_at is None and sock_before in first_tx and now - first_tx[sock_before] < K:
                # a connection still waiting for its CONNACK, younger than K, on which no PINGREQ was ever written
                hits.append((i, "spurious-timeout", f"connection opened {now - first_tx[sock_before]} ms ago (K={K}), no PINGREQ written on it, was closed for keep-alive"))
            elif established and ping_at is None and idle >= K and p.get("st") in ("connected", "lost", "disconnected", "disconnecting"):
                blocked = p.get("ww") == "1"
                if not wrote_ping and not blocked and cur == sock_before:
                    hits.append((i, "ping-missed", f"idle for {idle} ms >= K={K} on an established connection and no PINGREQ was written"))
            ping_at, established = ping_at_now, established_now
        # a PINGREQ counts as outstanding from the moment the client hands it to the transport - or queues it behind
        # data the application has not flushed yet (external loop / blocked socket): `ping` 0 -> 1 in the probe
        queued_ping = t[0] == "loop_misc" and prev_ping == "0" and p.get("ping") == "1"
        if (wrote_ping or queued_ping) and cur == sock_before and ping_at is None:
            ping_at = now
        prev_ping = p.get("ping", "0")
    return hits


def mon_C14(stream, case, obs):
    """packet ids on the session level: every id handed out lies in 1..65535 and an accepted QoS 1/2 publish never gets
    an id that still belongs to a message the client owns (accepted, final acknowledgement not yet seen)"""
    tr = Trace(case, obs)
    hits = []
    live = set()
    for st in tr.steps:
        i, t, p = st["i"], st["t"], st["p"]
        if t[0] == "cfg":
            continue
        owned = {int(x.split(".")[0]) for x in p.get("out", "[]").strip("[]").split(",") if x}
        if t[0] in ("publish", "subscribe", "unsubscribe"):
            ret = [e for e in st["evs"] if e.startswith("ret:")]
            if ret and len(ret[0].split(":")) > 2:
                rc, mid = int(ret[0].split(":")[1]), int(ret[0].split(":")[2])
                if not 1 <= mid <= 65535:
                    hits.append((i, "mid-range", f"{t[0]}() returned packet id {mid}"))
                if t[0] == "publish" and int(t[1]) > 0 and rc in (0, 4):
                    if mid in live:
                        hits.append((i, "mid-shared", f"publish() accepted a QoS {t[1]} message with packet id {mid}, which still belongs to an unacknowledged message"))
                    live.add(mid)
        # ids leave `live` when the client no longer owns the message
        live &= owned
    return hits


def mon_C18(stream, case, obs):
    """API calls made from inside a callback (stream `reentry`): the enclosing network-loop call must not fail with an
    internal error, and what the nested call queued is written by the enclosing or the next loop call while the socket
    accepts data"""
    tr = Trace(case, obs)
    hits = []
    scripted_raise = 0
    for st in tr.steps:
        i, t, p = st["i"], st["t"], st["p"]
        if t[0] == "raise_on_message":
            scripted_raise += int(t[1])
            continue
        nested = [e for e in st["evs"] if e.startswith(("cbpub:", "cbsub:", "cbunsub:"))]
        excs = [e for e in st["evs"] if e.startswith("exc:")]
        if any(e.startswith("on_message") for e in st["evs"]) and scripted_raise > 0 and excs:
            scripted_raise -= 1
            continue
        if nested and excs and t[0] in ("connect", "reconnect") and len(t) > 1 and t[1] == "refuse" \
                and excs[0] in ("exc:ConnectionRefusedError", "exc:OSError"):
            continue        # connect()/reconnect() raise what the socket layer raised: not caused by the call in on_pre_connect
        if nested and excs:
            hits.append((i, "nested-call-exception", f"{' '.join(t[:3])}: {excs[0]} left the network loop after the application called {nested[0].split(':')[0][2:]}() inside a callback"))
    return hits


def mon_C19(stream, case, obs):
    """a rejected publish()/subscribe()/unsubscribe() has no other effect: nothing written, queued or stored, no state retained
    (read-only probe before = after); and a call with allowed arguments is not rejected"""
    hits = []
    cfg = parse_cfg(case[0])
    for i, (line, o) in enumerate(zip(case, obs)):
        t = line.split()
        if t[0] not in ("publish", "subscribe", "unsubscribe") or i == 0:
            continue
        evs, pd = parse_obs(o)
        _, before = parse_obs(obs[i - 1])
        raised = [e for e in evs if e.startswith("exc:")]
        if t[0] == "publish":
            topic, qos = unhx(t[2]), int(t[1])
            bad = b"+" in topic or b"#" in topic or not 0 <= qos <= 2 or len(topic) > 65535 or (len(topic) == 0 and int(pd.get("proto", cfg["proto"])) != 5)
        elif t[0] == "subscribe":
            bad = not wire.valid_filter(unhx(t[1])) or not 0 <= int(t[2]) <= 2
        else:
            bad = len(unhx(t[1])) == 0
        if bad:
            if raised != ["exc:ValueError"]:
                hits.append((i, "not-rejected", f"{line[:60]}: invalid argument, expected ValueError, got {evs[:4]}"))
            if len(evs) != len(raised) or before != pd:
                diff = {k: (before.get(k), pd.get(k)) for k in pd if before.get(k) != pd.get(k)}
                hits.append((i, "reject-not-atomic", f"{line[:60]}: rejected call left a trace: events {evs[:4]}, state changes {diff}"))
        elif raised and raised[0] in ("exc:ValueError", "exc:TypeError"):
            hits.append((i, "valid-rejected", f"{line[:60]}: allowed arguments rejected with {raised[0]}"))
    return hits


MONITORS = {"C19": mon_C19, "C18": mon_C18, "C14": mon_C14, "C06": mon_C06, "C08": mon_C08, "C01": mon_C01, "C02": mon_C02, "C03": mon_C03, "C10": mon_C10, "C12": mon_C12, "C13": mon_C13, "C16": mon_C16}
