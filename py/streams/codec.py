"""T2 stream `codec` (C04): packets emitted by the real client for generated API arguments vs the Lean
encoders; monitor = strict independent decoder (wire.py) recovering exactly the supplied values."""
from __future__ import annotations

import wire
from common import hx, unhx
from harness import PROTO, V2, feed_pkt
from streams.props import ID_OF, NAME_OF, rand_val, to_py
from world import World, name_locks, pc, raw

from paho.mqtt.packettypes import PacketTypes
from paho.mqtt.properties import Properties
from paho.mqtt.reasoncodes import ReasonCode
from paho.mqtt.subscribeoptions import SubscribeOptions

UNI = ["a", "t/é", "😀", "x" * 30, "$SYS/a", "ÿ/b", "topic"]


def kv(words):
    d = {}
    for w in words:
        k, _, v = w.partition("=")
        d[k] = v
    return d


def mk_props(pt, spec):
    if spec in ("-", "none"):
        return None
    p = Properties(pt)
    if spec == "empty":
        return p
    for item in spec.split(","):
        name, v = item.split("~")
        if v.startswith("["):
            setattr(p, name, [to_py(name, x) for x in v[1:-1].split("|")])
        else:
            setattr(p, name, to_py(name, v))
    return p


def rand_props(rng, pt, allow_bad=True):
    r = rng.random()
    if r < 0.35:
        return "-"
    if r < 0.42:
        return "empty"
    allowed = [i for i, (_, pk) in wire.PROPS.items() if pt in pk]
    items = []
    used = set()
    for _ in range(rng.randint(1, 4)):
        pid = rng.choice(allowed)
        if pid in used and pid not in wire.REPEATABLE:
            continue
        used.add(pid)
        v = rand_val(rng, pid)
        if not allow_bad:
            v = v
        if pid in wire.REPEATABLE and rng.random() < 0.3:
            items.append(f"{NAME_OF[pid]}~[{rand_val(rng, pid)}|{rand_val(rng, pid)}]")
        else:
            items.append(f"{NAME_OF[pid]}~{v}")
    return ",".join(items) if items else "empty"


def opt_hex(b):
    return "~" if b is None else hx(b)


def props_raw(pl):
    """raw body of a decoded property block (re-encoded canonically)"""
    if pl is None:
        return None
    enc = wire.props_enc(pl)
    _, pos = wire.vbi_dec(enc, 0)
    return enc[pos:]


def show_packet(d) -> str:
    """same canonical rendering as Paho.Driver.Codec.showPacket, computed from wire.py's decoder"""
    b = lambda x: "true" if x else "false"   # noqa: E731
    ty = d["type"]
    if ty == "CONNECT":
        w = d["will"]
        ws = "~" if w is None else f"({hx(w['topic'])} {hx(w['payload'])} {w['qos']} {b(w['retain'])} {opt_hex(props_raw(w.get('props')))})"
        return (f"CONNECT {d['proto']} {b(d['bridge'])} {b(d['clean'])} {d['keepalive']} {hx(d['client_id'])} {ws} "
                f"{opt_hex(d['username'])} {opt_hex(d['password'])} {opt_hex(props_raw(d.get('props')))}")
    if ty == "PUBLISH":
        return (f"PUBLISH {b(d['dup'])} {d['qos']} {b(d['retain'])} {hx(d['topic'])} {d['mid'] or 0} "
                f"{opt_hex(props_raw(d.get('props')))} {hx(d['payload'])}")
    if ty in ("PUBACK", "PUBREC", "PUBREL", "PUBCOMP"):
        return f"ACK {d['ptype']} {d['mid']}"
    if ty == "SUBSCRIBE":
        def o(x):
            return x if isinstance(x, int) else (x["rh"] << 4) | (int(x["rap"]) << 3) | (int(x["nl"]) << 2) | x["qos"]
        return f"SUBSCRIBE {d['mid']} {opt_hex(props_raw(d.get('props')))} " + ",".join(f"{hx(t)}:{o(x)}" for t, x in d["filters"])
    if ty == "UNSUBSCRIBE":
        return f"UNSUBSCRIBE {d['mid']} {opt_hex(props_raw(d.get('props')))} " + ",".join(hx(t) for t in d["filters"])
    if ty == "DISCONNECT":
        return f"DISCONNECT {'~' if d.get('rc') is None else d['rc']} {opt_hex(props_raw(d.get('props')))}"
    return ty


def show_dec(proto, b: bytes) -> str:
    try:
        pk, rest = wire.split_packets(b)
        if rest or len(pk) != 1:
            return " dec=TRAILING"
        return " dec=" + show_packet(wire.dec_client_packet(pk[0], proto))
    except wire.Malformed:
        return " dec=REJECT"


def show_bytes(b: bytes, proto=None) -> str:
    if len(b) <= 2048:
        return "ok " + hx(b) + (show_dec(proto, b) if proto is not None else "")
    return f"ok len={len(b)} head={hx(b[:16])} tail={hx(b[-8:])}"


def excname(e):
    n = type(e).__name__
    return "struct.error" if n == "error" else n


class CodecStream:
    name = "codec"
    props = ["C04"]

    def gen(self, rng, tier):
        case = []
        for _ in range(rng.randint(3, 8)):
            r = rng.random()
            proto = rng.choice([3, 4, 4, 5, 5, 5])
            if r < 0.3:
                a = dict(proto=proto, bridge=int(rng.random() < 0.2), ka=rng.choice([0, 1, 60, 65535, 65536, 300]),
                         cid=hx(rng.choice(["cid", "é😀", "c" * 23, "x"] + ([""] if proto != 3 else []))))
                if proto == 5:
                    cs = rng.choice([0, 1, 3])
                    a["cs"] = cs
                    a["clean"] = int(cs in (1, 3))
                    a["props"] = rand_props(rng, 1)
                else:
                    a["clean"] = rng.randrange(2)
                    if a["clean"] == 0 and unhx(a["cid"]) == b"":
                        a["cid"] = hx("cid")
                if rng.random() < 0.5:
                    a["user"] = hx(rng.choice(["u", "üser", ""]))
                    if rng.random() < 0.6:
                        a["pass"] = hx(rng.choice(["p", "pässwörd", ""]))
                elif rng.random() < 0.15:
                    pass
                if rng.random() < 0.4:
                    a.update(will=1, wtopic=hx(rng.choice(UNI)), wpayload=hx(bytes(rng.randrange(256) for _ in range(rng.choice([0, 3, 20])))),
                             wqos=rng.choice([0, 1, 2]), wretain=rng.randrange(2))
                    if proto == 5:
                        a["wprops"] = rand_props(rng, 99) if rng.random() < 0.7 else "-"
                # history: the will (and credentials) were set differently before; only the last values count
                if rng.random() < 0.35:
                    a["pw"] = 1
                    if proto == 5:
                        a["pwprops"] = rng.choice(["MessageExpiryInterval~i:30", "WillDelayInterval~i:5,PayloadFormatIndicator~i:1",
                                                   "UserProperty~p:6b:76"])
                    if a.get("will") != 1 or rng.random() < 0.4:
                        a["pc"] = 1          # will_clear() in between
                    if rng.random() < 0.3:
                        a["pu"] = 1          # other credentials before
                case.append("connect " + " ".join(f"{k}={v}" for k, v in a.items()))
            elif r < 0.65:
                t = rng.choice(UNI + ([""] if proto == 5 else []))
                a = dict(proto=proto, qos=rng.choice([0, 1, 2]), retain=rng.randrange(2), topic=hx(t), mid=1)
                pt = rng.choice(["bytes", "bytes", "str", "bytearray", "int", "float", "none"])
                a["ptype"] = pt
                if pt in ("bytes", "bytearray"):
                    n = rng.choice([0, 1, 5, 100, 127 - 5, 128, 300])
                    if tier == "thorough" and rng.random() < 0.1:
                        n = rng.choice([16383 - 7, 16384, 16390])
                    a["payload"] = hx(bytes(rng.randrange(256) for _ in range(n)))
                elif pt == "str":
                    a["payload"] = hx(rng.choice(UNI + ["", "héllo wörld"]))
                elif pt == "int":
                    a["payload"] = hx(str(rng.choice([0, 42, -7, 10 ** 12])))
                elif pt == "float":
                    a["payload"] = hx(repr(rng.choice([0.5, 4.2, -1e-07, 1e+22, 3.0])))
                else:
                    a["payload"] = "-"
                if proto == 5:
                    a["props"] = rand_props(rng, 3)
                if rng.random() < 0.06:
                    # length-class boundaries of the whole packet with an all-zero payload
                    target = rng.choice([127, 128, 16383, 16384] + ([2097151, 2097152] if tier == "thorough" else []))
                    over = 2 + len(t.encode()) + (2 if a["qos"] else 0) + (1 if proto == 5 else 0)
                    a.pop("payload")
                    a["ptype"] = "bytearray"
                    a["props"] = "-"
                    a["zeros"] = max(0, target - over)
                case.append("publish " + " ".join(f"{k}={v}" for k, v in a.items()))
            elif r < 0.8:
                n = rng.randint(1, 3)
                fl = []
                for _ in range(n):
                    f = rng.choice(["a/#", "+/b", "#", "t/é", "x", "$SYS/#", "a/+/c"])
                    if proto == 5:
                        o = (rng.choice([0, 1, 2]) << 4) | (rng.randrange(2) << 3) | (rng.randrange(2) << 2) | rng.choice([0, 1, 2])
                    else:
                        o = rng.choice([0, 1, 2])
                    fl.append(f"{hx(f)}:{o}")
                a = dict(proto=proto, mid=1, filters=",".join(fl))
                if proto == 5:
                    a["props"] = rand_props(rng, 8)
                case.append("subscribe " + " ".join(f"{k}={v}" for k, v in a.items()))
            elif r < 0.9:
                # (an empty list: the protocol has no UNSUBSCRIBE without a topic filter - it must be refused, not written)
                fl = [hx(rng.choice(["a/#", "+/b", "t/é", "x"])) for _ in range(rng.choice([0, 1, 1, 2, 2, 3, 3, 3]))]
                a = dict(proto=proto, mid=1, filters=",".join(fl) or "-")
                if proto == 5:
                    a["props"] = rand_props(rng, 10)
                case.append("unsubscribe " + " ".join(f"{k}={v}" for k, v in a.items()))
            else:
                a = dict(proto=proto)
                if proto == 5 and rng.random() < 0.7:
                    a["rc"] = rng.choice([0, 4, 128, 142, 152])
                    if rng.random() < 0.5:
                        a["props"] = rand_props(rng, 14)
                elif proto == 5 and rng.random() < 0.3:
                    a["props"] = rand_props(rng, 14)
                case.append("disconnect " + " ".join(f"{k}={v}" for k, v in a.items()))
        return case

    @staticmethod
    def _client(proto, clean=True, cid="cid"):
        w = World()
        w.install()
        args = dict(client_id=cid, protocol=PROTO[proto])
        if proto != 5:
            args["clean_session"] = clean
        c = pc.Client(V2, **args)
        name_locks(c)
        return w, c

    @staticmethod
    def _connected(proto):
        w, c = CodecStream._client(proto)
        c.connect("broker", 1883, 60)
        s = w.cur()
        s.feed(wire.enc_connack(proto))
        c.loop_read()
        return w, c, s, len(s.wire)

    def real(self, case):
        obs = []
        for line in case:
            t = line.split()
            a = kv(t[1:])
            proto = int(a.get("proto", 4))
            try:
                if t[0] == "connect":
                    w, c = self._client(proto, clean=a.get("clean") == "1", cid=unhx(a.get("cid", "-")).decode())
                    if a.get("bridge") == "1":
                        c.enable_bridge_mode()
                    if a.get("pu") == "1":
                        c.username_pw_set("old-user", "old-password")
                        if "user" not in a:
                            c.username_pw_set(None)
                    if a.get("pw") == "1":
                        c.will_set("old/will", b"old", 1, True,
                                   mk_props(PacketTypes.WILLMESSAGE, a.get("pwprops", "-")) if proto == 5 else None)
                        if a.get("pc") == "1":
                            c.will_clear()
                    if "user" in a:
                        c.username_pw_set(unhx(a["user"]).decode(), unhx(a["pass"]).decode() if "pass" in a else None)
                    if a.get("will") == "1":
                        c.will_set(unhx(a["wtopic"]).decode(), unhx(a["wpayload"]), int(a["wqos"]), a["wretain"] == "1",
                                   mk_props(PacketTypes.WILLMESSAGE, a.get("wprops", "-")) if proto == 5 else None)
                    ka = int(a.get("ka", 60))
                    if proto == 5:
                        cs = int(a.get("cs", 3))
                        c.connect("broker", 1883, ka, clean_start=(pc.MQTT_CLEAN_START_FIRST_ONLY if cs == 3 else bool(cs)),
                                  properties=mk_props(PacketTypes.CONNECT, a.get("props", "-")))
                    else:
                        c.connect("broker", 1883, ka)
                    obs.append(show_bytes(bytes(w.cur().wire), proto))
                elif t[0] == "publish":
                    w, c, s, n0 = self._connected(proto)
                    pt = a["ptype"]
                    rawp = bytearray(int(a["zeros"])) if "zeros" in a else unhx(a.get("payload", "-"))
                    if pt == "str":
                        payload = rawp.decode()
                    elif pt == "bytearray":
                        payload = bytearray(rawp)
                    elif pt == "int":
                        payload = int(rawp.decode())
                    elif pt == "float":
                        payload = float(rawp.decode())
                    elif pt == "none":
                        payload = None
                    else:
                        payload = bytes(rawp)
                    c.publish(unhx(a["topic"]).decode(), payload, int(a["qos"]), a["retain"] == "1",
                              mk_props(PacketTypes.PUBLISH, a.get("props", "-")) if proto == 5 else None)
                    obs.append(show_bytes(bytes(s.wire[n0:]), proto))
                elif t[0] == "subscribe":
                    w, c, s, n0 = self._connected(proto)
                    fl = []
                    for e in a["filters"].split(","):
                        f, o = e.split(":")
                        o = int(o)
                        if proto == 5:
                            fl.append((unhx(f).decode(), SubscribeOptions(qos=o & 3, noLocal=bool(o & 4), retainAsPublished=bool(o & 8),
                                                                         retainHandling=(o >> 4) & 3)))
                        else:
                            fl.append((unhx(f).decode(), o))
                    c.subscribe(fl, properties=mk_props(PacketTypes.SUBSCRIBE, a.get("props", "-")) if proto == 5 else None)
                    obs.append(show_bytes(bytes(s.wire[n0:]), proto))
                elif t[0] == "unsubscribe":
                    w, c, s, n0 = self._connected(proto)
                    c.unsubscribe([unhx(f).decode() for f in a["filters"].split(",") if f != "-"],
                                  properties=mk_props(PacketTypes.UNSUBSCRIBE, a.get("props", "-")) if proto == 5 else None)
                    obs.append(show_bytes(bytes(s.wire[n0:]), proto))
                elif t[0] == "disconnect":
                    w, c, s, n0 = self._connected(proto)
                    if proto == 5:
                        rc = ReasonCode(PacketTypes.DISCONNECT, identifier=int(a["rc"])) if "rc" in a else None
                        c.disconnect(rc, mk_props(PacketTypes.DISCONNECT, a.get("props", "-")))
                    else:
                        c.disconnect()
                    obs.append(show_bytes(bytes(s.wire[n0:]), proto))
                else:
                    obs.append("bad-op")
            except Exception as e:  # noqa: BLE001
                obs.append(excname(e))
        return obs

    # ---- independent oracle: strict decode + exact recovery of supplied values
    def monitor_C04(self, case, obs):
        hits = []
        for i, (line, o) in enumerate(zip(case, obs)):
            t = line.split()
            a = kv(t[1:])
            proto = int(a.get("proto", 4))
            if not o.startswith("ok "):
                continue
            if o.startswith("ok len="):
                continue       # large packets: header class checked by the model comparison
            data = unhx(o[3:].split(" dec=")[0])
            try:
                pk, rest = wire.split_packets(data)
                if rest or len(pk) != 1:
                    hits.append((i, "framing", f"{t[0]}: emitted bytes are not exactly one packet ({len(pk)} packets, {len(rest)} trailing bytes)"))
                    continue
                d = wire.dec_client_packet(pk[0], proto)
            except wire.Malformed as e:
                hits.append((i, "malformed", f"{t[0]}: strict decoder rejects emitted packet: {e} ({data[:24].hex()})"))
                continue

            def props_of(spec, pt):
                if spec in ("-", "none", "empty"):
                    return []
                out = []
                for item in spec.split(","):
                    name, v = item.split("~")
                    vs = v[1:-1].split("|") if v.startswith("[") else [v]
                    for x in vs:
                        if x[0] == "i":
                            out.append((ID_OF[name], int(x[2:])))
                        elif x[0] == "b":
                            out.append((ID_OF[name], unhx(x[2:])))
                        else:
                            p, q = x[2:].split(":")
                            out.append((ID_OF[name], (unhx(p), unhx(q))))
                return out

            def same_props(got, spec, pt):
                exp = props_of(spec, pt)
                return sorted(map(repr, got or [])) == sorted(map(repr, exp))
            if t[0] == "connect":
                exp_clean = a.get("clean") == "1"
                checks = [("type", d["type"] == "CONNECT"), ("proto", d["proto"] == proto), ("bridge", d["bridge"] == (a.get("bridge") == "1")),
                          ("clean", d["clean"] == exp_clean), ("keepalive", d["keepalive"] == int(a.get("ka", 60))),
                          ("client_id", d["client_id"] == unhx(a.get("cid", "-"))),
                          ("username", d["username"] == (unhx(a["user"]) if "user" in a else None)),
                          ("password", d["password"] == (unhx(a["pass"]) if ("pass" in a and "user" in a) else None))]
                if a.get("will") == "1":
                    wl = d["will"]
                    checks += [("will", wl is not None and wl["topic"] == unhx(a["wtopic"]) and wl["payload"] == unhx(a["wpayload"])
                                and wl["qos"] == int(a["wqos"]) and wl["retain"] == (a["wretain"] == "1"))]
                    if proto == 5 and wl is not None:
                        checks.append(("will-props", same_props(wl.get("props"), a.get("wprops", "-"), 99)))
                else:
                    checks.append(("no-will", d["will"] is None))
                if proto == 5:
                    checks.append(("props", same_props(d.get("props"), a.get("props", "-"), 1)))
            elif t[0] == "publish":
                payload = bytes(int(a["zeros"])) if "zeros" in a else unhx(a.get("payload", "-"))
                checks = [("type", d["type"] == "PUBLISH"), ("qos", d["qos"] == int(a["qos"])), ("retain", d["retain"] == (a["retain"] == "1")),
                          ("dup", d["dup"] is False), ("topic", d["topic"] == unhx(a["topic"])), ("payload", d["payload"] == payload),
                          ("mid", d["mid"] == (1 if int(a["qos"]) else None))]
                if proto == 5:
                    checks.append(("props", same_props(d.get("props"), a.get("props", "-"), 3)))
            elif t[0] == "subscribe":
                exp = []
                for e in a["filters"].split(","):
                    f, ov = e.split(":")
                    ov = int(ov)
                    exp.append((unhx(f), {"qos": ov & 3, "nl": bool(ov & 4), "rap": bool(ov & 8), "rh": (ov >> 4) & 3} if proto == 5 else ov))
                checks = [("type", d["type"] == "SUBSCRIBE"), ("mid", d["mid"] == 1), ("filters", d["filters"] == exp)]
                if proto == 5:
                    checks.append(("props", same_props(d.get("props"), a.get("props", "-"), 8)))
            elif t[0] == "unsubscribe":
                checks = [("type", d["type"] == "UNSUBSCRIBE"), ("mid", d["mid"] == 1), ("filters", d["filters"] == [unhx(f) for f in a["filters"].split(",") if f != "-"])]
                if proto == 5:
                    checks.append(("props", same_props(d.get("props"), a.get("props", "-"), 10)))
            else:
                checks = [("type", d["type"] == "DISCONNECT")]
                if proto == 5:
                    exp_rc = int(a["rc"]) if "rc" in a else (0 if a.get("props", "-") not in ("-", "none") else None)
                    checks.append(("rc", d.get("rc") == exp_rc))
                    if a.get("props", "-") not in ("-", "none"):
                        checks.append(("props", same_props(d.get("props"), a.get("props", "-"), 14)))
            for nm, ok in checks:
                if not ok:
                    hits.append((i, "value-" + nm, f"{t[0]}: decoded {nm} differs from what the application supplied ({line[:100]}) -> {d if len(str(d)) < 300 else str(d)[:300]}"))
        return hits

    monitors = {"C04": monitor_C04}

    def features(self, case, obs):
        f = set()
        for line, o in zip(case, obs):
            t = line.split()
            f.add(t[0] + ("-ok" if o.startswith("ok") else "-" + o))
            if "proto=5" in line:
                f.add("v5")
            if "zeros=" in line:
                f.add("boundary")
        return f

    def nontrivial(self, case, obs):
        return any(o.startswith("ok") for o in obs)


STREAMS = [CodecStream()]
