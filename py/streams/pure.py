"""T2 streams for the pure layers: trie (C11), mid generator (C14), validation (C19)."""
from __future__ import annotations

import wire
from common import hx, unhx
from harness import connect, mk_client
from world import World, pc, raw

from paho.mqtt.matcher import MQTTMatcher

LEVELS = ["a", "b", "A", "", "+", "#", "$x", "$", "é", "😀", "ab"]


def rand_filter(rng, valid=True, maxdepth=5):
    n = rng.randint(1, maxdepth)
    lv = []
    for i in range(n):
        c = rng.choice(LEVELS)
        if valid and c == "#" and i != n - 1:
            c = "+"
        lv.append(c)
    if not valid and rng.random() < 0.5:
        lv[rng.randrange(n)] = rng.choice(["a+", "#b", "+#", "a#"])
    f = "/".join(lv)
    if f == "":
        f = "a" if valid else f
    return f


def rand_topic(rng, maxdepth=5):
    n = rng.randint(1, maxdepth)
    return "/".join(rng.choice([x for x in LEVELS if x not in ("+", "#")]) for _ in range(n))


# ------------------------------------------------------------------ trie
class TrieStream:
    name = "trie"
    props = ["C11"]

    def gen(self, rng, tier):
        n = rng.randint(4, 14 if tier == "quick" else 40)
        universe = [rand_filter(rng, valid=rng.random() < 0.9, maxdepth=rng.choice([2, 3, 5])) for _ in range(rng.randint(2, 6))]
        case = []
        val = 0
        for _ in range(n):
            r = rng.random()
            k = rng.choice(universe) if rng.random() < 0.8 else rand_filter(rng)
            if r < 0.35:
                val += 1
                # (now and then a value whose truth value is false: a stored 0 is a value like any other)
                case.append(f"set {hx(k)} {0 if rng.random() < 0.12 else val}")
            elif r < 0.5:
                case.append(f"del {hx(k)}")
            elif r < 0.6:
                case.append(f"get {hx(k)}")
            elif r < 0.85:
                t = rand_topic(rng) if rng.random() < 0.7 else self._near(rng, universe)
                case.append(f"iter {hx(t)}")
            elif r < 0.93:
                case.append(f"tms {hx(rand_filter(rng))} {hx(rand_topic(rng))}")
            else:
                case.append("dump")
        if rng.random() < 0.3:
            # deleting / looking up a filter that is NOT stored but is a level-prefix (or an extension) of a stored one leaves the
            # trie unchanged: every stored filter still matches afterwards
            f = rand_filter(rng, valid=True, maxdepth=rng.choice([2, 3, 4]))
            lv = f.split("/")
            val += 1
            case.append(f"set {hx(f)} {val}")
            other = "/".join(lv[:rng.randrange(1, len(lv))]) if len(lv) > 1 and rng.random() < 0.7 else f + "/" + rng.choice(["a", "+", "#"])
            case.append(rng.choice([f"del {hx(other)}", f"del {hx(other)}", f"get {hx(other)}"]))
            case.append(f"iter {hx(self._near(rng, [f]))}")
        case.append("dump")
        return case

    @staticmethod
    def _near(rng, universe):
        f = rng.choice(universe)
        return "/".join((rng.choice(["a", "b", "", "$x", "é"]) if l in ("+", "#") else l) for l in f.split("/"))

    @staticmethod
    def dump(m):
        out = []

        def rec(node, path):
            out.append("/".join(hx(p) for p in path) + "=" + ("_" if node._content is None else str(node._content)))
            for k, ch in node._children.items():
                rec(ch, path + [k])
        rec(m._root, [])
        return " ".join(out)

    def real(self, case):
        m = MQTTMatcher()
        obs = []
        for line in case:
            w = line.split()
            try:
                if w[0] == "set":
                    m[unhx(w[1]).decode()] = int(w[2])
                    obs.append("ok | " + self.dump(m))
                elif w[0] == "get":
                    obs.append(f"some {m[unhx(w[1]).decode()]} | " + self.dump(m))
                elif w[0] == "del":
                    del m[unhx(w[1]).decode()]
                    obs.append("ok | " + self.dump(m))
                elif w[0] == "iter":
                    obs.append("[" + ", ".join(str(v) for v in m.iter_match(unhx(w[1]).decode())) + "]")
                elif w[0] == "tms":
                    obs.append("true" if pc.topic_matches_sub(unhx(w[1]).decode(), unhx(w[2]).decode()) else "false")
                elif w[0] == "dump":
                    obs.append(self.dump(m))
                else:
                    obs.append("bad-op")
            except KeyError:
                obs.append("keyerror | " + self.dump(m))
            except Exception as e:  # noqa: BLE001
                obs.append("exc " + type(e).__name__)
        return obs

    # ---- property oracle (independent of the model): dictionary + reference matcher
    def monitor_C11(self, case, obs):
        ref = {}
        hits = []
        dump = "=_"     # structural dump of the empty trie
        for i, (line, o) in enumerate(zip(case, obs)):
            w = line.split()
            res, _, d = o.partition(" | ")
            if w[0] == "set":
                ref[unhx(w[1]).decode()] = int(w[2])
                dump = d
            elif w[0] == "del":
                k = unhx(w[1]).decode()
                if k in ref:
                    if res != "ok":
                        hits.append((i, "del-stored", f"deleting stored filter {k!r} -> {res}"))
                    del ref[k]
                    dump = d
                else:
                    # "deletions of filters that are not stored leave it unchanged"
                    if d != dump:
                        hits.append((i, "del-absent-changed", f"deleting absent filter {k!r} changed the trie: {dump} -> {d}"))
                        dump = d
            elif w[0] == "get":
                k = unhx(w[1]).decode()
                exp = f"some {ref[k]}" if k in ref else "keyerror"
                if res != exp:
                    hits.append((i, "get", f"get {k!r}: got {res}, dictionary says {exp}"))
                if d != dump:
                    hits.append((i, "get-changed", f"lookup of {k!r} changed the trie"))
                    dump = d
            elif w[0] == "iter":
                t = unhx(w[1]).decode()
                if all(wire.valid_filter(f.encode()) for f in ref) and "+" not in t and "#" not in t:
                    exp = sorted(v for f, v in ref.items() if wire.spec_match(f, t))
                    got = sorted(int(x) for x in o.strip("[]").split(",") if x.strip()) if o.startswith("[") else o
                    if got != exp:
                        hits.append((i, "iter", f"iter_match({t!r}) over {sorted(ref)} -> {o}, spec says {exp}"))
            elif w[0] == "tms":
                f, t = unhx(w[1]).decode(), unhx(w[2]).decode()
                if wire.valid_filter(f.encode()) and "+" not in t and "#" not in t:
                    exp = "true" if wire.spec_match(f, t) else "false"
                    if o != exp:
                        hits.append((i, "tms", f"topic_matches_sub({f!r},{t!r}) -> {o}, spec says {exp}"))
            elif w[0] == "dump":
                stored = []
                for tok in o.split(" "):
                    p, _, c = tok.rpartition("=")
                    if c != "_":
                        stored.append(int(c))
                if sorted(stored) != sorted(ref.values()):
                    hits.append((i, "contents", f"trie holds values {sorted(stored)}, dictionary holds {sorted(ref.values())}"))
        return hits

    monitors = {"C11": monitor_C11}

    def features(self, case, obs):
        f = set()
        for line, o in zip(case, obs):
            w = line.split()
            if w[0] == "iter" and o not in ("[]",):
                f.add("iter-hit")
                if "," in o:
                    f.add("iter-multi")
            if w[0] == "iter" and o == "[]":
                f.add("iter-miss")
            if w[0] in ("del", "get"):
                f.add(w[0] + "-" + o.split()[0])
                if w[0] == "del" and o.startswith("ok"):
                    f.add("del-ok")
            if w[0] == "tms":
                f.add("tms-" + o)
            if w[0] == "iter" and unhx(w[1]).startswith(b"$"):
                f.add("dollar-topic")
        return f

    def nontrivial(self, case, obs):
        fs = self.features(case, obs)
        return "iter-hit" in fs or "del-ok" in fs


# ------------------------------------------------------------------ mid generator
class MidStream:
    name = "mid"
    props = ["C14"]

    def gen(self, rng, tier):
        case = []
        r = rng.random()
        if r < 0.4:
            case.append(f"skip {65535 - rng.randint(0, 6)}")
        elif r < 0.6:
            case.append(f"skip {rng.randint(1, 70000)}")
        elif r < 0.7 and tier == "thorough":
            case.append(f"skip {65535 * 2 + rng.randint(-3, 3)}")
        for _ in range(rng.randint(3, 12)):
            case.append("next" if rng.random() < 0.8 else f"skip {rng.randint(1, 5)}")
        return case

    def real(self, case):
        w = World()
        c = mk_client(w)
        obs = []
        for line in case:
            t = line.split()
            if t[0] == "next":
                obs.append(str(c.publish("t", None, 0).mid))
            elif t[0] == "skip":
                m = 0
                for _ in range(int(t[1])):
                    m = c.publish("t", None, 0).mid
                obs.append(str(m))
            else:
                obs.append("bad-op")
        return obs

    def monitor_C14(self, case, obs):
        hits = []
        prev = 0
        for i, (line, o) in enumerate(zip(case, obs)):
            t = line.split()
            m = int(o)
            if not 1 <= m <= 65535:
                hits.append((i, "range", f"mid {m} outside 1..65535"))
            k = 1 if t[0] == "next" else int(t[1])
            exp = (prev + k - 1) % 65535 + 1 if prev else (k - 1) % 65535 + 1
            if m != exp:
                hits.append((i, "successor", f"after {prev}, {k} allocation(s) returned {m}, expected {exp}"))
            prev = m
        return hits

    monitors = {"C14": monitor_C14}

    def features(self, case, obs):
        f = set()
        vals = [int(o) for o in obs]
        if any(b < a for a, b in zip(vals, vals[1:])):
            f.add("wrapped")
        if 65535 in vals:
            f.add("max")
        if 1 in vals:
            f.add("one")
        return f

    def nontrivial(self, case, obs):
        return "wrapped" in self.features(case, obs)


# ------------------------------------------------------------------ validation
ALPH = ["a", "+", "#", "/", "$", "é"]


class ValidateStream:
    name = "validate"
    props = ["C19"]

    def gen(self, rng, tier):
        case = []
        for _ in range(rng.randint(5, 15)):
            r = rng.random()
            if r < 0.3:
                case.append("filter " + hx(self.rand_str(rng)))
            elif r < 0.55:
                case.append(self.gen_sub(rng))
            elif r < 0.62:
                case.append(self.gen_unsub(rng))
            else:
                proto = rng.choice([3, 4, 5])
                topic = self.rand_str(rng, wild=rng.random() < 0.3)
                qos = rng.choice([-2, -1, 0, 0, 1, 1, 2, 2, 3, 4])
                tag = rng.choice(["str", "bytes", "bytearray", "int", "float", "none", "other", "bytes", "str"])
                if tag in ("str", "bytes", "bytearray"):
                    n = rng.choice([0, 1, 5, 100, 268435455, 268435456] if tag == "bytearray" else [0, 1, 5, 100])
                    if tag == "bytearray" and rng.random() < 0.5:
                        # whole-packet limit: topic length prefix + topic (+ packet id for QoS > 0, + property length for
                        # MQTT 5) + payload must not exceed 268435455
                        n = 268435455 - 2 - len(topic.encode("utf-8", "surrogatepass")) - rng.choice([0, 1, 2, 3, 4])
                elif tag == "int":
                    n = rng.randint(1, 12)
                elif tag == "float":
                    n = 3
                else:
                    n = 0
                case.append(f"publish {proto} {hx(topic)} {qos} {tag} {n}")
        return case

    # subscribe()'s calling conventions: string / tuple / list of tuples, an int QoS or a SubscribeOptions object (given as
    # its options byte), plus the qos= and options= keywords; unsubscribe(): string / list
    def rand_filter_arg(self, rng, long_ok=True):
        r = rng.random()
        if r < 0.55:
            return rng.choice(["a", "a/b", "+/x", "#", "a/#", "$SYS/#", "é/+", "/", "+"])
        while True:
            x = self.rand_str(rng)
            # (unsubscribe() does not check the 65535-byte limit itself: struct.error from the encoder, not modelled here)
            if long_ok or len(x) < 1000:
                return x

    @staticmethod
    def rand_second(rng, proto):
        r = rng.random()
        if r < (0.45 if proto == 5 else 0.12):
            return "o" + str((rng.choice([0, 1, 2]) << 4) | (rng.randrange(2) << 3) | (rng.randrange(2) << 2) | rng.choice([0, 1, 2]))
        return "i" + str(rng.choice([0, 1, 2, 0, 1, 2, 0, 1, 2, -1, 3, 7]))

    def gen_sub(self, rng):
        proto = rng.choice([3, 4, 5, 5])
        qos = rng.choice([0, 0, 0, 0, 1, 2, 1, 2, -1, 3])
        r = rng.random()
        opt = "-" if r < 0.6 else ("x" if r > 0.93 else
                                   "o" + str((rng.choice([0, 1, 2]) << 4) | (rng.randrange(2) << 3) | (rng.randrange(2) << 2) | rng.choice([0, 1, 2])))
        form = rng.random()
        if form < 0.3:
            return f"sub {proto} str {hx(self.rand_filter_arg(rng)) or '-'} {qos} {opt}"
        if form < 0.55:
            return f"sub {proto} tuple {hx(self.rand_filter_arg(rng)) or '-'} {self.rand_second(rng, proto)} {qos} {opt}"
        if form < 0.95:
            n = rng.choice([0, 1, 1, 2, 2, 3, 4])
            l = ",".join(f"{hx(self.rand_filter_arg(rng)) or '-'}:{self.rand_second(rng, proto)}" for _ in range(n)) or "-"
            return f"sub {proto} list {l} {qos} {opt}"
        return f"sub {proto} none {qos} {opt}"

    def gen_unsub(self, rng):
        r = rng.random()
        if r < 0.1:
            return "unsub none"
        if r < 0.15:
            return "unsub other"
        if r < 0.45:
            return f"unsub str {hx(self.rand_filter_arg(rng, long_ok=False)) or '-'}"
        n = rng.choice([0, 1, 1, 2, 3])
        return "unsub list " + (",".join(hx(self.rand_filter_arg(rng, long_ok=False)) or "-" for _ in range(n)) or "-")

    @staticmethod
    def rand_str(rng, wild=True):
        r = rng.random()
        if r < 0.06:
            n = rng.choice([65535, 65536, 65534])
            x = rng.random()
            if x < 0.35:
                # multi-byte characters: the limit is on the ENCODED length (65535 bytes), not on the character count
                ch, w = rng.choice([("é", 2), ("€", 3), ("😀", 4)])
                k = n // w
                base = ch * k + "a" * (n - k * w)                    # exactly n bytes, far fewer characters
                if rng.random() < 0.4:
                    base = ch * rng.choice([32768, 40000, 65535])   # <= 65535 characters, more than 65535 bytes
            else:
                base = "a" * n
            if rng.random() < 0.3:
                base = "+/" + base[2:]
            return base
        if r < 0.1:
            return ""
        n = rng.randint(1, 7)
        al = ALPH if wild else ["a", "/", "$", "é", "b"]
        return "".join(rng.choice(al) for _ in range(n))

    @staticmethod
    def mk_payload(tag, n):
        if tag == "str":
            return "x" * n
        if tag == "bytes":
            return b"x" * n
        if tag == "bytearray":
            return bytearray(n)
        if tag == "int":
            return 10 ** (n - 1)
        if tag == "float":
            return 0.5
        if tag == "none":
            return None
        return ["not", "a", "payload"]

    def real(self, case):
        obs = []
        clients = {}
        for line in case:
            t = line.split()
            try:
                if t[0] == "filter":
                    w = World()
                    c = clients.setdefault(5, mk_client(w, proto=5))
                    try:
                        c.subscribe(unhx(t[1]).decode())
                        obs.append("true")
                    except ValueError:
                        obs.append("false")
                elif t[0] in ("sub", "unsub"):
                    obs.append(self.real_sub(t))
                elif t[0] == "publish":
                    proto = int(t[1])
                    w = World()
                    c = clients.setdefault(proto, mk_client(w, proto=proto))
                    try:
                        c.publish(unhx(t[2]).decode(), self.mk_payload(t[4], int(t[5])), int(t[3]))
                        obs.append("ok")
                    except (ValueError, TypeError) as e:
                        obs.append(type(e).__name__)
                else:
                    obs.append("bad-op")
            except Exception as e:  # noqa: BLE001
                obs.append("exc " + type(e).__name__)
        return obs

    @staticmethod
    def short(f: bytes) -> str:
        return f"L{len(f)}.{f[:4].hex()}" if len(f) > 40 else (f.hex() or "-")

    @staticmethod
    def mk_opts(byte):
        from paho.mqtt.subscribeoptions import SubscribeOptions
        return SubscribeOptions(qos=byte & 3, noLocal=bool(byte & 4), retainAsPublished=bool(byte & 8), retainHandling=(byte >> 4) & 3)

    def mk_second(self, x):
        return int(x[1:]) if x[0] == "i" else self.mk_opts(int(x[1:]))

    def real_sub(self, t):
        """run subscribe()/unsubscribe() of the real client on an established connection; observation = the (filter, options
        byte) list of the SUBSCRIBE packet actually written, or the exception; a rejected call must leave no trace"""
        def s_(h):
            return "" if h == "-" else unhx(h).decode("utf-8", "surrogatepass")
        proto = int(t[1]) if t[0] == "sub" else 4
        w = World()
        c = mk_client(w, proto=proto)
        connect(c, w, proto=proto)
        sock = w.cur()
        before = (len(sock.wire), c._last_mid, len(c._out_packet), len(c._out_messages), c._inflight_messages)
        try:
            if t[0] == "sub":
                form = t[2]
                if form == "str":
                    arg, qos, opt = s_(t[3]), int(t[4]), t[5]
                elif form == "tuple":
                    arg, qos, opt = (s_(t[3]), self.mk_second(t[4])), int(t[5]), t[6]
                elif form == "list":
                    arg = [] if t[3] == "-" else [(s_(e.split(":")[0]), self.mk_second(e.split(":")[1])) for e in t[3].split(",")]
                    qos, opt = int(t[4]), t[5]
                else:
                    arg, qos, opt = None, int(t[3]), t[4]
                options = None if opt == "-" else (object() if opt == "x" else self.mk_opts(int(opt[1:])))
                c.subscribe(arg, qos, options)
            else:
                form = t[1]
                arg = None if form == "none" else (17 if form == "other" else (s_(t[2]) if form == "str" else
                                                                              ([] if t[2] == "-" else [s_(h) for h in t[2].split(",")])))
                c.unsubscribe(arg)
        except Exception as e:  # noqa: BLE001
            after = (len(sock.wire), c._last_mid, len(c._out_packet), len(c._out_messages), c._inflight_messages)
            name = "struct.error" if type(e).__name__ == "error" else type(e).__name__
            return name + ("" if after == before else f" DIRTY wire+{after[0] - before[0]} last_mid {before[1]}->{after[1]} queued {after[2]}")
        data = bytes(sock.wire[before[0]:])
        try:
            pk, rest = wire.split_packets(data)
            if rest or len(pk) != 1:
                return f"ok UNFRAMED {len(pk)} packets, {len(rest)} trailing bytes"
            body = pk[0]
            # lenient parse of the SUBSCRIBE / UNSUBSCRIBE payload (the strict decoder is the C04 monitor's business)
            pos = 1
            while body[pos] & 0x80:
                pos += 1
            pos += 1 + 2
            if proto == 5:
                pl = body[pos]
                if pl & 0x80:
                    return "ok PROPS?"
                pos += 1 + pl
            out = []
            while pos < len(body):
                n = (body[pos] << 8) | body[pos + 1]
                f = body[pos + 2:pos + 2 + n]
                pos += 2 + n
                if t[0] == "sub":
                    out.append(f"{self.short(f)}:{body[pos]}")
                    pos += 1
                else:
                    out.append(self.short(f))
            return "ok " + ",".join(out)
        except IndexError:
            return "ok TRUNCATED " + data[:16].hex()

    # ---- independent oracle written from the property text
    def expect_sub(self, t):
        """(accepted?, expected (filter, byte) list) from the MQTT grammar and the documented calling conventions; None = not judged"""
        def b_(h):
            return b"" if h == "-" else unhx(h)
        proto = int(t[1])
        form = t[2]
        if form == "none":
            return False, None
        if form == "str":
            pairs, qos, opt = [(b_(t[3]), None)], int(t[4]), t[5]
        elif form == "tuple":
            pairs, qos, opt = [(b_(t[3]), t[4])], int(t[5]), t[6]
        else:
            pairs = [] if t[3] == "-" else [(b_(e.split(":")[0]), e.split(":")[1]) for e in t[3].split(",")]
            qos, opt = int(t[4]), t[5]
        if form == "list":
            if not pairs:
                return False, None
            exp = []
            for f, x in pairs:
                if x[0] == "o":
                    if proto != 5:
                        return False, None      # a SubscribeOptions object is meaningless for MQTT 3
                    exp.append((f, int(x[1:])))
                else:
                    if not 0 <= int(x[1:]) <= 2:
                        return False, None
                    exp.append((f, int(x[1:])))
            ok = all(wire.valid_filter(f) for f, _ in exp)
            return ok, exp
        f, x = pairs[0]
        if form == "tuple":
            if proto == 5:
                if x[0] != "o":
                    return False, None          # documented: (topic, SubscribeOptions)
                if not 0 <= qos <= 2 or qos != 0:
                    return False, None          # options and a non-zero qos cannot be combined
                return wire.valid_filter(f), [(f, int(x[1:]))]
            if x[0] == "o":
                return None, None               # undocumented for MQTT 3: not judged
            q = int(x[1:])
            return (0 <= q <= 2 and wire.valid_filter(f)), [(f, q)]
        # string form
        if not 0 <= qos <= 2:
            return False, None
        if proto == 5 and opt != "-":
            if opt == "x" or qos != 0:
                return False, None
            return wire.valid_filter(f), [(f, int(opt[1:]))]
        return wire.valid_filter(f), [(f, qos)]

    def monitor_C19(self, case, obs):
        hits = []
        for i, (line, o) in enumerate(zip(case, obs)):
            t = line.split()
            if t[0] == "sub":
                acc, exp = self.expect_sub(t)
                if acc is None:
                    continue
                if acc:
                    want = "ok " + ",".join(f"{self.short(f)}:{b}" for f, b in exp)
                    if o != want:
                        hits.append((i, "subscribe-args", f"{line[:90]}: documented and grammatical, expected SUBSCRIBE of {want[3:][:60]}, got {o[:80]}"))
                elif o != "ValueError":
                    hits.append((i, "subscribe-args", f"{line[:90]}: must be rejected with ValueError and no other effect, got {o[:100]}"))
            elif t[0] == "unsub":
                if t[1] in ("none", "other"):
                    want = "ValueError"
                elif t[1] == "str":
                    want = "ValueError" if t[2] == "-" else "ok " + self.short(unhx(t[2]))
                else:
                    fs = [] if t[2] == "-" else [b"" if h == "-" else unhx(h) for h in t[2].split(",")]
                    if not fs:
                        continue                 # the empty list: C04's clause (a packet without a filter cannot be represented)
                    want = "ValueError" if any(len(f) == 0 for f in fs) else "ok " + ",".join(self.short(f) for f in fs)
                if o != want and not (want.startswith("ok") and o in ("struct.error", "ValueError") and any(len(unhx(h)) > 65535 for h in t[2].split(",") if h != "-")):
                    hits.append((i, "unsubscribe-args", f"{line[:90]}: expected {want[:60]}, got {o[:100]}"))
            elif t[0] == "filter":
                f = unhx(t[1])
                exp = "true" if wire.valid_filter(f) else "false"
                if o != exp:
                    hits.append((i, "filter-grammar", f"subscribe({f[:40]!r}...len={len(f)}) accepted={o}, MQTT grammar says {exp}"))
            elif t[0] == "publish":
                proto, topic, qos, tag, n = int(t[1]), unhx(t[2]), int(t[3]), t[4], int(t[5])
                plen = n if tag in ("str", "bytes", "bytearray") else (n if tag == "int" else (3 if tag == "float" else 0))
                # the whole packet must be expressible: remaining length = 2+topic+payload(+2 for a packet id)(+1 v5)
                remlen = 2 + len(topic) + plen + (2 if qos > 0 else 0) + (1 if proto == 5 else 0)
                verr = (b"+" in topic or b"#" in topic or (len(topic) == 0 and proto != 5) or len(topic) > 65535
                        or not 0 <= qos <= 2 or (tag != "other" and (plen > 268435455 or remlen > 268435455)))
                terr = tag == "other"
                if verr and terr:
                    ok = o in ("ValueError", "TypeError")
                elif verr:
                    ok = o == "ValueError"
                elif terr:
                    ok = o == "TypeError"
                else:
                    ok = o == "ok"
                if not ok:
                    hits.append((i, "publish-args", f"{line[:80]} -> {o}"))
        return hits

    monitors = {"C19": monitor_C19}

    def features(self, case, obs):
        f = set()
        for line, o in zip(case, obs):
            t = line.split()
            if t[0] == "sub":
                f.add(f"sub-v{t[1]}-{t[2]}-{o.split()[0]}" + ("-multi" if "," in o else ""))
                continue
            if t[0] == "unsub":
                f.add(f"unsub-{t[1]}-{o.split()[0]}")
                continue
            f.add(t[0] + "-" + o)
            if t[0] == "filter" and len(t[1]) > 100000:
                f.add("long-filter-" + o)
        return f

    def nontrivial(self, case, obs):
        fs = self.features(case, obs)
        return "filter-true" in fs and "filter-false" in fs


STREAMS = [TrieStream(), MidStream(), ValidateStream()]
