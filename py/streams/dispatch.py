"""T2 stream `dispatch` (C15): message_callback_add/remove histories (also from inside callbacks), inbound messages of
every QoS, valid and invalid UTF-8 topics; observation = the ordered list of callbacks invoked per message.
Model: Paho.Model.Dispatch. Monitor: reference matcher over the harness's own registration dictionary."""
from __future__ import annotations

import wire
from common import hx, unhx
from harness import PROTO, V2
from world import World, name_locks, pc

LEVELS = ["a", "b", "", "+", "#", "$x", "é", "ab"]


def rand_filter(rng):
    n = rng.randint(1, 3)
    lv = []
    for i in range(n):
        c = rng.choice(LEVELS)
        if c == "#" and i != n - 1:
            c = "+"
        lv.append(c)
    f = "/".join(lv)
    return f or "a"


def rand_topic(rng):
    n = rng.randint(1, 3)
    return "/".join(rng.choice([x for x in LEVELS if x not in ("+", "#")]) for _ in range(n)) or "a"


class DispatchStream:
    name = "dispatch"
    props = ["C15"]

    def gen(self, rng, tier):
        case = [f"onmsg {int(rng.random() < 0.8)}"]
        uni = [rand_filter(rng) for _ in range(rng.randint(1, 5))]
        nid = 0
        if rng.random() < 0.5:
            # a family of filters extending one another (a, a/b, a/b/c, a/#): removing one must leave the others alone
            base = [rng.choice(["a", "b", "é", "$x"])]
            fam = ["/".join(base)]
            for _ in range(rng.randint(1, 3)):
                base.append(rng.choice(["a", "b", "c", "+"]))
                fam.append("/".join(base))
            if rng.random() < 0.5:
                fam.append("/".join(base[:rng.randint(1, len(base))]) + "/#")
            uni += fam
            if rng.random() < 0.6:
                # register the family, remove one member, then publish on every member's own topic
                for f in fam:
                    nid += 1
                    case.append(f"add {hx(f)} {nid}")
                case.append(f"remove {hx(rng.choice(fam))}")
                for f in fam:
                    t = "/".join((rng.choice(["a", "b"]) if l in ("+", "#") else l) for l in f.split("/"))
                    case.append(f"msg {rng.choice([0, 1, 2])} {hx(t.encode())}")
        for _ in range(rng.randint(4, 16)):
            r = rng.random()
            if r < 0.3:
                nid += 1
                case.append(f"add {hx(rng.choice(uni))} {nid}")
            elif r < 0.4:
                case.append(f"remove {hx(rng.choice(uni))}")
            elif r < 0.47 and nid:
                nid += 1
                case.append(f"script {rng.randint(1, nid - 1) if nid > 1 else 1} add {hx(rng.choice(uni))} {nid}")
            elif r < 0.52 and nid:
                case.append(f"script {rng.randint(1, nid)} remove {hx(rng.choice(uni))}")
            elif r < 0.56:
                case.append(f"onmsg {rng.randrange(2)}")
            else:
                x = rng.random()
                if x < 0.12:
                    t = rng.choice([b"\xff\xfe", b"a/\xc3", b"\xed\xa0\x80", b"a/\xf8\x88\x80\x80\x80"])
                elif x < 0.6:
                    f = rng.choice(uni)
                    t = "/".join((rng.choice(["a", "b", "", "$x", "é"]) if l in ("+", "#") else l) for l in f.split("/")).encode()
                else:
                    t = rand_topic(rng).encode()
                if not t:
                    t = b"a"
                case.append(f"msg {rng.choice([0, 1, 2])} {hx(t)}")
        return case

    def real(self, case):
        import warnings
        warnings.simplefilter("ignore", DeprecationWarning)
        w = World()
        w.install()
        c = pc.Client(V2, client_id="cid", protocol=PROTO[4])
        name_locks(c)
        c.connect("broker", 1883, 60)
        s = w.cur()
        s.feed(wire.enc_connack(4))
        c.loop_read()
        calls = []
        scripts = {}

        def mk(i):
            def cb(cl, ud, msg):
                calls.append(i)
                for act in scripts.get(i, []):
                    if act[0] == "add":
                        cl.message_callback_add(act[1], mk(act[2]))
                    else:
                        cl.message_callback_remove(act[1])
            cb.__name__ = f"cb{i}"
            if i % 3 == 0 and i > 0:
                # a handler whose truth value is false (a callable container that is still empty): registered like any other
                class Falsy(list):
                    def __call__(self, cl, ud, msg):
                        return cb(cl, ud, msg)
                return Falsy()
            return cb
        obs = []
        mid = 0
        for line in case:
            t = line.split()
            try:
                if t[0] == "add":
                    c.message_callback_add(unhx(t[1]).decode(), mk(int(t[2])))
                    obs.append("ok")
                elif t[0] == "remove":
                    c.message_callback_remove(unhx(t[1]).decode())
                    obs.append("ok")
                elif t[0] == "onmsg":
                    c.on_message = mk(0) if t[1] == "1" else None
                    obs.append("ok")
                elif t[0] == "script":
                    if t[2] == "add":
                        scripts.setdefault(int(t[1]), []).append(("add", unhx(t[3]).decode(), int(t[4])))
                    else:
                        scripts.setdefault(int(t[1]), []).append(("remove", unhx(t[3]).decode()))
                    obs.append("ok")
                elif t[0] == "msg":
                    q = int(t[1])
                    mid += 1
                    calls.clear()
                    s.feed(wire.enc_publish(4, unhx(t[2]), b"p", qos=q, mid=mid))
                    c.loop_read()
                    if q == 2:
                        s.feed(wire.enc_ack(4, wire.PUBREL, mid))
                        c.loop_read()
                    obs.append("[" + ", ".join(map(str, calls)) + "]")
                else:
                    obs.append("bad-op")
            except Exception as e:  # noqa: BLE001
                obs.append("exc " + type(e).__name__)
        return obs

    def monitor_C15(self, case, obs):
        hits = []
        reg = {}
        scripts = {}
        onmsg = False
        for i, (line, o) in enumerate(zip(case, obs)):
            t = line.split()
            if t[0] == "add":
                reg[unhx(t[1]).decode()] = int(t[2])
            elif t[0] == "remove":
                reg.pop(unhx(t[1]).decode(), None)
            elif t[0] == "onmsg":
                onmsg = t[1] == "1"
            elif t[0] == "script":
                scripts.setdefault(int(t[1]), []).append(t[2:])
            elif t[0] == "msg":
                raw_t = unhx(t[2])
                got = [int(x) for x in o.strip("[]").split(",") if x.strip()] if o.startswith("[") else o
                try:
                    topic = raw_t.decode("utf-8")
                except UnicodeDecodeError:
                    topic = None
                if topic is None:
                    exp = [0] if onmsg else []
                    if got != exp:
                        hits.append((i, "invalid-utf8", f"topic {raw_t!r} is not UTF-8: invoked {got}, expected on_message only {exp}"))
                else:
                    if all(wire.valid_filter(f.encode()) for f in reg):
                        m = sorted(cb for f, cb in reg.items() if wire.spec_match(f, topic))
                        exp = m if m else ([0] if onmsg else [])
                        if (sorted(got) if isinstance(got, list) else got) != exp:
                            hits.append((i, "dispatch", f"topic {topic!r}, registrations {reg}: invoked {got}, expected {exp}"))
                # snapshot semantics: registrations changed by the callbacks take effect for the NEXT message
                if isinstance(got, list):
                    for cb in got:
                        for act in scripts.get(cb, []):
                            if act[0] == "add":
                                reg[unhx(act[1]).decode()] = int(act[2])
                            else:
                                reg.pop(unhx(act[1]).decode(), None)
        return hits

    monitors = {"C15": monitor_C15}

    def features(self, case, obs):
        f = set()
        for line, o in zip(case, obs):
            if line.startswith("msg"):
                n = len([x for x in o.strip("[]").split(",") if x.strip()])
                f.add("invoked-%s" % ("0" if n == 0 else "1" if n == 1 else "many"))
                if o == "[0]":
                    f.add("fallback")
            if line.startswith("script"):
                f.add("in-callback-change")
        return f

    def nontrivial(self, case, obs):
        fs = self.features(case, obs)
        return "invoked-1" in fs or "invoked-many" in fs


STREAMS = [DispatchStream()]
