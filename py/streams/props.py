"""T2 stream `props` (C17): Properties / ReasonCode / VariableByteIntegers / SubscribeOptions of the real
code vs `Paho.Model.Props`; monitor = independent spec codec in wire.py."""
from __future__ import annotations

import wire
from common import hx, unhx
from world import pc  # noqa: F401  (asserts paho is imported from /repo/src)

from paho.mqtt.packettypes import PacketTypes
from paho.mqtt.properties import Properties, VariableByteIntegers
from paho.mqtt.reasoncodes import ReasonCode
from paho.mqtt.subscribeoptions import SubscribeOptions

PTYPES = list(range(1, 16)) + [99]
STR_IDS = {i for i, (t, _) in wire.PROPS.items() if t == wire.STR}
BIN_IDS = {i for i, (t, _) in wire.PROPS.items() if t == wire.BIN}
PAIR_IDS = {i for i, (t, _) in wire.PROPS.items() if t == wire.PAIR}
NAME_OF = wire.PROP_NAMES
ID_OF = {v: k for k, v in NAME_OF.items()}


def excname(e):
    n = type(e).__name__
    return "struct.error" if n == "error" else n


def to_py(name, v):
    """value token -> python value handed to setattr"""
    k = v[0]
    if k == "i":
        return int(v[2:])
    if k == "b":
        raw = unhx(v[2:])
        pid = ID_OF.get(name)
        return raw.decode("utf-8") if pid in STR_IDS else raw
    a, b = v[2:].split(":")
    return (unhx(a).decode("utf-8"), unhx(b).decode("utf-8"))


def show_val(v):
    if isinstance(v, bool):
        return f"i{int(v)}"
    if isinstance(v, int):
        return f"i{v}"
    if isinstance(v, str):
        return "b" + hx(v.encode("utf-8"))
    if isinstance(v, (bytes, bytearray)):
        return "b" + hx(bytes(v))
    if isinstance(v, tuple):
        return "p" + hx(v[0].encode("utf-8")) + ":" + hx(v[1].encode("utf-8"))
    return "?" + repr(v)


def view(p):
    out = []
    for name in p.names.keys():
        cn = name.replace(" ", "")
        if hasattr(p, cn):
            v = getattr(p, cn)
            vs = v if isinstance(v, list) else [v]
            out.append(f"{p.names[name]}=" + ",".join(show_val(x) for x in vs))
    return ";".join(out)


UNI = ["a", "", "é", "😀", "x" * 10, "ÿ", "k"]


def rand_val(rng, pid):
    ty = wire.PROPS[pid][0]
    if ty == wire.BYTE:
        return f"i:{rng.choice([0, 1, 1, 2, 255, 256, -1])}"
    if ty == wire.TWO:
        return f"i:{rng.choice([0, 1, 10, 65535, 65536, -1, 300])}"
    if ty == wire.FOUR:
        return f"i:{rng.choice([0, 1, 4294967295, 4294967296, 65536, -1, 123456])}"
    if ty == wire.VARINT:
        return f"i:{rng.choice([0, 1, 127, 128, 16383, 16384, 2097151, 2097152, 268435455, 268435456, -1])}"
    if ty == wire.BIN:
        return "b:" + hx(bytes(rng.randrange(256) for _ in range(rng.choice([0, 1, 5, 40]))))
    if ty == wire.STR:
        return "b:" + hx(rng.choice(UNI))
    return "p:" + hx(rng.choice(UNI)) + ":" + hx(rng.choice(UNI))


class PropsStream:
    name = "props"
    props = ["C17"]

    def gen(self, rng, tier):
        case = []
        r = rng.random()
        if r < 0.45:
            # build an object, pack it, unpack the result
            pt = rng.choice(PTYPES)
            case.append(f"new {pt}")
            allowed = [i for i, (_, pk) in wire.PROPS.items() if pt in pk]
            for _ in range(rng.randint(0, 6)):
                pid = rng.choice(allowed) if allowed and rng.random() < 0.85 else rng.choice(list(wire.PROPS))
                name = NAME_OF[pid] if rng.random() < 0.95 else rng.choice(["Bogus", "userproperty"])
                if pid in wire.REPEATABLE and rng.random() < 0.3:
                    case.append(f"setlist {name} " + " ".join(rand_val(rng, pid) for _ in range(rng.randint(1, 3))))
                else:
                    case.append(f"set {name} {rand_val(rng, pid)}")
                if rng.random() < 0.25 and allowed:
                    pid2 = rng.choice([x for x in allowed if x in wire.REPEATABLE] or allowed)
                    case.append(f"alias {NAME_OF[pid2]} {rand_val(rng, pid2)}")
            case.append("pack")
            if rng.random() < 0.5:
                # the same object is changed after it was packed - properties removed (del / clear()), others assigned - and
                # packed again: what reaches the wire is what the object holds NOW
                for _ in range(rng.randint(1, 3)):
                    setn = [l.split()[1] for l in case if l.split()[0] in ("set", "setlist")]
                    x = rng.random()
                    if x < 0.45 and setn:
                        case.append(f"del {rng.choice(setn)}")
                    elif x < 0.65:
                        case.append("clear")
                    elif x < 0.72:
                        case.append(f"del {rng.choice(['Bogus', 'ContentType', 'ResponseTopic'])}")
                    elif allowed:
                        pid = rng.choice(allowed)
                        case.append(f"set {NAME_OF[pid]} {rand_val(rng, pid)}")
                    if rng.random() < 0.6:
                        case.append("pack")
                case.append("pack")
        elif r < 0.7:
            # unpack broker-side encodings (well-formed from the independent encoder, some mutated)
            for _ in range(rng.randint(1, 4)):
                pt = rng.choice(PTYPES)
                allowed = [i for i, (_, pk) in wire.PROPS.items() if pt in pk]
                items = []
                for _ in range(rng.randint(0, 5)):
                    if not allowed:
                        break
                    pid = rng.choice(allowed)
                    if pid not in wire.REPEATABLE and any(x[0] == pid for x in items):
                        if rng.random() < 0.8:
                            continue
                    items.append((pid, self.spec_val(rng, pid)))
                raw = bytearray(wire.props_enc(items))
                m = rng.random()
                if m < 0.12 and len(raw) > 1:
                    raw[rng.randrange(len(raw))] ^= 1 << rng.randrange(8)
                elif m < 0.18:
                    raw = raw[:rng.randrange(len(raw))] if len(raw) > 1 else raw
                elif m < 0.24:
                    raw += bytes([rng.randrange(256)])
                case.append(f"unpack {pt} {hx(bytes(raw))}")
        elif r < 0.85:
            for _ in range(rng.randint(2, 8)):
                x = rng.random()
                pt = rng.choice(PTYPES[:15])
                if x < 0.6:
                    v = rng.choice(list(wire.REASONS)) if rng.random() < 0.7 else rng.randrange(256)
                    case.append(f"rc {pt} {v}")
                elif x < 0.8:
                    case.append(f"rcunpack {pt} {rng.choice(list(wire.REASONS)) if rng.random() < 0.7 else rng.randrange(256)}")
                else:
                    nm = rng.choice(["Success", "Normal disconnection", "Granted QoS 1", "Not authorized", "Payload format invalid",
                                     "Packet identifier not found", "Nope"])
                    case.append(f"rcname {pt} {hx(nm)}")
        else:
            for _ in range(rng.randint(2, 8)):
                x = rng.random()
                if x < 0.4:
                    case.append(f"vbi {rng.choice([0, 1, 127, 128, 16383, 16384, 2097151, 2097152, 268435455, 268435456, -1, rng.randrange(268435456)])}")
                elif x < 0.6:
                    n = rng.choice([0, 127, 128, 16384, 2097152, 268435455, rng.randrange(268435456)])
                    raw = wire.vbi_enc(n) + bytes(rng.randrange(256) for _ in range(rng.randint(0, 2)))
                    if rng.random() < 0.2:
                        raw = raw[:-1] if len(raw) > 1 else b"\x80"
                    case.append(f"vbidec {hx(raw)}")
                elif x < 0.8:
                    case.append(f"sopack {rng.choice([0, 1, 2, 3])} {rng.randrange(2)} {rng.randrange(2)} {rng.choice([0, 1, 2, 3])}")
                else:
                    case.append(f"sounpack {rng.randrange(256)}")
        return case

    @staticmethod
    def spec_val(rng, pid):
        ty = wire.PROPS[pid][0]
        if ty == wire.BYTE:
            return rng.choice([0, 1, 255]) if pid not in (1, 23, 25) else rng.choice([0, 1])
        if ty == wire.TWO:
            return rng.choice([1, 10, 65535]) if pid != 34 else rng.choice([0, 7, 65535])
        if ty == wire.FOUR:
            return rng.choice([0, 1, 4294967295, 77]) if pid != 39 else rng.choice([1, 268435455, 4000])
        if ty == wire.VARINT:
            return rng.choice([1, 127, 128, 16383, 16384, 2097151, 2097152, 268435455])
        if ty == wire.BIN:
            return bytes(rng.randrange(256) for _ in range(rng.choice([0, 1, 9])))
        def text():
            # mostly short; sometimes long enough to push the block over the 1- and 2-byte length-prefix boundaries
            x = rng.random()
            if x < 0.82:
                return rng.choice(UNI).encode()
            n = rng.choice([100, 120, 127, 128, 200, 400]) if x < 0.985 else rng.choice([16300, 16384, 17000])
            return (rng.choice(UNI).encode() * (n // max(1, len(rng.choice(UNI).encode())) + 1))[:n].decode("utf-8", "ignore").encode()
        if ty == wire.STR:
            return text()
        return (text(), text())

    def real(self, case):
        obs = []
        p = Properties(PacketTypes.CONNECT)
        for line in case:
            t = line.split()
            try:
                if t[0] == "new":
                    p = Properties(int(t[1]))
                    obs.append("ok")
                elif t[0] == "set":
                    setattr(p, t[1], to_py(t[1], t[2]))
                    obs.append("ok " + view(p))
                elif t[0] == "setlist":
                    setattr(p, t[1], [to_py(t[1], v) for v in t[2:]])
                    obs.append("ok " + view(p))
                elif t[0] == "alias":
                    # another object takes over this one's current value (the same list object for a repeatable
                    # property) and is then given one more value: this object must not change
                    q = Properties(p.packetType)
                    cur = getattr(p, t[1], None) if t[1] in vars(p) or hasattr(p, t[1]) else None
                    try:
                        if cur is not None:
                            setattr(q, t[1], cur)
                        setattr(q, t[1], to_py(t[1], t[2]))
                        obs.append("ok " + view(p))
                    except Exception:  # noqa: BLE001
                        obs.append("rejected " + view(p))
                elif t[0] == "del":
                    delattr(p, t[1])
                    obs.append("ok " + view(p))
                elif t[0] == "clear":
                    p.clear()
                    obs.append("ok " + view(p))
                elif t[0] == "pack":
                    obs.append(hx(bytes(p.pack())))
                elif t[0] == "unpack":
                    q = Properties(int(t[1]))
                    _, n = q.unpack(unhx(t[2]))
                    p = q
                    obs.append(f"ok {n} " + view(q))
                elif t[0] == "rc":
                    r = ReasonCode(int(t[1]), identifier=int(t[2]))
                    obs.append(f"ok {r.value} {r.getName()}")
                elif t[0] == "rcname":
                    r = ReasonCode(int(t[1]), aName=unhx(t[2]).decode())
                    obs.append(f"ok {r.value}")
                elif t[0] == "rcunpack":
                    r = ReasonCode(int(t[1]))
                    r.unpack(bytes([int(t[2])]))
                    obs.append(f"ok {r.value}")
                elif t[0] == "vbi":
                    obs.append(hx(VariableByteIntegers.encode(int(t[1]))))
                elif t[0] == "vbidec":
                    v, n = VariableByteIntegers.decode(unhx(t[1]))
                    obs.append(f"ok {v} {n}")
                elif t[0] == "sopack":
                    o = SubscribeOptions()
                    object.__setattr__(o, "QoS", int(t[1]))
                    o.noLocal = t[2] == "1"
                    o.retainAsPublished = t[3] == "1"
                    object.__setattr__(o, "retainHandling", int(t[4]))
                    obs.append(hx(o.pack()))
                elif t[0] == "sounpack":
                    o = SubscribeOptions()
                    o.unpack(bytes([int(t[1])]))
                    obs.append(f"ok {o.QoS} {int(o.noLocal)} {int(o.retainAsPublished)} {o.retainHandling}")
                else:
                    obs.append("bad-op")
            except Exception as e:  # noqa: BLE001
                obs.append(excname(e))
        return obs

    # ---- independent oracle
    def monitor_C17(self, case, obs):
        hits = []
        ptype = 1
        pending = []       # (id, value-bytes form) assigned so far, spec order computed at pack time
        valid_obj = True
        for i, (line, o) in enumerate(zip(case, obs)):
            t = line.split()
            if t[0] == "new":
                ptype = int(t[1])
                pending = []
            elif t[0] in ("set", "setlist"):
                name = t[1]
                vals = t[2:]
                pid = ID_OF.get(name)
                ok = o.startswith("ok")
                if pid is None or ptype not in wire.PROPS[pid][1]:
                    if ok:
                        hits.append((i, "assign-not-allowed", f"property {name} accepted for packet type {ptype}"))
                    continue
                if ok:
                    for v in vals:
                        pending.append((pid, v))
                    if pid not in wire.REPEATABLE:
                        pending = [x for x in pending if x[0] != pid][:] + [(pid, vals[-1])]
            elif t[0] == "del":
                if o.startswith("ok"):
                    pending = [x for x in pending if x[0] != ID_OF.get(t[1])]
            elif t[0] == "clear":
                pending = []
            elif t[0] == "alias":
                # assigning to ANOTHER object must not change this one: its view is what the last operation left
                prev = next((obs[j].split(" ", 1)[1] if " " in obs[j] else "" for j in range(i - 1, -1, -1)
                             if obs[j].startswith("ok") and case[j].split()[0] in ("set", "setlist", "alias", "del", "clear")), "")
                now_ = o.split(" ", 1)[1] if " " in o else ""
                if o.startswith(("ok", "rejected")) and now_ != prev:
                    hits.append((i, "alias", f"giving a further {t[1]} value to another Properties object changed this one: {prev[:80]} -> {now_[:80]}"))
            elif t[0] == "pack":
                if o in ("ValueError", "struct.error", "TypeError", "MQTTException", "OverflowError"):
                    continue
                raw = unhx(o) if all(c in "0123456789abcdef-" for c in o) else None
                if raw is None:
                    hits.append((i, "pack-exc", f"pack -> {o}"))
                    continue
                # what reaches the wire must be spec-valid for the packet type and carry exactly the assigned values
                try:
                    dec, pos = wire.props_dec(raw, 0, ptype)
                except wire.Malformed as e:
                    hits.append((i, "pack-invalid", f"packed block is not a valid property block for packet type {ptype}: {e} ({raw[:24].hex()})"))
                    continue
                if pos != len(raw):
                    hits.append((i, "pack-length", "length prefix does not cover the block"))
                # range rules of the specification
                for pid, val in dec:
                    bad = ((pid in (33, 35) and val == 0) or (pid == 39 and val == 0) or (pid == 11 and val == 0)
                           or (pid in (1, 23, 25, 36, 37, 40, 41, 42) and val not in (0, 1) and pid in (1, 23, 25)))
                    if bad:
                        hits.append((i, "value-on-wire", f"forbidden value {val} for property {pid} reached the wire"))
                want = {}
                for pid, v in pending:
                    want.setdefault(pid, []).append(v)
                got = {}
                for pid, val in dec:
                    got.setdefault(pid, []).append(val)
                for pid, vs in want.items():
                    exp = [self.norm(pid, v) for v in vs]
                    if got.get(pid) != exp:
                        hits.append((i, "roundtrip", f"property {pid}: assigned {exp}, independent decoder recovers {got.get(pid)}"))
                if set(got) - set(want):
                    hits.append((i, "extra", f"properties on the wire that were never assigned: {set(got) - set(want)}"))
            elif t[0] == "unpack":
                pt = int(t[1])
                raw = unhx(t[2])
                try:
                    dec, pos = wire.props_dec(raw, 0, pt)
                    spec_ok = True
                except wire.Malformed:
                    spec_ok = False
                if spec_ok:
                    # forbidden values are rejected by the code at assignment; only check the clean ones
                    if any((pid in (33, 35, 39, 11) and val == 0) or (pid in (1, 23, 25) and val not in (0, 1)) for pid, val in dec):
                        continue
                    if not o.startswith("ok"):
                        hits.append((i, "unpack-reject", f"well-formed property block rejected: {o}"))
                        continue
                    _, n, *rest = o.split(" ")
                    if int(n) != pos:
                        hits.append((i, "unpack-length", f"consumed {n}, block is {pos} bytes"))
                    exp = {}
                    for pid, val in dec:
                        exp.setdefault(pid, []).append(show_val(val if not isinstance(val, bytes) else val)
                                                      if not isinstance(val, tuple) else "p" + hx(val[0]) + ":" + hx(val[1]))
                    gotd = {}
                    for part in (rest[0].split(";") if rest and rest[0] else []):
                        k, _, vs = part.partition("=")
                        gotd[int(k)] = vs.split(",")
                    expd = {k: [x if not x.startswith("b") else x for x in v] for k, v in exp.items()}
                    if gotd != expd:
                        hits.append((i, "unpack-values", f"decoded {gotd}, encoded {expd}"))
            elif t[0] in ("rc", "rcunpack"):
                pt, v = int(t[1]), int(t[2])
                if t[0] == "rcunpack" and pt not in (2, 4, 5, 6, 7, 11, 14, 15):
                    continue    # unpack needs an instance; ReasonCode(pt) defaults to the NAME "Success", which these types lack
                legal = pt in wire.REASONS.get(v, ())
                if legal != o.startswith("ok"):
                    hits.append((i, "reason-table", f"ReasonCode(packet type {pt}, value {v}): accepted={o.startswith('ok')}, specification says {legal}"))
                elif legal and int(o.split()[1]) != v:
                    hits.append((i, "reason-value", f"{line} -> {o}"))
            elif t[0] == "vbi":
                n = int(t[1])
                if 0 <= n <= wire.VBI_MAX:
                    if o != hx(wire.vbi_enc(n)):
                        hits.append((i, "vbi-enc", f"encode({n}) = {o}, spec {hx(wire.vbi_enc(n))}"))
                elif not o.endswith("Error"):
                    hits.append((i, "vbi-range", f"encode({n}) accepted: {o}"))
            elif t[0] == "vbidec":
                raw = unhx(t[1])
                try:
                    v, pos = wire.vbi_dec(raw, 0)
                    if o != f"ok {v} {pos}":
                        hits.append((i, "vbi-dec", f"decode({raw.hex()}) = {o}, spec ({v},{pos})"))
                except wire.Malformed:
                    pass
            elif t[0] == "sopack":
                q, rh = int(t[1]), int(t[4])
                if q > 2 or rh > 2:
                    if not o.endswith("Error"):
                        hits.append((i, "subopts-invalid", f"{line} -> {o}"))
                else:
                    exp = (rh << 4) | (int(t[3]) << 3) | (int(t[2]) << 2) | q
                    if o != hx(bytes([exp])):
                        hits.append((i, "subopts-pack", f"{line} -> {o}, spec {exp:02x}"))
            elif t[0] == "sounpack":
                b = int(t[1])
                if (b & 3) == 3 or ((b >> 4) & 3) == 3:
                    if o.startswith("ok"):
                        hits.append((i, "subopts-unpack-invalid", f"{line} -> {o}"))
                elif not (b & 0xC0):
                    exp = f"ok {b & 3} {(b >> 2) & 1} {(b >> 3) & 1} {(b >> 4) & 3}"
                    if o != exp:
                        hits.append((i, "subopts-unpack", f"{line} -> {o}, spec {exp}"))
        return hits

    @staticmethod
    def norm(pid, v):
        ty = wire.PROPS[pid][0]
        if v[0] == "i":
            return int(v[2:])
        if v[0] == "b":
            return unhx(v[2:])
        a, b = v[2:].split(":")
        return (unhx(a), unhx(b))

    monitors = {"C17": monitor_C17}

    def features(self, case, obs):
        f = set()
        for line, o in zip(case, obs):
            t = line.split()
            f.add(t[0] + ("-ok" if (o.startswith("ok") or all(c in "0123456789abcdef-" for c in o)) else "-" + o.split()[0]))
        return f

    def nontrivial(self, case, obs):
        fs = self.features(case, obs)
        return any(x.endswith("-ok") for x in fs)


STREAMS = [PropsStream()]
