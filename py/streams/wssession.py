"""C06 over the real WebSocket transport: the unmodified client (Client(transport="websockets"), i.e. the packet queue and
_packet_write on top of _WebsocketWrapper) in a conversation with publishes, inbound QoS 1/2 traffic (whose acknowledgements
join the queue) and a raw socket that accepts arbitrary parts of a frame. No Lean model of the composition (the two layers are
modelled and proved separately: session queue, Paho.Model.Ws); the independent monitor decodes the raw wire - frames,
unmasked payload stream, MQTT packets - and judges the property: every frame well-formed, the payload stream is exactly the
queued packets, complete, once, in queue order; a QoS 0 publish is reported sent only after its last byte was accepted;
want_write() while bytes remain.
"""
from __future__ import annotations

import wire
from common import hx, unhx
from harness import feed_pkt, mk_client
from world import World, raw

SIZES = [0, 1, 5, 20, 90, 117, 118, 119, 120, 121, 122, 123, 124, 125, 126, 127, 128, 130, 200, 300]


def gen_case(rng, tier):
    proto = rng.choice([4, 5])
    case = [f"cfg proto={proto} ext={int(rng.random() < 0.4)}", "connect"]
    n = rng.randint(5, 14 if tier == "quick" else 30)
    npub = 0
    inmid = 0
    out2 = []        # outgoing QoS 2 mids awaiting PUBREC
    out_wait = []    # (type, mid) acks the broker still owes
    in2 = []         # inbound QoS 2 mids awaiting PUBREL
    mid = 0
    for _ in range(n):
        r = rng.random()
        if r < 0.3:
            q = rng.choice([0, 0, 0, 1, 2])
            size = rng.choice(SIZES) if rng.random() < 0.97 else rng.choice([65525, 65536, 70000])
            case.append(f"publish {q} {size} t/{npub}")
            npub += 1
            mid += 1            # publish() draws a packet id for every message, QoS 0 included
            if q:
                out_wait.append(("puback" if q == 1 else "pubrec", mid))
        elif r < 0.5:
            q = rng.choice([1, 1, 2])
            inmid += 1
            case.append(f"rxpub {q} {inmid} {rng.choice([0, 3, 40])}")
            if q == 2:
                in2.append(inmid)
        elif r < 0.6 and (out_wait or in2):
            if in2 and (not out_wait or rng.random() < 0.5):
                case.append(f"rxack pubrel {in2.pop(0)}")
            else:
                k, m = out_wait.pop(rng.randrange(len(out_wait)))
                case.append(f"rxack {k} {m}")
                if k == "pubrec":
                    out_wait.append(("pubcomp", m))
        elif r < 0.85:
            ds = []
            for _ in range(rng.randint(1, 5)):
                x = rng.random()
                ds.append("b" if x < 0.3 else f"a{rng.choice([1, 1, 2, 3, 5, 6, 7, 9, 20, 100, 1000])}")
            case.append("send " + ",".join(ds))
        elif r < 0.95:
            case.append("loop_write")
        else:
            mid += 1
            case.append(f"subscribe s/{mid}")
    case.append("drain")
    return case


def run_real(case):
    obs = []
    w = None
    c = None
    infos = []
    onpub = []
    proto = 4
    ext = False
    for line in case:
        t = line.split()
        try:
            if t[0] == "cfg":
                a = dict(x.split("=") for x in t[1:])
                proto, ext = int(a["proto"]), a["ext"] == "1"
                w = World()
                c = mk_client(w, proto=proto, transport="websockets")
                c.on_publish = lambda cl, ud, mid, rc, props: onpub.append(mid)
                if ext:
                    c.on_socket_register_write = lambda cl, ud, so: None
                    c.on_socket_unregister_write = lambda cl, ud, so: None
                obs.append("ok")
                continue
            s = raw(c._sock) if c._sock is not None else None
            if t[0] == "connect":
                c.connect("broker", 1883, 60)
                if ext:
                    c.loop_write()
                feed_pkt(w, wire.enc_connack(proto))
                c.loop_read()
            elif t[0] == "publish":
                infos.append((int(t[1]), c.publish(t[3], bytes(int(t[2])), int(t[1]))))
            elif t[0] == "subscribe":
                c.subscribe(t[1], 0)
            elif t[0] == "rxpub":
                feed_pkt(w, wire.enc_publish(proto, b"in/t", bytes(int(t[3])), qos=int(t[1]), mid=int(t[2])))
                c.loop_read()
            elif t[0] == "rxack":
                feed_pkt(w, wire.enc_ack(proto, getattr(wire, t[1].upper()), int(t[2])))
                c.loop_read()
            elif t[0] == "send":
                if s is not None:
                    s.outscript.clear()
                    for d in t[1].split(","):
                        s.outscript.append(("block",) if d == "b" else ("accept", int(d[1:])))
            elif t[0] == "loop_write":
                c.loop_write()
            elif t[0] == "drain":
                if s is not None:
                    s.outscript.clear()
                for _ in range(60):
                    if c._sock is None or not c.want_write():
                        break
                    c.loop_write()
            s = raw(c._sock) if c._sock is not None else s
            pub = "".join("1" if _safe(i) else "0" for _, i in infos)
            o = f"len={len(s.wire) if s is not None else -1} ww={int(c.want_write())} pub={pub or '-'} sock={int(c._sock is not None)}"
            if t[0] == "drain":
                o += " wire=" + (hx(bytes(s.wire)) if s is not None and len(s.wire) < 400000 else "-")
            obs.append(o)
        except Exception as e:  # noqa: BLE001
            obs.append(f"exc:{type(e).__name__}:{str(e)[:60].replace(' ', '_')}")
    return obs


def _safe(info):
    try:
        return info.is_published()
    except Exception:  # noqa: BLE001
        return None


def parse(o):
    d = {}
    for wd in o.split(" "):
        k, _, v = wd.partition("=")
        d[k] = v
    return d


def decode_prefix(data: bytes, proto: int):
    """(frames ok?, complete packets carried by the complete frames of this prefix, error text)"""
    frames, rest = wire.ws_parse(data)
    for f in frames:
        if f["rsv"] or not f["masked"] or not f["minimal"] or f["opcode"] not in (0, 2, 8, 9, 10) or (f["opcode"] >= 8 and (not f["fin"] or len(f["payload"]) > 125)):
            return None, None, f"frame not well-formed: fin={f['fin']} rsv={f['rsv']} opcode={f['opcode']} masked={f['masked']} minimal={f['minimal']} len={len(f['payload'])}"
    stream = b"".join(f["payload"] for f in frames if f["opcode"] in (0, 2))
    try:
        pk, prest = wire.split_packets(stream)
    except wire.Malformed as e:
        return frames, None, f"payload stream is not a sequence of MQTT packets: {e}"
    return frames, (pk, prest, rest), None


def mon_C06(stream, case, obs):
    hits = []
    proto = int(dict(x.split("=") for x in case[0].split()[1:])["proto"])
    if any(o.startswith("exc:") for o in obs):
        i = next(i for i, o in enumerate(obs) if o.startswith("exc:"))
        return [(i, "internal-error", f"{case[i]}: {obs[i]}")]
    last = parse(obs[-1])
    if last.get("wire", "-") == "-" or last.get("sock") != "1":
        return []
    data = unhx(last["wire"])
    # expected queue order, from the ops alone
    exp = [("CONNECT", None)]
    qos0 = []          # (index among infos, topic)
    ninfo = 0
    mid = 0
    out2 = set()
    step_exp = []      # number of expected packets queued up to and including op i
    for line in case:
        t = line.split()
        if t[0] == "publish":
            q = int(t[1])
            mid += 1            # publish() draws a packet id for every message, QoS 0 included
            if q == 2:
                out2.add(mid)
            exp.append(("PUBLISH", t[3].encode()))
            if q == 0:
                qos0.append((ninfo, t[3].encode()))
            ninfo += 1
        elif t[0] == "subscribe":
            mid += 1
            exp.append(("SUBSCRIBE", mid))
        elif t[0] == "rxpub":
            exp.append(("PUBACK" if t[1] == "1" else "PUBREC", int(t[2])))
        elif t[0] == "rxack":
            if t[1] == "pubrec" and int(t[2]) in out2:
                exp.append(("PUBREL", int(t[2])))
            elif t[1] == "pubrel":
                exp.append(("PUBCOMP", int(t[2])))
        step_exp.append(len(exp))

    def keys(pk):
        out = []
        for p in pk:
            d = wire.dec_client_packet(p, proto)
            out.append((d["type"], d.get("topic") if d["type"] == "PUBLISH" else d.get("mid")))
        return out
    frames, dec, err = decode_prefix(data, proto)
    if err:
        return [(len(case) - 1, "ws-malformed" if frames is None else "stream-corrupt", err)]
    pk, prest, frest = dec
    try:
        got = keys(pk)
    except wire.Malformed as e:
        return [(len(case) - 1, "stream-corrupt", f"a packet of the payload stream is malformed: {e}")]
    if frest or prest:
        hits.append((len(case) - 1, "incomplete", f"after draining: {len(frest)} bytes of an incomplete frame, {len(prest)} bytes of an incomplete packet on the wire"))
    if got != exp:
        k = next((j for j, (a, b) in enumerate(zip(got, exp)) if a != b), min(len(got), len(exp)))
        hits.append((len(case) - 1, "queue-order", f"payload stream carries {got[max(0, k - 1):k + 3]} where the queue order has {exp[max(0, k - 1):k + 3]} (position {k}; {len(got)} packets written, {len(exp)} queued)"))
    if last["ww"] != "0" and got == exp:
        hits.append((len(case) - 1, "want-write-stuck", "everything queued is on the wire but want_write() stays true"))
    # per step: QoS 0 completion only after the last byte; want_write while bytes remain
    for i, o in enumerate(obs[1:], start=1):
        d = parse(o)
        if "len" not in d or int(d["len"]) < 0:
            continue
        _, dec_i, err_i = decode_prefix(data[:int(d["len"])], proto)
        if err_i or dec_i is None:
            continue
        try:
            have = keys(dec_i[0])
        except wire.Malformed:
            continue
        pubbits = d["pub"] if d["pub"] != "-" else ""
        for idx, topic in qos0:
            if idx < len(pubbits) and pubbits[idx] == "1" and ("PUBLISH", topic) not in have:
                hits.append((i, "qos0-early", f"{case[i]}: QoS 0 message {topic.decode()} reported published before its last byte was accepted by the transport"))
                break
        if d["sock"] == "1" and len(have) < step_exp[i] and d["ww"] == "0":
            hits.append((i, "want-write-missing", f"{case[i]}: {step_exp[i] - len(have)} queued packet(s) not yet completely accepted but want_write() is false"))
    return hits[:3]


class WsSessionStream:
    name = "wssession"
    props = ["C06"]
    has_model = False
    keep_prefix = 2
    monitors = {"C06": mon_C06}

    def gen(self, rng, tier):
        return gen_case(rng, tier)

    def real(self, case):
        return run_real(case)

    def features(self, case, obs):
        f = set()
        for line, o in zip(case, obs):
            t = line.split()
            f.add(t[0] + ("-" + t[1] if t[0] in ("rxpub", "rxack") else ""))
            if o.startswith("exc:"):
                f.add(o.split(":")[1])
            d = parse(o)
            if d.get("ww") == "1":
                f.add("pending-after-" + t[0])
        if "ext=1" in case[0]:
            f.add("ext")
        return f

    def nontrivial(self, case, obs):
        return any("ww=1" in o for o in obs)


STREAMS = [WsSessionStream()]
