"""T2 stream `helpers` (C20): the REAL publish.single/multiple and subscribe.simple/callback run unmodified (including
their loop_forever()) against an in-memory conforming broker in virtual time; observation = what the broker saw
(decoded by wire.py) and what the helper returned. Model: Paho.Model.Helpers."""
from __future__ import annotations

import wire
from common import hx, unhx
from world import World, pc, raw

import paho.mqtt.publish as pub
import paho.mqtt.subscribe as sub


class Broker:
    """responsive conforming broker on the far side of the fake socket"""

    ACKRC = None      # MQTT 5: reason code put into PUBACK / PUBREC (e.g. 0x10 "No matching subscribers", a success code)

    def __init__(self, w: World, proto: int, websocket: bool, arrivals=None):
        self.w = w
        self.proto = proto
        self.ws = websocket
        self.buf = b""
        self.seen = []          # decoded client packets in order
        self.arrivals = list(arrivals or [])
        self.bprops = 0
        self.mid = 100
        self.raw_ws = b""
        w.tx_hook = self.on_tx

    def send(self, sock, data: bytes):
        sock.feed(wire.ws_frame(data) if self.ws else data)

    def on_tx(self, sock, data):
        if self.ws:
            if sock.ws_handshake or not self.raw_ws and data.startswith(b"GET "):
                return
            self.raw_ws += data
            frames, rest = wire.ws_parse(self.raw_ws)
            self.raw_ws = rest
            data = b"".join(f["payload"] for f in frames if f["opcode"] in (0, 2))
        self.buf += data
        pk, self.buf = wire.split_packets(self.buf)
        for p in pk:
            d = wire.dec_client_packet(p, self.proto)
            self.seen.append(d)
            t = d["type"]
            if t == "CONNECT":
                self.send(sock, wire.enc_connack(self.proto))
            elif t == "PUBLISH" and d["qos"] == 1:
                self.send(sock, wire.enc_ack(self.proto, wire.PUBACK, d["mid"], rc=self.ACKRC if self.proto == 5 else None))
            elif t == "PUBLISH" and d["qos"] == 2:
                self.send(sock, wire.enc_ack(self.proto, wire.PUBREC, d["mid"], rc=self.ACKRC if self.proto == 5 else None))
            elif t == "PUBREL":
                self.send(sock, wire.enc_ack(self.proto, wire.PUBCOMP, d["mid"]))
            elif t == "SUBSCRIBE":
                self.send(sock, wire.enc_suback(self.proto, d["mid"], [f[1] if isinstance(f[1], int) else f[1]["qos"] for f in d["filters"]]))
                self.deliver(sock)
            elif t == "PUBREC":
                self.send(sock, wire.enc_ack(self.proto, wire.PUBREL, d["mid"]))
                self.deliver(sock)

    def deliver(self, sock):
        """send the scripted messages in order; a QoS 2 message is completed (PUBREL) before the next one is sent, so
        that the order in which the client's application sees them is the script order"""
        while self.arrivals:
            topic, payload, qos, retain = self.arrivals.pop(0)
            self.mid += 1
            # MQTT 5: the messages carry property blocks of 0, ~20 and >= 128 bytes in turn (the length prefix of the block
            # then takes two bytes; what the helper returns must not depend on it)
            props = None
            if self.proto == 5 and self.bprops:
                k = (self.mid + self.bprops) % 3
                props = [] if k == 0 else [(38, (b"trace", b"x" * (10 if k == 1 else 150)))] + ([(3, b"text/plain")] if k == 2 else [])
            self.send(sock, wire.enc_publish(self.proto, topic, payload, qos=qos, retain=retain, mid=self.mid, props=props))
            if qos == 2:
                return


def parse_msgs(s):
    out = []
    for w in s.split(","):
        if not w:
            continue
        t, p, q, r = w.split(":")
        out.append((unhx(t), unhx(p), int(q), r == "1"))
    return out


def kv(words):
    d = {}
    for w in words:
        k, _, v = w.partition("=")
        d[k] = v
    return d


def run_multiple(a):
    import warnings
    warnings.simplefilter("ignore", DeprecationWarning)
    proto = int(a.get("proto", 4))
    ws = a.get("transport", "tcp") == "websockets"
    w = World()
    w.websocket = ws
    w.install()
    w.max_select = 5000
    br = Broker(w, proto, ws)
    br.ACKRC = int(a["ackrc"]) if a.get("ackrc") else None
    msgs = parse_msgs(a["msgs"])
    form = a.get("form", "tuple")
    # the Python value the application hands over for each payload (the line carries the bytes it must become)
    kinds = a.get("kinds", "").split(",") if a.get("kinds") else []

    def pyval(i, p):
        k = kinds[i] if i < len(kinds) else "b"
        if k == "i":
            return int(p.decode())
        if k == "f":
            return float(p.decode())
        if k == "s":
            return p.decode()
        if k == "n":
            return None
        if k == "a":
            return bytearray(p)
        return p
    msgs = [(t, pyval(i, p), q, r) for i, (t, p, q, r) in enumerate(msgs)]
    pymsgs = []
    for i, (t, p, q, r) in enumerate(msgs):
        if form == "dict" or (form == "mixed" and i % 2):
            pymsgs.append({"topic": t.decode(), "payload": p, "qos": q, "retain": r})
        else:
            pymsgs.append((t.decode(), p, q, r))
    kwargs = dict(hostname="broker", port=1883, client_id="cid", protocol=pc.MQTTv5 if proto == 5 else pc.MQTTv311,
                  transport="websockets" if ws else "tcp")
    if a.get("auth") == "1":
        kwargs["auth"] = {"username": "u", "password": "p"}
    if a.get("will") == "1":
        kwargs["will"] = {"topic": "w/t", "payload": "bye", "qos": 1, "retain": False}
    try:
        if a.get("single") == "1":
            t, p, q, r = msgs[0]
            pub.single(t.decode(), p, q, r, **kwargs)
        else:
            pub.multiple(pymsgs, **kwargs)
        ret = "returned"
    except KeyboardInterrupt:
        ret = "no-return"
    except Exception as e:  # noqa: BLE001
        ret = "exc:" + type(e).__name__
    seen = br.seen
    shape_ok = bool(seen) and seen[0]["type"] == "CONNECT" and seen[-1]["type"] == "DISCONNECT" and \
        sum(1 for d in seen if d["type"] in ("CONNECT", "DISCONNECT")) == 2
    pubs = [d for d in seen if d["type"] == "PUBLISH"]
    published = ",".join(f"{hx(d['topic'])}:{hx(d['payload'])}:{d['qos']}:{int(d['retain'])}" for d in pubs)
    extra = ""
    c0 = seen[0] if seen else {}
    if a.get("auth") == "1" and (c0.get("username") != b"u" or c0.get("password") != b"p"):
        extra += " auth-lost"
    if a.get("will") == "1" and not (c0.get("will") and c0["will"]["topic"] == b"w/t"):
        extra += " will-lost"
    rels = [d["mid"] for d in seen if d["type"] == "PUBREL"]
    q2 = [d["mid"] for d in pubs if d["qos"] == 2]
    if rels != q2:
        extra += f" pubrel-mismatch:{rels}/{q2}"
    if any(d["dup"] for d in pubs):
        extra += " dup"
    if ret != "returned":
        return ret + extra
    return f"published={published} left=0 disconnect={int(shape_ok)}" + extra


def run_simple(a):
    import warnings
    warnings.simplefilter("ignore", DeprecationWarning)
    proto = int(a.get("proto", 4))
    ws = a.get("transport", "tcp") == "websockets"
    w = World()
    w.websocket = ws
    w.install()
    w.max_select = 3000
    arrivals = parse_msgs(a.get("arrivals", ""))
    br = Broker(w, proto, ws, arrivals)
    br.bprops = int(a.get("bprops", 0))
    count = int(a.get("count", 1))
    retained = a.get("retained") == "1"
    kwargs = dict(hostname="broker", port=1883, client_id="cid", protocol=pc.MQTTv5 if proto == 5 else pc.MQTTv311,
                  transport="websockets" if ws else "tcp")

    def show(m):
        return f"{hx(m._topic)}:{hx(bytes(m.payload))}:{m.qos}:{int(m.retain)}"
    try:
        if a.get("callback") == "1":
            got = []

            def cb(cl, ud, m):
                got.append(m)
                if len(got) >= len([x for x in arrivals]):
                    cl.disconnect()
            if arrivals:
                sub.callback(cb, ["t/#"], qos=2, **kwargs)
            return "list=" + ",".join(show(m) for m in got) + " disconnect=1"
        res = sub.simple("t/#", qos=2, msg_count=count, retained=retained, **kwargs)
    except KeyboardInterrupt:
        # not enough messages for msg_count: the helper keeps waiting (as specified)
        return "waiting"
    except Exception as e:  # noqa: BLE001
        return "exc:" + type(e).__name__
    disc = int(any(d["type"] == "DISCONNECT" for d in br.seen))
    if count == 1:
        return ("one=" + (show(res) if res is not None and not isinstance(res, list) else "None")) + f" disconnect={disc}"
    return "list=" + ",".join(show(m) for m in res) + f" disconnect={disc}"


class HelpersStream:
    name = "helpers"
    props = ["C20"]

    def gen(self, rng, tier):
        case = []
        for _ in range(rng.randint(2, 5)):
            proto = rng.choice([4, 5])
            tr = rng.choice(["tcp", "tcp", "websockets"])
            if rng.random() < 0.55:
                n = rng.randint(1, 6)
                # now and then a batch longer than the client's in-flight window (20): QoS 1/2 messages with QoS 0 ones among
                # and after them - list order must hold all the same
                long = rng.random() < 0.12
                if long:
                    n = rng.randint(22, 28)
                msgs = []
                kinds = []
                for j in range(n):
                    t = rng.choice([b"t/a", b"t/\xc3\xa9", b"x"])
                    k = rng.choice(["b", "b", "b", "i", "f", "s", "n", "a"])
                    if k == "i":
                        p = str(rng.choice([0, 0, 7, -3])).encode()
                    elif k == "f":
                        p = str(rng.choice([0.0, 0.0, 2.5])).encode()
                    elif k == "s":
                        p = rng.choice(["", "0", "h\u00e9llo"]).encode()
                    elif k == "n":
                        p = b""
                    else:
                        p = bytes(rng.randrange(256) for _ in range(rng.choice([0, 1, 5, 200])))
                    kinds.append(k)
                    if long:
                        p = p[:3]
                        q = 0 if (j >= 21 and rng.random() < 0.7) else rng.choice([1, 1, 2])
                        msgs.append(f"{hx(t)}:{hx(p)}:{q}:{rng.randrange(2)}")
                        continue
                    msgs.append(f"{hx(t)}:{hx(p)}:{rng.choice([0, 1, 2])}:{rng.randrange(2)}")
                single = int(n == 1 and rng.random() < 0.5)
                case.append(f"multiple proto={proto} transport={tr} form={rng.choice(['tuple', 'dict', 'mixed'])} single={single} "
                            f"auth={int(rng.random() < 0.3)} will={int(rng.random() < 0.3)}" + (" ackrc=16" if proto == 5 and rng.random() < 0.4 else "") + f" kinds={','.join(kinds)} msgs={','.join(msgs)}")
            else:
                count = rng.choice([1, 1, 2, 3])
                n = rng.randint(count, count + 4)
                arr = []
                for _ in range(n):
                    p = bytes(rng.randrange(256) for _ in range(rng.choice([1, 3])))
                    arr.append(f"{hx(b't/' + bytes([97 + rng.randrange(3)]))}:{hx(p)}:{rng.choice([0, 1, 2])}:{int(rng.random() < 0.35)}")
                retained = int(rng.random() < 0.5)
                # make sure enough non-retained messages exist when retained messages are ignored
                if not retained:
                    arr += [f"{hx(b't/z')}:{hx(b'k')}:{rng.choice([0, 1])}:0" for _ in range(count)]
                case.append(f"simple proto={proto} transport={tr} count={count} retained={retained} bprops={rng.choice([0, 1, 2, 3]) if proto == 5 else 0} arrivals={','.join(arr)}")
        return case

    def real(self, case):
        obs = []
        for line in case:
            t = line.split()
            a = kv(t[1:])
            obs.append(run_multiple(a) if t[0] == "multiple" else run_simple(a))
        return obs

    # independent oracle, from the property text
    def monitor_C20(self, case, obs):
        hits = []
        for i, (line, o) in enumerate(zip(case, obs)):
            t = line.split()
            a = kv(t[1:])
            if t[0] == "multiple":
                exp = "published=" + ",".join(f"{hx(x[0])}:{hx(x[1])}:{x[2]}:{int(x[3])}" for x in parse_msgs(a["msgs"])) + " left=0 disconnect=1"
                if o != exp:
                    hits.append((i, "publish-helper", f"broker saw <{o[:200]}>, messages given <{exp[:200]}>"))
            else:
                arr = parse_msgs(a["arrivals"])
                count, retained = int(a["count"]), a["retained"] == "1"
                kept = [x for x in arr if retained or not x[3]][:count]
                sh = [f"{hx(x[0])}:{hx(x[1])}:{x[2]}:{int(x[3])}" for x in kept]
                if len(kept) < count:
                    exp = "waiting"
                elif count == 1:
                    exp = f"one={sh[0]} disconnect=1"
                else:
                    exp = "list=" + ",".join(sh) + " disconnect=1"
                if o != exp:
                    hits.append((i, "subscribe-helper", f"returned <{o[:200]}>, expected <{exp[:200]}>"))
        return hits

    monitors = {"C20": monitor_C20}

    def features(self, case, obs):
        f = set()
        for line, o in zip(case, obs):
            t = line.split()
            f.add(t[0] + ("-ok" if ("disconnect=1" in o) else "-" + o.split()[0][:12]))
            if "websockets" in line:
                f.add("websockets")
            if "proto=5" in line:
                f.add("v5")
        return f

    def nontrivial(self, case, obs):
        return any("disconnect=1" in o for o in obs)


STREAMS = [HelpersStream()]
