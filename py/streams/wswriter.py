"""T2 stream `wswriter` (C06): the real `Client._packet_queue` / `Client._packet_write` on top of the real
`_WebsocketWrapper` (a client connected over the websockets transport, external-event-loop mode so that appends do not
write by themselves) against the Lean composition model Paho.Model.WsWriter (driver `wswriter`).

ops:  enq <hex> | enqz <n> <byte>     append a packet to the outgoing queue           -> q=<n>
      write <a<k>|b|e,...|->          one _packet_write() call; the raw socket's send() takes k bytes / raises
                                      BlockingIOError / raises BrokenPipeError in turn, then takes everything
                                       -> rc=.. q=.. sb=<len(_sendbuffer)> wire=<total> new=<bytes accepted>
`os.urandom(4)` is replaced by the i-th key of the model (`keyOf i`), so that both sides build the same frames.
"""
from __future__ import annotations

import os

import wire
from common import hx, unhx
from harness import feed_pkt, mk_client
from world import World, raw

SIZES = [2, 2, 4, 4, 5, 9, 40, 119, 120, 121, 122, 123, 124, 125, 126, 127, 128, 130, 300]
RC = {0: "success", -1: "again", 7: "connLost"}


def key_of(i):
    return bytes([(17 * i + 1) % 256, (29 * i + 2) % 256, (101 * i + 3) % 256, (7 * i + 4) % 256])


def short(b: bytes) -> str:
    if len(b) <= 300:
        return b.hex() or "-"
    return f"L{len(b)}.{b[:16].hex()}.{b[-8:].hex()}"


def run_real(case, transport="websockets"):
    obs = []
    w = World()
    c = mk_client(w, proto=4, transport=transport)
    c.on_socket_register_write = lambda cl, ud, so: None
    c.on_socket_unregister_write = lambda cl, ud, so: None
    c.connect("broker", 1883, 60)
    c.loop_write()
    feed_pkt(w, wire.enc_connack(4))
    c.loop_read()
    s = raw(c._sock)
    base = len(s.wire)
    n = [0]
    real_urandom = os.urandom

    def fake_urandom(k):
        if k != 4:
            return real_urandom(k)
        n[0] += 1
        return key_of(n[0] - 1)
    os.urandom = fake_urandom
    try:
        for line in case:
            t = line.split()
            try:
                if t[0] in ("enq", "enqz"):
                    data = unhx(t[1]) if t[0] == "enq" else bytes([int(t[2])]) * int(t[1])
                    c._packet_queue(0x40, bytearray(data), 0, 0)
                    obs.append(f"q={len(c._out_packet)}")
                elif t[0] == "write":
                    s.outscript.clear()
                    if t[1] != "-":
                        for d in t[1].split(","):
                            s.outscript.append(("block",) if d == "b" else ("error",) if d == "e" else ("accept", int(d[1:])))
                    before = len(s.wire)
                    rc = c._packet_write()
                    s.outscript.clear()
                    mid = (f"sb={len(c._sock._sendbuffer)}" if transport == "websockets" else
                           f"pos={c._out_packet[0]['pos'] if c._out_packet else 0}")
                    obs.append(f"rc={RC.get(int(rc), int(rc))} q={len(c._out_packet)} {mid} "
                               f"wire={len(s.wire) - base} new={short(bytes(s.wire[before:]))}")
                elif t[0] == "dump":
                    obs.append("WIRE=" + hx(bytes(s.wire[base:])))
                else:
                    obs.append("bad-op")
            except Exception as e:  # noqa: BLE001
                obs.append(f"exc:{type(e).__name__}")
    finally:
        os.urandom = real_urandom
    return obs


def gen_case(rng, tier):
    case = []
    for _ in range(rng.randint(4, 14 if tier == "quick" else 40)):
        r = rng.random()
        if r < 0.45:
            if rng.random() < 0.04:
                case.append(f"enqz {rng.choice([65535, 65536, 70000])} {rng.randrange(256)}")
            else:
                k = rng.choice(SIZES)
                case.append("enq " + hx(bytes(rng.randrange(256) for _ in range(k))))
        else:
            ds = []
            for _ in range(rng.randint(0, 4)):
                x = rng.random()
                ds.append("b" if x < 0.25 else "e" if x < 0.3 else f"a{rng.choice([0, 1, 1, 2, 3, 5, 6, 7, 8, 9, 20, 100, 131, 1000, 100000])}")
            case.append("write " + (",".join(ds) or "-"))
    case.append("write -")
    case.append("dump")
    return case


def mon_C06(stream, case, obs):
    """independent of the model: the raw wire, parsed by the RFC 6455 rules, carries exactly the appended packets, one
    well-formed masked binary frame each, complete, once and in order (after the final drain); what a call reports as
    still queued / pending is consistent with it"""
    hits = []
    if len(obs) < 2 or not obs[-1].startswith("WIRE="):
        return hits
    data = unhx(obs[-1][5:]) if len(obs[-1]) > 5 else b""
    last = obs[-2]
    enq = []
    for line in case:
        t = line.split()
        if t[0] == "enq":
            enq.append(unhx(t[1]))
        elif t[0] == "enqz":
            enq.append(bytes([int(t[2])]) * int(t[1]))
    frames, rest = wire.ws_parse(data)
    for f in frames:
        if not (f["fin"] and f["rsv"] == 0 and f["opcode"] == 2 and f["masked"] and f["minimal"]):
            return [(len(case) - 1, "ws-malformed", f"frame fin={f['fin']} rsv={f['rsv']} opcode={f['opcode']} masked={f['masked']} minimal={f['minimal']}")]
    got = [f["payload"] for f in frames]
    if "rc=success" in last and " q=0 " in last:
        if rest or got != enq:
            k = next((j for j, (a, b) in enumerate(zip(got, enq)) if a != b), min(len(got), len(enq)))
            hits.append((len(case) - 1, "send-framing", f"after the drain the wire carries {len(got)} complete frames (+{len(rest)} stray bytes) for {len(enq)} "
                         f"queued packets; first difference at packet {k}"))
    elif got != enq[:len(got)]:
        hits.append((len(case) - 1, "send-framing", "the frames on the wire are not a prefix of the queued packets"))
    return hits


class WsWriterStream:
    name = "wswriter"
    props = ["C06"]
    monitors = {"C06": mon_C06}

    def gen(self, rng, tier):
        return gen_case(rng, tier)

    def real(self, case):
        return run_real(case)

    def model_view(self, obs):
        return obs

    def features(self, case, obs):
        f = set()
        for line, o in zip(case, obs):
            t = line.split()
            if t[0] == "dump":
                continue
            if t[0] == "write":
                for wd in o.split():
                    if wd.startswith("rc="):
                        f.add(wd)
                if " sb=0" not in o:
                    f.add("frame-pending")
                for d in (t[1].split(",") if t[1] != "-" else []):
                    f.add("raw-" + d[0])
            else:
                f.add(t[0])
        return f

    def nontrivial(self, case, obs):
        return any(" sb=" in o and " sb=0" not in o for o in obs)


def mon_C06_tcp(stream, case, obs):
    """raw TCP, independent of the model: after the final drain the bytes on the wire are exactly the appended packets in
    order; before it, a prefix of them"""
    if len(obs) < 2 or not obs[-1].startswith("WIRE="):
        return []
    data = unhx(obs[-1][5:]) if len(obs[-1]) > 5 else b""
    allb = b""
    for line in case:
        t = line.split()
        if t[0] == "enq":
            allb += unhx(t[1])
        elif t[0] == "enqz":
            allb += bytes([int(t[2])]) * int(t[1])
    last = obs[-2]
    if "rc=success" in last and " q=0 " in last:
        if data != allb:
            k = next((j for j, (a, b) in enumerate(zip(data, allb)) if a != b), min(len(data), len(allb)))
            return [(len(case) - 1, "stream-corrupt", f"after the drain the wire has {len(data)} bytes for {len(allb)} queued; first difference at byte {k}")]
    elif not allb.startswith(data):
        return [(len(case) - 1, "stream-corrupt", "the bytes on the wire are not a prefix of the queued packets")]
    return []


class TcpWriterStream(WsWriterStream):
    """the same appends and _packet_write() calls over a raw TCP socket: every send() may take any part of what it is
    given (model Paho.Model.TcpWriter)"""
    name = "tcpwriter"
    monitors = {"C06": mon_C06_tcp}

    def real(self, case):
        return run_real(case, transport="tcp")

    def features(self, case, obs):
        f = set()
        for line, o in zip(case, obs):
            t = line.split()
            if t[0] == "write":
                for wd in o.split():
                    if wd.startswith("rc="):
                        f.add("tcp-" + wd)
                if " pos=" in o and " pos=0" not in o:
                    f.add("tcp-partly-written-head")
        return f

    def nontrivial(self, case, obs):
        return any(" pos=" in o and " pos=0" not in o for o in obs)


STREAMS = [WsWriterStream(), TcpWriterStream()]
