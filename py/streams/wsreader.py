"""T2 stream `wsreader` (C05, composition): the real `Client._packet_read` over a real `_WebsocketWrapper` over a
scripted raw socket vs the Lean model Paho.Model.ReaderWs (`packetReadWs` / `drainWs`, driver `wsreader`).

The MQTT byte stream is cut into WebSocket frames at places unrelated to the packet boundaries (several packets in a
frame, one packet over many frames, PING/PONG/CLOSE/TEXT frames in between, masked or not), the frame bytes are cut
into raw recv() chunks at places unrelated to both (would-block anywhere, EOF/reset at the end).

ops:  items <i,i,..>   -> ok
      read             -> <out> sent=<..> | <probe>
      pump             -> <out>;<out>;.. sent=<..> | <probe> drain=ok
      reset            -> ok
out = again | lost | proto | pkt:<cmd>:<hex body>        (what `_packet_handle` was handed; it is hooked, not run)

Monitor (independent of the model): the packets handed over are exactly the reference split of the concatenated
payloads of the data frames (MQTT framing rule; stops at a zero command byte / a fifth length byte), and they — and the
way the run ends — are the same for every raw chunking of the same frame bytes."""
from __future__ import annotations

import random

import wire
from common import hx, unhx
from streams import ws as wsm

AGAIN, LOST, PROTO = -1, 7, 2


# ------------------------------------------------------------------------------------------------ real side
class RealRd:
    def __init__(self):
        import paho.mqtt.client as pc
        self.pc = pc
        self.sock = wsm.StubSock()
        self.w = wsm.new_wrapper(pc, self.sock)
        c = pc.Client(pc.CallbackAPIVersion.VERSION2, client_id="cid", transport="websockets")
        c._sock = self.w
        self.pkts = []

        def handle():
            self.pkts.append((c._in_packet["command"], bytes(c._in_packet["packet"])))
            return pc.MQTTErrorCode.MQTT_ERR_SUCCESS
        c._packet_handle = handle
        self.c = c

    def snap(self):
        ip = self.c._in_packet
        return (ip["command"], ip["have_remaining"], tuple(ip["remaining_count"]), ip["remaining_mult"], ip["remaining_length"],
                bytes(ip["packet"]), ip["to_process"], bytes(self.w._readbuffer), self.w._payload_head)

    def call(self):
        n = len(self.pkts)
        rc = int(self.c._packet_read())
        if len(self.pkts) > n:
            cmd, body = self.pkts[-1]
            return f"pkt:{cmd}:{hx(body)}", 0
        if rc == AGAIN:
            return "again", AGAIN
        if rc == LOST:
            return "lost", LOST
        if rc == PROTO:
            return "proto", PROTO
        return f"rc:{rc}", rc

    def probe(self):
        ip = self.c._in_packet
        return (f"cmd={ip['command']} hr={int(bool(ip['have_remaining']))} tp={ip['to_process']} pl={len(ip['packet'])} "
                f"buf={len(self.w._readbuffer)} ph={self.w._payload_head} conn={int(bool(self.w.connected))} q={len(self.sock.inq)}")


def run_real(case):
    import paho.mqtt.client as pc
    shim = wsm._OsShim()
    saved = pc.os
    pc.os = shim
    try:
        rd = RealRd()
        obs = []
        for line in case:
            t = line.split()
            if t[0] == "items":
                for it in t[1].split(","):
                    rd.sock.feed_item(it)
                obs.append("ok")
            elif t[0] == "read":
                rd.sock.accept = None
                rd.sock.sent = []
                o, _ = rd.call()
                obs.append(f"{o} sent={','.join(hx(x) for x in rd.sock.sent) if rd.sock.sent else '-'} | {rd.probe()}")
            elif t[0] == "pump":
                rd.sock.accept = None
                rd.sock.sent = []
                outs = []
                for _ in range(100000):
                    before = rd.snap()
                    o, rc = rd.call()
                    outs.append(o)
                    if rc in (LOST, PROTO) or rc > 0:
                        break
                    if rc == AGAIN and not rd.sock.inq and rd.snap() == before:
                        break
                obs.append(f"{';'.join(outs)} sent={','.join(hx(x) for x in rd.sock.sent) if rd.sock.sent else '-'} | {rd.probe()} drain=ok")
            elif t[0] == "reset":
                rd = RealRd()
                obs.append("ok")
            else:
                obs.append("bad-op")
        return obs
    finally:
        pc.os = saved


# ------------------------------------------------------------------------------------------------ generator
def rand_packet(rng):
    r = rng.random()
    if r < 0.45:
        n = rng.choice([0, 1, 5, 20, 120, 130]) if rng.random() < 0.93 else rng.choice([200, 300, 16390])
        return wire.enc_publish(4, rng.choice([b"t", b"a/b", b"topic/x"]), wsm.rbytes(rng, n), qos=rng.choice([0, 1, 2]),
                                retain=rng.randrange(2), mid=rng.choice([1, 2, 65535]))
    if r < 0.60:
        return wire.enc_pingresp()
    if r < 0.80:
        return wire.enc_ack(4, rng.choice([wire.PUBACK, wire.PUBREC, wire.PUBREL, wire.PUBCOMP]), rng.choice([1, 2, 300]))
    if r < 0.88:
        return wire.enc_suback(4, 7, [0, 1])
    if r < 0.92:
        return wire.enc_connack(4, sp=rng.randrange(2), rc=0)
    if r < 0.96:
        # body length in the 2-byte remaining-length form
        return bytes([0x30]) + wire.vbi_enc(200) + wsm.rbytes(rng, 200)
    # malformed for MQTT: zero command byte / five length bytes / reserved type with garbage
    return rng.choice([b"\x00\x02\x10\x00", b"\x20\x81\x81\x81\x81\x81\x01", b"\xf0\x00", b"\x00"])


def cut_frames(rng, stream: bytes):
    """data frames (BINARY / CONTINUATION, any FIN) carrying `stream`, boundaries unrelated to the packets;
    control / text frames in between"""
    frames = []
    pos = 0
    mode = rng.choice(["one", "few", "few", "many", "tiny"])
    if len(stream) > 2000 and mode == "tiny":
        mode = "many"
    while pos < len(stream):
        left = len(stream) - pos
        if mode == "one":
            n = left
        elif mode == "few":
            n = rng.randint(1, left)
        elif mode == "many":
            n = rng.randint(1, min(left, 40))
        else:
            n = rng.choice([1, 1, 1, 2])
        n = min(n, left)
        if rng.random() < 0.08:
            frames.append((rng.choice([0, 2]), rng.randrange(2), b"", None, 0))        # empty data frame
        mask = wsm.rbytes(rng, 4) if rng.random() < 0.2 else None
        frames.append((rng.choice([2, 2, 0]), rng.randrange(2), stream[pos:pos + n], mask, 0))
        pos += n
        if rng.random() < 0.15:
            op = rng.choice([9, 9, 10, 1, 8])
            frames.append((op, 1, wsm.rbytes(rng, rng.choice([0, 1, 2, 5, 30])), None, 0))
    if rng.random() < 0.2:
        frames.append((rng.choice([9, 10, 1]), 1, wsm.rbytes(rng, rng.choice([0, 3])), None, 0))
    return frames


class WsReaderStream:
    name = "wsreader"
    props = ["C05"]
    keep_prefix = 0

    def gen(self, rng, tier):
        x = rng.random()
        if x < 0.06:
            # a body that needs more than 100 recv() calls in one _packet_read(): 1-byte frames
            n = rng.choice([101, 120, 250])
            stream = bytes([0x30]) + wire.vbi_enc(n) + wsm.rbytes(rng, n) + wire.enc_pingresp()
            frames = [(2, 1, stream[i:i + 1], None, 0) for i in range(len(stream))]
            if rng.random() < 0.5:
                frames.insert(rng.randrange(len(frames)), (9, 1, b"pp", None, 0))
        else:
            stream = b"".join(rand_packet(rng) for _ in range(rng.randint(1, 6)))
            if rng.random() < 0.1 and len(stream) > 1:
                stream = stream[:rng.randrange(1, len(stream))]           # last packet incomplete
            frames = cut_frames(rng, stream)
        raw = b"".join(wsm.enc(f) for f in frames)
        if rng.random() < 0.05 and len(raw) > 1:
            raw = raw[:rng.randrange(1, len(raw))]                        # last frame incomplete
        items = wsm.chunk_items(rng, raw)
        y = rng.random()
        tail = ["eof"] if y < 0.15 else (["err"] if y < 0.25 else [])
        items = items + tail
        ops = []
        i = 0
        while i < len(items):
            k = rng.randint(1, max(1, min(10, len(items) - i))) if rng.random() < 0.7 else len(items) - i
            ops.append("items " + ",".join(items[i:i + k]))
            i += k
            z = rng.random()
            if z < 0.5:
                ops.append("pump")
            elif z < 0.8:
                ops += ["read"] * rng.randint(1, 4)
        ops.append("pump")
        return ops

    def real(self, case):
        return run_real(case)

    # ------------------------------------------------------------------------- monitor
    @staticmethod
    def outcome(case, obs):
        """(packets handed over, how it ended, replies) of a run, up to the first CONN_LOST / PROTOCOL (where the
        client's loop closes the connection)"""
        pkts, end, sent = [], "idle", []
        for line, o in zip(case, obs):
            if line.split()[0] not in ("read", "pump"):
                continue
            if end != "idle":
                break
            head = o.split(" | ")[0]
            outs, snt = head.rsplit(" sent=", 1)
            for x in outs.split(";"):
                if x.startswith("pkt:"):
                    _, cmd, body = x.split(":")
                    pkts.append((int(cmd), unhx(body)))
                elif x == "lost":
                    end = "lost"
                elif x == "proto":
                    end = "proto"
                elif x.startswith("rc:"):
                    end = x
            if snt != "-":
                sent += [unhx(y) for y in snt.split(",")]
        return pkts, end, sent

    @staticmethod
    def ref_split(stream: bytes):
        """MQTT framing rule on the plain byte stream: (packets, 'proto' | None)"""
        pkts = []
        pos = 0
        while pos < len(stream):
            cmd = stream[pos]
            if cmd == 0:
                return pkts, "proto"
            n, mult, p, k = 0, 1, pos + 1, 0
            while True:
                if p >= len(stream):
                    return pkts, None
                b = stream[p]
                p += 1
                k += 1
                if k > 4:
                    return pkts, "proto"
                n += (b & 127) * mult
                mult *= 128
                if not b & 128:
                    break
            if p + n > len(stream):
                return pkts, None
            pkts.append((cmd, bytes(stream[p:p + n])))
            pos = p + n
        return pkts, None

    def monitor_C05(self, case, obs):
        hits = []
        items = [it for line in case if line.split()[0] == "items" for it in line.split()[1].split(",")]
        raw = b""
        terminal = False
        for it in items:
            if it in ("eof", "err"):
                terminal = True
                break
            if it != ".":
                raw += unhx(it)
        frames, rest = wire.ws_parse(raw, require_client_rules=False)
        _, data, replies = wsm.WsStream._expected_stream(raw)
        exp_pkts, exp_err = self.ref_split(data)
        pkts, end, sent = self.outcome(case, obs)
        for o in obs:
            if "drain=DIFF" in o:
                hits.append((0, "drain", "drainWs disagrees with the call-by-call pump"))
        if pkts != exp_pkts:
            k = next((i for i in range(min(len(pkts), len(exp_pkts))) if pkts[i] != exp_pkts[i]), min(len(pkts), len(exp_pkts)))
            hits.append((0, "ws-packets", f"packets handed to _packet_handle differ from the reference split of the data-frame payloads at #{k}: "
                         f"{len(pkts)} handed over, {len(exp_pkts)} expected"))
        exp_end = "proto" if exp_err == "proto" else ("lost" if terminal else "idle")
        if end != exp_end:
            hits.append((0, "ws-end", f"run ends with {end}, expected {exp_end}"))
        masked_ctl = any(f["masked"] and f["opcode"] in (8, 9) for f in frames)
        if exp_end != "proto" and not rest and not masked_ctl and sent != [r for r, _ in replies]:
            hits.append((0, "ws-replies", f"{len(sent)} replies sent, {len(replies)} owed (or different bytes)"))
        # chunking independence: same raw bytes, same terminal event, other chunkings, one pump
        rng = random.Random(hash("\n".join(case)) & 0xFFFFFFFF)
        tail = [it for it in items if it in ("eof", "err")][:1]
        for mode in ("whole", "bytes", "random"):
            if len(raw) > 3000 and mode == "bytes":
                continue
            alt = ["items " + ",".join(wsm.chunk_items(rng, raw, mode) + tail), "pump"] if (raw or tail) else ["pump"]
            o2 = run_real(alt)
            p2, e2, s2 = self.outcome(alt, o2)
            if (p2, e2) != (pkts, end):
                hits.append((0, "ws-fragmentation", f"outcome depends on the raw chunking ({mode}): {len(p2)} packets / {e2} vs {len(pkts)} packets / {end}"))
                break
            if exp_end != "proto" and not masked_ctl and s2 != sent:
                hits.append((0, "ws-fragmentation", f"replies depend on the raw chunking ({mode})"))
                break
        return hits

    monitors = {"C05": monitor_C05}

    def features(self, case, obs):
        f = set()
        pkts, end, sent = self.outcome(case, obs)
        f.add("end:" + end)
        if pkts:
            f.add("pkts")
        if len(pkts) > 2:
            f.add("pkts>2")
        if sent:
            f.add("reply")
        for o in obs:
            if o.count("again") > 100:
                f.add("again>100")
            if " tp=" in o and " buf=0" not in o and o.endswith("drain=ok"):
                f.add("stuck-midframe")
        return f

    def nontrivial(self, case, obs):
        return bool(self.outcome(case, obs)[0])


STREAMS = [WsReaderStream()]
