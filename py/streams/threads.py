"""C07: real threads (publishers, the loop_start() network thread, a controller) under the controlled scheduler.
Observation / monitors: broker-side byte stream (wire.py), returned mids, completions, in-flight accounting, deadlock
detector, exceptions escaping threads, select() timeouts consumed (stall)."""
from __future__ import annotations

import collections
import os
import random
import subprocess
import sys

import sched as S
import wire
import world as WORLD
from common import hx, model_exe
from harness import PROTO, V2
from world import World, name_locks, pc, raw


class TClient(pc.Client):
    """the real Client; `_last_mid` is observed through a data descriptor (reads and writes become events)"""
    EV = None

    @property
    def _last_mid(self):
        v = self.__dict__["_lm"]
        if TClient.EV is not None:
            TClient.EV("mid", "rd", v)
        return v

    @_last_mid.setter
    def _last_mid(self, v):
        self.__dict__["_lm"] = v
        if TClient.EV is not None:
            TClient.EV("mid", "wr", v)


class LogDeque(collections.deque):
    """`_out_packet` with its operations reported as events"""
    EV = None
    NEXT = [1]
    EPOCH = [0]          # number of clear() calls so far
    LAST = [None]        # the packet popleft() returned last

    def append(self, p):
        p.setdefault("epoch", LogDeque.EPOCH[0])
        if "vid" not in p:
            if (p["command"] & 0xF0) == 0x10:
                p["vid"] = 0
            else:
                p["vid"] = LogDeque.NEXT[0]
                LogDeque.NEXT[0] += 1
        super().append(p)
        if LogDeque.EV is not None:
            LogDeque.EV("wk", "append", p["vid"], p["to_process"])

    def popleft(self):
        try:
            p = super().popleft()
        except IndexError:
            if LogDeque.EV is not None:
                LogDeque.EV("wk", "popleft")
            raise
        LogDeque.LAST[0] = p
        if LogDeque.EV is not None:
            LogDeque.EV("wk", "popleft")
        return p

    def appendleft(self, p):
        super().appendleft(p)
        if LogDeque.EV is not None:
            LogDeque.EV("wk", "appendleft")

    def clear(self):
        LogDeque.EPOCH[0] += 1
        super().clear()
        if LogDeque.EV is not None:
            LogDeque.EV("wk", "clear")

    def __len__(self):
        n = super().__len__()
        if LogDeque.EV is not None:
            f = sys._getframe(1)
            if f.f_code.co_name == "want_write" and f.f_back is not None and f.f_back.f_code.co_name == "_loop":
                LogDeque.EV("wk", "len")
        return n


def replay_model(events):
    """pipe the event lines through the Lean models; return the first mismatch (or None)"""
    if not os.path.exists(model_exe("threads")):
        return "model executable missing"
    lines = [e[0] for e in events]
    p = subprocess.run([model_exe("threads"), "threads"], input="\n".join(lines) + "\n", capture_output=True, text=True, timeout=120)
    if p.returncode != 0:
        return "pm_threads threads failed: " + p.stderr[:200]
    out = p.stdout.split("\n")
    for i, (line, real) in enumerate(events):
        mo = out[i] if i < len(out) else "<missing>"
        if mo != real:
            ctx = " | ".join(l for l, _ in events[max(0, i - 6):i])
            return f"event #{i} `{line}`: real <{real}> model <{mo}> (after: {ctx})"
    return None


class AutoBroker:
    def __init__(self, w, proto, drop=0):
        self.w = w
        self.proto = proto
        self.buf = {}
        self.seen = {}
        self.drop = drop          # close the first connection after this many PUBLISH packets (0 = never)
        self.npub = 0
        self.dropped = False
        self.refused = set()      # connections the broker has closed: nothing is answered on them any more
        self.closed_any = False

    def on_tx(self, sock, data):
        c = sock.conn
        self.buf[c] = self.buf.get(c, b"") + bytes(data)
        try:
            pk, rest = wire.split_packets(self.buf[c])
        except wire.Malformed:
            self.seen.setdefault(c, []).append({"type": "MALFORMED"})
            self.buf[c] = b""
            return
        self.buf[c] = rest
        for p in pk:
            try:
                d = wire.dec_client_packet(p, self.proto)
            except wire.Malformed as e:
                d = {"type": "MALFORMED", "why": str(e)}
            first = c not in self.seen
            self.seen.setdefault(c, []).append(d)
            t = d["type"]
            if c in self.refused:
                continue
            if first and t != "CONNECT":
                # MQTT-3.1.0-1: the first packet must be CONNECT; a conforming broker closes the connection
                self.refused.add(c)
                self.closed_any = True
                sock.feed_eof()
                continue
            if t == "PUBLISH" and self.drop and not self.dropped:
                self.npub += 1
                if self.npub >= self.drop:
                    # the connection dies: the network thread reconnects while the publishers go on
                    self.dropped = True
                    self.closed_any = True
                    self.refused.add(c)
                    sock.feed_eof()
                    continue
            if t == "CONNECT":
                sock.feed(wire.enc_connack(self.proto))
            elif t == "PUBLISH" and d["qos"] == 1:
                sock.feed(wire.enc_ack(self.proto, wire.PUBACK, d["mid"]))
            elif t == "PUBLISH" and d["qos"] == 2:
                sock.feed(wire.enc_ack(self.proto, wire.PUBREC, d["mid"]))
            elif t == "PUBREL":
                sock.feed(wire.enc_ack(self.proto, wire.PUBCOMP, d["mid"]))


def run_scenario(line):
    """thr seed=.. policy=random|pct msgs=q,q;q,q N=1 early=0|1 proto=4 conn=sync|async drop=k part=k
    conn=sync: connect() then loop_start(); conn=async: connect_async() then loop_start() - the network thread makes the
    connection while the publishers are already publishing; drop=k: the broker closes the first connection at the k-th
    PUBLISH (the network thread reconnects under load); part=k: the socket accepts 1..k bytes per send()."""
    import warnings
    warnings.simplefilter("ignore", DeprecationWarning)
    a = {}
    for wd in line.split()[1:]:
        k, _, v = wd.partition("=")
        a[k] = v
    seed = int(a.get("seed", 1))
    rng = random.Random(seed)
    proto = int(a.get("proto", 4))
    w = World()
    w.install()
    pc.threading.Lock = S.SLock
    pc.threading.RLock = S.SRLock
    pc.threading.Thread = S.SThread
    sch = S.Sched(rng, policy=a.get("policy", "random"), switch_p=float(a.get("sw", "0.3")), client_file=pc.__file__,
                  max_steps=int(a.get("steps", 40000)))
    if sch.policy == "pct":
        sch.change_points = {rng.randrange(1, 3000) for _ in range(int(a.get("depth", 3)))}
    if sch.policy == "hold":
        # adversarial for hand-offs: a publisher is parked at a chosen line inside _packet_queue (or publish) until
        # every other thread is blocked - the network thread in select() - and only then goes on
        sch.policy = "random"
        fn = a.get("holdfn", rng.choice(["_packet_queue", "_packet_queue", "_packet_queue", "publish", "_mid_generate"]))
        k = int(a["holdk"]) if "holdk" in a else (0 if rng.random() < 0.25 else rng.randint(8, 14) if fn == "_packet_queue" else rng.randint(1, 12))
        sch.hold = ("pub", fn, k)
        sch.lazy_loop = a.get("lazy", "0") == "1"
    S.SLock.SCHED = sch
    w.sched = sch
    br = AutoBroker(w, proto, int(a.get("drop", "0")))

    def tx_hook(sock, data):
        if sock.conn not in first_sent and LogDeque.LAST[0] is not None:
            first_sent[sock.conn] = LogDeque.LAST[0].get("epoch") == LogDeque.EPOCH[0]
        if TClient.EV is not None and len(data):
            TClient.EV("wk", "send", len(data))
        br.on_tx(sock, data)
    w.tx_hook = tx_hook
    conn_async = a.get("conn", "sync") == "async"
    drop = int(a.get("drop", "0"))
    part = int(a.get("part", "0"))
    LogDeque.NEXT[0] = 1
    LogDeque.EPOCH[0] = 0
    LogDeque.LAST[0] = None
    first_sent = {}       # connection -> was its first packet queued after the reconnect()'s clear()?
    c = TClient(V2, client_id="cid", protocol=PROTO[proto])
    sch.client = c
    name_locks(c)
    c._out_packet = LogDeque()
    c.max_inflight_messages_set(int(a.get("N", 20)))
    c.max_queued_messages_set(int(a.get("M", 0)))      # M > 0: publishes beyond M outstanding messages are refused
    nthreads = 2 + len([p for p in a.get("msgs", "1").split(";")])
    state = {"wire": 0, "sec": {}}       # bytes sent since the last clear; per-thread mid-section state

    def observer(group, t, words):
        if group == "wk":
            if words[0] == "clear":
                state["wire"] = 0
            q = ",".join(f"{p['vid']}:{p['pos']}" for p in collections.deque.__iter__(c._out_packet)) or "-"
            pipe = c._sockpairR.pipe.count if c._sockpairR is not None else 0
            return f"ok q={q} pipe={pipe} wire={state['wire']}"
        if group == "mid" and words[0] == "leave":
            sec = state["sec"].get(t, {})
            return f"ok last={c.__dict__['_lm']} ret={sec.get('rd', 0)}"
        return "ok"
    sch.observer = observer
    sch.events.append(("wk init 1", "ok"))
    sch.events.append((f"lk init {nthreads}", "ok"))
    sch.events.append((f"mid init {c.__dict__['_lm']}", "ok"))

    def EV(group, *words):
        if sch.me() is None:
            return
        t = sch.tid()
        if group == "mid":
            # attribute accesses -> model actions: first read = load, first write = store (inside the section)
            sec = state["sec"].setdefault(t, {})
            if words[0] == "rd":
                sec["rd"] = words[1]
                if not sec.get("loaded"):
                    sec["loaded"] = True
                    sch.ev("mid", "load")
            elif words[0] == "wr":
                if not sec.get("stored"):
                    sec["stored"] = True
                    sch.ev("mid", "store")
            return
        if group == "wk" and words[0] == "send":
            state["wire"] += words[1]
        sch.ev(group, *words)
    TClient.EV = EV
    LogDeque.EV = EV
    WORLD.EVHOOK = lambda *w: EV("wk", *w)
    _orig_ev = sch.ev

    def ev_wrap(*words, **kw):
        # a new mid section starts at `enter`
        if words[0] == "mid" and words[1] == "enter":
            state["sec"][sch.tid()] = {}
        _orig_ev(*words, **kw)
    sch.ev = ev_wrap
    if part:
        _ons = w._new_socket

        def new_socket():
            so = _ons()
            for _ in range(400):
                so.outscript.append(("accept", 1 + rng.randrange(part)))
            return so
        w._new_socket = new_socket
        pc.socket.create_connection = lambda *aa, **kw: new_socket()
    started = {"v": False}
    stopped = {"v": False}
    results = {}          # (pub index, msg index) -> (rc, mid, info, qos)
    sub_mids = []         # packet ids returned by subscribe() calls
    on_pub = []
    c.on_publish = lambda cl, ud, mid, rc, props: on_pub.append(mid)
    progs = [[int(q) for q in p.split(",") if q != ""] for p in a.get("msgs", "1").split(";")]
    early = a.get("early") == "1"
    done_pub = [False] * len(progs)
    errors = []

    def publisher(i):
        def run():
            sch.block_until(lambda: started["v"], "loop_start() returned")
            for j, q in enumerate(progs[i]):
                if stopped["v"]:
                    break        # the network thread has been stopped: later publishes are outside C07
                try:
                    if q == 3:
                        # a subscribe() among the publishes: it draws a packet id from the same generator
                        r_, m_ = c.subscribe(f"s/{i}/{j}", 1)
                        sub_mids.append(m_)
                        continue
                    info = c.publish(f"t/{i}/{j}", bytes([65 + i, 48 + j]) * 3, q)
                    results[(i, j)] = (int(info.rc), info.mid, info, q)
                except Exception as e:  # noqa: BLE001
                    errors.append(f"publish raised {type(e).__name__}: {e}")
            done_pub[i] = True
        return run

    phase2 = {"infos": []}

    def controller():
        try:
            c.reconnect_delay_set(1, 1)
            if conn_async:
                c.connect_async("broker", 1883, 60)
            else:
                c.connect("broker", 1883, 60)
            c.loop_start()
            started["v"] = True
            if early:
                for _ in range(rng.randint(0, 400)):
                    sch.yield_point("ctl-wait")
            else:
                def all_done():
                    # accepted = SUCCESS or NO_CONN (stored, sent once the connection is up)
                    # (a QoS 0 message queued on a connection that dies is lost: not waited for when the broker drops)
                    # (... nor when it closes a connection whose first packet was not CONNECT - known finding F13t -: a QoS 0
                    # packet appended while reconnect() empties the queue can be dropped without being marked as lost)
                    return all(done_pub) and all((r[2]._published if r[0] in (0, 4) and (r[3] > 0 or (r[0] == 0 and not drop and not br.closed_any)) else True)
                                                 for r in results.values())
                sch.block_until(all_done, "all publishes completed")
            c.disconnect()
            c.loop_stop()
            stopped["v"] = True
            if a.get("cycle") == "1":
                # a second loop_start() session on the same client: whatever the first one left behind (an unread wake-up
                # byte, flags, a half-stopped thread) must not impair it - packets queued from this thread while the new
                # network thread idles in select() are written without waiting for its timeout
                sch.block_until(lambda: all(done_pub), "publishers of the first session finished")
                phase2["t0"] = sch.timeouts
                phase2["ev0"] = len(sch.events)     # the transition systems are replayed over the first session only
                c.connect("broker", 1883, 60)
                c.loop_start()
                sch.block_until(lambda: c.is_connected(), "second session connected")
                phase2["t1"] = sch.timeouts
                for j, q in enumerate([0, 1, 0]):
                    info = c.publish(f"t/c/{j}", b"zz" + bytes([48 + j]), q)
                    phase2["infos"].append(info)
                    sch.block_until(lambda info=info: info._published or info.rc not in (0,), f"second-session message {j} completed")
                phase2["t2"] = sch.timeouts
                c.disconnect()
                c.loop_stop()
        except S.Deadlock:
            raise
        except Exception as e:  # noqa: BLE001
            errors.append(f"controller raised {type(e).__name__}: {e}")
    sch.spawn("ctl", controller)
    for i in range(len(progs)):
        sch.spawn(f"pub{i}", publisher(i))
    import gc
    gc.collect()
    gc.disable()
    try:
        failed = sch.run("ctl")
    finally:
        gc.enable()
    S.SLock.SCHED = None
    w.sched = None
    TClient.EV = None
    LogDeque.EV = None
    WORLD.EVHOOK = None
    events = list(sch.events)[:phase2.get("ev0")]
    # threads that wrote to the socket themselves after the network thread had exited (direct loop_write())
    post_exit_writers = set()
    _seen_exit = False
    for e in events:
        if e[0] == "wk 0 exit":
            _seen_exit = True
        elif _seen_exit and e[0].startswith("wk ") and e[0].split()[2] == "send":
            post_exit_writers.add(e[0].split()[1])
    # the hand-off model covers the time during which the loop_start() thread is the writer: once it has exited, a
    # publish() still in progress writes directly (`_thread is None`), which is not replayed
    for i, e in enumerate(events):
        if e[0] == "wk 0 exit":
            events = events[:i + 1] + [x for x in events[i + 1:] if not x[0].startswith("wk ")]
            break
    mismatch = replay_model(events) if failed is None else None
    # ---- canonical observation
    mids = [r[1] for r in results.values()] + [m for m in sub_mids if m is not None]
    obs = {
        "failed": (type(failed).__name__ + ":" + str(failed)[:120]) if failed else "-",
        "errors": errors + [f"{n} died: {type(st.exc).__name__}: {st.exc}" for n, st in sch.t.items() if st.exc is not None],
        "timeouts": sch.timeouts,
        "steps": sch.steps,
        "mids": mids,
        "rcs": {f"{k[0]}.{k[1]}": v[0] for k, v in results.items()},
        "published": {f"{k[0]}.{k[1]}": (bool(v[2]._published) if v[0] in (0, 4) and (v[3] > 0 or v[0] == 0) else None) for k, v in results.items()},
        "on_publish": list(on_pub),
        "inflight": c._inflight_messages,
        "out_left": len(c._out_messages),
        "wire": {cn: [(d["type"], d.get("mid"), hx(d.get("topic", b"")) if d["type"] == "PUBLISH" else None, d.get("qos")) for d in ds]
                 for cn, ds in br.seen.items()},
        "qos": {f"{k[0]}.{k[1]}": v[3] for k, v in results.items()},
        "early": early,
        "dropped": br.closed_any,
        "first_fresh": {str(k): v for k, v in first_sent.items()},
        "clock_advanced": w.clock.ms - 1_000_000,
        "model_mismatch": mismatch,
        "post_exit_writers": len(post_exit_writers),
        "sched_races": sch.races[:3],
        "nevents": len(events),
        "cycle": ({"timeouts": phase2.get("t2", phase2.get("t1", 0)) - phase2.get("t1", 0),
                   "connect_timeouts": phase2.get("t1", 0) - phase2.get("t0", 0),
                   "published": [bool(i._published) for i in phase2["infos"]], "rcs": [int(i.rc) for i in phase2["infos"]],
                   "reached": "t2" in phase2} if a.get("cycle") == "1" else None),
    }
    return obs


def check(obs, line):
    """the property, evaluated on one scheduled execution"""
    hits = []
    if obs["failed"] != "-":
        hits.append(("deadlock" if "Deadlock" in obs["failed"] else "step-limit", obs["failed"]))
    for e in obs["errors"]:
        hits.append(("internal-error", e))
    mids = obs["mids"]
    if len(set(mids)) != len(mids):
        hits.append(("mids-not-distinct", f"returned mids {mids}"))
    for cn, pk in obs["wire"].items():
        if any(p[0] == "MALFORMED" for p in pk):
            if obs.get("post_exit_writers", 0) >= 2:
                hits.append(("wire-corrupt-after-loop-exit", f"connection {cn}: after the network thread exited with the socket still open, "
                             f"{obs['post_exit_writers']} application threads wrote their packets directly and concurrently; the bytes interleaved: {pk}"))
            else:
                hits.append(("wire-corrupt", f"connection {cn}: a packet on the wire is not well-formed: {pk}"))
        if pk and pk[0][0] != "CONNECT":
            if obs.get("first_fresh", {}).get(str(cn), True):
                # queued after reconnect() cleared the queue, ahead of CONNECT: another thread got in between
                hits.append(("connect-not-first", f"connection {cn} starts with {pk[0][0]} (queued by another thread between reconnect()'s clear() and its CONNECT)"))
            else:
                hits.append(("stale-packet-first", f"connection {cn} starts with {pk[0][0]}, a packet queued before the connection was made"))
        pubs = [p[2] for p in pk if p[0] == "PUBLISH"]
        if len(set(pubs)) != len(pubs):
            hits.append(("published-twice", f"connection {cn}: a PUBLISH appears twice: {pubs}"))
    onp = obs["on_publish"]
    if len(set(onp)) != len(onp):
        hits.append(("completed-twice", f"on_publish mids {onp}"))
    cy = obs.get("cycle")
    if cy and cy["reached"] and obs["failed"] == "-" and not obs["errors"]:
        if cy["timeouts"]:
            hits.append(("stall", f"second loop_start() session on the same client: {cy['timeouts']} select() timeouts had to be taken before "
                         f"three messages published from an application thread were written (the network thread was not woken)"))
        if not all(cy["published"]) and all(r == 0 for r in cy["rcs"]):
            hits.append(("not-completed", f"second loop_start() session: messages published {cy['published']}"))
    if not obs["early"] and obs["failed"] == "-" and not obs["errors"]:
        # drain scenario: everything accepted must be on the wire exactly once and completed; no stall
        allpubs = [p[2] for pk in obs["wire"].values() for p in pk if p[0] == "PUBLISH"]
        for k, rc in obs["rcs"].items():
            i, j = k.split(".")
            topic = hx(f"t/{i}/{j}".encode())
            accepted = rc == 0 or (rc == 4 and obs["qos"][k] > 0)
            n = allpubs.count(topic)
            if obs.get("dropped"):
                # connections were lost: a QoS>0 message may be retransmitted on each later connection (at most
                # once per connection: checked above); a QoS 0 message queued on the dying connection may be lost
                bad = accepted and (n < 1 or n > len(obs["wire"])) if obs["qos"][k] > 0 else n > 1
                if bad:
                    hits.append(("not-exactly-once", f"message {k} (rc {rc}, qos {obs['qos'][k]}) appears {n} times on the wire across a reconnect"))
                if accepted and obs["qos"][k] > 0 and obs["published"][k] is not True:
                    hits.append(("not-completed", f"message {k} never completed"))
                # (a QoS 0 message still queued when the controller disconnects - it does not wait for QoS 0 messages in
                # these runs, the connection having been lost once - is simply not sent: "at most once")
                continue
            if accepted and n != 1:
                hits.append(("not-exactly-once", f"message {k} (rc {rc}) appears {n} times on the wire"))
            if accepted and obs["published"][k] is not True:
                hits.append(("not-completed", f"message {k} never completed"))
        if obs["inflight"] != 0 or obs["out_left"] != 0:
            hits.append(("inflight-not-zero", f"_inflight_messages={obs['inflight']} with {obs['out_left']} stored messages at the end"))
        if obs["timeouts"] != 0:
            hits.append(("stall", f"{obs['timeouts']} select() timeouts had to be taken before the run completed (a wake-up was lost)"))
    return hits


class ThreadStream:
    name = "threads"
    props = ["C07", "C14"]
    has_model = False

    def gen(self, rng, tier):
        case = []
        for _ in range(2 if tier == "quick" else 6):
            if rng.random() < 0.2:
                # hand-off probe: one publisher is parked at the k-th line of _packet_queue until everything else is
                # blocked, and the network thread only runs when no unparked publisher can (it comes round late): the
                # window between any two lines of the queueing code is held open across a full pass of the network loop
                case.append(f"thr seed={rng.randrange(10**6)} policy=hold holdfn=_packet_queue holdk={rng.randint(1, 14)} lazy=1 sw=0.5 "
                            f"msgs={rng.choice(['0,0;0,0', '0;0;0', '0,1;0,0', '1;0,0', '0,0'])} N={rng.choice([1, 20])} early=0 "
                            f"proto={rng.choice([4, 5])} conn=sync drop=0 part=0")
                continue
            npub = rng.choice([1, 2, 2, 3])
            msgs = ";".join(",".join(str(rng.choice([0, 1, 2])) for _ in range(rng.randint(1, 3))) for _ in range(npub))
            mq = ""
            if rng.random() < 0.25:
                # a bounded outgoing queue (publishes beyond M outstanding messages are refused) and subscribe() calls among the
                # publishes: every id handed out - to accepted, refused and subscribe calls alike - is distinct
                msgs = ";".join(",".join(str(rng.choice([1, 2, 1, 2, 3])) for _ in range(rng.randint(2, 3))) for _ in range(max(2, npub)))
                mq = f" M={rng.choice([1, 1, 2])}"
            if rng.random() < 0.2:
                # two loop_start() sessions on one client; the first one is ended while publishers are still queueing
                case.append(f"thr seed={rng.randrange(10**6)} policy={rng.choice(['random', 'random', 'hold'])} sw={rng.choice(['0.1', '0.3', '0.6'])} "
                            f"msgs={rng.choice(['0,0,0', '0,0;0,0', '0,1,0;0', '0;0;0,0'])} N=20 early={int(rng.random() < 0.8)} proto={rng.choice([4, 5])} "
                            f"conn=sync drop=0 part=0 cycle=1")
                continue
            case.append(f"thr seed={rng.randrange(10**6)} policy={rng.choice(['random', 'random', 'pct', 'hold', 'hold'])} sw={rng.choice(['0.1', '0.3', '0.6'])} "
                        f"msgs={msgs} N={rng.choice([1, 2, 20])} early={int(rng.random() < 0.3)} proto={rng.choice([4, 5])} "
                        f"conn={rng.choice(['sync', 'async'])} drop={rng.choice([0, 0, 1, 2, 3])} part={rng.choice([0, 0, 3, 9])}" + mq)
        return case

    def real(self, case):
        import json
        return [json.dumps(run_scenario(line), sort_keys=True) for line in case]

    def monitor_C07(self, case, obs):
        import json
        hits = []
        for i, (line, o) in enumerate(zip(case, obs)):
            for clause, detail in check(json.loads(o), line):
                hits.append((i, clause, f"{line}: {detail}"))
        return hits

    def monitor_C14(self, case, obs):
        """packet ids under concurrency: every id returned to a caller is in 1..65535 and no two callers get the same"""
        import json
        hits = []
        for i, (line, o) in enumerate(zip(case, obs)):
            d = json.loads(o)
            mids = d["mids"]
            if len(set(mids)) != len(mids):
                hits.append((i, "mids-not-distinct", f"{line}: returned mids {mids}"))
            if any(not 1 <= m <= 65535 for m in mids):
                hits.append((i, "mid-range", f"{line}: returned mids {mids}"))
        return hits

    monitors = {"C07": monitor_C07, "C14": monitor_C14}

    def correspondence(self, case, obs):
        import json
        out = []
        for line, o in zip(case, obs):
            d = json.loads(o)
            if d.get("model_mismatch"):
                out.append(f"{line}: {d['model_mismatch']}")
        return out

    def features(self, case, obs):
        import json
        f = set()
        for line, o in zip(case, obs):
            d = json.loads(o)
            f.add("early" if d["early"] else "drain")
            f.add("conn=" + ("async" if "conn=async" in line else "sync"))
            if d.get("dropped"):
                f.add("reconnect-under-load")
            if d.get("nevents", 0) > 0:
                f.add("model-replayed")
            f.add("steps>1000" if d["steps"] > 1000 else "steps<=1000")
            if any(v == 4 for v in d["rcs"].values()):
                f.add("publish-before-connect")
        return f

    def nontrivial(self, case, obs):
        return True


STREAMS = [ThreadStream()]
